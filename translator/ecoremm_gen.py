"""Ecore self-description (pyecore/ecore.py, module level) -> coq/Gen/EcoreMM.v

Recognised, closed list of shapes (everything else is emitted into
`ecore_unrecognised`, which makes Proofs/EcoreProofs.v fail to compile: fail closed):

  class C(B1, B2, metaclass=...):                      -> ecore_classes   (C, [B1; B2])  (EObject descendants only)
  X = EDataType('X', ...)                              -> ecore_datatypes
  C.pyattr = EAttribute('name', T, kw...)              -> ecore_features  (kind KAttr)
  C.pyattr = EReference('name', T, kw...)              -> ecore_features  (kind KRef)
      kw in {upper, lower, containment, eOpposite=C'.pyattr', derived, transient, volatile, unsettable,
             changeable, ordered, unique, iD, default_value=<constant>}
  <expr>._isset[C.pyattr] = None                       -> ecore_isset_specials
  @property / @x.setter definitions in class bodies    -> how the Python attribute called like the feature reaches
                                                          the feature slot (f_access): ADirect, AViaDescriptor,
                                                          AMarksIsset, ANoSetter, ABypassed

A later assignment to the same (class, pyattr) replaces the earlier one, as in Python.
"""
import ast
import os

HERE = os.path.dirname(os.path.abspath(__file__))
VERIF = os.path.dirname(HERE)
REPO = os.environ.get('VERIF_REPO', '/repo')
SRC = os.path.join(REPO, 'pyecore', 'ecore.py')
OUT = os.path.join(VERIF, 'coq', 'Gen', 'EcoreMM.v')

BOOL_KW = ('containment', 'derived', 'transient', 'volatile', 'unsettable', 'changeable', 'ordered', 'unique', 'iD')
BOOL_DEFAULT = {'containment': False, 'derived': False, 'transient': False, 'volatile': False, 'unsettable': False,
                'changeable': True, 'ordered': True, 'unique': True, 'iD': False}


def q(s):
    return '"' + s.replace('"', '""') + '"'


def coq_bool(b):
    return 'true' if b else 'false'


def coq_z(n):
    return f'({n})' if n < 0 else str(n)


def int_const(node):
    if isinstance(node, ast.Constant) and isinstance(node.value, int) and not isinstance(node.value, bool):
        return node.value
    if isinstance(node, ast.UnaryOp) and isinstance(node.op, ast.USub) and isinstance(node.operand, ast.Constant) \
            and isinstance(node.operand.value, int):
        return -node.operand.value
    raise ValueError('not an integer literal')


def bool_const(node):
    if isinstance(node, ast.Constant) and isinstance(node.value, bool):
        return node.value
    raise ValueError('not a boolean literal')


def cls_attr(node):
    """C.attr -> (C, attr)"""
    if isinstance(node, ast.Attribute) and isinstance(node.value, ast.Name):
        return node.value.id, node.attr
    raise ValueError('not of the form Class.attribute')


def class_info(tree):
    """classes: name -> bases ; props: (class, prop) -> {'setter': bool, 'assigns': set, 'marks_isset': bool}"""
    classes, props = {}, {}
    order = []
    for node in tree.body:
        if not isinstance(node, ast.ClassDef):
            continue
        bases = [b.id for b in node.bases if isinstance(b, ast.Name)]
        classes[node.name] = bases
        order.append(node.name)
        for item in node.body:
            if not isinstance(item, ast.FunctionDef):
                continue
            for dec in item.decorator_list:
                if isinstance(dec, ast.Name) and dec.id == 'property':
                    props.setdefault((node.name, item.name), {'setter': False, 'assigns': set(), 'marks_isset': False})
                elif isinstance(dec, ast.Attribute) and dec.attr == 'setter' and isinstance(dec.value, ast.Name):
                    p = props.setdefault((node.name, dec.value.id),
                                         {'setter': False, 'assigns': set(), 'marks_isset': False})
                    p['setter'] = True
                    selfname = item.args.args[0].arg if item.args.args else 'self'
                    for sub in ast.walk(item):
                        if isinstance(sub, (ast.Assign, ast.AugAssign, ast.AnnAssign)):
                            targets = sub.targets if isinstance(sub, ast.Assign) else [sub.target]
                            for t in targets:
                                if isinstance(t, ast.Attribute) and isinstance(t.value, ast.Name) \
                                        and t.value.id == selfname:
                                    p['assigns'].add(t.attr)
                                if isinstance(t, ast.Subscript) and isinstance(t.value, ast.Attribute) \
                                        and t.value.attr == '_isset' and isinstance(t.value.value, ast.Name) \
                                        and t.value.value.id == selfname:
                                    p['marks_isset'] = True
    return classes, props, order


def descends_from_eobject(classes, c, seen=None):
    seen = seen or set()
    if c == 'EObject':
        return True
    if c in seen or c not in classes:
        return False
    seen.add(c)
    return any(descends_from_eobject(classes, b, seen) for b in classes[c])


def subclasses_of(classes, c):
    return [d for d in classes if d != c and _is_sub(classes, d, c, set())]


def _is_sub(classes, d, c, seen):
    if d in seen or d not in classes:
        return False
    seen.add(d)
    return any(b == c or _is_sub(classes, b, c, seen) for b in classes[d])


def translate(src_text):
    tree = ast.parse(src_text)
    classes, props, order = class_info(tree)
    unrec = []
    datatypes = []
    feats = {}          # (cls, pyattr) -> dict ; insertion order = first assignment (Python dict semantics)
    specials = []
    for node in tree.body:
        if not isinstance(node, ast.Assign):
            continue
        text = ast.unparse(node)
        if len(node.targets) != 1:
            # chained assignment at module level: not a shape of the self-description
            if any(isinstance(t, (ast.Attribute, ast.Subscript)) for t in node.targets):
                unrec.append(text)
            continue
        tgt, val = node.targets[0], node.value
        if isinstance(tgt, ast.Name):
            if isinstance(val, ast.Call) and isinstance(val.func, ast.Name) and val.func.id == 'EDataType':
                if val.args and isinstance(val.args[0], ast.Constant) and val.args[0].value == tgt.id:
                    datatypes.append(tgt.id)
                else:
                    unrec.append(text)
            continue
        if isinstance(tgt, ast.Subscript):
            # <expr>._isset[C.attr] = None
            try:
                if not (isinstance(tgt.value, ast.Attribute) and tgt.value.attr == '_isset'):
                    raise ValueError
                if not (isinstance(val, ast.Constant) and val.value is None):
                    raise ValueError
                holder = ast.unparse(tgt.value.value)
                c, a = cls_attr(tgt.slice)
                specials.append((holder, c, a))
            except ValueError:
                unrec.append(text)
            continue
        if not isinstance(tgt, ast.Attribute):
            continue
        # C.pyattr = EAttribute/EReference(...)
        try:
            owner, pyattr = cls_attr(tgt)
            if owner not in classes:
                raise ValueError('owner is not a class of the module')
            if not (isinstance(val, ast.Call) and isinstance(val.func, ast.Name)
                    and val.func.id in ('EAttribute', 'EReference')):
                raise ValueError('value is not an EAttribute/EReference call')
            kind = 'KAttr' if val.func.id == 'EAttribute' else 'KRef'
            if len(val.args) != 2 or not (isinstance(val.args[0], ast.Constant) and isinstance(val.args[0].value, str)) \
                    or not isinstance(val.args[1], ast.Name):
                raise ValueError('positional arguments are not (name literal, Type)')
            d = {'owner': owner, 'pyattr': pyattr, 'name': val.args[0].value, 'kind': kind, 'type': val.args[1].id,
                 'lower': 0, 'upper': 1, 'opposite': None, 'default': None}
            d.update(BOOL_DEFAULT)
            for kw in val.keywords:
                if kw.arg in ('upper', 'lower'):
                    d[kw.arg] = int_const(kw.value)
                elif kw.arg in BOOL_KW:
                    if kw.arg == 'containment' and kind != 'KRef' or kw.arg == 'iD' and kind != 'KAttr':
                        raise ValueError(f'{kw.arg} on the wrong kind of feature')
                    d[kw.arg] = bool_const(kw.value)
                elif kw.arg == 'eOpposite' and kind == 'KRef':
                    d['opposite'] = cls_attr(kw.value)
                elif kw.arg == 'default_value' and kind == 'KAttr' and isinstance(kw.value, ast.Constant):
                    d['default'] = repr(kw.value.value)
                else:
                    raise ValueError(f'keyword {kw.arg} not in the closed list')
            if (owner, pyattr) in feats:
                feats[(owner, pyattr)].update(d)     # later assignment replaces the earlier one
            else:
                feats[(owner, pyattr)] = d
        except ValueError:
            unrec.append(text)
    # how does the Python attribute called like the feature reach the feature slot?
    shadows = []
    for (owner, pyattr), d in feats.items():
        n = d['name']
        p = props.get((owner, n))
        if pyattr == n:
            d['access'] = 'ADirect'     # the descriptor replaces whatever the class body defined under that name
        elif p is None:
            d['access'] = 'ABypassed'   # no Python attribute of that name at all
        elif not p['setter']:
            d['access'] = 'ANoSetter'
        elif pyattr in p['assigns']:
            d['access'] = 'AViaDescriptor'
        elif p['marks_isset']:
            d['access'] = 'AMarksIsset'
        else:
            d['access'] = 'ABypassed'
        for sub in subclasses_of(classes, owner):
            if (sub, n) in props:
                shadows.append((sub, n))
    eclasses = [c for c in order if descends_from_eobject(classes, c)]
    # every owner / reference type / opposite must be known
    for d in feats.values():
        if d['kind'] == 'KRef' and d['type'] not in eclasses:
            unrec.append(f'{d["owner"]}.{d["pyattr"]}: reference type {d["type"]} is not a class')
        if d['kind'] == 'KAttr' and d['type'] not in datatypes:
            unrec.append(f'{d["owner"]}.{d["pyattr"]}: attribute type {d["type"]} is not a declared EDataType')
        if d['opposite'] and d['opposite'] not in feats:
            unrec.append(f'{d["owner"]}.{d["pyattr"]}: eOpposite {d["opposite"]} is not declared before use')
    return {'classes': [(c, [b for b in classes[c] if descends_from_eobject(classes, b)]) for c in eclasses],
            'datatypes': datatypes, 'features': list(feats.values()), 'specials': specials,
            'shadows': shadows, 'unrecognised': unrec}


def render(t):
    L = []
    L.append('(* GENERATED by translator/ecoremm_gen.py from pyecore/ecore.py (module-level self-description).')
    L.append('   Never edit by hand: it is rewritten on every check. *)')
    L.append('From Coq Require Import String List Bool ZArith.')
    L.append('From PyecoreV Require Import Model.EcoreTable.')
    L.append('Import ListNotations.')
    L.append('Open Scope string_scope.')
    L.append('Open Scope Z_scope.')
    L.append('')
    L.append('Definition ecore_classes : list (string * list string) := [')
    L.append(';\n'.join(f'  ({q(c)}, [{"; ".join(q(b) for b in bs)}])' for c, bs in t['classes']))
    L.append('].')
    L.append('')
    L.append('Definition ecore_datatypes : list string := [')
    L.append(';\n'.join(f'  {q(x)}' for x in t['datatypes']))
    L.append('].')
    L.append('')
    L.append('(* owner pyattr name kind type lower upper ordered unique containment iD derived transient volatile')
    L.append('   unsettable changeable opposite default access *)')
    L.append('Definition ecore_features : list mfeature := [')
    rows = []
    for d in t['features']:
        opp = f'(Some ({q(d["opposite"][0])}, {q(d["opposite"][1])}))' if d['opposite'] else 'None'
        dft = f'(Some {q(d["default"])})' if d['default'] is not None else 'None'
        rows.append('  mkF ' + ' '.join([
            q(d['owner']), q(d['pyattr']), q(d['name']), d['kind'], q(d['type']),
            coq_z(d['lower']), coq_z(d['upper']),
            coq_bool(d['ordered']), coq_bool(d['unique']), coq_bool(d['containment']), coq_bool(d['iD']),
            coq_bool(d['derived']), coq_bool(d['transient']), coq_bool(d['volatile']), coq_bool(d['unsettable']),
            coq_bool(d['changeable']), opp, dft, d['access']]))
    L.append(';\n'.join(rows))
    L.append('].')
    L.append('')
    L.append('(* `<holder>._isset[C.attr] = None` special cases of the bootstrap *)')
    L.append('Definition ecore_isset_specials : list (string * (string * string)) := [')
    L.append(';\n'.join(f'  ({q(h)}, ({q(c)}, {q(a)}))' for h, c, a in t['specials']))
    L.append('].')
    L.append('')
    L.append('(* Python properties of a subclass called like an inherited feature *)')
    L.append('Definition ecore_subclass_shadows : list (string * string) := [')
    L.append(';\n'.join(f'  ({q(c)}, {q(n)})' for c, n in t['shadows']))
    L.append('].')
    L.append('')
    L.append('(* source statements the translator refused *)')
    L.append('Definition ecore_unrecognised : list string := [')
    L.append(';\n'.join(f'  {q(" ".join(u.split()))}' for u in t['unrecognised']))
    L.append('].')
    L.append('')
    return '\n'.join(L)


def write_if_changed(path, text):
    old = open(path).read() if os.path.exists(path) else None
    if old != text:
        os.makedirs(os.path.dirname(path), exist_ok=True)
        with open(path, 'w') as f:
            f.write(text)


def main():
    t = translate(open(SRC).read())
    if len(t['features']) < 10 or not t['classes']:
        # nothing recognisable: refuse outright rather than emit an empty table
        t['unrecognised'].append('self-description not found in ' + SRC)
    write_if_changed(OUT, render(t))
    return None


if __name__ == '__main__':
    main()
    print(open(OUT).read())
