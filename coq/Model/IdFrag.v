(* What pyecore/resources/{resource,xmi,json}.py do with IDS for ONE resource: the uuid mode (xmi:id / "uuid"
   key, obj._internal_id, Resource.uuid_dict) and the id-attribute mode (an EAttribute with iD=True whose text is
   registered in the same uuid_dict by the loaders).  Executable state machine, no proofs (Proofs/IdFragProofs.v).
   Objects are numbers; ids (uuid strings, id texts) are integers; the uuid4() draws are a counter `next_fresh`
   (the assumption "uuid4 never repeats and never equals an id present in a loaded document" is the premise
   fresh_ok / load_ok of the theorems, not built into the model).
   Positional fragments are abstract (constructor FPos): their resolution is Model/Fragment.v's subject.
   Two switches (record variant): the loader sets obj._internal_id (HEAD, XMI always did, JSON since fix 3401449)
   or not (the JSON loader before that fix); _assign_uuid registers the drawn id in the uuid_dict of the object's
   resource (HEAD since fix 330f52e) or not (before it). *)
From Coq Require Import ZArith List Bool.
Import ListNotations.
Local Open Scope Z_scope.

Definition obj := nat.

Record variant := mkVariant {
  loader_sets_internal : bool;   (* xmi.py:111,276  json.py:211  `obj._internal_id = value` *)
  assign_registers : bool        (* resource.py _assign_uuid: `obj.eResource.uuid_dict[uuid] = obj` (fix 330f52e) *)
}.
Definition head := mkVariant true true.              (* the code as it is *)
Definition before_330f52e := mkVariant true false.   (* _assign_uuid did not touch uuid_dict *)
Definition old_json := mkVariant false false.        (* JSON loader before 3401449 (and before 330f52e) *)

Record state := mkState {
  members : list obj;            (* the objects under the roots of the resource (tree order) *)
  internal : obj -> option Z;    (* obj._internal_id; None also stands for '' (both falsy in _assign_uuid) *)
  dict : list (Z * obj);         (* Resource.uuid_dict as an association list, latest binding first *)
  idattr : obj -> option Z;      (* text of the id attribute when _id_fragment (resource.py:600-617) accepts it *)
  use_uuid : bool;               (* Resource.use_uuid *)
  next_fresh : Z                 (* the next uuid4() draw *)
}.

Definition init (n0 : Z) : state := mkState [] (fun _ => None) [] (fun _ => None) false n0.

Definition upd {A} (f : obj -> A) (o : obj) (v : A) : obj -> A :=
  fun x => if Nat.eqb x o then v else f x.

Fixpoint lookup (z : Z) (d : list (Z * obj)) : option obj :=
  match d with
  | [] => None
  | (k, o) :: r => if Z.eqb k z then Some o else lookup z r
  end.

Fixpoint mem (o : obj) (l : list obj) : bool :=
  match l with [] => false | x :: r => Nat.eqb x o || mem o r end.

Fixpoint remove_obj (o : obj) (l : list obj) : list obj :=     (* list.remove: the first occurrence *)
  match l with [] => [] | x :: r => if Nat.eqb x o then r else x :: remove_obj o r end.

(* resource.py:625-631  _assign_uuid(obj): `if not obj._internal_id: obj._internal_id = str(uuid4())` *)
Definition assign (v : variant) (s : state) (o : obj) : state :=
  match internal s o with
  | Some _ => s
  | None =>
    let i := next_fresh s in
    mkState (members s) (upd (internal s) o (Some i))
            (if assign_registers v then (i, o) :: dict s else dict s)
            (idattr s) (use_uuid s) (i + 1)
  end.

Inductive frag := FId (z : Z) | FPos (o : obj).

(* resource.py:592-598 (same resource) and 565-573 (target in a uuid resource / with a usable id attribute):
   `if use_uuid: _assign_uuid(obj); return obj._internal_id` / `_id_fragment(obj) or obj.eURIFragment()`;
   json.py:74-82 _uri_fragment has the same first branch.  Returns the state too: asking may draw an id. *)
Definition fragment_step (v : variant) (s : state) (o : obj) : state * frag :=
  if use_uuid s then
    let s' := assign v s o in
    (s', match internal s' o with Some i => FId i | None => FPos o end)
  else
    (s, match idattr s o with Some t => FId t | None => FPos o end).

(* the fragment a reference to o is written with, in the state as it is (no draw): what get_href would return
   without side effect; equals snd (fragment_step ..) whenever o has an id already *)
Definition fragment_of (s : state) (o : obj) : frag :=
  if use_uuid s then match internal s o with Some i => FId i | None => FPos o end
  else match idattr s o with Some t => FId t | None => FPos o end.

(* resource.py:378-396 Resource.resolve on a bare id text, then :486-492 _navigate_from (is_fragment_uuid ->
   start_obj.eResource.uuid_dict[path]); a KeyError/IndexError is None here.  In uuid mode the dictionary is
   consulted before `self.contents[root_number]`, otherwise only after it (an empty resource raises).
   FPos: the positional half (Model/Fragment.v): a member is found, nothing else. *)
Definition resolve (s : state) (f : frag) : option obj :=
  match f with
  | FId z =>
    match lookup z (dict s) with
    | Some o => if use_uuid s then Some o else match members s with [] => None | _ => Some o end
    | None => None
    end
  | FPos o => if mem o (members s) then Some o else None
  end.

(* ---- documents: one entry per object, in document order: (object, xmi:id / "uuid", usable id-attribute text) *)
Definition entry := (obj * option Z * option Z)%type.
Definition doc := list entry.

(* XMIResource._go_across / JsonResource.to_dict for every object of the tree: xmi.py:465-468, json.py:329-331
   `if use_uuid: _assign_uuid(obj); node[xmi:id] = obj._internal_id`; the id attribute is written with the other
   attributes.  (A reference written before its target's node draws the target's id earlier: only the order of the
   draws changes, every member has an id after the save either way.) *)
Fixpoint save_members (v : variant) (s : state) (l : list obj) : state * doc :=
  match l with
  | [] => (s, [])
  | o :: r =>
    let s1 := if use_uuid s then assign v s o else s in
    let e := (o, if use_uuid s then internal s1 o else None, idattr s1 o) in
    let (s2, d) := save_members v s1 r in
    (s2, e :: d)
  end.
Definition save (v : variant) (s : state) : state * doc := save_members v s (members s).

(* xmi.py:108-112 (root) and :273-277 (_decode_attribute): `owner._internal_id = value; uuid_dict[value] = owner`;
   json.py:207-211.  Id attribute: xmi.py:127-128, :265-266, json.py:222-229 `uuid_dict[text] = obj`.
   The object joins the tree (contents.append / containment). *)
Definition load_entry (v : variant) (s : state) (e : entry) : state :=
  let '(o, u, t) := e in
  let s1 := match u with
            | Some i => mkState (members s)
                                (if loader_sets_internal v then upd (internal s) o (Some i) else internal s)
                                ((i, o) :: dict s) (idattr s) (use_uuid s) (next_fresh s)
            | None => s
            end in
  let s2 := match t with
            | Some x => mkState (members s1) (internal s1) ((x, o) :: dict s1) (upd (idattr s1) o (Some x))
                                (use_uuid s1) (next_fresh s1)
            | None => s1
            end in
  mkState (members s2 ++ [o]) (internal s2) (dict s2) (idattr s2) (use_uuid s2) (next_fresh s2).

(* xmi.py:105 `self.use_uuid = xmlroot.get(xmiid) is not None`, json.py:204 `self.use_uuid = 'uuid' in d`
   (documents written by save are homogeneous: the first entry decides) *)
Definition load (v : variant) (s : state) (d : doc) : state :=
  let s0 := match d with
            | (_, u, _) :: _ => mkState (members s) (internal s) (dict s) (idattr s)
                                        (match u with Some _ => true | None => false end) (next_fresh s)
            | [] => s
            end in
  fold_left (load_entry v) d s0.

Inductive op :=
| Save                                   (* resource.save() *)
| Load (d : doc)                         (* resource.load() of that document (objects of d are new) *)
| Reload                                 (* save, then load the written document in a fresh resource *)
| Add (o : obj)                          (* o joins the tree: Resource.append (:633-653) / a containment add *)
| Remove (o : obj)                       (* Resource.remove (:655-657) / a containment removal: uuid_dict is kept *)
| SetIdAttr (o : obj) (t : option Z)     (* obj.key = ... after the load: uuid_dict is not told *)
| Ref (o : obj)                          (* a reference to o is written from another resource (:565-573:
                                            `if obj.eResource: ...`: nothing happens for an object outside) *)
| SetUuid (b : bool).                    (* resource.use_uuid = b *)

Definition step (v : variant) (s : state) (a : op) : state :=
  match a with
  | Save => fst (save v s)
  | Load d => load v s d
  | Reload => let (s1, d) := save v s in
              load v (mkState [] (fun _ => None) [] (fun _ => None) false (next_fresh s1)) d
  | Add o => if mem o (members s) then s
             else mkState (members s ++ [o]) (internal s) (dict s) (idattr s) (use_uuid s) (next_fresh s)
  | Remove o => mkState (remove_obj o (members s)) (internal s) (dict s) (idattr s) (use_uuid s) (next_fresh s)
  | SetIdAttr o t => mkState (members s) (internal s) (dict s) (upd (idattr s) o t) (use_uuid s) (next_fresh s)
  | Ref o => if mem o (members s) then fst (fragment_step v s o) else s
  | SetUuid b => mkState (members s) (internal s) (dict s) (idattr s) b (next_fresh s)
  end.

Definition run (v : variant) (s : state) (h : list op) : state := fold_left (step v) h s.

(* what the property asks of a state: every member is what its reference fragment resolves to *)
Definition resolves_back (s : state) (o : obj) : bool :=
  match resolve s (fragment_of s o) with Some x => Nat.eqb x o | None => false end.
