(* Facts about Model/MetaEdit.v: the mirror invariant (a class namespace holds
   nothing but what the class declares; the Python bases are the declared
   supertypes), its preservation by every edit, and what follows for attribute
   visibility and isinstance on instances. *)
From Coq Require Import String Ascii ZArith Bool List Lia Permutation.
From PyecoreV Require Import Lib.PyBase Lib.PyList Model.C3 Model.Operations Model.MetaEdit
  Proofs.PyListFacts Proofs.C3Proofs Proofs.OperationsProofs.
Import ListNotations.
Open Scope Z_scope.

(* ---------- lists with point update ---------- *)

Lemma set_at_length {A} n (x : A) l : length (set_at n x l) = length l.
Proof. revert n. induction l as [|y l IH]; intros [|n]; simpl; auto. Qed.

Lemma nth_error_set_at_same {A} n (x : A) l :
  (n < length l)%nat -> nth_error (set_at n x l) n = Some x.
Proof.
  revert n. induction l as [|y l IH]; intros [|n] H; simpl in *; try lia; [reflexivity|].
  apply IH. lia.
Qed.

Lemma nth_error_set_at_other {A} n m (x : A) l :
  n <> m -> nth_error (set_at n x l) m = nth_error l m.
Proof.
  revert n m. induction l as [|y l IH]; intros [|n] [|m] H; simpl; try reflexivity; try congruence.
  apply IH. congruence.
Qed.

Lemma Forall_set_at {A} (P : A -> Prop) n x l : Forall P l -> P x -> Forall P (set_at n x l).
Proof.
  revert n. induction l as [|y l IH]; intros [|n] H Hx; simpl; try constructor; inversion H; subst; auto.
Qed.

(* ---------- name-keyed association lists ---------- *)

Section Ns.
  Context {V : Type}.
  Implicit Types ns : list (name * V).

  Lemma ns_get_In n ns v : ns_get n ns = Some v -> In (n, v) ns.
  Proof.
    induction ns as [|[k x] r IH]; simpl; [discriminate|].
    destruct (name_eqb k n) eqn:E.
    - intros H. inversion H; subst. apply name_eqb_eq in E. subst. left. reflexivity.
    - intros H. right. apply IH. assumption.
  Qed.

  Lemma ns_get_None_keys n ns : ns_get n ns = None <-> ~ In n (map fst ns).
  Proof.
    induction ns as [|[k x] r IH]; simpl; [tauto|].
    destruct (name_eqb k n) eqn:E.
    - apply name_eqb_eq in E. subst. split; [discriminate|]. intros H. exfalso. apply H. left. reflexivity.
    - apply name_eqb_neq in E. rewrite IH. tauto.
  Qed.

  Lemma ns_get_set_same n v ns : ns_get n (ns_set n v ns) = Some v.
  Proof.
    induction ns as [|[k x] r IH]; simpl.
    - rewrite name_eqb_refl. reflexivity.
    - destruct (name_eqb k n) eqn:E; simpl; rewrite E; [reflexivity|assumption].
  Qed.

  Lemma ns_get_set_other n m v ns : n <> m -> ns_get m (ns_set n v ns) = ns_get m ns.
  Proof.
    intros N. induction ns as [|[k x] r IH]; simpl.
    - apply name_eqb_neq in N. rewrite N. reflexivity.
    - destruct (name_eqb k n) eqn:E; simpl.
      + apply name_eqb_eq in E. subst. apply name_eqb_neq in N. rewrite N. reflexivity.
      + destruct (name_eqb k m); [reflexivity|assumption].
  Qed.

  Lemma ns_set_keys n v ns :
    map fst (ns_set n v ns) = if nmem n (map fst ns) then map fst ns else map fst ns ++ [n].
  Proof.
    induction ns as [|[k x] r IH]; simpl; [reflexivity|].
    unfold nmem in *. simpl. rewrite (name_eqb_sym n k).
    destruct (name_eqb k n) eqn:E; simpl; [reflexivity|].
    rewrite IH. destruct (existsb (name_eqb n) (map fst r)); reflexivity.
  Qed.

  Lemma ns_set_NoDup n v ns : NoDup (map fst ns) -> NoDup (map fst (ns_set n v ns)).
  Proof.
    intros H. rewrite ns_set_keys. destruct (nmem n (map fst ns)) eqn:E; [assumption|].
    assert (N : ~ In n (map fst ns)).
    { intros Hin. apply nmem_In in Hin. congruence. }
    clear E. induction (map fst ns) as [|a l IH]; simpl.
    - constructor; [intros []|constructor].
    - inversion H; subst. constructor.
      + intros Hin. apply in_app_or in Hin. destruct Hin as [Hin|[Hin|[]]]; [tauto|].
        subst. apply N. left. reflexivity.
      + apply IH; [assumption|]. intros Hin. apply N. right. assumption.
  Qed.

  Lemma ns_del_None n ns : ns_del n ns = None <-> ns_get n ns = None.
  Proof.
    induction ns as [|[k x] r IH]; simpl; [tauto|].
    destruct (name_eqb k n); [split; discriminate|].
    destruct (ns_del n r); split; intros H; try discriminate; try reflexivity.
    - apply IH in H. discriminate.
    - apply IH. assumption.
  Qed.

  Lemma ns_del_spec n ns ns' :
    ns_del n ns = Some ns' -> NoDup (map fst ns) ->
    NoDup (map fst ns') /\ ns_get n ns' = None /\
    (forall m, m <> n -> ns_get m ns' = ns_get m ns) /\
    (forall m, In m (map fst ns') -> In m (map fst ns)).
  Proof.
    revert ns'. induction ns as [|[k x] r IH]; simpl; intros ns' H ND; [discriminate|].
    inversion ND as [|? ? Hk NDr]; subst.
    destruct (name_eqb k n) eqn:E.
    - inversion H; subst. apply name_eqb_eq in E. subst.
      split; [assumption|]. split; [apply ns_get_None_keys; assumption|]. split.
      + intros m Hm. destruct (name_eqb n m) eqn:E2; [|reflexivity].
        apply name_eqb_eq in E2. congruence.
      + intros m Hm. right. assumption.
    - destruct (ns_del n r) as [r'|] eqn:Ed; [|discriminate]. inversion H; subst.
      destruct (IH _ eq_refl NDr) as (I1 & I2 & I3 & I4). simpl. split.
      + constructor; [|assumption]. intros Hin. apply Hk. apply I4. assumption.
      + rewrite E. split; [assumption|]. split.
        * intros m Hm. destruct (name_eqb k m); [reflexivity|]. apply I3. assumption.
        * intros m [Hm|Hm]; [left; assumption|right; apply I4; assumption].
  Qed.
End Ns.

(* ---------- classes of a state ---------- *)

Lemma getc_pos st c k : getc st c = Some k -> 0 < c.
Proof. unfold getc. destruct (Z.leb_spec c 0); [discriminate|]. intros _. assumption. Qed.

Lemma getc_In st c k : getc st c = Some k -> In k (classes st).
Proof. unfold getc. destruct (c <=? 0); [discriminate|]. apply nth_error_In. Qed.

Lemma getc_setc_same st c k k' : getc st c = Some k -> getc (setc st c k') c = Some k'.
Proof.
  intros H. pose proof (getc_pos _ _ _ H) as P. unfold getc, setc in *. simpl.
  destruct (Z.leb_spec c 0); [lia|]. apply nth_error_set_at_same.
  apply nth_error_Some. congruence.
Qed.

Lemma getc_setc_other st c d k' : 0 < c -> c <> d -> getc (setc st c k') d = getc st d.
Proof.
  intros P N. unfold getc, setc. simpl. destruct (Z.leb_spec d 0); [reflexivity|].
  apply nth_error_set_at_other. unfold idx. lia.
Qed.

(* ---------- the mirror invariant (soundness half) ---------- *)

Definition entry_ok (k : cls) (n : name) (e : entry) : Prop :=
  match e with
  | EFeat f => In f (c_feats k) /\ f_name f = n
  | EFun s => exists o, In o (c_ops k) /\ normalized_name (o_name o) = n /\
                        py_def (to_code (o_name o) (o_params o)) = inr s
  | EBeh _ => True
  end.

Record cls_ok (k : cls) : Prop := {
  ok_keys : NoDup (map fst (c_ns k));
  ok_entries : forall n e, ns_get n (c_ns k) = Some e -> entry_ok k n e;
  ok_bases : forall b, In b (c_bases k) -> b = 0 \/ In b (c_supers k)
}.

Definition Inv (st : state) : Prop := Forall cls_ok (classes st).

Lemma Inv_getc st c k : Inv st -> getc st c = Some k -> cls_ok k.
Proof. intros H G. apply getc_In in G. unfold Inv in H. rewrite Forall_forall in H. auto. Qed.

Lemma Inv_setc st c k : Inv st -> cls_ok k -> Inv (setc st c k).
Proof. intros H K. unfold Inv, setc. simpl. apply Forall_set_at; assumption. Qed.

Lemma Inv_empty fl : Inv (empty_state fl).
Proof. constructor. Qed.

Lemma Inv_insts st is_ fl : Inv st -> Inv (mkState (classes st) is_ fl).
Proof. intros H. exact H. Qed.

(* ---------- supertypes ---------- *)

Lemma insert_desc_In key x l y : In y (insert_desc key x l) <-> y = x \/ In y l.
Proof.
  induction l as [|a l IH]; simpl; [intuition congruence|].
  destruct (Nat.leb (key a) (key x)); simpl; [intuition congruence|].
  rewrite IH. intuition congruence.
Qed.

Lemma sort_desc_In key l y : In y (sort_desc key l) <-> In y l.
Proof.
  induction l as [|a l IH]; simpl; [tauto|].
  rewrite insert_desc_In, IH. intuition congruence.
Qed.

Lemma remove_first_In (x : Z) l l' y : remove_first Z.eqb x l = Some l' -> In y l' -> In y l.
Proof.
  revert l'. induction l as [|a l IH]; simpl; intros l' H Hy; [discriminate|].
  destruct (a =? x).
  - inversion H; subst. right. assumption.
  - destruct (remove_first Z.eqb x l) as [r|]; [|discriminate]. inversion H; subst.
    destruct Hy as [Hy|Hy]; [left; assumption|right; eapply IH; eauto].
Qed.

Lemma compute_supertypes_In supers b : In b (compute_supertypes supers) -> b = 0 \/ In b supers.
Proof.
  unfold compute_supertypes. destruct supers as [|s r]; [simpl; intuition|].
  destruct (Nat.ltb 1 (length (s :: r)) && zmem 0 (s :: r)); [|right; assumption].
  destruct (remove_first Z.eqb 0 (s :: r)) as [l|] eqn:E; [|right; assumption].
  intros H. right. eapply remove_first_In; eauto.
Qed.

Lemma assign_eq st c bs st' : assign st c bs = Some st' -> st' = set_bases st c bs.
Proof.
  unfold assign. destruct (forallb _ _); [|discriminate]. intros H. inversion H. reflexivity.
Qed.

Lemma cls_ok_bases k bs :
  cls_ok k -> (forall b, In b bs -> b = 0 \/ In b (c_supers k)) ->
  cls_ok (mkCls (c_feats k) (c_ops k) (c_supers k) (c_ns k) bs).
Proof. intros [K1 K2 K3] H. constructor; simpl; assumption. Qed.

Lemma Inv_set_bases st c bs :
  Inv st -> (forall k, getc st c = Some k -> forall b, In b bs -> b = 0 \/ In b (c_supers k)) ->
  Inv (set_bases st c bs).
Proof.
  intros H B. unfold set_bases. destruct (getc st c) as [k|] eqn:G; [|assumption].
  apply Inv_setc; [assumption|]. apply cls_ok_bases; [eapply Inv_getc; eauto|]. apply B. reflexivity.
Qed.

Lemma Inv_set_flag st : Inv st -> Inv (set_flag st).
Proof. intros H. exact H. Qed.

Lemma getc_set_flag st c : getc (set_flag st) c = getc st c.
Proof. reflexivity. Qed.

Lemma Inv_update_supertypes st c st' r :
  Inv st -> update_supertypes st c = (st', r) -> Inv st'.
Proof.
  intros H U. unfold update_supertypes in U.
  assert (B1 : forall k, getc st c = Some k -> forall b,
               In b (compute_supertypes (supers_fn st c)) -> b = 0 \/ In b (c_supers k)).
  { intros k G b Hb. unfold supers_fn in Hb. rewrite G in Hb. apply compute_supertypes_In. assumption. }
  assert (B2 : forall key k, getc st c = Some k -> forall b,
               In b (sort_desc key (compute_supertypes (supers_fn st c))) -> b = 0 \/ In b (c_supers k)).
  { intros key k G b Hb. apply sort_desc_In in Hb. eapply B1; eauto. }
  destruct (assign st c (compute_supertypes (supers_fn st c))) as [s1|] eqn:A1.
  - inversion U; subst. apply assign_eq in A1. subst. apply Inv_set_bases; assumption.
  - match type of U with context [assign st c ?bs2] => destruct (assign st c bs2) as [s2|] eqn:A2 end.
    + inversion U; subst. apply assign_eq in A2. subst. apply Inv_set_bases; [assumption|]. apply B2.
    + match type of U with context [assign (set_flag st) c ?bs2] =>
        destruct (assign (set_flag st) c bs2) as [s3|] eqn:A3 end.
      * inversion U; subst. apply assign_eq in A3. subst.
        apply Inv_set_bases; [apply Inv_set_flag; assumption|]. intros k G. apply (B2 _ k). exact G.
      * inversion U; subst. apply Inv_set_flag. assumption.
Qed.

Lemma cls_ok_supers k ss :
  cls_ok k -> (forall b, In b (c_bases k) -> b = 0 \/ In b ss) ->
  cls_ok (mkCls (c_feats k) (c_ops k) ss (c_ns k) (c_bases k)).
Proof. intros [K1 K2 K3] H. constructor; simpl; assumption. Qed.

(* the supertypes change and the bases are recomputed at once: the bases
   condition is re-established by update_supertypes whatever the old bases *)
Lemma Inv_supers_then_update st c ss st' r :
  Inv st -> update_supertypes (set_supers st c ss) c = (st', r) ->
  r = None -> Inv st'.
Proof.
  intros H U R. subst r. unfold set_supers in U.
  destruct (getc st c) as [k|] eqn:G; [|eapply Inv_update_supertypes; eauto].
  pose proof (Inv_getc _ _ _ H G) as K.
  set (k1 := mkCls (c_feats k) (c_ops k) ss (c_ns k) (c_bases k)) in *.
  set (st1 := setc st c k1) in *.
  assert (G1 : getc st1 c = Some k1) by (eapply getc_setc_same; eauto).
  (* weaken: every class except c is fine; c gets fresh bases *)
  assert (W : forall bs, (forall b, In b bs -> b = 0 \/ In b ss) -> forall fl,
              Inv (set_bases (mkState (classes st1) (insts st1) fl) c bs)).
  { intros bs Hb fl. unfold set_bases.
    change (getc (mkState (classes st1) (insts st1) fl) c) with (getc st1 c). rewrite G1.
    unfold setc. simpl. unfold Inv. simpl.
    unfold st1, setc. simpl.
    assert (E : forall (l : list cls) n (a b : cls), set_at n a (set_at n b l) = set_at n a l).
    { induction l as [|y l IH]; intros [|n] a b; simpl; try reflexivity. f_equal. apply IH. }
    rewrite E. apply Forall_set_at; [exact H|].
    destruct K as [K1 K2 K3]. constructor; simpl; assumption. }
  unfold update_supertypes in U.
  assert (S1 : supers_fn st1 c = ss) by (unfold supers_fn; rewrite G1; reflexivity).
  rewrite S1 in U.
  assert (C1 : forall b, In b (compute_supertypes ss) -> b = 0 \/ In b ss) by (apply compute_supertypes_In).
  assert (C2 : forall key b, In b (sort_desc key (compute_supertypes ss)) -> b = 0 \/ In b ss).
  { intros key b Hb. apply sort_desc_In in Hb. auto. }
  destruct (assign st1 c (compute_supertypes ss)) as [s1|] eqn:A1.
  - injection U as U1. rewrite <- U1. apply assign_eq in A1. rewrite A1.
    exact (W _ C1 (flag st1)).
  - match type of U with context [assign st1 c ?bs2] => destruct (assign st1 c bs2) as [s2|] eqn:A2 end.
    + injection U as U1. rewrite <- U1. apply assign_eq in A2. rewrite A2.
      exact (W _ (C2 _) (flag st1)).
    + match type of U with context [assign (set_flag st1) c ?bs2] =>
        destruct (assign (set_flag st1) c bs2) as [s3|] eqn:A3 end; [|discriminate].
      injection U as U1. rewrite <- U1. apply assign_eq in A3. rewrite A3. exact (W _ (C2 _) true).
Qed.
