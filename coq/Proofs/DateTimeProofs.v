(* Round trip of datetime values through strftime('%Y-%m-%dT%H:%M:%S.%f%z')
   and parse_date (fromisoformat first, strptime formats as fall-back). *)
From Coq Require Import ZArith List Bool Lia String.
From PyecoreV Require Import Model.Text Model.DateTime Proofs.TextFacts.
Import ListNotations.
Open Scope Z_scope.

(* the format literal the theorems are about (compared with the generated table in C17Proofs) *)
Definition date_fmt : string := "%Y-%m-%dT%H:%M:%S.%f%z".

Definition fields_ok (d : datetime) : Prop :=
  1000 <= dy d <= 9999 /\ 1 <= dmo d <= 12 /\ 1 <= dd d <= days_in_month (dy d) (dmo d) /\
  0 <= dh d < 24 /\ 0 <= dmi d < 60 /\ 0 <= ds d < 60 /\ 0 <= dus d < 1000000.

(* what datetime.timezone accepts: strictly between -24h and +24h *)
Definition offset_ok (tz : option Z) : Prop :=
  match tz with None => True | Some o => - day_us < o < day_us end.

(* the offsets datetime.fromisoformat gives back unchanged: UTC itself, or at least one whole second *)
Definition offset_iso_ok (tz : option Z) : Prop :=
  match tz with None => True | Some o => o = 0 \/ 1000000 <= Z.abs o end.

(* what fromisoformat does to the offset *)
Definition iso_tz (tz : option Z) : option Z :=
  match tz with
  | None => None
  | Some o => if Z.abs o <? 1000000 then Some 0 else Some o
  end.

Definition body_text (d : datetime) (tail : text) : text :=
  year_str (dy d) ++ 45 :: padn 2 (dmo d) ++ 45 :: padn 2 (dd d) ++ 84 :: padn 2 (dh d)
  ++ 58 :: padn 2 (dmi d) ++ 58 :: padn 2 (ds d) ++ 46 :: padn 6 (dus d) ++ tail.

Definition date_text (d : datetime) : text := body_text d (tz_str (dtz d) ++ []).

Lemma strftime_date_fmt : forall d, strftime date_fmt d = Some (date_text d).
Proof. intros d. reflexivity. Qed.

(* ---------- steps of the format interpreter ---------- *)
Lemma parse_go_dir : forall m k fmt s a,
  parse_go m (37 :: k :: fmt) s a =
  match directive_in m k s a with Some (a', s') => parse_go m fmt s' a' | None => None end.
Proof. reflexivity. Qed.

Lemma parse_go_lit : forall m c fmt s a, (c =? 37) = false ->
  parse_go m (c :: fmt) (c :: s) a = parse_go m fmt s a.
Proof. intros m c fmt s a H. cbn [parse_go]. rewrite H, Z.eqb_refl. reflexivity. Qed.

Lemma field_padn : forall n set v s a, 0 <= v < 10 ^ Z.of_nat n ->
  field n set (padn n v ++ s) a = Some (set a v, s).
Proof. intros n set v s a H. unfold field. rewrite take_digits_padn0 by exact H. reflexivity. Qed.

Lemma dir_Y : forall m s a, directive_in m 89 s a = field 4 set_y s a. Proof. reflexivity. Qed.
Lemma dir_m : forall m s a, directive_in m 109 s a = field 2 set_mo s a. Proof. reflexivity. Qed.
Lemma dir_d : forall m s a, directive_in m 100 s a = field 2 set_d s a. Proof. reflexivity. Qed.
Lemma dir_H : forall m s a, directive_in m 72 s a = field 2 set_h s a. Proof. reflexivity. Qed.
Lemma dir_M : forall m s a, directive_in m 77 s a = field 2 set_mi s a. Proof. reflexivity. Qed.
Lemma dir_S : forall m s a, directive_in m 83 s a = field 2 set_s s a. Proof. reflexivity. Qed.
Lemma dir_f : forall m s a, directive_in m 102 s a = field 6 set_us s a. Proof. reflexivity. Qed.
Lemma dir_z : forall m s a, directive_in m 122 s a =
  match parse_tz m s with Some (tz, r) => Some (set_tz a tz, r) | None => None end.
Proof. reflexivity. Qed.

Lemma year_str_pad : forall y, 1000 <= y <= 9999 -> year_str y = padn 4 y.
Proof.
  intros y H. unfold year_str.
  replace (1000 <=? y) with true by (symmetry; apply Z.leb_le; lia).
  replace (y <=? 9999) with true by (symmetry; apply Z.leb_le; lia). reflexivity.
Qed.

(* the seven fields, whatever follows in the format and in the text *)
Lemma parse_body : forall m fmt_tail tail d a, fields_ok d ->
  parse_go m (37 :: 89 :: 45 :: 37 :: 109 :: 45 :: 37 :: 100 :: 84 :: 37 :: 72 :: 58 :: 37 :: 77 :: 58
              :: 37 :: 83 :: 46 :: 37 :: 102 :: fmt_tail) (body_text d tail) a =
  parse_go m fmt_tail tail
    {| dy := dy d; dmo := dmo d; dd := dd d; dh := dh d; dmi := dmi d; ds := ds d; dus := dus d; dtz := dtz a |}.
Proof.
  intros m fmt_tail tail d a (Hy & Hmo & Hd & Hh & Hmi & Hs & Hus).
  assert (Hdim : days_in_month (dy d) (dmo d) <= 31).
  { unfold days_in_month. repeat match goal with |- context [if ?b then _ else _] => destruct b end; lia. }
  unfold body_text.
  rewrite parse_go_dir, dir_Y, year_str_pad, field_padn by (try change (10 ^ Z.of_nat 4) with 10000; lia).
  rewrite parse_go_lit by reflexivity.
  rewrite parse_go_dir, dir_m, field_padn by (change (10 ^ Z.of_nat 2) with 100; lia).
  rewrite parse_go_lit by reflexivity.
  rewrite parse_go_dir, dir_d, field_padn by (change (10 ^ Z.of_nat 2) with 100; lia).
  rewrite parse_go_lit by reflexivity.
  rewrite parse_go_dir, dir_H, field_padn by (change (10 ^ Z.of_nat 2) with 100; lia).
  rewrite parse_go_lit by reflexivity.
  rewrite parse_go_dir, dir_M, field_padn by (change (10 ^ Z.of_nat 2) with 100; lia).
  rewrite parse_go_lit by reflexivity.
  rewrite parse_go_dir, dir_S, field_padn by (change (10 ^ Z.of_nat 2) with 100; lia).
  rewrite parse_go_lit by reflexivity.
  rewrite parse_go_dir, dir_f, field_padn by (change (10 ^ Z.of_nat 6) with 1000000; lia).
  reflexivity.
Qed.

(* ---------- the UTC offset ---------- *)
Definition tz_result (m : reader) (sg secs us : Z) : Z :=
  match m with
  | Iso => if secs =? 0 then 0 else sg * (secs * 1000000 + us)
  | Strp => sg * (secs * 1000000 + us)
  end.

Lemma parse_tz_core : forall m c sg h mi ss us tail,
  (if c =? 43 then Some 1 else if c =? 45 then Some (-1) else None) = Some sg ->
  0 <= h < 100 -> 0 <= mi < 100 -> 0 <= ss < 100 -> 0 <= us < 1000000 ->
  (tail = [] /\ ss = 0 /\ us = 0) \/ (tail = padn 2 ss /\ us = 0) \/ (tail = padn 2 ss ++ 46 :: padn 6 us) ->
  parse_tz m (c :: padn 2 h ++ padn 2 mi ++ tail) =
  Some (Some (tz_result m sg (h * 3600 + mi * 60 + ss) us), []).
Proof.
  intros m c sg h mi ss us tail Hc Hh Hmi Hss Hus Ht.
  unfold parse_tz. rewrite Hc. cbn [obind].
  rewrite take_digits_padn0 by (change (10 ^ Z.of_nat 2) with 100; lia). cbn [obind snd fst].
  rewrite take_digits_padn0 by (change (10 ^ Z.of_nat 2) with 100; lia). cbn [obind snd fst].
  destruct Ht as [(Ht & Hs0 & Hu0) | [(Ht & Hu0) | Ht]]; subst tail.
  - subst ss us. cbn [take_digits]. destruct m; reflexivity.
  - subst us. rewrite <- (app_nil_r (padn 2 ss)).
    rewrite take_digits_padn0 by (change (10 ^ Z.of_nat 2) with 100; lia). destruct m; reflexivity.
  - rewrite take_digits_padn0 by (change (10 ^ Z.of_nat 2) with 100; lia).
    rewrite Z.eqb_refl. rewrite <- (app_nil_r (padn 6 us)).
    rewrite take_digits_padn0 by (change (10 ^ Z.of_nat 6) with 1000000; lia). destruct m; reflexivity.
Qed.

Lemma parse_tz_tz_str : forall m o, - day_us < o < day_us ->
  parse_tz m (tz_str (Some o)) =
  Some (Some (match m with Iso => if Z.abs o <? 1000000 then 0 else o | Strp => o end), []).
Proof.
  intros m o Ho. unfold day_us in Ho. unfold tz_str.
  set (a := Z.abs o). set (us := a mod 1000000). set (s := a / 1000000).
  assert (Ha : 0 <= a < 86400 * 1000000) by (unfold a; lia).
  assert (Hus : 0 <= us < 1000000) by (unfold us; apply Z.mod_pos_bound; lia).
  assert (Hs : 0 <= s < 86400).
  { unfold s. split. apply Z.div_pos; lia. apply Z.div_lt_upper_bound; lia. }
  assert (Hdm : a = 1000000 * s + us) by (unfold s, us; apply Z.div_mod; lia).
  assert (Hh : 0 <= s / 3600 < 100).
  { split. apply Z.div_pos; lia. apply Z.div_lt_upper_bound; lia. }
  assert (Hmi : 0 <= (s / 60) mod 60 < 100).
  { pose proof (Z.mod_pos_bound (s / 60) 60). lia. }
  assert (Hss : 0 <= s mod 60 < 100).
  { pose proof (Z.mod_pos_bound s 60). lia. }
  assert (Hsum : s / 3600 * 3600 + (s / 60) mod 60 * 60 + s mod 60 = s).
  { pose proof (Z.div_mod s 60). pose proof (Z.div_mod (s / 60) 60).
    assert (s / 60 / 60 = s / 3600) by (rewrite Z.div_div by lia; reflexivity). lia. }
  set (sgc := if o <? 0 then 45 else 43).
  set (sg := if o <? 0 then -1 else 1).
  assert (Hc : (if sgc =? 43 then Some 1 else if sgc =? 45 then Some (-1) else None) = Some sg).
  { unfold sgc, sg. destruct (o <? 0); reflexivity. }
  assert (Hsg : sg * a = o).
  { unfold sg, a. destruct (o <? 0) eqn:E; [apply Z.ltb_lt in E | apply Z.ltb_ge in E]; lia. }
  assert (Hres : forall ss', ss' = s mod 60 ->
            tz_result m sg (s / 3600 * 3600 + (s / 60) mod 60 * 60 + ss') us =
            match m with Iso => if a <? 1000000 then 0 else o | Strp => o end).
  { intros ss' ->. rewrite Hsum. unfold tz_result. destruct m.
    - destruct (s =? 0) eqn:E1; destruct (a <? 1000000) eqn:E2; try reflexivity;
        try apply Z.eqb_eq in E1; try apply Z.eqb_neq in E1;
        try apply Z.ltb_lt in E2; try apply Z.ltb_ge in E2; try lia.
    - rewrite <- Hsg. f_equal. lia. }
  destruct (us =? 0) eqn:Eus.
  - apply Z.eqb_eq in Eus. destruct (s mod 60 =? 0) eqn:Ess.
    + apply Z.eqb_eq in Ess.
      rewrite (parse_tz_core m sgc sg (s / 3600) ((s / 60) mod 60) 0 us []); try assumption; try lia.
      * rewrite (Hres 0) by lia. reflexivity.
      * left. repeat split; lia.
    + rewrite (parse_tz_core m sgc sg (s / 3600) ((s / 60) mod 60) (s mod 60) us (padn 2 (s mod 60)));
        try assumption.
      * rewrite (Hres (s mod 60)) by reflexivity. reflexivity.
      * right; left. split; [reflexivity|exact Eus].
  - rewrite (parse_tz_core m sgc sg (s / 3600) ((s / 60) mod 60) (s mod 60) us
               (padn 2 (s mod 60) ++ 46 :: padn 6 us)); try assumption.
    + rewrite (Hres (s mod 60)) by reflexivity. reflexivity.
    + right; right. reflexivity.
Qed.

(* ---------- validity ---------- *)
Lemma valid_of_ok : forall d, fields_ok d -> offset_ok (dtz d) -> valid_datetime d = true.
Proof.
  intros d (Hy & Hmo & Hd & Hh & Hmi & Hs & Hus) Htz. unfold valid_datetime.
  repeat (apply andb_true_iff; split); try (apply Z.leb_le; lia); try (apply Z.ltb_lt; lia).
  destruct (dtz d) as [o|]; [|reflexivity]. unfold offset_ok, day_us in *.
  apply andb_true_iff; split; apply Z.ltb_lt; lia.
Qed.

Lemma offset_ok_iso_tz : forall tz, offset_ok tz -> offset_ok (iso_tz tz).
Proof.
  intros [o|] H; simpl; [|exact I]. destruct (Z.abs o <? 1000000); simpl; [unfold day_us; lia|exact H].
Qed.

Definition with_tz (d : datetime) (tz : option Z) : datetime :=
  {| dy := dy d; dmo := dmo d; dd := dd d; dh := dh d; dmi := dmi d; ds := ds d; dus := dus d; dtz := tz |}.

Lemma with_tz_same : forall d, with_tz d (dtz d) = d.
Proof. destruct d; reflexivity. Qed.

Lemma set_tz_body : forall d (a : datetime) tz,
  set_tz {| dy := dy d; dmo := dmo d; dd := dd d; dh := dh d; dmi := dmi d; ds := ds d; dus := dus d;
            dtz := dtz a |} tz = with_tz d tz.
Proof. reflexivity. Qed.

Lemma fields_ok_with_tz : forall d tz, fields_ok d -> fields_ok (with_tz d tz).
Proof. intros d tz H. exact H. Qed.

(* ---------- datetime.fromisoformat on the formatter's image ---------- *)
Lemma fromisoformat_date_text : forall d, fields_ok d -> offset_ok (dtz d) ->
  fromisoformat_img (date_text d) = Some (with_tz d (iso_tz (dtz d))).
Proof.
  intros d Hf Htz. unfold fromisoformat_img, parse_fmt.
  change (cps_of_string iso_shape) with
    (37 :: 89 :: 45 :: 37 :: 109 :: 45 :: 37 :: 100 :: 84 :: 37 :: 72 :: 58 :: 37 :: 77 :: 58
        :: 37 :: 83 :: 46 :: 37 :: 102 :: [37; 122]).
  unfold date_text. rewrite parse_body by exact Hf.
  rewrite parse_go_dir, dir_z, app_nil_r.
  assert (Hp : parse_tz Iso (tz_str (dtz d)) = Some (iso_tz (dtz d), [])).
  { destruct (dtz d) as [o|]; [|reflexivity]. unfold offset_ok in Htz. rewrite parse_tz_tz_str by exact Htz.
    unfold iso_tz. destruct (Z.abs o <? 1000000); reflexivity. }
  rewrite Hp. cbn [parse_go]. rewrite set_tz_body.
  rewrite valid_of_ok; [reflexivity | apply fields_ok_with_tz; exact Hf | apply offset_ok_iso_tz; exact Htz].
Qed.

(* parse_date(strftime(d)), whatever the fall-back formats are *)
Theorem parse_date_strftime : forall formats d, fields_ok d -> offset_ok (dtz d) ->
  exists s, strftime date_fmt d = Some s /\
            parse_date formats s = Some (with_tz d (iso_tz (dtz d))).
Proof.
  intros formats d Hf Htz. exists (date_text d). split; [apply strftime_date_fmt|].
  unfold parse_date. rewrite fromisoformat_date_text by assumption. reflexivity.
Qed.

Lemma iso_tz_id : forall tz, offset_iso_ok tz -> iso_tz tz = tz.
Proof.
  intros [o|] H; simpl in *; [|reflexivity].
  destruct (Z.abs o <? 1000000) eqn:E; [|reflexivity]. apply Z.ltb_lt in E.
  destruct H as [H|H]; [subst; reflexivity|lia].
Qed.

Theorem date_roundtrip : forall formats d,
  fields_ok d -> offset_ok (dtz d) -> offset_iso_ok (dtz d) ->
  exists s, strftime date_fmt d = Some s /\ parse_date formats s = Some d.
Proof.
  intros formats d Hf Htz Hiso. destruct (parse_date_strftime formats d Hf Htz) as (s & H1 & H2).
  exists s. split; [exact H1|]. rewrite H2, iso_tz_id by exact Hiso. rewrite with_tz_same. reflexivity.
Qed.

(* the excluded offsets really do not come back: they read as UTC *)
Theorem date_subsecond_offset_lost : forall formats d o,
  fields_ok d -> dtz d = Some o -> 0 < Z.abs o < 1000000 ->
  exists s, strftime date_fmt d = Some s /\
            parse_date formats s = Some (with_tz d (Some 0)) /\ with_tz d (Some 0) <> d.
Proof.
  intros formats d o Hf Ho Hr.
  assert (Htz : offset_ok (dtz d)) by (rewrite Ho; simpl; unfold day_us; lia).
  destruct (parse_date_strftime formats d Hf Htz) as (s & H1 & H2).
  exists s. split; [exact H1|]. rewrite Ho in H2. simpl in H2.
  replace (Z.abs o <? 1000000) with true in H2 by (symmetry; apply Z.ltb_lt; lia).
  split; [exact H2|]. intros Heq. apply (f_equal dtz) in Heq. simpl in Heq. rewrite Ho in Heq.
  inversion Heq. lia.
Qed.

(* ---------- the strptime fall-back alone (what parse_date is left with when fromisoformat
   refuses the text, e.g. CPython < 3.11 on '+HHMM'): no restriction on the offset ---------- *)
Lemma strp_aware : forall d o, fields_ok d -> dtz d = Some o -> offset_ok (dtz d) ->
  parse_fmt Strp "%Y-%m-%dT%H:%M:%S.%f%z" (date_text d) = Some d.
Proof.
  intros d o Hf Ho Htz. unfold parse_fmt.
  change (cps_of_string "%Y-%m-%dT%H:%M:%S.%f%z") with
    (37 :: 89 :: 45 :: 37 :: 109 :: 45 :: 37 :: 100 :: 84 :: 37 :: 72 :: 58 :: 37 :: 77 :: 58
        :: 37 :: 83 :: 46 :: 37 :: 102 :: [37; 122]).
  unfold date_text. rewrite parse_body by exact Hf.
  rewrite parse_go_dir, dir_z, app_nil_r.
  pose proof Htz as Htz'. rewrite Ho in Htz'. unfold offset_ok in Htz'.
  rewrite Ho, parse_tz_tz_str by exact Htz'.
  cbn [parse_go]. rewrite set_tz_body. rewrite <- Ho, with_tz_same.
  rewrite valid_of_ok by assumption. reflexivity.
Qed.

Lemma strp_naive_first : forall d, fields_ok d -> dtz d = None ->
  parse_fmt Strp "%Y-%m-%dT%H:%M:%S.%f%z" (date_text d) = None.
Proof.
  intros d Hf Ho. unfold parse_fmt.
  change (cps_of_string "%Y-%m-%dT%H:%M:%S.%f%z") with
    (37 :: 89 :: 45 :: 37 :: 109 :: 45 :: 37 :: 100 :: 84 :: 37 :: 72 :: 58 :: 37 :: 77 :: 58
        :: 37 :: 83 :: 46 :: 37 :: 102 :: [37; 122]).
  unfold date_text. rewrite parse_body by exact Hf.
  rewrite parse_go_dir, dir_z, Ho. reflexivity.
Qed.

Lemma strp_naive_second : forall d, fields_ok d -> dtz d = None ->
  parse_fmt Strp "%Y-%m-%dT%H:%M:%S.%f" (date_text d) = Some d.
Proof.
  intros d Hf Ho. unfold parse_fmt.
  change (cps_of_string "%Y-%m-%dT%H:%M:%S.%f") with
    (37 :: 89 :: 45 :: 37 :: 109 :: 45 :: 37 :: 100 :: 84 :: 37 :: 72 :: 58 :: 37 :: 77 :: 58
        :: 37 :: 83 :: 46 :: 37 :: 102 :: []).
  unfold date_text. rewrite Ho. cbn [tz_str List.app]. rewrite parse_body by exact Hf.
  cbn [parse_go dtz dt_init].
  assert (E : {| dy := dy d; dmo := dmo d; dd := dd d; dh := dh d; dmi := dmi d; ds := ds d;
                 dus := dus d; dtz := None |} = d) by (rewrite <- Ho; apply with_tz_same).
  rewrite E. rewrite valid_of_ok; [reflexivity|exact Hf|rewrite Ho; exact I].
Qed.
