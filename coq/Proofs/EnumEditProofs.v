(* Facts about Model/EnumEdit.v: what conforms to an enumeration after any history of edits. *)
From Coq Require Import ZArith List Bool Arith Lia.
From PyecoreV Require Import Model.EnumEdit.
Import ListNotations.
Local Open Scope Z_scope.

Lemma conf_name_iff e n : conf_name e n = true <-> exists l, In (l, n) (lits e).
Proof.
  unfold conf_name, has_name. rewrite existsb_exists. split.
  - intros [[l m] [Hin Heq]]. cbn in Heq. apply Z.eqb_eq in Heq. subst m. exists l. exact Hin.
  - intros [l Hin]. exists (l, n). split; [exact Hin | cbn; apply Z.eqb_refl].
Qed.

Lemma conf_lit_iff e l : conf_lit e l = true <-> exists n, In (l, n) (lits e).
Proof.
  unfold conf_lit, has_lit. rewrite existsb_exists. split.
  - intros [[k m] [Hin Heq]]. cbn in Heq. apply Nat.eqb_eq in Heq. subst k. exists m. exact Hin.
  - intros [n Hin]. exists (l, n). split; [exact Hin | cbn; apply Nat.eqb_refl].
Qed.

Definition ids (e : enum) : list lit := map fst (lits e).
Definition distinct (e : enum) : Prop := NoDup (ids e).

Lemma has_lit_in e l : has_lit e l = true <-> In l (ids e).
Proof.
  unfold has_lit, ids. rewrite existsb_exists, in_map_iff. split.
  - intros [p [Hin Heq]]. apply Nat.eqb_eq in Heq. exists p. split; assumption.
  - intros [p [Heq Hin]]. exists p. split; [exact Hin | apply Nat.eqb_eq; exact Heq].
Qed.

Lemma ids_rename l n L :
  map fst (map (fun p : lit * name => if Nat.eqb (fst p) l then (fst p, n) else p) L) = map fst L.
Proof.
  induction L as [|p L IH]; cbn; [reflexivity|]. rewrite IH. destruct (Nat.eqb (fst p) l); reflexivity.
Qed.

Lemma ids_filter l L :
  map fst (filter (fun p : lit * name => negb (Nat.eqb (fst p) l)) L) = filter (fun k => negb (Nat.eqb k l)) (map fst L).
Proof.
  induction L as [|p L IH]; cbn; [reflexivity|]. destruct (Nat.eqb (fst p) l); cbn; rewrite IH; reflexivity.
Qed.

Lemma NoDup_filter_nat (f : nat -> bool) L : NoDup L -> NoDup (filter f L).
Proof.
  induction 1 as [|x L Hn Hd IH]; cbn; [constructor|].
  destruct (f x); [constructor; [rewrite filter_In; tauto | exact IH] | exact IH].
Qed.

Lemma NoDup_snoc (x : nat) L : ~ In x L -> NoDup L -> NoDup (L ++ [x]).
Proof.
  induction L as [|y L IH]; cbn; intros Hn Hd; [constructor; [intros []|constructor]|].
  inversion Hd as [|y' L' Hy HL]; subst. constructor.
  - rewrite in_app_iff. cbn. intros [Hi|[Hi|[]]]; [exact (Hy Hi) | subst; apply Hn; left; reflexivity].
  - apply IH; [intros Hi; apply Hn; right; exact Hi | exact HL].
Qed.

Lemma distinct_step e o : distinct e -> distinct (enext e o).
Proof.
  unfold distinct, ids, enext. intros H. destruct o as [l n|l n|l|]; cbn.
  - rewrite ids_rename. exact H.
  - destruct (has_lit e l) eqn:E; cbn; [exact H|].
    rewrite map_app. cbn. apply NoDup_snoc; [|exact H].
    intros Hin. apply has_lit_in in Hin. congruence.
  - destruct (name_of e l); cbn; [|exact H]. rewrite ids_filter. apply NoDup_filter_nat. exact H.
  - constructor.
Qed.

Lemma distinct_history ops e : distinct e -> distinct (fold_left enext ops e).
Proof. revert e; induction ops as [|o ops IH]; cbn; intros e H; [exact H | apply IH, distinct_step, H]. Qed.

Lemma distinct_init names : distinct (init_enum names).
Proof.
  unfold init_enum. generalize (combine (seq 0 (length names)) names) as L.
  assert (G : forall (L : list (lit * name)) e, distinct e ->
              distinct (fold_left (fun e p => enext e (EAppend (fst p) (snd p))) L e)).
  { induction L as [|p L IH]; cbn; intros e H; [exact H | apply IH, distinct_step, H]. }
  intros L. apply G. constructor.
Qed.

(* ---- which literal objects the enumeration holds: complete, step by step ---- *)
Lemma has_lit_step e o l' :
  has_lit (enext e o) l' =
  match o with
  | ERename _ _ => has_lit e l'
  | EAppend l _ => has_lit e l' || Nat.eqb l l'
  | ERemove l => has_lit e l' && negb (Nat.eqb l l')
  | EClear => false
  end.
Proof.
  apply eq_true_iff_eq. destruct o as [l n|l n|l|]; unfold enext, estep.
  - rewrite !has_lit_in. unfold ids. cbn [fst lits]. rewrite ids_rename. tauto.
  - destruct (has_lit e l) eqn:E; cbn [fst].
    + rewrite orb_true_iff, Nat.eqb_eq. split; [tauto|]. intros [H|H]; [exact H|subst; exact E].
    + rewrite orb_true_iff, Nat.eqb_eq, !has_lit_in. unfold ids. cbn [lits]. rewrite map_app, in_app_iff. cbn. tauto.
  - destruct (name_of e l) eqn:E; cbn [fst].
    + rewrite andb_true_iff, negb_true_iff, Nat.eqb_neq, !has_lit_in. unfold ids. cbn [lits].
      rewrite ids_filter, filter_In, negb_true_iff, Nat.eqb_neq. split; intros [A B]; split; auto.
    + rewrite andb_true_iff, negb_true_iff, Nat.eqb_neq. split; [|tauto]. intros H. split; [exact H|].
      intros ->. unfold name_of in E.
      destruct (find (fun p : nat * name => Nat.eqb (fst p) l') (lits e)) eqn:F; [discriminate|].
      unfold has_lit in H. apply existsb_exists in H. destruct H as [p [Hin Hp]].
      pose proof (find_none _ _ F p Hin) as Hc. cbn in Hc. congruence.
  - cbn. split; discriminate.
Qed.

(* ---- which names conform after one edit ---- *)
Lemma in_rename l n L k m :
  In (k, m) (map (fun p : lit * name => if Nat.eqb (fst p) l then (fst p, n) else p) L) <->
  (In (k, m) L /\ k <> l) \/ (k = l /\ m = n /\ In l (map fst L)).
Proof.
  induction L as [|[a b] L IH]; cbn [map In fst]; [tauto|].
  rewrite IH. destruct (Nat.eqb a l) eqn:E.
  - apply Nat.eqb_eq in E. subst a. split.
    + intros [H|[[H1 H2]|[H1 [H2 H3]]]].
      * inversion H; subst. right. auto.
      * left. split; [right; exact H1|exact H2].
      * right. auto.
    + intros [[[H|H] H2]|[H1 [H2 [H3|H3]]]].
      * inversion H; subst. contradiction.
      * right. left. auto.
      * subst. left. reflexivity.
      * subst. right. right. auto.
  - apply Nat.eqb_neq in E. split.
    + intros [H|[[H1 H2]|[H1 [H2 H3]]]].
      * inversion H; subst. left. split; [left; reflexivity|exact E].
      * left. split; [right; exact H1|exact H2].
      * right. auto.
    + intros [[[H|H] H2]|[H1 [H2 [H3|H3]]]].
      * left. exact H.
      * right. left. auto.
      * contradiction.
      * right. right. auto.
Qed.

Lemma conf_name_rename e l n n' :
  conf_name (enext e (ERename l n)) n' = true <->
  (exists k, In (k, n') (lits e) /\ k <> l) \/ (n' = n /\ conf_lit e l = true).
Proof.
  rewrite conf_name_iff. unfold enext, estep. cbn [fst lits]. split.
  - intros [k Hin]. apply in_rename in Hin. destruct Hin as [[H1 H2]|[H1 [H2 H3]]].
    + left. exists k. auto.
    + right. split; [exact H2|]. apply has_lit_in. exact H3.
  - intros [[k [H1 H2]]|[H1 H2]].
    + exists k. apply in_rename. left. auto.
    + exists l. apply in_rename. right. split; [reflexivity|]. split; [exact H1|]. apply has_lit_in. exact H2.
Qed.

Lemma conf_name_remove e l n' :
  conf_name (enext e (ERemove l)) n' = true <-> exists k, In (k, n') (lits e) /\ k <> l.
Proof.
  rewrite conf_name_iff. unfold enext, estep. destruct (name_of e l) eqn:E; cbn [fst lits].
  - split.
    + intros [k Hin]. apply filter_In in Hin. destruct Hin as [H1 H2]. cbn in H2.
      apply negb_true_iff, Nat.eqb_neq in H2. exists k. auto.
    + intros [k [H1 H2]]. exists k. apply filter_In. split; [exact H1|]. cbn. apply negb_true_iff, Nat.eqb_neq. exact H2.
  - split.
    + intros [k Hin]. exists k. split; [exact Hin|]. intros ->.
      unfold name_of in E.
      destruct (find (fun p : nat * name => Nat.eqb (fst p) l) (lits e)) eqn:F; [discriminate|].
      pose proof (find_none _ _ F _ Hin) as Hc. cbn in Hc. rewrite Nat.eqb_refl in Hc. discriminate.
    + intros [k [H1 _]]. exists k. exact H1.
Qed.

Lemma conf_name_append e l n n' :
  conf_lit e l = false ->
  (conf_name (enext e (EAppend l n)) n' = true <-> conf_name e n' = true \/ n' = n).
Proof.
  intros Hl. unfold conf_lit in Hl. rewrite !conf_name_iff. unfold enext, estep. rewrite Hl. cbn [fst lits]. split.
  - intros [k Hin]. apply in_app_iff in Hin. destruct Hin as [H|[H|[]]]; [left; exists k; exact H|].
    inversion H; subst. right. reflexivity.
  - intros [[k H]| ->]; [exists k; apply in_app_iff; left; exact H|].
    exists l. apply in_app_iff. right. left. reflexivity.
Qed.

Lemma append_member_ignored e l n : conf_lit e l = true -> enext e (EAppend l n) = e.
Proof. intros H. unfold conf_lit in H. unfold enext, estep. rewrite H. reflexivity. Qed.

Lemma conf_after_clear e : (forall n, conf_name (enext e EClear) n = false) /\ (forall l, conf_lit (enext e EClear) l = false).
Proof. split; intros; reflexivity. Qed.

Lemma failed_remove_changes_nothing e l : conf_lit e l = false -> estep e (ERemove l) = (e, false).
Proof.
  intros H. unfold estep, name_of.
  destruct (find (fun p : nat * name => Nat.eqb (fst p) l) (lits e)) eqn:F; [|reflexivity].
  apply find_some in F. destruct F as [Hin Hp]. unfold conf_lit, has_lit in H.
  assert (existsb (fun p : nat * name => Nat.eqb (fst p) l) (lits e) = true) as Hc
    by (apply existsb_exists; exists p; auto). congruence.
Qed.

(* ---- every history ---- *)
Theorem conformance_after_any_history names ops :
  let e := fold_left enext ops (init_enum names) in
  distinct e /\
  (forall n, conf_name e n = true <-> exists l, In (l, n) (lits e)) /\
  (forall l, conf_lit e l = true <-> In l (ids e)).
Proof.
  cbn. split; [apply distinct_history, distinct_init|]. split; intros x; [apply conf_name_iff | apply has_lit_in].
Qed.

(* deciding conformance from the name index that notifyChanged maintains would be wrong: after a rename in place
   the old name is still indexed although no literal carries it *)
Theorem index_conformance_refuted :
  exists names ops n,
    let e := fold_left enext ops (init_enum names) in
    conf_name_by_index e n = true /\ conf_name e n = false.
Proof. exists [10; 20], [ERename 0%nat 30], 10. vm_compute. split; reflexivity. Qed.

Example conformance_witness :
  let e := fold_left enext [ERename 0%nat 30; EAppend 2%nat 10; ERemove 1%nat] (init_enum [10; 20]) in
  lits e = [(0%nat, 30); (2%nat, 10)] /\ conf_name e 10 = true /\ conf_name e 20 = false /\ conf_name e 30 = true
  /\ conf_lit e 1%nat = false /\ conf_lit e 0%nat = true.
Proof. vm_compute. repeat split; reflexivity. Qed.
