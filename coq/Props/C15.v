(* C15 — unset features read as their default, privately, and reading is free.
   Statements only; proofs in Proofs/C15Proofs.v over Model/Defaults.v
   (EAttribute.get_default_value with its three sources, the data type's
   factory defaults, materialisation on first access, __set__, __delete__;
   containers built by a factory have identity = a heap location).
   For every declaration (literal / explicit default / type default / factory
   type), every number of objects and attributes, every history of reads,
   writes, deletes and in-place mutations:
   * a never-set feature reads as its declared default (literal, else explicit,
     else the type's; an empty container for factory types);
   * a read changes no eIsSet flag and no value any read would return (so
     nothing a save writes: the writer only walks isset features and values);
   * deleting a feature makes it read as its default again;
   * no container location is held by two slots, in every reachable state,
     hence mutating the value obtained from one object never changes what any
     other (object, feature) reads.
   Multi-valued attributes (fresh empty collection per instance) and the
   bytes of save() before/after reads are decided by the correspondence and
   the oracle of harness/props/c15.py. *)
From Coq Require Import ZArith List Bool Arith.
From PyecoreV Require Import Lib.PyBase Model.Defaults Proofs.C15Proofs.
Import ListNotations.

Theorem C15_never_set_reads_default :
  forall decl s o a, slot s o a = None -> dview_at decl s o a = default_view (decl a).
Proof. exact never_set_reads_default. Qed.
Print Assumptions C15_never_set_reads_default.

Theorem C15_read_keeps_isset :
  forall decl s o a, dset (snd (dread decl s o a)) = dset s.
Proof. exact read_keeps_isset. Qed.
Print Assumptions C15_read_keeps_isset.

Theorem C15_read_changes_no_value :
  forall decl s o a o' a', dwf s ->
    dview_at decl (snd (dread decl s o a)) o' a' = dview_at decl s o' a'.
Proof. exact read_keeps_every_view. Qed.
Print Assumptions C15_read_changes_no_value.

Theorem C15_delete_restores_default :
  forall decl s o a, dview_at decl (ddel decl s o a) o a = default_view (decl a).
Proof. exact del_restores_default. Qed.
Print Assumptions C15_delete_restores_default.

Theorem C15_state_is_private_in_every_reachable_state :
  forall decl ops, dwf (fold_left (dstep decl) ops dinit).
Proof. intros decl ops. apply dwf_history. apply dwf_init. Qed.
Print Assumptions C15_state_is_private_in_every_reachable_state.

Theorem C15_mutation_is_private :
  forall decl s o a x o' a', dwf s -> (o, a) <> (o', a') ->
    dview_at decl (dmutate decl s o a x) o' a' = dview_at decl s o' a'.
Proof. exact mutation_is_private. Qed.
Print Assumptions C15_mutation_is_private.

(* non-vacuity: a map-typed attribute on two instances *)
Example C15_witness :
  let decl := fun _ => {| a_literal := None; a_explicit := None; a_tdefault := TDFactory |} in
  let s := fold_left (dstep decl) [DRead 0 0; DRead 1 0; DMutate 0 0 7%Z] dinit in
  dview_at decl s 0 0 = WList [7%Z] /\ dview_at decl s 1 0 = WList [] /\ dset s 0 0 = false.
Proof. vm_compute. repeat split; reflexivity. Qed.
