"""C04 — multi-valued features behave like the collection they declare.

Three corners, checked pairwise:
  implementation (pyecore collections reached through eGet)  <-> Coq model (Model/OSet.v, Model/Coll.v; extracted)
  implementation                                             <-> plain Python list oracle (independent of the model)
  Coq model                                                  <-> list specification  : theorems in Props/C04.v
Exploration is a breadth-first closure over the implementation's observable
states (list, len, c[i], index, in) for a small universe; every state x every
operation x every index in [-len-2, len+2]."""
import itertools
from collections import deque

from harness import common

NONE_TOK = -99999
OPC = {'append': 1, 'insert': 2, 'remove': 3, 'pop': 4, 'clear': 5, 'setitem': 6, 'delitem': 7, 'extend': 8}


def make_mm():
    common.use_repo()
    from pyecore.ecore import EClass, EAttribute, EReference, EInt
    A = EClass('A')
    B = EClass('B')
    feats = {}
    for o in (True, False):
        for u in (True, False):
            # "multi-valued" is every upper bound other than 0 / 1: unbounded (-1), unspecified (-2), n > 1 (bounds are
            # not enforced at run time)
            fa = EAttribute(f'a_{int(o)}{int(u)}', EInt, upper=-1 if o else -2, ordered=o, unique=u)
            fr = EReference(f'r_{int(o)}{int(u)}', B, upper=-2 if u else 7, ordered=o, unique=u)
            A.eStructuralFeatures.extend([fa, fr])
            feats[('attr', o, u)] = fa
            feats[('ref', o, u)] = fr
            fc = EReference(f'c_{int(o)}{int(u)}', B, upper=-1 if u else 9, ordered=o, unique=u, containment=True)
            A.eStructuralFeatures.append(fc)
            feats[('cont', o, u)] = fc
    return A, B, feats


class Impl:
    """One fresh collection of the implementation, driven through the public API."""

    def __init__(self, A, B, feat, kind, univ_tokens, objs=None):
        self.a = A()
        self.kind = kind
        self.feat = feat
        if kind == 'cont':
            # fresh children for every collection: a child still (or wrongly still) attached to the collection of an
            # earlier exploration step would be pulled out of it, which is C02's subject, not C04's
            objs = [B() for _ in univ_tokens]
        if kind in ('ref', 'cont'):
            self.objs = objs
            self.tok2v = {t: objs[i] for i, t in enumerate(univ_tokens)}
            self.v2tok = {id(o): t for t, o in self.tok2v.items()}
        self.univ = univ_tokens
        self.c = self.a.eGet(feat.name)

    def v(self, t):
        if self.kind != 'attr':
            return self.tok2v[t]
        # a FRESH int object on every call (outside CPython's small-int cache): equal to, never identical with, the
        # element the collection holds - lookups go by equality, as for a list
        return int(str(t * 1000 + 7))

    def t(self, v):
        return self.v2tok[id(v)] if self.kind != 'attr' else (v - 7) // 1000

    def apply(self, op):
        c = self.c
        k = op[0]
        try:
            if k == 'append':
                (c.add if (op[2] == 'add') else c.append)(self.v(op[1]))
                return (0, None)
            if k == 'insert':
                c.insert(op[1], self.v(op[2]))
                return (0, None)
            if k == 'remove':
                c.remove(self.v(op[1]))
                return (0, None)
            if k == 'pop':
                r = c.pop() if op[1] is None else c.pop(op[1])
                return (0, self.t(r))
            if k == 'clear':
                c.clear()
                return (0, None)
            if k == 'setitem':
                c[op[1]] = self.v(op[2])
                return (0, None)
            if k == 'delitem':
                del c[op[1]]
                return (0, None)
            if k == 'delslice':
                del c[op[1]:op[2]]
                return (0, None)
            if k == 'extend':
                how = op[2]
                vals = [self.v(x) for x in op[1]]
                if how == 'iadd':
                    c += vals
                elif how == 'update':
                    c.update(vals)
                else:
                    c.extend(vals)
                return (0, None)
        except KeyError:
            return (1, None)
        except IndexError:
            return (2, None)
        except ValueError:
            return (3, None)
        raise AssertionError(op)

    def obs(self):
        c = self.c
        items = [self.t(x) for x in c]
        n = len(c)
        out = [n] + items
        for u in self.univ:
            try:
                out.append(c.index(self.v(u)))
            except (KeyError, ValueError):
                out.append(NONE_TOK)
        for u in self.univ:
            out.append(1 if self.v(u) in c else 0)
        for i in range(-n - 1, n + 1):
            try:
                out.append(self.t(c[i]))
            except IndexError:
                out.append(NONE_TOK)
        return out

    def slices(self):
        """positional access by slice (implementation vs plain list only; the Coq model has integer positions)"""
        c = self.c
        res = []
        for sl in SLICES:
            try:
                res.append([self.t(x) for x in c[sl]])
            except Exception as e:  # noqa
                res.append(type(e).__name__)
        n = len(c)
        for i in range(-n - 1, n + 1):
            # a position given as an integer-LIKE object (__index__, e.g. a numpy integer): as for a list
            try:
                res.append(self.t(c[IndexLike(i)]))
            except IndexError:
                res.append('IndexError')
            except Exception as e:  # noqa
                res.append(type(e).__name__)
        return res


class IndexLike:
    def __init__(self, i):
        self.i = i

    def __index__(self):
        return self.i


SLICES = [slice(None, None, -1), slice(None, None, 2), slice(1, None), slice(None, -1), slice(None, None, None),
          slice(1, None, 2), slice(-2, None), slice(None, None, -2), slice(0, 2)]


def spec_apply(L, op, unique):
    """The property's reference: a plain Python list; insertions of present
    elements ignored when unique.  Returns ('ok', ret) or ('err', None)."""
    k = op[0]
    try:
        if k == 'append':
            if not (unique and op[1] in L):
                L.append(op[1])
            return ('ok', None)
        if k == 'insert':
            if not (unique and op[2] in L):
                L.insert(op[1], op[2])
            return ('ok', None)
        if k == 'remove':
            L.remove(op[1])
            return ('ok', None)
        if k == 'pop':
            return ('ok', L.pop() if op[1] is None else L.pop(op[1]))
        if k == 'clear':
            L.clear()
            return ('ok', None)
        if k == 'setitem':
            if unique:
                i = op[1]
                if i < 0:
                    i += len(L)
                    if i < 0:
                        raise IndexError
                L.pop(i)
                if op[2] not in L:
                    L.insert(i, op[2])
            else:
                L[op[1]] = op[2]
            return ('ok', None)
        if k == 'delitem':
            del L[op[1]]
            return ('ok', None)
        if k == 'delslice':
            del L[op[1]:op[2]]
            return ('ok', None)
        if k == 'extend':
            for x in op[1]:
                if not (unique and x in L):
                    L.append(x)
            return ('ok', None)
    except (IndexError, ValueError, KeyError):
        return ('err', None)
    raise AssertionError(op)


def spec_obs(L, univ):
    n = len(L)
    out = [n] + list(L)
    out += [L.index(u) if u in L else NONE_TOK for u in univ]
    out += [1 if u in L else 0 for u in univ]
    for i in range(-n - 1, n + 1):
        try:
            out.append(L[i])
        except IndexError:
            out.append(NONE_TOK)
    return out


def op_tokens(op):
    k = op[0]
    if k == 'append':
        return [1, op[1], 0]
    if k == 'insert':
        return [2, op[1], op[2]]
    if k == 'remove':
        return [3, op[1], 0]
    if k == 'pop':
        return [4, -1 if op[1] is None else op[1], 0]
    if k == 'clear':
        return [5, 0, 0]
    if k == 'setitem':
        return [6, op[1], op[2]]
    if k == 'delitem':
        return [7, op[1], 0]
    if k == 'extend':
        return [8, len(op[1])] + list(op[1])
    raise AssertionError(op)


def all_ops(univ, n, unique, thorough):
    idx = list(range(-n - 2, n + 3))
    ops = []
    for x in univ:
        ops.append(('append', x, 'append'))
        if unique:
            ops.append(('append', x, 'add'))
        ops.append(('remove', x))
        for i in idx:
            ops.append(('insert', i, x))
            ops.append(('setitem', i, x))
    for i in idx:
        ops.append(('pop', i))
        ops.append(('delitem', i))
    ops.append(('pop', None))
    ops.append(('clear',))
    pairs = list(itertools.permutations(univ, 2)) + [(u, u) for u in univ]
    hows = ['extend', 'iadd'] + (['update'] if True else [])
    for j, p in enumerate(pairs):
        if thorough or j % 3 == 0:
            ops.append(('extend', list(p), hows[j % len(hows)]))
    return ops


def signature(clause, op, decl, pre_items):
    q = []
    k = op[0]
    if k in ('pop', 'delitem', 'insert', 'setitem'):
        i = op[1]
        if i is None:
            q.append('default-index')
        elif i < 0:
            q.append('negative-index')
        elif i >= len(pre_items):
            q.append('index-past-end')
    if k in ('append', 'insert', 'setitem', 'extend'):
        x = op[2] if k in ('insert', 'setitem') else op[1]
        xs = x if isinstance(x, list) else [x]
        if any(e in pre_items for e in xs):
            q.append('element-present')
    if k == 'remove' and op[1] not in pre_items:
        q.append('element-absent')
    return {'property': 'C04', 'clause': clause, 'culprit': k, 'qualifiers': sorted(q),
            'shape': {'kind': decl[0], 'unique': decl[2]}}


def explore(out, model, A, B, feats, decl, univ, maxlen, thorough, stats):
    kind, ordered, unique = decl
    feat = feats[decl]
    objs = [B() for _ in univ] if kind != 'attr' else None
    mode = 1 if unique else 0
    start = ()
    seen = {start: []}      # obs-key -> shortest path (list of ops)
    queue = deque([start])
    while queue:
        key = queue.popleft()
        path = seen[key]
        if not unique:
            # removal by slice (`del c[i:j]`) on list-based collections: implementation vs plain list only (the Coq
            # model has integer positions); the resulting state is not expanded further
            n0 = key[0] if key else 0
            for i in range(0, n0 + 1):
                for j in range(i + 1, n0 + 2):
                    impl = Impl(A, B, feat, kind, univ, objs)
                    L = []
                    for p in path:
                        impl.apply(p)
                        spec_apply(L, p, unique)
                    pre = list(L)
                    try:
                        r = impl.apply(('delslice', i, j))
                    except Exception as e:  # noqa
                        r = (9, type(e).__name__)
                    spec_apply(L, ('delslice', i, j), unique)
                    stats['transitions'] += 1
                    stats['ops']['delslice'] = stats['ops'].get('delslice', 0) + 1
                    o, so = impl.obs(), spec_obs(L, univ)
                    if r[0] != 0 or o != so:
                        out.fail(signature('slice-removal', ('delslice', i, j), decl, pre),
                                 f'del c[{i}:{j}] from {pre}: impl {r} {o[1:1 + o[0]]} vs list {so[1:1 + so[0]]}',
                                 {'decl': {'kind': kind, 'ordered': ordered, 'unique': unique}, 'universe': univ,
                                  'path': [list(map(_j, p)) for p in path], 'op': ['delslice', i, j]})
        # current length from a replay
        for op in all_ops(univ, key[0] if key else 0, unique, thorough):
            impl = Impl(A, B, feat, kind, univ, objs)
            L = []
            for p in path:
                impl.apply(p)
                spec_apply(L, p, unique)
            pre = list(L)
            pre_obs = impl.obs()
            r = impl.apply(op)
            o = impl.obs()
            sr = spec_apply(L, op, unique)
            so = spec_obs(L, univ)
            stats['transitions'] += 1
            stats['ops'][op[0]] = stats['ops'].get(op[0], 0) + 1
            stats['outcomes'][r[0]] = stats['outcomes'].get(r[0], 0) + 1
            case = {'decl': {'kind': kind, 'ordered': ordered, 'unique': unique}, 'universe': univ,
                    'path': [list(map(_j, p)) for p in path], 'op': list(map(_j, op))}
            # --- oracle: implementation vs plain list ---
            clause = None
            if (r[0] == 0) != (sr[0] == 'ok'):
                clause = 'outcome'
            elif r[0] == 0 and r[1] != sr[1]:
                clause = 'return-value'
            elif unique and len(set(o[1:1 + o[0]])) != o[0]:
                clause = 'duplicate'
            elif o[:1 + o[0]] != so[:1 + so[0]]:
                clause = 'iteration-order'
            elif o != so:
                clause = 'index=position'
            if not clause:
                ssl = [list(L[sl]) for sl in SLICES]
                for i in range(-len(L) - 1, len(L) + 1):
                    try:
                        ssl.append(L[IndexLike(i)])
                    except IndexError:
                        ssl.append('IndexError')
                isl = impl.slices()
                if isl != ssl:
                    clause = 'slice-access'
                    o, so = isl, ssl
            if clause:
                # the pre-state was consistent (failing states are never expanded): op is the culprit
                out.fail(signature(clause, op, decl, pre), f'{clause}: impl {o} vs list {so}', case)
            # --- correspondence: implementation vs Coq model ---
            toks = [mode, len(univ)] + univ
            exp = []
            for p in path:
                toks += op_tokens(p)
            toks += op_tokens(op)
            mo = model.ask('coll', toks)
            seg = mo[len(mo) - (3 + len(o)):] if len(mo) >= 3 + len(o) else mo
            want = [r[0], 1 if r[1] is not None else 0, r[1] if r[1] is not None else 0] + o
            if r[0] != 0:
                want[0] = seg[0] if (seg and seg[0] != 0) else r[0]   # exception class is not C04's business
            if seg != want:
                out.diff(f'coll model vs impl after {op} from {pre}: model {seg} impl {want}', case)
            nk = tuple(o)
            if nk not in seen and o[0] <= maxlen and not clause:
                if len(path) + 1 > maxlen + 2:
                    stats['cut_by_depth'] = stats.get('cut_by_depth', 0) + 1
                    continue
                seen[nk] = path + [op]
                queue.append(nk)
                if len(stats['samples']) < 6 and len(path) >= 2:
                    stats['samples'].append(case)
    stats['states'] += len(seen)
    return len(seen)


def _j(x):
    return x


def path_items(path, unique, univ):
    L = []
    for p in path:
        spec_apply(L, p, unique)
    return L


def run(ctx, out):
    thorough = ctx.tier == 'thorough'
    A, B, feats = make_mm()
    model = common.Model()
    stats = {'transitions': 0, 'states': 0, 'ops': {}, 'outcomes': {}, 'samples': [], 'per_decl': {}}
    univ_u = [10, 20, -1, 30] if not thorough else [10, 20, -1, 30, 0]
    univ_l = [10, -1, 20] if not thorough else [10, -1, 20, 0]
    for kind in ('attr', 'ref', 'cont'):
        for ordered in (True, False):
            for unique in (True, False):
                decl = (kind, ordered, unique)
                univ = univ_u if unique else univ_l
                if kind != 'attr':
                    univ = list(range(1, len(univ) + 1))
                maxlen = len(univ) if unique else (3 if not thorough else 4)
                n = explore(out, model, A, B, feats, decl, univ, maxlen, thorough, stats)
                stats['per_decl'][f'{kind}/ordered={ordered}/unique={unique}'] = n
    model.close()
    out.coverage.update({
        'evaluations': stats['transitions'],
        'states': stats['states'],
        'transitions': stats['transitions'],
        'distinct_nontrivial': stats['states'],
        'rule': 'breadth-first closure over observable collection states (list, len, c[i], index, in) of the '
                'implementation; a case = (state, op); distinct_nontrivial counts distinct observable states '
                'reached; every state is expanded with every op x every index in [-len-2,len+2] x every element',
        'exhaustive': stats.get('cut_by_depth', 0) == 0,
        'states_cut_by_depth_bound': stats.get('cut_by_depth', 0),
        'traces_validated_against_impl': stats['transitions'],
        'ops_by_kind': stats['ops'], 'outcomes_by_code': stats['outcomes'],
        'states_per_declaration': stats['per_decl'],
        'samples': stats['samples'][:4],
    })
    out.assumptions += [
        'universe: 4 (thorough 5) elements incl. -1 for unique collections, 3 (4) for lists of length <= 3 (4)',
        'exception classes are compared as ok/error only (KeyError vs ValueError vs IndexError is not part of C04)',
    ]


def replay(ctx, rep):
    """Re-run one recorded case on the implementation and the list oracle."""
    case = rep['case']
    A, B, feats = make_mm()
    d = case['decl']
    decl = (d['kind'], d['ordered'], d['unique'])
    univ = case['universe']
    objs = [B() for _ in univ] if d['kind'] != 'attr' else None
    impl = Impl(A, B, feats[decl], d['kind'], univ, objs)
    L = []
    for p in case['path'] + [case['op']]:
        p = tuple(tuple(x) if False else x for x in p)
        r = impl.apply(p)
        s = spec_apply(L, p, d['unique'])
        print('op', p, 'impl', r, 'spec', s)
    o, so = impl.obs(), spec_obs(L, univ)
    print('impl obs', o)
    print('list obs', so)
    bad = o != so
    print('REPRODUCED' if bad else 'not reproduced')
    return 1 if bad else 0


def redeclared_scenarios(ctx, out):
    """The declaration is the one in force when the collection comes into being: a feature used by some objects,
    then re-declared (unique / ordered edited on the feature), then used by a NEW object: the new object's
    collection follows the current declaration for a random operation sequence (list oracle)."""
    common.use_repo()
    from pyecore.ecore import EClass, EAttribute, EReference, EInt
    rng = common.rng_for(ctx.seed, 'C04:redeclared')
    n = 60 if ctx.tier != 'thorough' else 1500
    steps = 0
    for it in range(n):
        kind = rng.choice(['attr', 'ref'])
        A, B = EClass('A'), EClass('B')
        o1, u1 = rng.random() < 0.5, rng.random() < 0.5
        feat = (EAttribute('f', EInt, upper=-1, ordered=o1, unique=u1) if kind == 'attr'
                else EReference('f', B, upper=-1, ordered=o1, unique=u1))
        A.eStructuralFeatures.append(feat)
        univ = [10, 20, -1, 30] if kind == 'attr' else [1, 2, 3, 4]
        objs = [B() for _ in univ] if kind == 'ref' else None
        hist = [['declare', kind, o1, u1]]
        unique = u1
        for phase in range(rng.randrange(2, 4)):
            impl = Impl(A, B, feat, kind, univ, objs)      # a NEW object, its collection created now
            L = []
            bad = False
            for _ in range(rng.randrange(1, 7)):
                op = rng.choice(all_ops(univ, len(L), unique, False))
                hist.append(['op'] + [list(x) if isinstance(x, (list, tuple)) else x for x in op])
                r = impl.apply(op)
                sr = spec_apply(L, op, unique)
                o, so = impl.obs(), spec_obs(L, univ)
                steps += 1
                clause = None
                if (r[0] == 0) != (sr[0] == 'ok'):
                    clause = 'outcome'
                elif unique and len(set(o[1:1 + o[0]])) != o[0]:
                    clause = 'duplicate'
                elif o != so:
                    clause = 'iteration-order' if o[:1 + o[0]] != so[:1 + so[0]] else 'index=position'
                if clause:
                    sig = {'property': 'C04', 'clause': clause + '-after-redeclaration', 'culprit': op[0],
                           'qualifiers': [], 'shape': {'kind': kind, 'unique': unique}}
                    out.fail(sig, f'new object of a feature re-declared unique={unique}: impl {o} vs list {so}',
                             {'scenario': 'redeclared', 'seed': ctx.seed, 'tier': ctx.tier, 'history': hist})
                    bad = True
                    break
            if bad:
                break
            # edit the declaration
            which = rng.choice(['unique', 'ordered', 'both'])
            if which in ('unique', 'both'):
                unique = not unique
                feat.unique = unique
            if which in ('ordered', 'both'):
                feat.ordered = not feat.ordered
            hist.append(['redeclare', feat.ordered, feat.unique])
    out.coverage['redeclared_steps_checked'] = steps


_run0 = run
_replay0 = replay


def run(ctx, out):   # noqa: F811
    _run0(ctx, out)
    redeclared_scenarios(ctx, out)


def replay(ctx, rep):   # noqa: F811
    if rep.get('case', {}).get('scenario'):
        return common.scenario_replay(ctx, rep, {'redeclared': redeclared_scenarios})
    return _replay0(ctx, rep)


def live_argument_scenarios(ctx, out):
    """extend / update / += whose ARGUMENT is the live collection of another object (b.items.extend(a.items)), or the
    receiver itself: the receiver ends as a plain list extended by a snapshot of the argument would (elements already
    present ignored when unique), for attributes, references and containment references of the four declarations."""
    common.use_repo()
    rng = common.rng_for(ctx.seed, 'C04:live')
    A, B, feats = make_mm()
    n = 120 if ctx.tier != 'thorough' else 3000
    cnt = 0
    for it in range(n):
        kind = rng.choice(['attr', 'ref', 'cont'])
        ordered, unique = rng.random() < 0.5, rng.random() < 0.5
        decl = (kind, ordered, unique)
        feat = feats[decl]
        univ = [10, 20, -1, 30, 40] if kind == 'attr' else [1, 2, 3, 4, 5]
        objs = [B() for _ in univ] if kind != 'attr' else None
        src = Impl(A, B, feat, kind, univ, objs)
        dst = Impl(A, B, feat, kind, univ, objs)
        if kind == 'cont':
            # one family of children for both owners (a child moves from one to the other)
            dst.objs, dst.tok2v, dst.v2tok = src.objs, src.tok2v, src.v2tok
        Ls, Ld = [], []
        hist = [['declare', kind, ordered, unique]]
        for who, impl, L in (('src', src, Ls), ('dst', dst, Ld)):
            for _ in range(rng.randrange(0, 5)):
                x = rng.choice(univ)
                if kind == 'cont' and (x in Ls or x in Ld):
                    continue            # containment: a child sits in one place
                impl.apply(('append', x, 'append'))
                spec_apply(L, ('append', x, 'append'), unique)
                hist.append(['append', who, x])
        how = rng.choice(['extend', 'iadd'] + (['update'] if unique else []))
        same = rng.random() < 0.15
        arg_impl = dst if same else src
        snapshot = list(Ld if same else Ls)
        hist.append([how, 'dst', 'dst' if same else 'src'])
        try:
            c = dst.c
            if how == 'iadd':
                c += arg_impl.c
            else:
                getattr(c, how)(arg_impl.c)
            raised = None
        except Exception as e:  # noqa
            raised = type(e).__name__
        spec_apply(Ld, ('extend', snapshot, how), unique)
        cnt += 1
        o, so = dst.obs(), spec_obs(Ld, univ)
        if raised is not None or o != so:
            sig = {'property': 'C04', 'clause': 'live-collection-argument', 'culprit': how, 'qualifiers': ['self'] if same else [],
                   'shape': {'kind': kind, 'unique': unique}}
            out.fail(sig, f'{how} with the live collection of {"the receiver itself" if same else "another object"} '
                          f'({snapshot}) onto {hist}: raised {raised}; receiver {o[1:1 + o[0]]} vs list {so[1:1 + so[0]]}',
                     {'scenario': 'live', 'seed': ctx.seed, 'tier': ctx.tier, 'history': hist})
    out.coverage['live_argument_bulk_calls'] = cnt


_run1 = run
_replay1 = replay


def run(ctx, out):   # noqa: F811
    _run1(ctx, out)
    live_argument_scenarios(ctx, out)


def replay(ctx, rep):   # noqa: F811
    if rep.get('case', {}).get('scenario') == 'live':
        return common.scenario_replay(ctx, rep, {'live': live_argument_scenarios})
    return _replay1(ctx, rep)


# ---------------------------------------------------------------------------------------------------------------
# slice access: c[a:b], c[a:b] = ys, del c[a:b] (step 1, optional bounds) - implementation vs Coq model
# (Model/Slice.v, extracted run_slice; theorems C04_slice_* in Props/C04.v) vs plain Python list
# ---------------------------------------------------------------------------------------------------------------
def _btoks(v):
    return [0, 0] if v is None else [1, v]


def slice_op_tokens(op):
    k = op[0]
    if k == 'setslice':
        return [9] + _btoks(op[1]) + _btoks(op[2]) + [len(op[3])] + list(op[3])
    if k == 'delslice':
        return [10] + _btoks(op[1]) + _btoks(op[2])
    if k == 'getslice':
        return [11] + _btoks(op[1]) + _btoks(op[2])
    return op_tokens(op)


def slice_apply_impl(impl, op):
    """(outcome code, scalar result, returned elements)"""
    c = impl.c
    k = op[0]
    if k not in ('setslice', 'delslice', 'getslice'):
        r = impl.apply(op)
        return (r[0], r[1], [])
    try:
        if k == 'setslice':
            c[op[1]:op[2]] = [impl.v(x) for x in op[3]]
            return (0, None, [])
        if k == 'delslice':
            del c[op[1]:op[2]]
            return (0, None, [])
        got = c[op[1]:op[2]]
        ret = [impl.t(x) for x in got]
        # what a slice returns is the caller's own copy: editing it must not reach the feature (compared right after)
        for edit in (lambda: got.pop(), lambda: got.append(impl.v(impl.univ[-1])), lambda: got.insert(0, impl.v(impl.univ[0])),
                     lambda: got.remove(impl.v(impl.univ[1])), lambda: got.clear()):
            try:
                edit()
            except Exception:  # noqa
                pass
        return (0, None, ret)
    except KeyError:
        return (1, None, [])
    except IndexError:
        return (2, None, [])
    except ValueError:
        return (3, None, [])


def slice_apply_list(L, op, unique):
    """the property's reference for list-based collections: a plain Python list"""
    k = op[0]
    if k == 'setslice':
        L[op[1]:op[2]] = list(op[3])
        return ('ok', None, [])
    if k == 'delslice':
        del L[op[1]:op[2]]
        return ('ok', None, [])
    if k == 'getslice':
        return ('ok', None, list(L[op[1]:op[2]]))
    r = spec_apply(L, op, unique)
    return (r[0], r[1], [])


def _slice_history(rng, univ, unique, length):
    ops = []
    n = 0   # rough length estimate, only used to pick interesting bounds
    for _ in range(length):
        r = rng.random()

        def bnd():
            q = rng.random()
            if q < 0.2:
                return None
            return rng.randrange(-n - 3, n + 4)
        if r < 0.3:
            ys = [rng.choice(univ) for _ in range(rng.randrange(0, 4))]
            ops.append(('setslice', bnd(), bnd(), ys))
            n = max(0, n + len(ys) - 1)
        elif r < 0.45:
            ops.append(('delslice', bnd(), bnd()))
        elif r < 0.6:
            ops.append(('getslice', bnd(), bnd()))
        elif r < 0.8:
            ops.append(('append', rng.choice(univ), 'append'))
            n += 1
        elif r < 0.87:
            ops.append(('insert', rng.randrange(-n - 2, n + 3), rng.choice(univ)))
            n += 1
        elif r < 0.92:
            ops.append(('extend', [rng.choice(univ) for _ in range(rng.randrange(0, 3))], 'extend'))
            n += 2
        elif r < 0.96:
            ops.append(('pop', rng.randrange(-n - 1, n + 1)))
        else:
            ops.append(('setitem', rng.randrange(-n - 1, n + 1), rng.choice(univ)))
    return ops


def _slice_case(out, model, A, B, feats, decl, univ, ops, stats, tag):
    kind, ordered, unique = decl
    objs = [B() for _ in univ] if kind != 'attr' else None
    impl = Impl(A, B, feats[decl], kind, univ, objs)
    L = []
    toks = [1 if unique else 0]
    for p in ops:
        toks += slice_op_tokens(p)
    mo = model.ask('slice', toks)
    pos = 0
    hist = [['declare', kind, ordered, unique, tag]]
    for op in ops:
        hist.append([_j(x) for x in op])
        pre = [impl.t(x) for x in impl.c]
        try:
            r = slice_apply_impl(impl, op)
        except Exception as e:  # noqa
            r = (9, type(e).__name__, [])
        items = [impl.t(x) for x in impl.c]
        stats[op[0]] = stats.get(op[0], 0) + 1
        case = {'scenario': 'slice', 'seed': _SLICE_CTX[0], 'tier': _SLICE_CTX[1], 'history': list(hist)}
        sig = {'property': 'C04', 'clause': 'slice-read' if op[0] == 'getslice' else 'slice-write', 'culprit': op[0],
               'qualifiers': [], 'shape': {'kind': kind, 'unique': unique}}
        # --- model segment: code has res |ret| ret.. |items| items.. ---
        if pos + 4 > len(mo):
            out.diff(f'slice model answer too short at {op} in {hist}', case)
            return
        code, has, res, nret = mo[pos:pos + 4]
        ret = mo[pos + 4:pos + 4 + nret]
        nit = mo[pos + 4 + nret]
        mitems = mo[pos + 5 + nret:pos + 5 + nret + nit]
        pos += 5 + nret + nit
        # --- oracle ---
        if not unique:
            sr = slice_apply_list(L, op, unique)
            if (r[0] == 0) != (sr[0] == 'ok') or (r[0] == 0 and (r[1] != sr[1] or r[2] != sr[2])) or items != L:
                out.fail(sig, f'{op} on {pre}: impl outcome {r} items {items} vs plain list {sr} {L}', case)
                return
        else:
            if r[0] != 0 and items != pre:
                out.fail(sig, f'{op} on {pre}: refused ({r}) but the collection changed to {items}', case)
                return
            if len(set(items)) != len(items):
                sig['clause'] = 'duplicate'
                out.fail(sig, f'{op} on {pre}: unique collection holds {items}', case)
                return
        # positions and membership follow the items (for a unique collection they come from its index map)
        for u in impl.univ:
            want_in = u in items
            try:
                got_in = impl.v(u) in impl.c
                got_ix = impl.c.index(impl.v(u)) if got_in else None
            except (KeyError, ValueError):
                got_in, got_ix = got_in if 'got_in' in dir() else None, 'raises'
            if got_in != want_in or (want_in and got_ix != items.index(u)):
                sig['clause'] = 'index=position'
                out.fail(sig, f'after {op} on {pre}: items {items} but element {u}: in -> {got_in}, index -> {got_ix}', case)
                return
        # --- correspondence ---
        mres = res if has else None
        if (r[0] == 0) != (code == 0) or (r[0] == 0 and (r[1] != mres or r[2] != ret)) or items != mitems:
            if r[0] == 9 or (not unique):
                out.fail(sig, f'{op} on {pre}: impl {r} {items} vs model ({code},{mres},{ret}) {mitems}', case)
            else:
                out.diff(f'slice model vs impl after {op} from {pre}: model ({code},{mres},{ret}) {mitems} impl {r} {items}', case)
            return


_SLICE_CTX = [0, 'quick']


def slice_scenarios(ctx, out):
    common.use_repo()
    _SLICE_CTX[:] = [ctx.seed, ctx.tier]
    rng = common.rng_for(ctx.seed, 'C04:slice')
    A, B, feats = make_mm()
    model = common.Model()
    thorough = ctx.tier == 'thorough'
    stats = {}
    ncase = 0
    # exhaustive: one slice call on every list of length 0..N, every pair of bounds in {None} + [-n-2, n+2], |ys| <= 2
    N = 3 if not thorough else 4
    for kind in ('attr', 'ref'):
        univ = [10, -1, 20, 30, 40] if kind == 'attr' else [1, 2, 3, 4, 5]
        for unique in (False, True):
            decl = (kind, True, unique)
            for n in range(N + 1):
                base = [('append', univ[i], 'append') for i in range(n)]
                bounds = [None] + list(range(-n - 2, n + 3))
                for a in bounds:
                    for b in bounds:
                        ops = list(base)
                        ops.append(('getslice', a, b))
                        for ys in ([], [univ[4]], [univ[4], univ[0]]):
                            _slice_case(out, model, A, B, feats, decl, univ, base + [('setslice', a, b, ys)], stats, 'exh')
                            ncase += 1
                        ops.append(('delslice', a, b))
                        _slice_case(out, model, A, B, feats, decl, univ, ops, stats, 'exh')
                        ncase += 1
    # random histories mixing element-level and slice calls
    nrand = 400 if not thorough else 8000
    for it in range(nrand):
        kind = rng.choice(['attr', 'ref', 'cont'])
        ordered, unique = rng.random() < 0.5, rng.random() < 0.35
        univ = [10, -1, 20, 30] if kind == 'attr' else [1, 2, 3, 4]
        ops = _slice_history(rng, univ, unique, rng.randrange(1, 10))
        if kind == 'cont':
            # a child sits in one place: containment collections get each child at most once per history
            used, ops2 = set(), []
            for op in ops:
                vals = op[3] if op[0] == 'setslice' else (op[1] if op[0] == 'extend' else
                                                          [op[2]] if op[0] in ('insert', 'setitem') else
                                                          [op[1]] if op[0] == 'append' else [])
                if any(v in used for v in vals) or len(set(vals)) != len(vals):
                    continue
                used.update(vals)
                ops2.append(op)
            ops = ops2
        _slice_case(out, model, A, B, feats, (kind, ordered, unique), univ, ops, stats, f'rnd{it}')
        ncase += 1
    model.close()
    out.coverage['slice_histories'] = ncase
    out.coverage['slice_ops_by_kind'] = stats
    out.assumptions.append('slices: step 1 with optional bounds are modelled (Model/Slice.v); extended slices are compared '
                           'with the plain list only')


_run2 = run
_replay2 = replay


def run(ctx, out):   # noqa: F811
    _run2(ctx, out)
    slice_scenarios(ctx, out)


def replay(ctx, rep):   # noqa: F811
    if rep.get('case', {}).get('scenario') == 'slice':
        return common.scenario_replay(ctx, rep, {'slice': slice_scenarios})
    return _replay2(ctx, rep)


# ---------------------------------------------------------------------------------------------------------------
# bulk calls whose ARGUMENT is another kind of iterable than a list: a tuple, a str (its characters, as for a list),
# the empty str - on many-valued STRING attributes of the four declarations
# ---------------------------------------------------------------------------------------------------------------
def bulk_argument_scenarios(ctx, out):
    common.use_repo()
    from pyecore.ecore import EClass, EAttribute, EString
    rng = common.rng_for(ctx.seed, 'C04:bulkarg')
    n = 120 if ctx.tier != 'thorough' else 3000
    cnt = 0
    kinds = {}
    for it in range(n):
        ordered, unique = rng.random() < 0.5, rng.random() < 0.5
        A = EClass('A')
        A.eStructuralFeatures.append(EAttribute('names', EString, upper=-1, ordered=ordered, unique=unique))
        a = A()
        L = []
        hist = [['declare', ordered, unique]]
        bad = None
        for step in range(rng.randrange(1, 6)):
            kind = rng.choice(['list', 'tuple', 'str', 'str', 'empty-str'])
            how = rng.choice(['extend', 'iadd'] + (['update'] if unique else []))
            letters = [rng.choice('abcx') for _ in range(rng.randrange(1, 4))]
            arg = {'list': letters, 'tuple': tuple(letters), 'str': ''.join(letters), 'empty-str': ''}[kind]
            hist.append([how, kind, arg if isinstance(arg, str) else list(arg)])
            kinds[kind] = kinds.get(kind, 0) + 1
            try:
                c = a.names
                if how == 'iadd':
                    c += arg
                else:
                    getattr(c, how)(arg)
            except Exception as e:  # noqa
                bad = f'{how}({arg!r}) raised {type(e).__name__}: {e}'
                break
            for x in arg:                                   # the plain list: one element per item of the iterable
                if not (unique and x in L):
                    L.append(x)
            cnt += 1
            if list(a.names) != L:
                bad = f'after {how}({arg!r}): feature holds {list(a.names)}, a plain list {L}'
                break
        if bad:
            out.fail({'property': 'C04', 'clause': 'bulk-argument-kind', 'culprit': hist[-1][0], 'qualifiers': [hist[-1][1]],
                      'shape': {'kind': 'attr', 'unique': unique}}, bad,
                     {'scenario': 'bulkarg', 'seed': ctx.seed, 'tier': ctx.tier, 'history': hist})
    out.coverage['bulk_argument_calls'] = cnt
    out.coverage['bulk_argument_kinds'] = kinds


_run3 = run
_replay3 = replay


def run(ctx, out):   # noqa: F811
    _run3(ctx, out)
    bulk_argument_scenarios(ctx, out)


def replay(ctx, rep):   # noqa: F811
    if rep.get('case', {}).get('scenario') == 'bulkarg':
        return common.scenario_replay(ctx, rep, {'bulkarg': bulk_argument_scenarios})
    return _replay3(ctx, rep)
