(* C07, the converse inclusion: the recursive delete reaches EVERY transitive content.
   EObject.delete(recursive=True) reads the direct contents of x in the state where it is
   called (econtents m s x), then runs itself on each child in turn, each time in the
   state left by the deletion of the previous siblings' subtrees (the child's own
   contents are read from that evolving state), and finally clears x's own links.
   Hence a grandchild is reached only if deleting an earlier sibling's subtree has not
   taken it out of its parent's slot.  In a WF state (single owner) whose containment
   is acyclic the subtrees of two siblings are disjoint, so nothing below a later
   sibling is touched (exact frame of Proofs/C07Full.v), and with fuel greater than the
   depth of the descendant it is deleted.  Proofs/Acyclic.v supplies acyclicity and the
   depth bound (<= number of objects) in every state reached by a fitting history. *)
From Coq Require Import ZArith List Bool Arith Lia.
From PyecoreV Require Import Lib.PyBase Lib.PyList Model.Kernel Proofs.KernelFacts Proofs.C01Proofs
  Proofs.C01Full Proofs.C02Proofs Proofs.WFBase Proofs.SymLink Proofs.OwnPrim Proofs.OwnAll
  Proofs.C19Proofs Proofs.C19Once Proofs.WFCorollaries Proofs.C07Proofs Proofs.C07Full
  Proofs.Acyclic Proofs.C07Hist.
Import ListNotations.
Local Open Scope nat_scope.

(* C07Full's desc and C19's descends are the same relation *)
Lemma desc_descends m s (a d : oid) : desc m s a d <-> descends m s a d.
Proof.
  split; intros H.
  - induction H as [x c H|x c d H _ IH]; [apply C19Proofs.desc_child; exact H|].
    eapply desc_trans; [exact H | exact IH].
  - induction H as [x c H|x c d H _ IH]; [apply C07Full.desc_child; exact H|].
    eapply desc_step; [exact H | exact IH].
Qed.

(* a (transitive) content has its ancestor on its container chain *)
Lemma desc_up m s (a d : oid) : own_ok m s -> desc m s a d -> exists n, up s (S n) d = Some a.
Proof.
  intros Ho H. apply desc_descends in H. destruct (descends_descends_in m s a d H) as [n Hn].
  pose proof (descends_in_up m s n a d Ho Hn) as Hu.
  destruct n as [|n]; [inversion Hn | exists n; exact Hu].
Qed.

Lemma child_up m s (x c : oid) : own_ok m s -> In c (econtents m s x) -> up s 1 c = Some x.
Proof. intros Ho H. destruct (econtents_cont m s x c Ho H) as [f Hf]. simpl. rewrite Hf. reflexivity. Qed.

(* in an acyclic single-owner containment, the subtrees of two distinct children of x share nothing *)
Lemma sibling_subtrees_disjoint s (x c k z : oid) a b :
  acyclic_cont s -> up s 1 c = Some x -> up s 1 k = Some x ->
  up s a z = Some c -> up s b z = Some k -> c = k.
Proof.
  intros Hac Hc Hk Ha Hb.
  assert (A : up s (a + 1) z = Some x) by (rewrite up_add, Ha; exact Hc).
  assert (B : up s (b + 1) z = Some x) by (rewrite up_add, Hb; exact Hk).
  assert (E : a = b) by (pose proof (up_len_unique s _ _ z x Hac A B); lia).
  subst b. congruence.
Qed.

(* what a recursive delete of c visits lies on c's side: c itself or below c in the CALLING state s *)
Lemma deleted_up m fuel s acc (c d : oid) :
  own_ok m s -> shrinks s acc -> In d (deleted m fuel acc c true) -> exists n, up s n d = Some c.
Proof.
  intros Ho Hs Hin. destruct (deleted_in_subtree m fuel acc c true d Hin) as [E|E].
  - subst d. exists 0. reflexivity.
  - apply (desc_shrinks m s acc c d Hs) in E. destruct (desc_up m s c d Ho E) as [n Hn]. exists (S n). exact Hn.
Qed.

(* ---------- a subtree whose containment slots are untouched is still there ---------- *)
Lemma econtents_same m s acc (z c : oid) :
  (forall f, f_cont (fd m f) = true -> vals acc (z, f) = vals s (z, f)) ->
  In c (econtents m s z) -> In c (econtents m acc z).
Proof.
  intros He H. apply econtents_spec in H. destruct H as [f [Hf [Hc Hin]]].
  apply econtents_spec. exists f. split; [exact Hf|]. split; [exact Hc|]. rewrite (He f Hc). exact Hin.
Qed.

Lemma descends_in_transfer m s acc : own_ok m s -> forall n (k y : oid),
  descends_in m s n k y ->
  (forall (z : oid) b (f : fid), up s b z = Some k -> f_cont (fd m f) = true -> vals acc (z, f) = vals s (z, f)) ->
  descends_in m acc n k y.
Proof.
  intros Ho n k y H. induction H as [o c Hc|n o k c Hk Hd IH]; intros He.
  - apply desc1. apply (econtents_same m s acc o c); [|exact Hc]. intros f Hf. apply (He o 0 f eq_refl Hf).
  - eapply descS.
    + apply (econtents_same m s acc o k); [|exact Hk]. intros f Hf. apply (He o 0 f eq_refl Hf).
    + apply IH. intros z b f Hu Hf. destruct (econtents_cont m s o k Ho Hk) as [g Hg].
      exact (He z (S b) f (up_succ_r s b z k o g Hu Hg) Hf).
Qed.

(* the deletion only erases container pointers *)
Lemma acyclic_delete_obj m fuel s (x : oid) r : acyclic_cont s -> acyclic_cont (delete_obj fuel m s x r).
Proof.
  intros Hac. apply (acyclic_no_edges s _ Hac). apply E_delete_obj. apply edges_refl.
Qed.

Section Converse.
Variable m : mm.
Hypothesis W : wf_mm m.

(* deleting the subtree of one child c leaves every containment slot below another child k as it was *)
Lemma sibling_frame fu s acc (x c k z : oid) b (f : fid) :
  WF m s -> acyclic_cont s -> WF m acc -> shrinks s acc ->
  In c (econtents m s x) -> In k (econtents m s x) -> c <> k ->
  up s b z = Some k -> f_cont (fd m f) = true ->
  vals acc (z, f) = vals s (z, f) ->
  vals (delete_obj fu m acc c true) (z, f) = vals s (z, f).
Proof.
  intros Hw Hac Hwa Hs Hc Hk Nck Hz Hf Heq.
  pose proof (wf_own m s Hw) as Ho.
  pose proof (child_up m s x c Ho Hc) as Uc. pose proof (child_up m s x k Ho Hk) as Uk.
  rewrite <- Heq. apply (delete_rec_frame_unrelated_gen m (wf_mm_wf_opp m W)).
  - exact (wf_sym m acc Hwa).
  - exact (shape2_shape m acc (wf_shape m acc Hwa)).
  - intros Hin. destruct (deleted_up m fu s acc c z Ho Hs Hin) as [a Ha].
    exact (Nck (sibling_subtrees_disjoint s x c k z a b Hac Uc Uk Ha Hz)).
  - intros d Hin Hv. rewrite Heq in Hv.
    assert (Hcd : cont s d = Some (z, f)) by (apply Ho; split; assumption).
    assert (Hd : up s (1 + b) d = Some k) by (rewrite up_add; simpl; rewrite Hcd; exact Hz).
    destruct (deleted_up m fu s acc c d Ho Hs Hin) as [a Ha].
    exact (Nck (sibling_subtrees_disjoint s x c k d a (1 + b) Hac Uc Uk Ha Hd)).
Qed.

Definition visit (fu : nat) (p : state * list oid) (c : oid) : state * list oid :=
  (delete_obj fu m (fst p) c true, snd p ++ deleted m fu (fst p) c true).

Lemma visit_mono fu l : forall acc D0 (e : oid), In e D0 -> In e (snd (fold_left (visit fu) l (acc, D0))).
Proof.
  induction l as [|c l IH]; intros acc D0 e He; cbn [fold_left]; [exact He|].
  unfold visit at 2. cbn [fst snd]. apply IH. apply in_or_app. left. exact He.
Qed.

(* the walk over the children of x, given the statement for smaller fuel *)
Lemma fold_reaches fu s (x : oid) :
  WF m s -> acyclic_cont s ->
  (forall acc (k y : oid) n, WF m acc -> acyclic_cont acc -> descends_in m acc n k y -> n < fu ->
                             In y (deleted m fu acc k true)) ->
  forall l acc D0,
    NoDup l -> (forall c, In c l -> In c (econtents m s x)) ->
    WF m acc -> acyclic_cont acc -> shrinks s acc ->
    (forall (c z : oid) b (f : fid), In c l -> up s b z = Some c -> f_cont (fd m f) = true ->
                                     vals acc (z, f) = vals s (z, f)) ->
    forall (k y : oid) n, In k l -> descends_in m s n k y -> n < fu ->
    In y (snd (fold_left (visit fu) l (acc, D0))).
Proof.
  intros Hw Hac IHf. pose proof (wf_own m s Hw) as Ho.
  induction l as [|c0 l IHl]; intros acc D0 Hnd Hsub Hwa Haa Hs Hpres k y n Hk Hd Hn; [destruct Hk|].
  inversion Hnd as [|? ? Hnotin Hnd']; subst.
  cbn [fold_left]. unfold visit at 2. cbn [fst snd]. destruct Hk as [E|Hk].
  - subst c0. apply visit_mono. apply in_or_app. right.
    apply (IHf acc k y n Hwa Haa); [|exact Hn].
    apply (descends_in_transfer m s acc Ho n k y Hd).
    intros z b f Hu Hf. exact (Hpres k z b f (or_introl eq_refl) Hu Hf).
  - apply (IHl (delete_obj fu m acc c0 true) (D0 ++ deleted m fu acc c0 true) Hnd') with (k := k) (n := n);
      [| | | | |exact Hk|exact Hd|exact Hn].
    + intros c Hc. apply Hsub. right. exact Hc.
    + apply (WF_delete_obj m W). exact Hwa.
    + apply acyclic_delete_obj. exact Haa.
    + eapply shrinks_trans; [exact Hs | apply delete_only_removes].
    + intros c z b f Hc Hu Hf.
      apply (sibling_frame fu s acc x c0 c z b f Hw Hac Hwa Hs); try assumption.
      * apply Hsub. left. reflexivity.
      * apply Hsub. right. exact Hc.
      * intros E. subst c. exact (Hnotin Hc).
      * exact (Hpres c z b f (or_intror Hc) Hu Hf).
Qed.

(* (T1) every transitive content of x at depth n < fuel is visited by the recursive delete *)
Theorem descendants_deleted fuel : forall s (x y : oid) n,
  WF m s -> acyclic_cont s -> descends_in m s n x y -> n < fuel -> In y (deleted m fuel s x true).
Proof.
  induction fuel as [|fu IH]; intros s x y n Hw Hac Hd Hn; [lia|].
  destruct Hd as [o c Hc|n o k c Hk Hd].
  - destruct fu as [|fu']; [lia|]. apply children_deleted. exact Hc.
  - cbn [deleted]. apply in_or_app. left.
    change (In c (snd (fold_left (visit fu) (econtents m s o) (s, [])))).
    apply (fold_reaches fu s o Hw Hac (fun acc k0 y0 n0 => IH acc k0 y0 n0) (econtents m s o) s [])
      with (k := k) (n := n); try assumption.
    + apply (WF_econtents_NoDup m s Hw).
    + intros c0 Hc0. exact Hc0.
    + apply shrinks_refl.
    + intros; reflexivity.
    + lia.
Qed.

(* with fuel above the number of objects: deleted = {x} + the transitive contents of x, as sets *)
Theorem deleted_iff_subtree fuel s (x d : oid) :
  WF m s -> acyclic_cont s -> in_universe m s -> length (ocls m) < fuel ->
  (In d (deleted m fuel s x true) <-> d = x \/ descends m s x d).
Proof.
  intros Hw Hac Hu Hf. split.
  - intros Hin. destruct (deleted_in_subtree m fuel s x true d Hin) as [E|E]; [left; exact E|].
    right. apply desc_descends. exact E.
  - intros [E|Hd].
    + subst d. destruct fuel as [|fu]; [lia | apply deleted_self].
    + destruct (descends_within_universe m s x d (wf_own m s Hw) Hac (in_universe_children m s Hu) Hd)
        as [n [Hn Hdn]].
      apply (descendants_deleted fuel s x d n Hw Hac Hdn). lia.
Qed.

Corollary eallcontents_deleted fuel fuel' s (x y : oid) :
  WF m s -> acyclic_cont s -> in_universe m s -> length (ocls m) < fuel ->
  In y (eallcontents fuel' m s x) -> In y (deleted m fuel s x true).
Proof.
  intros Hw Hac Hu Hf Hy. apply (deleted_iff_subtree fuel s x y Hw Hac Hu Hf).
  right. exact (eallcontents_sound m s fuel' x y Hy).
Qed.

(* every visited object has all its own references emptied, and they stay empty *)
Lemma fold_nonrec_shrinks D : forall s, shrinks s (fold_left (nonrec m) D s).
Proof.
  induction D as [|d D IH]; intros s; cbn [fold_left]; [apply shrinks_refl|].
  eapply shrinks_trans; [apply (delete_only_removes m 1 s d false) | apply IH].
Qed.

Theorem deleted_hold_nothing fuel s (x : oid) r (d : oid) (f : fid) (b : oid) :
  In d (deleted m fuel s x r) -> In f (ref_feats m d) ->
  ~ In (VObj b) (vals (delete_obj fuel m s x r) (d, f)).
Proof.
  intros Hin Hf. rewrite delete_obj_trace.
  apply in_split in Hin. destruct Hin as [D1 [D2 E]]. rewrite E, fold_left_app. cbn [fold_left].
  intros Hb. apply (fold_nonrec_shrinks D2) in Hb. unfold nonrec at 1 in Hb.
  exact (delete_empties_own_references m 0 _ d false f b Hf Hb).
Qed.
End Converse.

Print Assumptions descendants_deleted.
Print Assumptions deleted_iff_subtree.

(* ---------- (T2) every fitting history followed by x.delete(recursive=True) ---------- *)
Section TransHist.
Variable m : mm.
Hypothesis W : wf_mm m.
Hypothesis Hty : wf_typed m.
Hypothesis Dn : ref_defaults_none m.
Variable ops : list op.
Hypothesis Hfit : fits_history m (init_state m) ops.
Hypothesis Happl : Forall (op_appl m) ops.

Let s0 := reach m ops.
Let N := length (ocls m).

Lemma trans_many : Forall (op_many m) ops.
Proof. exact (fits_history_many m ops _ Hfit). Qed.

(* the objects visited by the delete are exactly x and its transitive contents in the reached state *)
Theorem history_deleted_iff_subtree (x d : oid) :
  In d (deleted m (S N) s0 x true) <-> d = x \/ descends m s0 x d.
Proof.
  apply (deleted_iff_subtree m W).
  - exact (fit_WF m W Dn ops Hfit).
  - exact (fit_acyclic m W Dn ops Hfit).
  - exact (fit_universe m W Dn ops Hfit).
  - unfold N. lia.
Qed.

(* x and every transitive content of x: no container, no reference held, held by no reference slot *)
Theorem history_recursive_delete_whole_subtree (x y : oid) :
  y = x \/ descends m s0 x y ->
  cont (next m s0 (ODelete x true)) y = None /\
  (forall f b, In f (ref_feats m y) -> ~ In (VObj b) (vals (next m s0 (ODelete x true)) (y, f))) /\
  (forall a f, refslot m f -> ~ In (VObj y) (vals (next m s0 (ODelete x true)) (a, f))).
Proof.
  intros Hy. apply history_deleted_iff_subtree in Hy. split; [|split].
  - exact (wf_history_deleted_uncontained m W Hty Dn ops trans_many Happl x true y Hy).
  - intros f b Hf. unfold next, step; cbn [fst snd]. exact (deleted_hold_nothing m _ s0 x true y f b Hy Hf).
  - intros a f Hrs. exact (wf_history_delete_no_dangling m W Hty Dn ops trans_many Happl x true y a f Hy Hrs).
Qed.
End TransHist.

Print Assumptions history_recursive_delete_whole_subtree.

(* ---------- (T3) the premises are satisfiable: 0 > {1 > 2 > 3, 4}, 5 watches 0, 2, 3 ---------- *)
(* class 0: kids (0, containment, many, opposite parent), parent (1), watch (2, plain unique collection) *)
Definition ex_mm_chain : mm :=
  {| feats := [ {| f_owner := 0; f_isref := true; f_many := true; f_unique := true; f_cont := true;
                   f_opp := Some 1; f_type := TClass 0; f_default := VNone |};
                {| f_owner := 0; f_isref := true; f_many := false; f_unique := true; f_cont := false;
                   f_opp := Some 0; f_type := TClass 0; f_default := VNone |};
                {| f_owner := 0; f_isref := true; f_many := true; f_unique := true; f_cont := false;
                   f_opp := None; f_type := TClass 0; f_default := VNone |} ];
     conf := [(0, 0)]; ocls := [0; 0; 0; 0; 0; 0]; enames := []; nres := 1 |}.

Definition ex_chain_ops : list op :=
  [OAppend 0 0 (VObj 1); OAppend 1 0 (VObj 2); OAppend 2 0 (VObj 3); OSet 4 1 (VObj 0);
   OExtend 5 2 [VObj 0; VObj 2; VObj 3]; OAppend 3 2 (VObj 5)].

Ltac ccase f := destruct f as [|[|[|f]]]; [| | |destruct f]; cbn.

Lemma ex_mm_chain_ok :
  wf_mm ex_mm_chain /\ wf_typed ex_mm_chain /\ ref_defaults_none ex_mm_chain /\
  fits_history ex_mm_chain (init_state ex_mm_chain) ex_chain_ops /\ Forall (op_appl ex_mm_chain) ex_chain_ops.
Proof.
  assert (W : wf_mm ex_mm_chain).
  { constructor.
    - intros f g. ccase f; intros H; inversion H; reflexivity.
    - intros f g. ccase f; intros H; try reflexivity; discriminate.
    - intros f. ccase f; intros H; try reflexivity; discriminate.
    - intros f. ccase f; intros H _; try reflexivity; discriminate.
    - intros f g. ccase f; intros H H2; try discriminate; inversion H; subst g; split; reflexivity.
  }
  assert (D : ref_defaults_none ex_mm_chain).
  { intros f. ccase f; intros H H2; try reflexivity; discriminate. }
  split; [exact W|]. split; [|split; [exact D|split]].
  - intros f g. ccase f; intros H; inversion H; subst g; cbn; repeat split; lia.
  - apply (fits_b_sound_init ex_mm_chain W D). vm_compute. reflexivity.
  - repeat (constructor; [first [exact I | intros _; vm_compute; tauto]|]). constructor.
Qed.

(* x.delete() on the root of a chain of depth 3: the computed walk, and the theorem applied to the
   grandchild 2 and the great-grandchild 3 *)
Example transitive_delete_witness :
  let m := ex_mm_chain in
  let s := reach m ex_chain_ops in
  let s' := next m s (ODelete 0 true) in
  (wf_mm m /\ wf_typed m /\ ref_defaults_none m /\
   fits_history m (init_state m) ex_chain_ops /\ Forall (op_appl m) ex_chain_ops) /\
  (map (cont s) [0; 1; 2; 3; 4; 5], vals s (5, 2), vals s (3, 2)) =
    ([None; Some (0, 0); Some (1, 0); Some (2, 0); Some (0, 0); None], [VObj 0; VObj 2; VObj 3], [VObj 5]) /\
  eallcontents 7 m s 0 = [1; 4; 2; 3] /\
  deleted m (S (length (ocls m))) s 0 true = [3; 2; 1; 4; 0] /\
  descends m s 0 2 /\ descends m s 0 3 /\
  (* by the theorem *)
  (cont s' 3 = None /\ (forall f b, In f (ref_feats m 3) -> ~ In (VObj b) (vals s' (3, f))) /\
   (forall a f, refslot m f -> ~ In (VObj 3) (vals s' (a, f)))) /\
  (* by computation *)
  (map (cont s') [0; 1; 2; 3; 4; 5], map (fun o => vals s' (o, 0)) [0; 1; 2; 3; 4; 5], vals s' (5, 2), vals s' (3, 2)) =
    ([None; None; None; None; None; None], [[]; []; []; []; []; []], [], []).
Proof.
  cbv zeta. destruct ex_mm_chain_ok as [W [Ty [D [Hf Ha]]]].
  assert (D2 : descends ex_mm_chain (reach ex_mm_chain ex_chain_ops) 0 2).
  { apply (eallcontents_sound _ _ 7). vm_compute. tauto. }
  assert (D3 : descends ex_mm_chain (reach ex_mm_chain ex_chain_ops) 0 3).
  { apply (eallcontents_sound _ _ 7). vm_compute. tauto. }
  split; [exact (conj W (conj Ty (conj D (conj Hf Ha))))|].
  split; [vm_compute; reflexivity|]. split; [vm_compute; reflexivity|]. split; [vm_compute; reflexivity|].
  split; [exact D2|]. split; [exact D3|]. split.
  - exact (history_recursive_delete_whole_subtree ex_mm_chain W Ty D ex_chain_ops Hf Ha 0 3 (or_intror D3)).
  - vm_compute. reflexivity.
Qed.
