(* Soundness of the deciders of Model/IdFragPremises.v: head_okb b s h = true -> head_ok s h when the state has
   finite support below b; corollaries: the history theorems with the boolean premise. *)
From Coq Require Import ZArith List Bool Lia.
From PyecoreV Require Import Model.IdFrag Model.IdFragPremises Proofs.IdFragProofs.
Import ListNotations.
Local Open Scope Z_scope.

(* no object >= b carries an id or is in the tree *)
Definition supp (b : nat) (s : state) : Prop :=
  (forall x, (b <= x)%nat -> internal s x = None /\ idattr s x = None) /\
  (forall x, In x (members s) -> (x < b)%nat).

Lemma supp_init : forall b n, supp b (init n).
Proof. intros b n. split; [intros x _; split; reflexivity | intros x []]. Qed.

Lemma supp_assign : forall v b s o, (o < b)%nat -> supp b s -> supp b (assign v s o).
Proof.
  intros v b s o Ho [A M]. unfold assign. destruct (internal s o) eqn:E; [split; assumption|].
  split; simpl; [|exact M]. intros x Hx. destruct (A x Hx) as [A1 A2].
  rewrite upd_other by lia. split; assumption.
Qed.

Lemma supp_save_members : forall v b l s, (forall x, In x l -> (x < b)%nat) -> supp b s ->
  supp b (fst (save_members v s l)).
Proof.
  induction l as [|o r IH]; intros s L S; simpl; [exact S|].
  set (s1 := if use_uuid s then assign v s o else s).
  assert (S1 : supp b s1) by (unfold s1; destruct (use_uuid s); [apply supp_assign; [apply L; left; reflexivity|]|]; exact S).
  assert (L' : forall x, In x r -> (x < b)%nat) by (intros x H; apply L; right; exact H).
  specialize (IH s1 L' S1). destruct (save_members v s1 r). exact IH.
Qed.

Lemma supp_load_entry : forall v b s e, (e_ob e < b)%nat -> supp b s -> supp b (load_entry v s e).
Proof.
  intros v b s [[o u] t] Ho [A M]. unfold e_ob in Ho. simpl in Ho. split.
  - intros x Hx. destruct (A x Hx) as [A1 A2].
    assert (N : x <> o) by lia.
    destruct u, t; simpl; destruct (loader_sets_internal v); repeat rewrite (upd_other _ _ _ _ _ N);
      split; assumption.
  - intros x. destruct u, t; simpl; rewrite in_app_iff; simpl; intros [H|[<-|[]]]; auto.
Qed.

Lemma supp_load_fold : forall v b d s, forallb (fun e => Nat.ltb (e_ob e) b) d = true -> supp b s ->
  supp b (fold_left (load_entry v) d s).
Proof.
  induction d as [|e r IH]; intros s F S; simpl; [exact S|].
  simpl in F. apply andb_true_iff in F. destruct F as [F1 F2].
  apply IH; [exact F2 | apply supp_load_entry; [apply Nat.ltb_lt; exact F1 | exact S]].
Qed.

Lemma supp_load : forall v b d s, forallb (fun e => Nat.ltb (e_ob e) b) d = true -> supp b s -> supp b (load v s d).
Proof.
  intros v b d s F S. unfold load. destruct d as [|[[o u] t] r]; [exact S|].
  apply supp_load_fold; [exact F | destruct S as [A M]; split; assumption].
Qed.

Lemma forallb_ob_lt : forall b (d : doc), (forall x, In x (map ob d) -> (x < b)%nat) ->
  forallb (fun e => Nat.ltb (e_ob e) b) d = true.
Proof.
  intros b d H. apply forallb_forall. intros e I. apply Nat.ltb_lt. apply H.
  change (e_ob e) with (ob e). apply in_map. exact I.
Qed.

Lemma supp_step : forall v b s a, supp b s -> op_in b a = true -> supp b (step v s a).
Proof.
  intros v b s a S K. destruct a as [|d| |o|o|o t|o|bb]; simpl in *.
  - apply supp_save_members; [apply S | exact S].
  - apply supp_load; assumption.
  - unfold save. pose proof (supp_save_members v b (members s) s (proj2 S) S) as S1.
    destruct (save_doc v (members s) s) as [Mo _].
    destruct (save_members v s (members s)) as [s1 d]. simpl in *.
    apply supp_load; [|split; [intros x _; split; reflexivity | intros x []]].
    apply forallb_ob_lt. rewrite Mo. apply S.
  - apply Nat.ltb_lt in K. destruct (mem o (members s)); [exact S|]. destruct S as [A M]. split; simpl; [exact A|].
    intros x. rewrite in_app_iff. simpl. intros [H|[<-|[]]]; auto.
  - destruct S as [A M]. split; simpl; [exact A|]. intros x H. apply M. eapply remove_obj_incl. exact H.
  - apply Nat.ltb_lt in K. destruct S as [A M]. split; simpl; [|exact M]. intros x Hx. destruct (A x Hx) as [A1 A2].
    rewrite upd_other by lia. split; assumption.
  - apply Nat.ltb_lt in K. destruct (mem o (members s)); [|exact S].
    unfold fragment_step. destruct (use_uuid s); simpl; [apply supp_assign; assumption | exact S].
  - destruct S as [A M]. split; assumption.
Qed.

(* ---- the deciders are sound *)
Lemma opt_is_iff : forall x z, opt_is x z = true <-> x = Some z.
Proof.
  intros [y|] z; simpl; [rewrite Z.eqb_eq; split; [intros ->; reflexivity | intro H; inversion H; reflexivity]|].
  split; discriminate.
Qed.

Lemma owns_b_iff : forall s x z, owns_b s x z = true <-> owns s x z.
Proof. intros. unfold owns_b, owns. rewrite orb_true_iff, !opt_is_iff. tauto. Qed.

Lemma supp_not_owns : forall b s x z, supp b s -> (b <= x)%nat -> ~ owns s x z.
Proof. intros b s x z [A _] Hx [H|H]; destruct (A x Hx) as [A1 A2]; congruence. Qed.

Lemma free_id_sound : forall b s z, supp b s -> free_id b s z = true -> forall x, ~ owns s x z.
Proof.
  intros b s z S F x O. destruct (Nat.lt_ge_cases x b) as [L|G]; [|exact (supp_not_owns b s x z S G O)].
  unfold free_id in F. rewrite forallb_forall in F.
  assert (I : In x (seq 0 b)) by (apply in_seq; lia).
  specialize (F x I). apply owns_b_iff in O. rewrite O in F. discriminate.
Qed.

Lemma only_owner_sound : forall b s o z, supp b s -> only_owner b s o z = true -> forall x, owns s x z -> x = o.
Proof.
  intros b s o z S F x O. destruct (Nat.lt_ge_cases x b) as [L|G]; [|exfalso; exact (supp_not_owns b s x z S G O)].
  unfold only_owner in F. rewrite forallb_forall in F.
  assert (I : In x (seq 0 b)) by (apply in_seq; lia).
  specialize (F x I). apply owns_b_iff in O. rewrite O in F. simpl in F. apply Nat.eqb_eq. exact F.
Qed.

Lemma nodupb_sound : forall l, nodupb l = true -> NoDup l.
Proof.
  induction l as [|x r IH]; simpl; intro H; [constructor|].
  apply andb_true_iff in H. destruct H as [H1 H2]. constructor; [|auto].
  intro I. apply mem_In in I. rewrite I in H1. discriminate.
Qed.

Lemma memz_iff : forall z l, memz z l = true <-> In z l.
Proof.
  intros z l. unfold memz. rewrite existsb_exists. split.
  - intros [y [I E]]. apply Z.eqb_eq in E. subst. exact I.
  - intro I. exists z. split; [exact I | apply Z.eqb_refl].
Qed.

Lemma load_okb_sound : forall b s d, supp b s -> load_okb b s d = true -> load_ok s d.
Proof.
  intros b s d S H. unfold load_okb in H.
  apply andb_true_iff in H. destruct H as [H H4].
  apply andb_true_iff in H. destruct H as [H H3].
  apply andb_true_iff in H. destruct H as [H1 H2].
  rewrite forallb_forall in H2, H3, H4.
  split; [|split; [|split]].
  - apply nodupb_sound. exact H1.
  - intros e1 e2 z I1 I2 J1 J2. specialize (H2 e1 I1). rewrite forallb_forall in H2. specialize (H2 e2 I2).
    rewrite forallb_forall in H2. specialize (H2 z J1).
    apply orb_true_iff in H2. destruct H2 as [N|E]; [|apply Nat.eqb_eq; exact E].
    assert (M : memz z (e_ids e2) = true) by (apply memz_iff; exact J2). rewrite M in N. discriminate.
  - intros e I A. specialize (H3 e I). apply mem_In in A. change (ob e) with (e_ob e) in A. rewrite A in H3. discriminate.
  - intros z I. unfold ids in I. apply in_flat_map in I. destruct I as [e [I J]].
    specialize (H4 e I). rewrite forallb_forall in H4. specialize (H4 z J).
    apply andb_true_iff in H4. destruct H4 as [L F]. split; [apply Z.ltb_lt; exact L | exact (free_id_sound b s z S F)].
Qed.

Lemma op_okb_sound : forall b s a, supp b s -> op_okb b s a = true -> op_ok s a.
Proof.
  intros b s a S H. destruct a as [|d| |o|o|o [t|]|o|bb]; simpl in *; try exact I.
  - exact (load_okb_sound b s d S H).
  - apply andb_true_iff in H. destruct H as [L F]. split; [apply Z.ltb_lt; exact L | exact (only_owner_sound b s o t S F)].
Qed.

Lemma bound_editb_sound : forall s a, bound_editb s a = true -> bound_edit s a.
Proof.
  intros s a H. destruct a as [|d| |o|o|o [t|]|o|bb]; simpl in *; try exact I.
  destruct (lookup t (dict s)) as [x|]; [|discriminate]. apply Nat.eqb_eq in H. subst. reflexivity.
Qed.

Theorem head_okb_sound : forall b h s, supp b s -> head_okb b s h = true -> head_ok s h.
Proof.
  induction h as [|a r IH]; intros s S H; simpl in *; [exact I|].
  apply andb_true_iff in H. destruct H as [H H4].
  apply andb_true_iff in H. destruct H as [H H3].
  apply andb_true_iff in H. destruct H as [H1 H2].
  split; [exact (op_okb_sound b s a S H2)|]. split; [exact (bound_editb_sound s a H3)|].
  apply IH; [apply supp_step; assumption | exact H4].
Qed.

(* ---- the history theorems with the executable premise *)
Theorem head_okb_history_resolves : forall b n h o, head_okb b (init n) h = true ->
  In o (members (run head (init n) h)) ->
  resolve (run head (init n) h) (fragment_of (run head (init n) h) o) = Some o.
Proof. intros b n h o H. apply head_history_resolves. exact (head_okb_sound b h (init n) (supp_init b n) H). Qed.

Theorem head_okb_history_distinct : forall b n h o1 o2, head_okb b (init n) h = true ->
  In o1 (members (run head (init n) h)) -> In o2 (members (run head (init n) h)) ->
  fragment_of (run head (init n) h) o1 = fragment_of (run head (init n) h) o2 -> o1 = o2.
Proof. intros b n h o1 o2 H. apply head_history_distinct. exact (head_okb_sound b h (init n) (supp_init b n) H). Qed.

Example head_okb_ex : head_okb (hist_bound h_ex) (init 100) h_ex = true.
Proof. vm_compute. reflexivity. Qed.
