(* C06 - undo restores the previous model state; redo restores the next one.
   Statements only; proofs in Proofs/C06Proofs.v, C06Refs.v, C06More.v.  Model: Model/Commands.v
   (pyecore/commands.py statement by statement on the kernel model
   Model/Kernel.v, after the `fix:` commits listed in known_findings.json).

   Proved at full strength:
     * C06_stack_refinement  - for EVERY word over {execute c, undo, redo}, every command kind
       (Compound and Delete included) and every outcome (exceptions, can_execute False,
       can_undo False) the CommandStack (list + stack_index) stays well formed and denotes
       the pair (done, undone) that the two-list machine a_run computes;
     * C06_truncate          - a successful execute leaves undone = []: the next redo raises
       IndexError and changes neither model nor stack (redo never re-applies a superseded change).
   Proved per command kind on the kernel model (`inverts`: undo after execute gives back the
   observable state - all values with order, container, resource membership, resource contents -
   and redo after that undo gives back the state after the command; from every state that agrees
   on the observations):
     * Set on attributes and on references without containment and without opposite,
     * Add / Remove / Move on attribute collections (unique or not; any index in Z, default
       index, by value or by index; the recorded positions are the normalised ones).
   PARTIAL (names end with _partial): the word-level theorems - invariant of the (done, undone)
   history and `k undos then k redos = identity` (observations equal, stack literally equal) -
   hold for words whose executed commands are of the kinds above (first group) or, second group
   (Proofs/C06Refs.v, metamodels WITHOUT containment, invariant J = opposite ends symmetric and
   shaped (C01) + typed slots (C03) + duplicate-free unique attribute collections), also of the
   following kinds on references WITH an opposite (non self-opposite), each under the property's
   side condition "the command does not take its value away from an opposite partner":
     * Set on a single-valued reference (1-1 and 1-n), any previous value, new value None or an
       object that is nobody's partner yet (C06_set_ref_undo_redo),
     * Add on a many-valued reference, n-1 (the added element has no partner) and n-n
       (C06_add_ref_undo_redo),
     * Remove on a many-valued reference, n-1 and n-n (C06_remove_ref_undo_redo).
   Where undo re-links through append() on a MANY-valued opposite end (Set 1-n with a previous
   partner, Remove n-n) the exact (list) theorems carry the hypothesis that the owner was the LAST
   element of its partner's collection; in general only the members come back, the owner at the end:
   C06_set_ref_1n_members_partial, C06_remove_ref_nn_members_partial - and the list statement is
   false: C06_relink_order_refuted, C06_set_1n_relink_refuted (known finding F-C06-relink-order; the
   property tolerates such a reordering only after undoing a Delete).
   Third group (any metamodel): containment references WITHOUT opposite - Add / Remove on a
   containment collection and Set on a single-valued containment, when the child put under the
   owner is neither contained nor a resource root: values, order and CONTAINERS come back
   (C06_add_containment_undo_redo, C06_remove_containment_undo_redo, C06_set_containment_undo_redo).
   Fourth group (Proofs/C06More.v; well-formed metamodels wf_mm WITH containment, invariant K = the global
   well-formedness WF of Proofs/WFBase.v, preserved by every kernel operation, + typed slots + duplicate-free
   unique attribute collections):
     * COMPOUND, generically and for members of any number: members that `invert` one after the other in
       the states they meet make a compound whose undo (reverse order) / redo (in order) invert as a whole
       (C06_compound_undo_redo, _effect, _execute); what Compound.can_execute / can_undo ask in the model
       (C06_compound_can_execute_spec: every member BEFORE the first runs; C06_compound_can_undo_spec: every
       member on the FINAL state); C06_compound_closure closes any covered set of primitive commands under
       (nested) Compound, the roll-back of a compound whose member raises included, under exactly the two
       side conditions whose failure is a known finding: a member is accepted on its own, with the same
       recorded fields, in the state it meets (else F-C06-compound-members-interfere) and Compound.can_undo
       accepts at the end (else F-C06-compound-can-undo; C06_compound_can_undo_needed_refuted and
       C06_compound_can_undo_refuted exhibit it);
     * containment WITH an opposite (children <-> single-valued container end): Add / Remove on the
       containment collection, Set on a single-valued containment, for an unowned new child and any previous
       child (values, order, containers, resource membership: C06_add_/remove_/set_container_end_undo_redo),
       Move inside the containment collection, with or without container end (C06_move_containment_undo_redo),
       and Set on the container end itself (link an unowned object; unset when the object is the last child,
       C06_set_on_container_end_*; without `last child` false: C06_set_on_container_end_relink_refuted,
       F-C06-relink-order);
     * Add / Remove / Move on collections of references WITHOUT containment and without opposite (any
       metamodel; C06_add_/remove_/move_plain_ref_undo_redo);
     * the word-level theorems for all of this: invariant of the (done, undone) history and k undos then
       k redos = identity for words over attributes, plain references, containment with and without container
       end (Set / Add / Remove / Move), Set on container ends and Compounds thereof, each command meeting its side condition in the
       state it meets (C06_words_invariant_containment_partial, C06_k_undo_k_redo_containment_partial); the
       same with plain reference collections added, under K2 = K + unique collections hold an object at most
       once (C06_words_invariant_all_partial, C06_k_undo_k_redo_all_partial); and for the reference kinds
       of the second group closed under Compound (..._refs_compound_partial);
     * DELETE: execute / redo / undo of any Delete keep WF (C06_delete_keeps_WF).  Undo restores the
       observable state for the Delete of a LEAF child (no contents, no link but its container end, empty
       inverse set): every value, container and resource membership back, the parent's collection with
       the same members and the deleted child at the END (C06_delete_leaf_undo_partial), exactly when it
       was the last child (C06_delete_leaf_undo_exact_partial); redo from there gives the state after
       the Delete and the same recorded command (C06_delete_leaf_execute_redo_partial).  The order of
       the parent's collection is NOT restored in general although its opposite is single-valued
       (C06_delete_undo_child_order_refuted, F-C06-relink-order; same on the implementation).
   STILL MISSING as theorems: Delete beyond the leaf case (contents, cross references, holders found through
   the inverse set) and Delete inside the word-level theorems - redo of a Delete reads EObject._inverse_rels,
   which the observation obs_eq (values, containers, resources) does not determine, so `inverts` as used by
   the word-level invariant is too coarse for Delete; references with an opposite inside metamodels that
   also have containment (the second group assumes no containment at all); Set that re-parents (container
   end from one container to another) or sets the value already held; self-opposite references; Move on
   references with an opposite.  For these the model is tied to the implementation by the correspondence only, and the
   implementation is known NOT to satisfy the property in the situations listed in known_findings.json
   (ids F-C06-...). *)
From Coq Require Import ZArith List Bool.
From PyecoreV Require Import Lib.PyBase Lib.PyList Model.Kernel Model.Commands
     Proofs.C01Proofs Proofs.C01Full Proofs.C03Proofs Proofs.WFBase Proofs.SymLink
     Proofs.C06Proofs Proofs.C06Refs Proofs.C06More.
From PyecoreV Require Proofs.Acyclic.
Import ListNotations.
Open Scope Z_scope.

Theorem C06_stack_refinement :
  forall m s w,
    wf_stack (snd (st_run m (s, empty_stack) w)) /\
    abs (st_run m (s, empty_stack) w) = a_run m (s, [], []) w.
Proof. exact stack_refinement_from_empty. Qed.
Print Assumptions C06_stack_refinement.

(* from any well-formed stack, one operation at a time, outcome included *)
Theorem C06_stack_step_refinement :
  forall m ms o,
    wf_stack (snd ms) ->
    wf_stack (snd (snd (st_step m ms o))) /\
    (fst (st_step m ms o), abs (snd (st_step m ms o))) = a_step m (abs ms) o.
Proof. exact st_step_refines. Qed.
Print Assumptions C06_stack_step_refinement.

Theorem C06_truncate :
  forall m s k c s' k',
    wf_stack k ->
    st_execute m (s, k) c = (None, (s', k')) ->
    undone_of k' = [] /\ st_redo m (s', k') = (Some IndexErr, (s', k')).
Proof. exact truncate_after_execute. Qed.
Print Assumptions C06_truncate.

Theorem C06_set_undo_redo :
  forall m s x f v p s' c',
    plain m f -> f_many (fd m f) = false -> cell_wt m f (vals s (x, f)) ->
    execute m s (CSet x f v p) = ((None, s'), c') ->
    inverts m c' s s' /\ only_cell s s' (x, f) [v] /\ cell_wt m f [v].
Proof. exact set_inverts. Qed.
Print Assumptions C06_set_undo_redo.

Theorem C06_add_attr_undo_redo :
  forall m s x f v idx c1 s' c',
    attr_many m f -> cell_wt m f (vals s (x, f)) ->
    can_execute m s (CAdd x f v idx) = (Ok true, c1) ->
    execute m s c1 = ((None, s'), c') ->
    exists i', c' = CAdd x f v (Some i') /\
               inverts m c' s s' /\ only_cell s s' (x, f) (py_insert i' v (vals s (x, f))) /\
               cell_wt m f (py_insert i' v (vals s (x, f))).
Proof. exact add_inverts. Qed.
Print Assumptions C06_add_attr_undo_redo.

Theorem C06_remove_attr_undo_redo :
  forall m s x f v idx c1 s' c',
    attr_many m f -> cell_wt m f (vals s (x, f)) ->
    can_execute m s (CRemove x f v idx) = (Ok true, c1) ->
    execute m s c1 = ((None, s'), c') ->
    exists i w l2, c' = CRemove x f w (Some i) /\
                   inverts m c' s s' /\ only_cell s s' (x, f) l2 /\ cell_wt m f l2.
Proof. exact remove_inverts. Qed.
Print Assumptions C06_remove_attr_undo_redo.

Theorem C06_move_attr_undo_redo :
  forall m s x f v from to c1 s' c',
    attr_many m f -> cell_wt m f (vals s (x, f)) ->
    (is_none v = true \/ from = None) ->
    can_execute m s (CMove x f v from to) = (Ok true, c1) ->
    execute m s c1 = ((None, s'), c') ->
    exists fr w to' l2, c' = CMove x f w (Some fr) to' /\
                        inverts m c' s s' /\ only_cell s s' (x, f) l2 /\ cell_wt m f l2.
Proof. exact move_inverts. Qed.
Print Assumptions C06_move_attr_undo_redo.

(* a covered command that raises (wrong type, absent element, index out of range) changes nothing *)
Theorem C06_failed_execute_no_effect_partial :
  forall m s c c1 e s' c2,
    wt m s -> covered m c ->
    can_execute m s c = (Ok true, c1) -> execute m s c1 = ((Some e, s'), c2) -> s' = s.
Proof. exact covered_exec_raise. Qed.
Print Assumptions C06_failed_execute_no_effect_partial.

Theorem C06_words_invariant_partial :
  forall m s0 w,
    wt m s0 -> Forall (op_ok m) w -> ainv m (abs (st_run m (s0, empty_stack) w)).
Proof. exact invariant_of_words. Qed.
Print Assumptions C06_words_invariant_partial.

Theorem C06_k_undo_k_redo_partial :
  forall m s0 w k,
    wt m s0 -> Forall (op_ok m) w ->
    let ms := st_run m (s0, empty_stack) w in
    (k <= length (done_of (snd ms)))%nat ->
    let ms' := st_run m ms (repeat SUndo k ++ repeat SRedo k) in
    obs_eq (fst ms') (fst ms) /\ snd ms' = snd ms.
Proof. exact k_undo_k_redo. Qed.
Print Assumptions C06_k_undo_k_redo_partial.

(* ---------- non-vacuity ---------- *)
(* the hypotheses of the word-level theorems are satisfiable: a well-typed start state ... *)
Example C06_wt_witness : wt ex_mm (init_state ex_mm).
Proof. exact ex_wt. Qed.

(* ... and a word that really executes commands of every covered kind (negative, over-range and
   default indices, removal by value and by index), undoes and redoes them *)
Definition ex_word : list sop :=
  [SExec (CSet 0%nat 0%nat (VInt 5) VNone); SExec (CAdd 0%nat 1%nat (VInt 7) None); SExec (CAdd 0%nat 1%nat (VInt 8) (Some (-5)));
   SExec (CAdd 0%nat 2%nat (VInt 1) (Some 9)); SExec (CAdd 0%nat 2%nat (VInt 1) None); SExec (CMove 0%nat 1%nat VNone (Some (-1)) (-7));
   SExec (CRemove 0%nat 1%nat VNone (Some (-1))); SExec (CRemove 0%nat 2%nat (VInt 1) None); SUndo; SUndo; SRedo].

Example C06_word_witness :
  let ms := st_run ex_mm (init_state ex_mm, empty_stack) ex_word in
  vals (fst ms) (0%nat, 0%nat) = [VInt 5] /\ vals (fst ms) (0%nat, 1%nat) = [VInt 7] /\
  vals (fst ms) (0%nat, 2%nat) = [VInt 1; VInt 1] /\ sidx (snd ms) = 6 /\ zlen (items (snd ms)) = 8 /\
  let ms' := st_run ex_mm ms (repeat SUndo 5 ++ repeat SRedo 5) in
  vals (fst ms') (0%nat, 1%nat) = [VInt 7] /\ vals (fst ms') (0%nat, 0%nat) = [VInt 5] /\ sidx (snd ms') = 6.
Proof. vm_compute. repeat split; reflexivity. Qed.

Example C06_word_witness_ok : Forall (op_ok ex_mm) ex_word.
Proof.
  repeat constructor; simpl; unfold plain, attr_many; simpl; auto.
Qed.

(* execute a; undo; execute b; redo  -> IndexError, b stays *)
Example C06_truncate_witness :
  let w := [SExec (CSet 0%nat 0%nat (VInt 1) VNone); SUndo; SExec (CSet 0%nat 0%nat (VInt 2) VNone)] in
  let ms := st_run ex_mm (init_state ex_mm, empty_stack) w in
  fst (st_step ex_mm ms SRedo) = Some IndexErr /\
  vals (fst (snd (st_step ex_mm ms SRedo))) (0%nat, 0%nat) = [VInt 2] /\ zlen (items (snd ms)) = 1.
Proof. vm_compute. repeat split; reflexivity. Qed.

(* ---------- known findings, exhibited on the model ---------- *)
(* F-C06-relink-order: b.bann = [a0, a1]; Remove(a0.abnn, b) then undo gives b.bann = [a1, a0] *)
Example C06_relink_order_refuted :
  let s0 := fold_left (next ex_mm) [OAppend 0%nat 3%nat (VObj 2%nat); OAppend 1%nat 3%nat (VObj 2%nat)] (init_state ex_mm) in
  let ms := st_run ex_mm (s0, empty_stack) [SExec (CRemove 0%nat 3%nat (VObj 2%nat) None); SUndo] in
  vals s0 (2%nat, 4%nat) = [VObj 0%nat; VObj 1%nat] /\ vals (fst ms) (2%nat, 4%nat) = [VObj 1%nat; VObj 0%nat] /\
  vals (fst ms) (0%nat, 3%nat) = vals s0 (0%nat, 3%nat).
Proof. vm_compute. repeat split; reflexivity. Qed.

(* F-C06-compound-can-undo: Compound(Add(7, 0), Remove(index 0)): can_undo is False on the final state,
   undo returns without doing anything and the compound stays on top of the stack *)
Example C06_compound_can_undo_refuted :
  let s0 := fold_left (next ex_mm) [OAppend 0%nat 1%nat (VInt 1)] (init_state ex_mm) in
  let ms := st_run ex_mm (s0, empty_stack)
                   [SExec (CCompound [CAdd 0%nat 1%nat (VInt 7) (Some 0); CRemove 0%nat 1%nat VNone (Some 0)])] in
  sidx (snd ms) = 0 /\ fst (st_step ex_mm ms SUndo) = None /\ sidx (snd (snd (st_step ex_mm ms SUndo))) = 0.
Proof. vm_compute. repeat split; reflexivity. Qed.

(* ====================================================================== *)
(* References with an opposite (no containment): Proofs/C06Refs.v          *)
(* ====================================================================== *)
Open Scope nat_scope.

(* Set x.f = v, f single-valued with opposite g (single- or many-valued), from any state satisfying the
   C01 invariant and typed (C03): undo (x.f = previous value) restores every slot, redo restores the state
   after the command.  free_for: v's g-slot is [None] (g single) / does not hold x (g many). *)
Theorem C06_set_ref_undo_redo :
  forall m, no_containment m -> wf_opp m ->
  forall f g, f_opp (fd m f) = Some g -> f <> g ->
  forall s x v p s' c',
    f_many (fd m f) = false -> Inv m s -> typed m s ->
    (forall y, v = VObj y -> free_for m g (vals s) x y) ->
    (f_many (fd m g) = true -> forall q, vals s (x, f) = [VObj q] -> lastv (VObj x) (vals s (q, g))) ->
    execute m s (CSet x f v p) = ((None, s'), c') ->
    inverts m c' s s' /\
    (forall k, vals s' k = Att m g v (Rel m g (single s (x, f)) (upd (vals s) (x, f) [v]) x) x k) /\
    crr s' = crr s /\ s' = snd (set_full m s (x, f) v).
Proof. exact set_ref_inverts. Qed.
Print Assumptions C06_set_ref_undo_redo.

Theorem C06_add_ref_undo_redo :
  forall m, no_containment m -> wf_opp m ->
  forall f g, f_opp (fd m f) = Some g -> f <> g ->
  forall s x y idx c1 s' c',
    f_many (fd m f) = true -> Inv m s ->
    (f_many (fd m g) = false -> vals s (y, g) = [VNone]) ->
    can_execute m s (CAdd x f (VObj y) idx) = (Ok true, c1) ->
    execute m s c1 = ((None, s'), c') ->
    exists i', c' = CAdd x f (VObj y) (Some i') /\
               inverts m c' s s' /\
               (forall k, vals s' k = upd (attv m g (vals s) x y) (x, f) (py_insert i' (VObj y) (vals s (x, f))) k) /\
               crr s' = crr s /\ exists pos, s' = snd (coll_add_full m s (x, f) pos (VObj y)).
Proof. exact add_ref_inverts. Qed.
Print Assumptions C06_add_ref_undo_redo.

Theorem C06_remove_ref_undo_redo :
  forall m, no_containment m -> wf_opp m ->
  forall f g, f_opp (fd m f) = Some g -> f <> g ->
  forall s x v idx c1 s' c',
    f_many (fd m f) = true -> Inv m s -> typed m s ->
    (forall w, In w (vals s (x, f)) -> exists o, w = VObj o) ->
    (f_many (fd m g) = true -> forall y, rm_target f s x v idx y -> lastv (VObj x) (vals s (y, g))) ->
    can_execute m s (CRemove x f v idx) = (Ok true, c1) ->
    execute m s c1 = ((None, s'), c') ->
    exists i y l2, c' = CRemove x f (VObj y) (Some i) /\
                   inverts m c' s s' /\
                   (forall k, vals s' k = upd (relv m g (vals s) x y) (x, f) l2 k) /\ crr s' = crr s /\
                   s' = snd (fst (coll_pop_full m s (x, f) i)).
Proof. exact remove_ref_inverts. Qed.
Print Assumptions C06_remove_ref_undo_redo.

(* the general many-to-many / one-to-many case: undo brings every slot back except that the partner's
   collection holds the same members with the owner at the END (F-C06-relink-order) *)
Theorem C06_remove_ref_nn_members_partial :
  forall m, no_containment m -> wf_opp m ->
  forall f g, f_opp (fd m f) = Some g -> f <> g ->
  forall s x v idx c1 s' c',
    f_many (fd m f) = true -> f_many (fd m g) = true -> Inv m s -> typed m s ->
    (forall w, In w (vals s (x, f)) -> exists o, w = VObj o) ->
    can_execute m s (CRemove x f v idx) = (Ok true, c1) ->
    execute m s c1 = ((None, s'), c') ->
    exists y t', rm_target f s x v idx y /\ can_undo m s' c' = Ok true /\ undo m s' c' = ((None, t'), c') /\
                 (forall k, k <> (y, g) -> vals t' k = vals s k) /\
                 (forall b, In (VObj b) (vals t' (y, g)) <-> In (VObj b) (vals s (y, g))) /\
                 lastv (VObj x) (vals t' (y, g)) /\ crr t' = crr s.
Proof. exact remove_ref_undo_members. Qed.
Print Assumptions C06_remove_ref_nn_members_partial.

Theorem C06_set_ref_1n_members_partial :
  forall m, no_containment m -> wf_opp m ->
  forall f g, f_opp (fd m f) = Some g -> f <> g ->
  forall s x v p s' c' q,
    f_many (fd m f) = false -> f_many (fd m g) = true -> Inv m s -> typed m s ->
    (forall y, v = VObj y -> free_for m g (vals s) x y) ->
    vals s (x, f) = [VObj q] ->
    execute m s (CSet x f v p) = ((None, s'), c') ->
    exists t', can_undo m s' c' = Ok true /\ undo m s' c' = ((None, t'), c') /\
               (forall k, k <> (q, g) -> vals t' k = vals s k) /\
               (forall b, In (VObj b) (vals t' (q, g)) <-> In (VObj b) (vals s (q, g))) /\
               lastv (VObj x) (vals t' (q, g)) /\ crr t' = crr s.
Proof. exact set_ref_undo_members. Qed.
Print Assumptions C06_set_ref_1n_members_partial.

(* the word-level theorems with the reference kinds included; run_ok: every executed command meets its side
   condition (covered2) in the state it is executed in *)
Theorem C06_words_invariant_refs_partial :
  forall m, no_containment m -> wf_opp m -> ref_typed m ->
  forall s0 w,
    J m s0 -> run_ok m (covered2 m) (s0, [], []) w ->
    ginv m (J m) (abs (st_run m (s0, empty_stack) w)).
Proof. exact refs_invariant_of_words. Qed.
Print Assumptions C06_words_invariant_refs_partial.

Theorem C06_k_undo_k_redo_refs_partial :
  forall m, no_containment m -> wf_opp m -> ref_typed m ->
  forall s0 w k,
    J m s0 -> run_ok m (covered2 m) (s0, [], []) w ->
    let ms := st_run m (s0, empty_stack) w in
    k <= length (done_of (snd ms)) ->
    let ms' := st_run m ms (repeat SUndo k ++ repeat SRedo k) in
    obs_eq (fst ms') (fst ms) /\ snd ms' = snd ms.
Proof. exact refs_k_undo_k_redo. Qed.
Print Assumptions C06_k_undo_k_redo_refs_partial.

(* ---------- non-vacuity ---------- *)
Example C06_refs_premises_witness :
  no_containment ex_mm_refs /\ wf_opp ex_mm_refs /\ ref_typed ex_mm_refs /\ J ex_mm_refs (init_state ex_mm_refs).
Proof. exact ex_mm_refs_ok. Qed.

(* a word with Set 1-1, Set 1-n (without and with a previous partner), Add n-n, Remove n-n, an unset, an
   attribute, undo and redo meets run_ok ... *)
Example C06_refs_word_witness :
  run_ok ex_mm_refs (covered2 ex_mm_refs) (init_state ex_mm_refs, [], []) ex_refs_word.
Proof. exact ex_refs_word_ok. Qed.

(* ... and really links objects, then 8 undos + 8 redos give the same slots and the same stack *)
Example C06_refs_word_result :
  let ms := st_run ex_mm_refs (init_state ex_mm_refs, empty_stack) ex_refs_word in
  vals (fst ms) (0, 3) = [VObj 3] /\ vals (fst ms) (1, 4) = [VObj 2] /\ vals (fst ms) (3, 4) = [VObj 0] /\
  vals (fst ms) (1, 6) = [VObj 0] /\ vals (fst ms) (0, 1) = [VNone] /\ sidx (snd ms) = 7%Z /\
  let ms' := st_run ex_mm_refs ms (repeat SUndo 8 ++ repeat SRedo 8) in
  vals (fst ms') (1, 4) = [VObj 2] /\ vals (fst ms') (1, 6) = [VObj 0] /\ sidx (snd ms') = 7%Z.
Proof. vm_compute. repeat split; reflexivity. Qed.

(* ---------- the list statement is false in general (F-C06-relink-order) ---------- *)
(* o1.ban = [o0, o2]; Set(o0.ab1, o3) then undo gives o1.ban = [o2, o0]: same members, other order *)
Example C06_set_1n_relink_refuted :
  let s0 := fold_left (next ex_mm_refs) [OSet 0 3 (VObj 1); OSet 2 3 (VObj 1)] (init_state ex_mm_refs) in
  let ms := st_run ex_mm_refs (s0, empty_stack) [SExec (CSet 0 3 (VObj 3) VNone); SUndo] in
  vals s0 (1, 4) = [VObj 0; VObj 2] /\ vals (fst ms) (1, 4) = [VObj 2; VObj 0] /\
  vals (fst ms) (0, 3) = vals s0 (0, 3) /\ vals (fst ms) (3, 4) = vals s0 (3, 4).
Proof. vm_compute. repeat split; reflexivity. Qed.

(* ====================================================================== *)
(* Containment references without opposite, any metamodel                   *)
(* ====================================================================== *)
(* unowned m s y: y has no container and is not listed as a root of the resource it belongs to - putting
   it under x takes it away from nobody.  The theorems say that values with order AND the container of
   the child come back (cell_and_cont: one slot and the container of one object change). *)
Theorem C06_add_containment_undo_redo :
  forall m s x f y idx c1 s' c',
    cont_plain m f -> f_many (fd m f) = true -> unowned m s y ->
    can_execute m s (CAdd x f (VObj y) idx) = (Ok true, c1) ->
    execute m s c1 = ((None, s'), c') ->
    exists i', c' = CAdd x f (VObj y) (Some i') /\
               inverts m c' s s' /\
               cell_and_cont s s' (x, f) (py_insert i' (VObj y) (vals s (x, f))) y (Some (x, f)).
Proof. exact add_cont_inverts. Qed.
Print Assumptions C06_add_containment_undo_redo.

Theorem C06_remove_containment_undo_redo :
  forall m s x f v idx c1 s' c',
    cont_plain m f -> f_many (fd m f) = true -> cell_wt m f (vals s (x, f)) ->
    (forall w, In w (vals s (x, f)) -> exists y, w = VObj y /\ cont s y = Some (x, f) /\ not_root s y) ->
    can_execute m s (CRemove x f v idx) = (Ok true, c1) ->
    execute m s c1 = ((None, s'), c') ->
    exists i y l2, c' = CRemove x f (VObj y) (Some i) /\
                   inverts m c' s s' /\ cell_and_cont s s' (x, f) l2 y None.
Proof. exact remove_cont_inverts. Qed.
Print Assumptions C06_remove_containment_undo_redo.

Theorem C06_set_containment_undo_redo :
  forall m s x f v p0 s' c',
    cont_plain m f -> f_many (fd m f) = false -> cell_wt m f (vals s (x, f)) ->
    (forall y, v = VObj y -> unowned m s y) ->
    (forall p, vals s (x, f) = [VObj p] -> cont s p = Some (x, f) /\ not_root s p) ->
    execute m s (CSet x f v p0) = ((None, s'), c') ->
    inverts m c' s s' /\
    (forall k, vals s' k = upd (vals s) (x, f) [v] k) /\
    (forall o, cont s' o = cont_after (cont s) x f v (single s (x, f)) o).
Proof. exact set_cont_inverts. Qed.
Print Assumptions C06_set_containment_undo_redo.

Example C06_containment_premises_witness :
  cont_plain ex_mm_cont 0 /\ cont_plain ex_mm_cont 1 /\ unowned ex_mm_cont (init_state ex_mm_cont) 1.
Proof. exact ex_mm_cont_premises. Qed.

(* Add(o0.ckids, o1); Set(o0.ckid, o2); Set(o0.ckid, o3); Remove(o0.ckids, index -1), then 4 undos, then 2 redos:
   containers follow *)
Example C06_containment_word_witness :
  let w := [SExec (CAdd 0 0 (VObj 1) None); SExec (CSet 0 1 (VObj 2) VNone); SExec (CSet 0 1 (VObj 3) VNone);
            SExec (CRemove 0 0 VNone (Some (-1)%Z))] in
  let ms := st_run ex_mm_cont (init_state ex_mm_cont, empty_stack) w in
  cont (fst ms) 1 = None /\ cont (fst ms) 2 = None /\ cont (fst ms) 3 = Some (0, 1) /\
  let ms1 := st_run ex_mm_cont ms [SUndo; SUndo] in
  cont (fst ms1) 1 = Some (0, 0) /\ cont (fst ms1) 2 = Some (0, 1) /\ cont (fst ms1) 3 = None /\
  vals (fst ms1) (0, 0) = [VObj 1] /\
  let ms2 := st_run ex_mm_cont ms1 [SUndo; SUndo; SRedo; SRedo] in
  cont (fst ms2) 1 = Some (0, 0) /\ cont (fst ms2) 2 = Some (0, 1) /\ vals (fst ms2) (0, 1) = [VObj 2].
Proof. vm_compute. repeat split; reflexivity. Qed.

(* ====================================================================== *)
(* Proofs/C06More.v: Compound, containment with a container end, Delete     *)
(* ====================================================================== *)

(* ---------- Compound ---------- *)
(* what the model's Compound.can_execute asks: every member, in the state BEFORE the first member runs
   (prep m s c = the member as its own can_execute, asked in s, leaves it) *)
Theorem C06_compound_can_execute_spec :
  forall m s cs c1,
    can_execute m s (CCompound cs) = (Ok true, c1) <->
    (c1 = CCompound (map (prep m s) cs) /\ Forall (fun c => fst (can_execute m s c) = Ok true) cs).
Proof. exact compound_can_execute_spec. Qed.
Print Assumptions C06_compound_can_execute_spec.

(* what Compound.can_undo asks: every member, on the state the WHOLE compound left *)
Theorem C06_compound_can_undo_spec :
  forall m t cs, can_undo m t (CCompound cs) = Ok true <-> Forall (fun c => can_undo m t c = Ok true) cs.
Proof. exact compound_can_undo_spec. Qed.
Print Assumptions C06_compound_can_undo_spec.

(* a compound that does not raise = its members executed one after the other (seq_exec) *)
Theorem C06_compound_execute :
  forall m s cs s' c2,
    execute m s (CCompound cs) = ((None, s'), c2) -> exists cs', c2 = CCompound cs' /\ seq_exec m s cs s' cs'.
Proof. exact execute_compound_ok. Qed.
Print Assumptions C06_compound_execute.

(* members of any number that invert one after the other (seq_inv: `inverts` between the states each member
   met) make a compound that inverts: undo runs the members' undos in reverse order, redo their redos in
   order.  The only other premise is the model's own Compound.can_undo on the final state. *)
Theorem C06_compound_undo_redo :
  forall m cs s0 s1,
    seq_inv m cs s0 s1 -> can_undo m s1 (CCompound cs) = Ok true -> inverts m (CCompound cs) s0 s1.
Proof. exact compound_inverts. Qed.
Print Assumptions C06_compound_undo_redo.

(* ... and what undo / redo of the compound DO whenever they are called *)
Theorem C06_compound_undo_redo_effect :
  forall m cs s0 s1,
    seq_inv m cs s0 s1 ->
    (forall t, obs_eq t s1 -> exists t', undo m t (CCompound cs) = ((None, t'), CCompound cs) /\ obs_eq t' s0) /\
    (forall t, obs_eq t s0 -> exists t', redo m t (CCompound cs) = ((None, t'), CCompound cs) /\ obs_eq t' s1).
Proof. exact compound_undo_redo. Qed.
Print Assumptions C06_compound_undo_redo_effect.

(* closing ANY covered set of primitive commands (invariant P, side condition ok0 in the state the command
   meets) under Compound, nested compounds included.  okC m ok0 s (Compound cs): every member is covered in
   the state it meets, would be accepted there on its own with the fields can_execute recorded in s, and
   Compound.can_undo accepts at the end.  A compound whose member raises is rolled back: observably nothing
   happened. *)
Theorem C06_compound_closure :
  forall m (P : state -> Prop) (ok0 : state -> cmd -> Prop),
    (forall s c c1 s' c2, P s -> ok0 s c -> can_execute m s c = (Ok true, c1) ->
                          execute m s c1 = ((None, s'), c2) -> inverts m c2 s s' /\ P s') ->
    (forall s c c1 e s' c2, P s -> ok0 s c -> can_execute m s c = (Ok true, c1) ->
                            execute m s c1 = ((Some e, s'), c2) -> obs_eq s' s) ->
    forall c,
      (forall s c1 s' c2, P s -> okC m ok0 s c -> can_execute m s c = (Ok true, c1) ->
                          execute m s c1 = ((None, s'), c2) -> inverts m c2 s s' /\ P s') /\
      (forall s c1 e s' c2, P s -> okC m ok0 s c -> can_execute m s c = (Ok true, c1) ->
                            execute m s c1 = ((Some e, s'), c2) -> obs_eq s' s).
Proof. exact okC_closed. Qed.
Print Assumptions C06_compound_closure.

(* the can_undo premise cannot be dropped (F-C06-compound-can-undo); same behaviour on the implementation *)
Example C06_compound_can_undo_needed_refuted :
  let s0 := fold_left (next ex_mm) [OAppend 0 1 (VInt 1)] (init_state ex_mm) in
  let c := CCompound [CAdd 0 1 (VInt 7) None; CRemove 0 1 (VInt 7) None] in
  okM ex_mm (covered3 ex_mm) s0 s0 [CAdd 0 1 (VInt 7) None; CRemove 0 1 (VInt 7) None] /\
  ~ cu_end ex_mm s0 c /\
  (let ms := st_run ex_mm (s0, empty_stack) [SExec c] in
   sidx (snd ms) = 0%Z /\ vals (fst ms) (0, 1) = [VInt 1] /\
   fst (st_step ex_mm ms SUndo) = None /\ sidx (snd (snd (st_step ex_mm ms SUndo))) = 0%Z).
Proof. exact compound_can_undo_needed_refuted. Qed.

(* ---------- containment references WITH an opposite (children <-> container end) ---------- *)
(* K m s: the global well-formedness WF of Proofs/WFBase.v (symmetric opposite ends, shaped slots, container
   pointer = the containment slot that lists the object, resources, roots without container; preserved by
   every kernel operation: Proofs/OwnAll.v) + typed slots (C03) + duplicate-free unique attribute collections.
   cc2 s s' x f lx y g ly c: exactly the slots (x, f) and (y, g) and the container pointer of y change.
   unowned m s y: y has no container and is no root of a resource - the property's side condition `the
   command does not take its value away from another container`. *)
Theorem C06_add_container_end_undo_redo :
  forall m, wf_mm m -> ref_typed m ->
  forall s f g x y idx c1 s' c',
    K m s -> f_cont (fd m f) = true -> f_opp (fd m f) = Some g -> f_many (fd m f) = true ->
    unowned m s y ->
    can_execute m s (CAdd x f (VObj y) idx) = (Ok true, c1) ->
    execute m s c1 = ((None, s'), c') ->
    exists i', c' = CAdd x f (VObj y) (Some i') /\
               inverts m c' s s' /\
               cc2 s s' x f (py_insert i' (VObj y) (vals s (x, f))) y g [VObj x] (Some (x, f)).
Proof. exact add_ce_undo_redo. Qed.
Print Assumptions C06_add_container_end_undo_redo.

Theorem C06_remove_container_end_undo_redo :
  forall m, wf_mm m -> ref_typed m ->
  forall s f g x v idx c1 s' c',
    K m s -> f_cont (fd m f) = true -> f_opp (fd m f) = Some g -> f_many (fd m f) = true ->
    can_execute m s (CRemove x f v idx) = (Ok true, c1) ->
    execute m s c1 = ((None, s'), c') ->
    exists i y l2, c' = CRemove x f (VObj y) (Some i) /\
                   inverts m c' s s' /\ cc2 s s' x f l2 y g [VNone] None.
Proof. exact remove_ce_undo_redo. Qed.
Print Assumptions C06_remove_container_end_undo_redo.

(* Set on a single-valued containment reference with a container end: any previous child, new child None or
   unowned; SetV / cont_after: the slot, the container ends of the old and the new child, their containers *)
Theorem C06_set_container_end_undo_redo :
  forall m, wf_mm m -> ref_typed m ->
  forall s f g x v p0 s' c',
    K m s -> f_cont (fd m f) = true -> f_opp (fd m f) = Some g -> f_many (fd m f) = false ->
    (forall y, v = VObj y -> unowned m s y) ->
    execute m s (CSet x f v p0) = ((None, s'), c') ->
    inverts m c' s s' /\
    (forall k, vals s' k = SetV (vals s) x f g v (single s (x, f)) k) /\
    (forall o, cont s' o = cont_after (cont s) x f v (single s (x, f)) o) /\
    (forall o, eres s' o = eres s o) /\ (forall r, rcont s' r = rcont s r).
Proof. exact set_ce_undo_redo. Qed.
Print Assumptions C06_set_container_end_undo_redo.

(* Set on the container end itself: x.g = p for an unowned x (x is appended to p.f / stored in the free p.f) *)
Theorem C06_set_on_container_end_link_undo_redo :
  forall m, wf_mm m ->
  forall s f g x p p0 s' c',
    K m s -> f_cont (fd m f) = true -> f_opp (fd m f) = Some g ->
    vals s (x, g) = [VNone] -> unowned m s x -> (f_many (fd m f) = false -> vals s (p, f) = [VNone]) ->
    execute m s (CSet x g (VObj p) p0) = ((None, s'), c') ->
    inverts m c' s s' /\ cc2 s s' p f (plusx m f x (vals s (p, f))) x g [VObj p] (Some (p, f)).
Proof. exact set_end_link_undo_redo. Qed.
Print Assumptions C06_set_on_container_end_link_undo_redo.

(* x.g = None: exact when x is the last child of its container (undo re-links through the setter of g, which
   appends; otherwise C06_set_on_container_end_relink_refuted, F-C06-relink-order) *)
Theorem C06_set_on_container_end_unlink_undo_redo :
  forall m, wf_mm m ->
  forall s f g x p p0 s' c',
    K m s -> f_cont (fd m f) = true -> f_opp (fd m f) = Some g ->
    vals s (x, g) = [VObj p] -> (f_many (fd m f) = true -> lastv (VObj x) (vals s (p, f))) ->
    execute m s (CSet x g VNone p0) = ((None, s'), c') ->
    inverts m c' s s' /\ cc2 s s' p f (lessx m f x (vals s (p, f))) x g [VNone] None.
Proof. exact set_end_unlink_undo_redo. Qed.
Print Assumptions C06_set_on_container_end_unlink_undo_redo.

Example C06_set_on_container_end_relink_refuted :
  let s0 := fold_left (next Acyclic.ex_mm_tree) [OAppend 0 0 (VObj 1); OAppend 0 0 (VObj 2)] (init_state Acyclic.ex_mm_tree) in
  let ms := st_run Acyclic.ex_mm_tree (s0, empty_stack) [SExec (CSet 1 1 VNone VNone); SUndo] in
  vals s0 (0, 0) = [VObj 1; VObj 2] /\ vals (fst ms) (0, 0) = [VObj 2; VObj 1] /\
  vals (fst ms) (1, 1) = vals s0 (1, 1) /\ cont (fst ms) 1 = cont s0 1.
Proof. exact set_end_relink_refuted. Qed.

(* Move inside a containment collection (re-ordering children), with or without container end: from index or
   by value, any target index; only the order of the slot changes, and it comes back *)
Theorem C06_move_containment_undo_redo :
  forall m, wf_mm m -> ref_typed m ->
  forall s f x v from to c1 s' c',
    K m s -> f_cont (fd m f) = true -> f_many (fd m f) = true ->
    (is_none v = true \/ from = None) ->
    can_execute m s (CMove x f v from to) = (Ok true, c1) ->
    execute m s c1 = ((None, s'), c') ->
    exists fr w to' l2, c' = CMove x f w (Some fr) to' /\ inverts m c' s s' /\ only_cell s s' (x, f) l2.
Proof. exact move_cont_undo_redo. Qed.
Print Assumptions C06_move_containment_undo_redo.

(* ---------- words: containment (with and without container end), Set on container ends, Compounds ---------- *)
(* covered4 m = covered3 m closed under Compound (C06_compound_closure); covered3 m s c: c is of a kind of
   C06Proofs.v, or Set / Add / Remove on a containment reference that puts only an unowned child under the
   owner, or Move inside a containment collection, or Set on a container end (unset of a last child / give
   an unowned object a container) *)
Theorem C06_words_invariant_containment_partial :
  forall m, wf_mm m -> ref_typed m ->
  forall s0 w,
    K m s0 -> run_ok m (covered4 m) (s0, [], []) w ->
    ginv m (K m) (abs (st_run m (s0, empty_stack) w)).
Proof. exact cont_invariant_of_words. Qed.
Print Assumptions C06_words_invariant_containment_partial.

Theorem C06_k_undo_k_redo_containment_partial :
  forall m, wf_mm m -> ref_typed m ->
  forall s0 w k,
    K m s0 -> run_ok m (covered4 m) (s0, [], []) w ->
    let ms := st_run m (s0, empty_stack) w in
    k <= length (done_of (snd ms)) ->
    let ms' := st_run m ms (repeat SUndo k ++ repeat SRedo k) in
    obs_eq (fst ms') (fst ms) /\ snd ms' = snd ms.
Proof. exact cont_k_undo_k_redo. Qed.
Print Assumptions C06_k_undo_k_redo_containment_partial.

(* the reference kinds of Proofs/C06Refs.v (metamodels without containment) closed under Compound *)
Theorem C06_words_invariant_refs_compound_partial :
  forall m, no_containment m -> wf_opp m -> ref_typed m ->
  forall s0 w,
    J m s0 -> run_ok m (covered2C m) (s0, [], []) w ->
    ginv m (J m) (abs (st_run m (s0, empty_stack) w)).
Proof. exact refsC_invariant_of_words. Qed.
Print Assumptions C06_words_invariant_refs_compound_partial.

Theorem C06_k_undo_k_redo_refs_compound_partial :
  forall m, no_containment m -> wf_opp m -> ref_typed m ->
  forall s0 w k,
    J m s0 -> run_ok m (covered2C m) (s0, [], []) w ->
    let ms := st_run m (s0, empty_stack) w in
    k <= length (done_of (snd ms)) ->
    let ms' := st_run m ms (repeat SUndo k ++ repeat SRedo k) in
    obs_eq (fst ms') (fst ms) /\ snd ms' = snd ms.
Proof. exact refsC_k_undo_k_redo. Qed.
Print Assumptions C06_k_undo_k_redo_refs_compound_partial.

(* non-vacuity on SymLink's metamodel (kids <-> parent, pet, twin <-> twinof): premises, a word with Set on
   a container end (both ways), Set on containment slots with and without container end, Add, and the move
   of a child as Compound(Remove, Add); what it computes; 7 undos + 7 redos *)
Example C06_containment_premises :
  wf_mm ex_mm_link /\ ref_typed ex_mm_link /\ K ex_mm_link (init_state ex_mm_link).
Proof. exact ex_link_premises. Qed.

Example C06_containment_word_ok :
  run_ok ex_mm_link (covered4 ex_mm_link) (init_state ex_mm_link, [], []) ex_cont_word.
Proof. exact ex_cont_word_ok. Qed.

Example C06_containment_word_result :
  let ms := st_run ex_mm_link (init_state ex_mm_link, empty_stack) ex_cont_word in
  vals (fst ms) (0, 0) = [VObj 2] /\ vals (fst ms) (1, 0) = [] /\ vals (fst ms) (2, 1) = [VObj 0] /\
  cont (fst ms) 2 = Some (0, 0) /\ cont (fst ms) 3 = Some (2, 3) /\ vals (fst ms) (3, 4) = [VObj 2] /\
  sidx (snd ms) = 5%Z /\ zlen (items (snd ms)) = 7%Z /\
  let ms1 := st_run ex_mm_link ms [SRedo] in
  vals (fst ms1) (0, 0) = [] /\ vals (fst ms1) (1, 0) = [VObj 2] /\ vals (fst ms1) (2, 1) = [VObj 1] /\
  cont (fst ms1) 2 = Some (1, 0) /\
  let ms2 := st_run ex_mm_link ms1 (repeat SUndo 7 ++ repeat SRedo 7) in
  vals (fst ms2) (1, 0) = [VObj 2] /\ cont (fst ms2) 2 = Some (1, 0) /\ cont (fst ms2) 3 = Some (2, 3) /\
  sidx (snd ms2) = 6%Z /\
  let ms3 := st_run ex_mm_link (init_state ex_mm_link, empty_stack) [SExec (CSet 3 1 (VObj 1) VNone)] in
  vals (fst ms3) (1, 0) = [VObj 3] /\ cont (fst ms3) 3 = Some (1, 0).
Proof. exact ex_cont_word_result. Qed.

(* Move on a containment collection with a container end: premises, a word, what it computes *)
Example C06_move_premises :
  wf_mm Acyclic.ex_mm_tree /\ ref_typed Acyclic.ex_mm_tree /\ K Acyclic.ex_mm_tree (init_state Acyclic.ex_mm_tree).
Proof. exact ex_tree_premises. Qed.

Example C06_move_word_ok :
  run_ok Acyclic.ex_mm_tree (covered4 Acyclic.ex_mm_tree) (init_state Acyclic.ex_mm_tree, [], []) ex_move_word.
Proof. exact ex_move_word_ok. Qed.

Example C06_move_word_result :
  let ms := st_run Acyclic.ex_mm_tree (init_state Acyclic.ex_mm_tree, empty_stack) ex_move_word in
  vals (fst ms) (0, 0) = [VObj 2; VObj 3; VObj 1] /\ cont (fst ms) 1 = Some (0, 0) /\ vals (fst ms) (1, 1) = [VObj 0] /\
  sidx (snd ms) = 3%Z /\
  let ms1 := st_run Acyclic.ex_mm_tree ms [SRedo] in
  vals (fst ms1) (0, 0) = [VObj 3; VObj 2; VObj 1] /\ vals (fst ms1) (3, 1) = [VObj 0] /\ cont (fst ms1) 3 = Some (0, 0) /\
  let ms2 := st_run Acyclic.ex_mm_tree ms [SUndo] in
  vals (fst ms2) (0, 0) = [VObj 1; VObj 2; VObj 3] /\
  let ms3 := st_run Acyclic.ex_mm_tree ms1 (repeat SUndo 5 ++ repeat SRedo 5) in
  vals (fst ms3) (0, 0) = [VObj 3; VObj 2; VObj 1] /\ sidx (snd ms3) = 4%Z.
Proof. exact ex_move_word_result. Qed.

(* ---------- collections of references without containment and without opposite ---------- *)
(* loose m f: many-valued, no containment, no opposite (attribute collections are the non-reference case of
   C06_add_attr_undo_redo etc.); cell_wt: the slot is well typed and, if unique, duplicate-free *)
Theorem C06_add_plain_ref_undo_redo :
  forall m f, loose m f ->
  forall s x v idx c1 s' c',
    cell_wt m f (vals s (x, f)) ->
    can_execute m s (CAdd x f v idx) = (Ok true, c1) ->
    execute m s c1 = ((None, s'), c') ->
    exists i', c' = CAdd x f v (Some i') /\
               inverts m c' s s' /\ only_cell s s' (x, f) (py_insert i' v (vals s (x, f))) /\
               cell_wt m f (py_insert i' v (vals s (x, f))).
Proof. exact add_loose_inverts. Qed.
Print Assumptions C06_add_plain_ref_undo_redo.

Theorem C06_remove_plain_ref_undo_redo :
  forall m f, loose m f ->
  forall s x v idx c1 s' c',
    cell_wt m f (vals s (x, f)) ->
    can_execute m s (CRemove x f v idx) = (Ok true, c1) ->
    execute m s c1 = ((None, s'), c') ->
    exists i w l2, c' = CRemove x f w (Some i) /\
                   inverts m c' s s' /\ only_cell s s' (x, f) l2 /\ cell_wt m f l2.
Proof. exact remove_loose_inverts. Qed.
Print Assumptions C06_remove_plain_ref_undo_redo.

Theorem C06_move_plain_ref_undo_redo :
  forall m f s x v from to c1 s' c',
    loose m f -> cell_wt m f (vals s (x, f)) ->
    (is_none v = true \/ from = None) ->
    can_execute m s (CMove x f v from to) = (Ok true, c1) ->
    execute m s c1 = ((None, s'), c') ->
    exists fr w to' l2, c' = CMove x f w (Some fr) to' /\ inverts m c' s s' /\ only_cell s s' (x, f) l2.
Proof. exact move_loose_inverts. Qed.
Print Assumptions C06_move_plain_ref_undo_redo.

(* ---------- the widest word-level theorems ---------- *)
(* K2 m s = K m s + every unique collection holds an object at most once (C07Full's uniq_ok, preserved by
   every kernel operation).  covered6 m = covered5 m closed under Compound; covered5 m s c: covered3 m s c
   (attributes, plain single references, containment with and without container end - Set / Add / Remove /
   Move -, Set on container ends) or Add / Remove / Move on a plain reference collection. *)
Theorem C06_words_invariant_all_partial :
  forall m, wf_mm m -> ref_typed m ->
  forall s0 w,
    K2 m s0 -> run_ok m (covered6 m) (s0, [], []) w ->
    ginv m (K2 m) (abs (st_run m (s0, empty_stack) w)).
Proof. exact all_invariant_of_words. Qed.
Print Assumptions C06_words_invariant_all_partial.

Theorem C06_k_undo_k_redo_all_partial :
  forall m, wf_mm m -> ref_typed m ->
  forall s0 w k,
    K2 m s0 -> run_ok m (covered6 m) (s0, [], []) w ->
    let ms := st_run m (s0, empty_stack) w in
    k <= length (done_of (snd ms)) ->
    let ms' := st_run m ms (repeat SUndo k ++ repeat SRedo k) in
    obs_eq (fst ms') (fst ms) /\ snd ms' = snd ms.
Proof. exact all_k_undo_k_redo. Qed.
Print Assumptions C06_k_undo_k_redo_all_partial.

(* non-vacuity: kids <-> parent, a plain reference collection refs, attributes n and ns *)
Example C06_all_premises :
  wf_mm ex_mm_all /\ ref_typed ex_mm_all /\ K2 ex_mm_all (init_state ex_mm_all).
Proof. exact ex_all_premises. Qed.

Example C06_all_word_ok :
  run_ok ex_mm_all (covered6 ex_mm_all) (init_state ex_mm_all, [], []) ex_all_word.
Proof. exact ex_all_word_ok. Qed.

Example C06_all_word_result :
  let ms := st_run ex_mm_all (init_state ex_mm_all, empty_stack) ex_all_word in
  vals (fst ms) (0, 0) = [VObj 1] /\ vals (fst ms) (0, 2) = [VObj 2] /\ vals (fst ms) (0, 3) = [VInt 5] /\
  vals (fst ms) (1, 2) = [] /\ vals (fst ms) (0, 4) = [] /\ cont (fst ms) 1 = Some (0, 0) /\ sidx (snd ms) = 5%Z /\
  let ms1 := st_run ex_mm_all ms [SRedo] in
  vals (fst ms1) (1, 2) = [VObj 0] /\ vals (fst ms1) (0, 4) = [VInt 7] /\
  let ms2 := st_run ex_mm_all ms1 (repeat SUndo 6 ++ repeat SRedo 6) in
  vals (fst ms2) (0, 2) = [VObj 2] /\ vals (fst ms2) (1, 2) = [VObj 0] /\ vals (fst ms2) (0, 0) = [VObj 1] /\
  sidx (snd ms2) = 6%Z /\
  let ms3 := st_run ex_mm_all ms1 (repeat SUndo 4) in
  vals (fst ms3) (0, 2) = [VObj 1; VObj 2].
Proof. exact ex_all_word_result. Qed.

(* ---------- Delete ---------- *)
(* whatever is deleted and whatever the snapshot holds: execute, redo and undo of a Delete keep WF *)
Theorem C06_delete_keeps_WF :
  forall m, wf_mm m ->
  forall s x r i,
    WF m s ->
    WF m (snd (fst (execute m s (CDelete x r i)))) /\ WF m (snd (fst (redo m s (CDelete x r i)))) /\
    WF m (snd (fst (undo m s (CDelete x r i)))).
Proof. exact delete_keeps_WF. Qed.
Print Assumptions C06_delete_keeps_WF.

(* Delete of a LEAF child x of p (leaf m f g x p s: p.f is a containment with container end g and holds x;
   x.g = p; every other reference of x is empty, so x has no contents; nothing is recorded in x's inverse
   set; x is no root of a resource): after undo every feature value of every object is back, except that
   p.f holds the same members with x at the END; containers and resource membership are back. *)
Theorem C06_delete_leaf_undo_partial :
  forall m f g, ce_pair m f g ->
  forall x p s,
    leaf m f g x p s ->
    exists s' c', execute m s (CDelete x [] []) = ((None, s'), c') /\
      forall t, obs_eq t s' ->
        can_undo m t c' = Ok true /\
        exists t', undo m t c' = ((None, t'), c') /\
                   (forall k, k <> (p, f) -> vals t' k = vals s k) /\
                   (forall w, In w (vals t' (p, f)) <-> In w (vals s (p, f))) /\
                   (f_many (fd m f) = true -> lastv (VObj x) (vals t' (p, f))) /\
                   (forall o, cont t' o = cont s o) /\ (forall o, eres t' o = eres s o) /\
                   (forall r, rcont t' r = rcont s r).
Proof. exact leaf_delete_undo_members. Qed.
Print Assumptions C06_delete_leaf_undo_partial.

(* exact (the whole observable state is back) when x was the last child, or p.f is single-valued *)
Theorem C06_delete_leaf_undo_exact_partial :
  forall m f g, ce_pair m f g ->
  forall x p s,
    leaf m f g x p s -> (f_many (fd m f) = true -> lastv (VObj x) (vals s (p, f))) ->
    exists s' c', execute m s (CDelete x [] []) = ((None, s'), c') /\
      forall t, obs_eq t s' ->
        can_undo m t c' = Ok true /\ exists t', undo m t c' = ((None, t'), c') /\ obs_eq t' s.
Proof. exact leaf_delete_undo_exact. Qed.
Print Assumptions C06_delete_leaf_undo_exact_partial.

(* the forward direction and the command recorded; redo from the state undo left (x's inverse set still
   empty there) gives the state after the Delete and the same recorded command *)
Theorem C06_delete_leaf_execute_redo_partial :
  forall m f g, ce_pair m f g ->
  forall x p s,
    leaf m f g x p s ->
    let s' := delete_obj (S (length (ocls m))) m s x true in
    let c' := CDelete x [(x, map (fun h => (h, vals s (x, h))) (ref_feats m x))] [(x, [])] in
    execute m s (CDelete x [] []) = ((None, s'), c') /\
    cc2 s s' p f (lessx m f x (vals s (p, f))) x g [VNone] None /\
    forall t,
      cc2 s t p f (plusx m f x (lessx m f x (vals s (p, f)))) x g (vals s (x, g)) (cont s x) ->
      inv t x = [] ->
      exists t', redo m t c' = ((None, t'), c') /\ obs_eq t' s'.
Proof. exact leaf_delete_execute_redo. Qed.
Print Assumptions C06_delete_leaf_execute_redo_partial.

(* the leaf premises follow from the invariant K and what is specific to the leaf *)
Theorem C06_delete_leaf_premises :
  forall m, wf_mm m ->
  forall f g x p s,
    K m s -> f_cont (fd m f) = true -> f_opp (fd m f) = Some g ->
    In (VObj x) (vals s (p, f)) -> p <> x -> In g (ref_feats m x) ->
    (forall h, In h (ref_feats m x) -> h <> g -> empty_cell m s x h) -> inv s x = [] ->
    ce_pair m f g /\ leaf m f g x p s.
Proof. exact leaf_of_K. Qed.
Print Assumptions C06_delete_leaf_premises.

(* non-vacuity on Acyclic's tree metamodel (kids <-> parent): o0.kids = [o1, o2], o1.kids = [o3]; o2 is a leaf
   and the last child of o0 *)
Example C06_delete_leaf_witness :
  ce_pair Acyclic.ex_mm_tree 0 1 /\ leaf Acyclic.ex_mm_tree 0 1 2 0 ex_tree_s0 /\
  lastv (VObj 2) (vals ex_tree_s0 (0, 0)).
Proof. exact ex_leaf_witness. Qed.

Example C06_delete_leaf_result :
  let ms := st_run Acyclic.ex_mm_tree (ex_tree_s0, empty_stack) [SExec (CDelete 2 [] [])] in
  vals (fst ms) (0, 0) = [VObj 1] /\ vals (fst ms) (2, 1) = [VNone] /\ cont (fst ms) 2 = None /\
  let ms1 := st_run Acyclic.ex_mm_tree ms [SUndo] in
  vals (fst ms1) (0, 0) = [VObj 1; VObj 2] /\ vals (fst ms1) (2, 1) = [VObj 0] /\ cont (fst ms1) 2 = Some (0, 0) /\
  let ms2 := st_run Acyclic.ex_mm_tree ms1 [SRedo; SUndo] in
  vals (fst ms2) (0, 0) = [VObj 1; VObj 2] /\ cont (fst ms2) 2 = Some (0, 0) /\ sidx (snd ms2) = (-1)%Z.
Proof. exact ex_leaf_result. Qed.

(* FALSE: the order of p.f in general.  kids is many-valued with a SINGLE-valued opposite, so the property
   wants its order back; Delete(o1) - a middle child with its own child o3 -, undo: o0.kids = [o2, o1]; every
   other value, the containers of o1 and o3 are back.  Same on the implementation (F-C06-relink-order). *)
Example C06_delete_undo_child_order_refuted :
  let ms := st_run Acyclic.ex_mm_tree (ex_tree_s0, empty_stack) [SExec (CDelete 1 [] []); SUndo] in
  vals ex_tree_s0 (0, 0) = [VObj 1; VObj 2] /\ vals (fst ms) (0, 0) = [VObj 2; VObj 1] /\
  vals (fst ms) (1, 0) = vals ex_tree_s0 (1, 0) /\ vals (fst ms) (1, 1) = vals ex_tree_s0 (1, 1) /\
  vals (fst ms) (3, 1) = vals ex_tree_s0 (3, 1) /\
  cont (fst ms) 1 = cont ex_tree_s0 1 /\ cont (fst ms) 3 = cont ex_tree_s0 3 /\ sidx (snd ms) = (-1)%Z.
Proof. exact delete_undo_child_order_refuted. Qed.
