"""C20 — declared operations are callable with their declared signature.

Corners, checked pairwise:
  implementation (EOperation on dynamic EClasses; MetaEClass / @EMetaclass reflection)
      <-> Coq model (Model/Operations.v: to_code / def / reflection; Model/MetaEdit.v: class namespaces, lookup)
  implementation <-> the property restated in Python (oracle, independent of the model)
  Coq model      <-> the property: theorems of Props/C20.v

Sections:
  A  keyword table of the model vs keyword.iskeyword
  B  one declaration on a fresh class: every shape of <=3 required + <=3 optional parameters x operation names
     (plain, keywords, restricted), every ill-ordered flag vector up to 4 parameters, odd parameter names,
     default kinds; compared: normalised name, outcome, inspect.signature
  C  static class bodies mixing methods, self-less functions, static/class methods, dunders, private and
     protected methods, plain attributes, both definition styles; round trip of the generated source through reflection
  D  histories on a 3-level class graph: declaration at every level, instances created before and after, behaviour
     attached at the declaring class or below, removal; plus seeded random histories
  E  the same EOperation OBJECT declared again after its eParameters were edited in place (removed and re-added, moved
     to a sub-/supertype or an unrelated class, re-appended while declared): signature and call outcomes follow the
     CURRENT declaration on instances created before and after (composite ops 'editop' / 'redecl' of metaedit_io);
     parameters of a DECLARED operation edited in place: the method follows at once, an attached behaviour stays;
     E2 (stream C20:throughinvalid): single edits that pass THROUGH parameter lists without a Python signature (flags flipped one
     at a time in every order, parameters inserted / removed / moved anywhere): after every step a valid list gives the method with
     exactly that signature on old and new instances of the class and its subtypes, an invalid one no outdated method
  F  a dynamic package saved to an .ecore file and loaded in a fresh ResourceSet: the methods of the loaded classes have
     the declared signatures and call outcomes (implementation + oracle only)
"""
import itertools
import keyword
import sys
import textwrap
import types

from harness import common
from harness import metaedit_io as mio

REQ_NAMES = ['a', 'b', 'c']
OPT_NAMES = ['d', 'e', 'f']
OPT_KINDS = ['int', 'str', 'bool', 'ref', 'sdt']
RESTRICTED = ('print', 'printed', 'builtins', 'breakpoint')


# ---------------------------------------------------------------- declarations
def shape(r, o, kinds=None):
    ps = [[REQ_NAMES[i], 1, ['int', 'str', 'ref'][i % 3]] for i in range(r)]
    ps += [[OPT_NAMES[i], 0, (kinds or OPT_KINDS)[(i + r) % len(kinds or OPT_KINDS)]] for i in range(o)]
    return ps


def is_restricted(n):
    return (n.startswith('_') and n != '_') or n.endswith('__roles__') or n in RESTRICTED


def in_quantifier(name, params):
    """Declarations the property speaks about: identifier operation name; parameter names distinct
    non-keyword identifiers other than self; required parameters first."""
    if not (name.isascii() and name.isidentifier()):
        return False
    seen_opt = False
    names = [p[0] for p in params]
    if len(set(names)) != len(names):
        return False
    for pn, rq, _ in params:
        if not (pn.isascii() and pn.isidentifier()) or keyword.iskeyword(pn) or pn == 'self':
            return False
        if rq and seen_opt:
            return False
        if not rq:
            seen_opt = True
    return True


def qualifiers(name, params, via='append'):
    q = []
    if is_restricted(name) or any(is_restricted(p[0]) for p in params):
        q.append('restricted-name')
    if any((not p[1]) and p[2] == 'enum' for p in params):
        q.append('enum-typed-optional-parameter')
    if via == 'extend' and not q:
        q.append('bulk-add')
    if via.startswith('redecl') and not q:
        q.append('re-declared')
    if via == 'edit' and not q:
        q.append('edited-while-declared')
    return sorted(q)


def norm(name):
    return name + '_' if keyword.iskeyword(name) else name


def main_decls():
    out = []
    for opname in ('run', 'class', 'None'):
        for r in range(4):
            for o in range(4):
                out.append((opname, shape(r, o)))
    return out


def special_decls():
    out = [('_hidden', shape(1, 1)), ('print', shape(0, 1)), ('run', [['_x', 1, 'int']]), ('_', shape(1, 0)),
           ('run', shape(1, 1, ['enum'])), ('class', shape(0, 2, ['enum', 'int'])), ('run', [['x', 1, 'enum']]),
           ('run', [['if', 1, 'int']]), ('run', [['x', 1, 'int'], ['x', 0, 'int']]),
           ('run', [['self', 1, 'int'], ['x', 1, 'int']]), ('run', [['self', 0, 'int'], ['x', 0, 'int']]),
           ('matching', shape(2, 1)), ('match', [['case', 0, 'str']]), ('x1', shape(0, 0)), ('1x', []), ('a b', [])]
    for k in range(2, 5):
        for flags in itertools.product((1, 0), repeat=k):
            if any(flags[i] == 0 and flags[i + 1] == 1 for i in range(k - 1)):
                out.append(('run', [['p%d' % i, flags[i], 'int'] for i in range(k)]))
    return out


# ---------------------------------------------------------------- helpers
def split_records(tokens, nops):
    recs, i = [], 0
    for _ in range(nops):
        if i + 1 >= len(tokens):
            recs.append(tokens[i:])
            i = len(tokens)
            continue
        n = tokens[i + 1]
        recs.append(tokens[i:i + 2 + n])
        i += 2 + n
    return recs, tokens[i:]


def compare_history(out, model, intern, history, names, case, stats, init_flag=False, impl_result=None):
    """Run history on model and implementation; report the first difference.  -> impl result"""
    r = impl_result or mio.run_impl(history, names, intern)
    mt = mio.model_ask(model, history, names, init_flag, intern)
    stats['histories'] += 1
    stats['ops'] += len(history)
    for op, (code, _) in zip(history, r['per_op']):
        stats['op_kinds'][op[0]] = stats['op_kinds'].get(op[0], 0) + 1
        stats['outcomes'][code] = stats['outcomes'].get(code, 0) + 1
    if mt != r['tokens']:
        mrec, mrest = split_records(mt, len(history))
        irec, irest = split_records(r['tokens'], len(history))
        for j, (a, b) in enumerate(zip(mrec, irec)):
            if a != b:
                out.diff(f'metaedit model vs impl at op {j} {history[j]}: model {a} impl {b}', case)
                break
        else:
            out.diff(f'metaedit model vs impl in the final dump: model {mrest} impl {irest}', case)
    return r


# ---------------------------------------------------------------- section A
def section_a(out, model, stats):
    words = list(keyword.kwlist) + list(keyword.softkwlist) + ['run', 'Class', 'none', 'class_', '', 'de', 'defx', 'x']
    for w in words:
        got = model.ask('iskw', mio.enc_name(w))
        want = [1 if keyword.iskeyword(w) else 0] + mio.enc_name(w + '_' if keyword.iskeyword(w) else w)
        stats['kw'] += 1
        if got != want:
            out.diff(f'keyword table: model {got} python {want} for {w!r}', {'word': w})


# ---------------------------------------------------------------- section B
def one_decl_impl(name, params, intern):
    """Fresh class, add the operation, look at an instance. -> (code, normalised name, sig tokens or None)"""
    im = mio.Impl(intern)
    im.do(['newclass', []])
    code, _ = im.do(['addop', 1, name, params, 'append'])
    o = im.ops[1][-1]
    nn = o.normalized_name()
    if code != 0:
        return code, nn, None, im
    im.do(['newinst', 1])
    c2, sig = im.do(['sig', 0, nn])
    return (0 if c2 == 0 else 100 + c2), nn, sig, im


def section_b(out, model, intern, stats):
    for name, params in main_decls() + special_decls():
        case = {'section': 'B', 'name': name, 'params': params}
        code, nn, sig, im = one_decl_impl(name, params, intern)
        toks = mio.enc_name(name) + [len(params)]
        for p in params:
            toks += mio.enc_param(p, intern)
        mt = model.ask('sig', toks)
        stats['decls'] += 1
        stats['decl_outcomes'][code] = stats['decl_outcomes'].get(code, 0) + 1
        want = mio.enc_name(nn)
        if code == 0:
            want += [0] + sig[1:]
            k = len(want)
            if mt[:k] != want:
                out.diff(f'sig model vs impl for {name}{params}: model {mt} impl {want}', case)
        else:
            want += [1 if code == 8 else code]
            if mt != want:
                out.diff(f'sig model vs impl (outcome) for {name}{params}: model {mt} impl {want}', case)
        # oracle: the property on this declaration
        if in_quantifier(name, params):
            oracle_decl(out, name, params, code, nn, sig, intern, case, 'append')
            if len(stats['samples']) < 3 and code == 0 and len(params) >= 3:
                stats['samples'].append(case)


def oracle_decl(out, name, params, code, nn, sig, intern, case, via):
    sigd = {'property': 'C20', 'culprit': 'add-operation', 'qualifiers': qualifiers(name, params, via)}
    if nn != norm(name):
        out.fail(dict(sigd, clause='method-name'), f'method name {nn!r} for operation {name!r}', case)
        return
    if code != 0:
        out.fail(dict(sigd, clause='add-gives-method'),
                 f'adding operation {name}({params}) gives no callable method (outcome code {code})', case)
        return
    want = [0, len(params)]
    for pn, rq, tk in params:
        want += mio.enc_name(pn) + ([0, 0] if rq else [1, intern.tok(mio.default_text(tk))])
    if sig != want:
        out.fail(dict(sigd, clause='signature'),
                 f'signature of {name}: observed {sig} declared {want}', case)


# ---------------------------------------------------------------- section C
POOL = [
    ('run', 'method', ['self'], 0),
    ('go', 'method', ['self', 'a', 'b', 'c'], 2),
    ('opt', 'method', ['self', 'p', 'q'], 2),
    ('noself', 'method', ['x', 'y'], 0),
    ('empty', 'method', [], 0),
    ('st', 'static', ['a'], 0),
    ('cm', 'classm', ['cls'], 0),
    ('__repr__', 'method', ['self'], 0),
    ('__call__', 'method', ['self', 'k'], 1),
    ('__secret', 'method', ['self', 'k'], 0),
    ('__very_secret_', 'method', ['self'], 0),
    ('_helper', 'method', ['self', 'z'], 1),
    ('val', 'other', [], 0),
    ('class_', 'method', ['self', 'other'], 0),
]


def body_source(cls, members, style):
    lines = ['from pyecore.ecore import *']
    if style == 'meta':
        lines.append(f'class {cls}(EObject, metaclass=MetaEClass):')
    else:
        lines += ['@EMetaclass', f'class {cls}(object):']
    if not members:
        lines.append('    pass')
    for n, kind, args, nd in members:
        if kind == 'other':
            lines.append(f'    {n} = 3')
            continue
        if kind == 'static':
            lines.append('    @staticmethod')
        if kind == 'classm':
            lines.append('    @classmethod')
        k = len(args) - nd
        ar = ', '.join(a if i < k else f'{a}=None' for i, a in enumerate(args))
        lines.append(f'    def {n}({ar}):')
        lines.append("        return 'x'")
    return '\n'.join(lines) + '\n'


_modcount = [0]


def exec_static(src):
    _modcount[0] += 1
    m = types.ModuleType(f'verif_c20_scratch_{_modcount[0]}')
    sys.modules[m.__name__] = m
    try:
        exec(src, m.__dict__)
    finally:
        del sys.modules[m.__name__]
    return m


def reflected(C):
    return [[o.name, [[p.name, 1 if p.required else 0] for p in o.eParameters]] for o in C.eClass.eOperations]


def expected_reflection(members):
    """The property: methods whose first parameter is self, double-underscore methods excepted."""
    out = []
    for n, kind, args, nd in members:
        if kind != 'method' or n.startswith('__') or not args or args[0] != 'self':
            continue
        k = len(args) - nd
        out.append([n, [[a, 1 if i < k else 0] for i, a in enumerate(args)]])
    return out


def model_reflection(model, cls, members):
    t = mio.enc_name(cls) + [len(members)]
    for n, kind, args, nd in members:
        t += mio.enc_name(n)
        if kind == 'method':
            t += [0, len(args), nd]
            for a in args:
                t += mio.enc_name(a)
        elif kind in ('static', 'classm'):
            t += [1]
        else:
            t += [2]
    r = model.ask('promote', t)
    i, ops = 1, []
    for _ in range(r[0]):
        ln = r[i]
        name = ''.join(chr(x) for x in r[i + 1:i + 1 + ln])
        i += 1 + ln
        np_ = r[i]
        i += 1
        ps = []
        for _ in range(np_):
            ln = r[i]
            pn = ''.join(chr(x) for x in r[i + 1:i + 1 + ln])
            i += 1 + ln
            ps.append([pn, r[i]])
            i += 1
        ops.append([name, ps])
    return ops


def static_case(out, model, cls, members, style, stats):
    case = {'section': 'C', 'class': cls, 'members': [list(m) for m in members], 'style': style}
    src = body_source(cls, members, style)
    try:
        m = exec_static(src)
        got = reflected(getattr(m, cls))
    except Exception as e:      # noqa: BLE001
        got = ['exception', type(e).__name__]
    stats['static_bodies'] += 1
    mod = model_reflection(model, cls, members)
    if mod != got:
        out.diff(f'promote model vs impl for class {cls} {style}: model {mod} impl {got}', case)
    want = expected_reflection(members)
    if got != want:
        q = []
        extra = [o[0] for o in got if isinstance(o, list) and o not in want]
        if any(x.startswith('__') and not x.endswith('__') for x in extra):
            q.append('private-mangled-method')
        out.fail({'property': 'C20', 'clause': 'static-reflection', 'culprit': 'promote', 'qualifiers': q},
                 f'static class {cls}: eOperations {got} but the body declares {want}', case)
    if len(stats['samples']) < 5 and len(members) >= 3:
        stats['samples'].append(case)



def hierarchy_source(classes, style):
    """several static classes in one module; classes = [(name, base or None, members)]"""
    lines = ['from pyecore.ecore import *']
    for cls, base, members in classes:
        if style == 'meta':
            lines.append(f'class {cls}({base or "EObject"}{"" if base else ", metaclass=MetaEClass"}):')
        else:
            lines += ['@EMetaclass', f'class {cls}({base or "object"}):']
        if not members:
            lines.append('    pass')
        for n, kind, args, nd in members:
            k = len(args) - nd
            ar = ', '.join(a if i < k else f'{a}=None' for i, a in enumerate(args))
            lines.append(f'    def {n}({ar}):')
            lines.append(f"        return '{cls}.{n}'")
    return '\n'.join(lines) + '\n'


def static_hierarchy_cases(out, model, stats, rng, n):
    """static classes that inherit from each other and OVERRIDE methods with another parameter list: every class
    reflects the methods of its own body (overriding ones included, with their own parameters), and
    findEOperation on the subclass finds the subclass's declaration."""
    names = ['run', 'go', 'opt', 'step', 'class_']
    for it in range(n):
        style = 'meta' if it % 2 == 0 else 'decorator'
        depth = rng.choice([2, 2, 3])
        classes = []
        for d in range(depth):
            members = []
            for nm in rng.sample(names, rng.randrange(1, 4)):
                req, opt = rng.randrange(0, 3), rng.randrange(0, 3)
                members.append((nm, 'method', ['self'] + REQ_NAMES[:req] + OPT_NAMES[:opt], opt))
            classes.append((f'K{d}', f'K{d - 1}' if d else None, members))
        case = {'section': 'C-hierarchy', 'style': style, 'classes': [[c, b, [list(m) for m in ms]] for c, b, ms in classes]}
        src = hierarchy_source(classes, style)
        try:
            m = exec_static(src)
        except Exception as e:  # noqa: BLE001
            out.fail({'property': 'C20', 'clause': 'static-hierarchy-raised', 'culprit': 'promote', 'qualifiers': []},
                     f'defining {[c[0] for c in classes]} raised {type(e).__name__}: {e}', case)
            continue
        stats['static_hierarchies'] = stats.get('static_hierarchies', 0) + 1
        for cls, base, members in classes:
            got = reflected(getattr(m, cls))
            want = expected_reflection(members)
            mod = model_reflection(model, cls, members)
            if mod != got:
                out.diff(f'promote model vs impl for class {cls} of a hierarchy ({style}): model {mod} impl {got}', case)
            if got != want:
                out.fail({'property': 'C20', 'clause': 'static-reflection-in-hierarchy', 'culprit': 'promote', 'qualifiers': []},
                         f'static class {cls}({base}): eOperations {got} but its body declares {want}', case)
                break
            bad = None
            for n_, _, args, nd in members:
                o = getattr(m, cls).eClass.findEOperation(n_)
                k = len(args) - nd
                exp = [[a, 1 if i < k else 0] for i, a in enumerate(args)]
                if o is None or [[p.name, 1 if p.required else 0] for p in o.eParameters] != exp:
                    bad = (n_, None if o is None else [[p.name, 1 if p.required else 0] for p in o.eParameters], exp)
                    break
            if bad:
                out.fail({'property': 'C20', 'clause': 'find-operation-in-hierarchy', 'culprit': 'promote', 'qualifiers': []},
                         f'{cls}.eClass.findEOperation({bad[0]!r}) has parameters {bad[1]}, the body of {cls} declares {bad[2]}', case)
                break

def section_c(out, model, intern, stats, thorough):
    combos = [[m] for m in POOL] + [list(p) for p in itertools.permutations(POOL, 2)]
    if thorough:
        combos += [list(p) for p in itertools.permutations(POOL[:10], 3)]
    combos.append(list(POOL))
    combos.append([(f'm{r}{o}', 'method', ['self'] + REQ_NAMES[:r] + OPT_NAMES[:o], o) for r in range(4) for o in range(4)])
    for i, members in enumerate(combos):
        cls = ('A', '_B', 'C_', '__')[i % 4] if any(m[0].startswith('__') for m in members) else 'A'
        static_case(out, model, cls, members, 'meta' if i % 2 == 0 else 'decorator', stats)
        if len(members) > 2:
            static_case(out, model, cls, members, 'decorator' if i % 2 == 0 else 'meta', stats)
    # round trip: source generated for a dynamic operation, placed in a static body, reflected
    common.use_repo()
    import pyecore.ecore as ec
    for name, params in main_decls():
        im = mio.Impl(intern)
        o = ec.EOperation(name, params=[ec.EParameter(pn, im.ptype(tk) if tk != 'ref' else None, required=bool(rq))
                                        for pn, rq, tk in params])
        src = 'from pyecore.ecore import *\nclass RT(EObject, metaclass=MetaEClass):\n' + \
              textwrap.indent(textwrap.dedent('    ' + o.to_code()), '    ')
        case = {'section': 'C-roundtrip', 'name': name, 'params': params, 'source': src}
        try:
            got = reflected(exec_static(src).RT)
        except Exception as e:      # noqa: BLE001
            got = ['exception', type(e).__name__, str(e)[:80]]
        want = [[norm(name), [['self', 1]] + [[pn, 1 if rq else 0] for pn, rq, _ in params]]]
        stats['roundtrips'] += 1
        if got != want:
            out.fail({'property': 'C20', 'clause': 'roundtrip', 'culprit': 'to_code+promote', 'qualifiers': []},
                     f'generated source reflected as {got}, declared {want}', case)


# ---------------------------------------------------------------- section D
GRAPH = [['newclass', []], ['newclass', [1]], ['newclass', [2]], ['newclass', [1]]]   # A, B(A), C(B), D(A)
PARENT = {1: None, 2: 1, 3: 2, 4: 1}


def chain(c):
    out = []
    while c is not None:
        out.append(c)
        c = PARENT[c]
    return out


class Spec:
    """The property, restated: what each instance must show after each op of a history on GRAPH."""

    def __init__(self, out, intern):
        self.out, self.intern = out, intern
        self.ns = {c: {} for c in PARENT}     # class -> attr name -> ('stub', name, params, via) | ('beh', b) | ('unknown',)
        self.decl = {c: [] for c in PARENT}   # class -> [(name, params)]
        self.dead = {}                        # (class, name) -> parameters of the operation object taken out of that class
        self.inst = []

    def expect(self, i, n):
        for c in chain(self.inst[i]):
            if n in self.ns[c] and self.ns[c][n][0] != 'gone':      # 'gone': the class has no method of its own any more
                return self.ns[c][n]
        return ('absent',)

    def declare(self, c, name, params, via, code, case):
        self.decl[c].append((name, params))
        if not in_quantifier(name, params):
            self.ns[c][norm(name)] = ('unknown',)
        elif code != 0:
            self.out.fail({'property': 'C20', 'culprit': 'add-operation', 'clause': 'add-gives-method',
                           'qualifiers': qualifiers(name, params, via)},
                          f'adding operation {name}({params}) raised (outcome code {code})', case)
            self.ns[c][norm(name)] = ('unknown',)
        else:
            self.ns[c][norm(name)] = ('stub', name, params, via)

    def feed(self, op, res, case):
        code, payload = res
        k = op[0]
        if k == 'newinst':
            self.inst.append(op[1])
        elif k == 'addop':
            _, c, name, params, via = op
            self.declare(c, name, params, via, code, case)
        elif k == 'editop':
            # the parameters of an operation object change in place; while it is declared the method is not judged
            # (the property speaks of adding and removing operations), it is again once the object is declared anew
            _, c, name, edits = op
            hit = next((d for d in self.decl[c] if d[0] == name), None)
            if hit is not None:
                # declared: the generated method follows the edit at once, an attached behaviour stays; while the
                # parameters have no Python signature (outside the property) there is no generated method ('gone')
                new = mio.apply_param_edits(hit[1], edits)
                self.decl[c][self.decl[c].index(hit)] = (name, new)
                prev = self.ns[c].get(norm(name), ('unknown',))
                if prev[0] == 'beh':
                    pass
                elif prev[0] in ('stub', 'gone'):
                    if in_quantifier(name, new):
                        self.ns[c][norm(name)] = ('stub', name, new, 'edit')
                    elif any(p[0] == 'self' for p in new):
                        self.ns[c][norm(name)] = ('unknown',)       # a declared `self` may well compile
                    else:
                        self.ns[c][norm(name)] = ('gone',)          # no Python signature: no outdated method either
                    if code != 0 and in_quantifier(name, new):
                        self.out.fail({'property': 'C20', 'culprit': 'edit-operation', 'clause': 'edit-raises', 'qualifiers': []},
                                      f'{op}: editing the parameters of a declared operation raised (code {code})', case)
                        self.ns[c][norm(name)] = ('unknown',)
                else:
                    self.ns[c][norm(name)] = ('unknown',)
            elif (c, name) in self.dead:
                self.dead[(c, name)] = mio.apply_param_edits(self.dead[(c, name)], edits)
        elif k == 'redecl':
            _, dst, src, name, via = op
            hit = next((d for d in self.decl[src] if d[0] == name), None)
            if hit is not None:               # still declared in src: the object moves (or keeps its place when dst is src)
                at = self.decl[src].index(hit)
                self.decl[src].remove(hit)
                self.ns[src].pop(norm(name), None)
                if code != 0:
                    self.ns[src][norm(name)] = ('unknown',)
                params = hit[1]
            else:
                params = self.dead.pop((src, name), [])
            self.declare(dst, name, params, 'redecl-' + via, code, case)
            if hit is not None and src == dst:
                self.decl[dst].insert(at, self.decl[dst].pop())
        elif k == 'popop':
            c, idx = op[1], op[2]
            if -len(self.decl[c]) <= idx < len(self.decl[c]):
                self.feed(['rmop', c, self.decl[c][idx][0]], res, case)
        elif k == 'rmop':
            _, c, name = op
            hit = next((d for d in self.decl[c] if d[0] == name), None)
            if hit is not None:
                self.decl[c].remove(hit)
                self.dead[(c, name)] = hit[1]
                was = self.ns[c].pop(norm(name), None)
                if code != 0 and was is not None and was[0] not in ('unknown', 'gone'):
                    self.out.fail({'property': 'C20', 'culprit': 'remove-operation', 'clause': 'remove-raises',
                                   'qualifiers': ['keyword-name'] if keyword.iskeyword(name) else []},
                                  f'removing operation {name} raised (outcome code {code})', case)
                    self.ns[c][norm(name)] = ('unknown',)
        elif k == 'clearops':
            c = op[1]
            names = [d[0] for d in self.decl[c]]
            for d in self.decl[c]:
                self.dead[(c, d[0])] = d[1]
            self.decl[c] = []
            unknown = any(self.ns[c].get(norm(n), ('unknown',))[0] in ('unknown', 'gone') for n in names)
            for n in names:
                self.ns[c].pop(norm(n), None)
            if code != 0:
                if not unknown:
                    self.out.fail({'property': 'C20', 'culprit': 'remove-operation', 'clause': 'remove-raises',
                                   'qualifiers': ['bulk-remove'] + (['keyword-name'] if any(keyword.iskeyword(n) for n in names) else [])},
                                  f'clearing operations {names} raised (outcome code {code})', case)
                # (raised in the middle, e.g. over an operation that never got a method: which methods are left is
                #  not the property's business)
                for n in names:
                    self.ns[c][norm(n)] = ('unknown',)
        elif k == 'attach':
            _, c, fname, b = op
            self.ns[c][fname] = ('beh', b)
        elif k in ('sig', 'call'):
            e = self.expect(op[1], op[2])
            if e[0] in ('unknown', 'gone'):
                return
            if e[0] == 'absent':
                if code != 5:
                    self.out.fail({'property': 'C20', 'culprit': 'lookup', 'clause': 'no-method-expected', 'qualifiers': []},
                                  f'{op}: a method is visible although no operation/behaviour provides it (code {code}, {payload})', case)
                return
            if e[0] == 'beh':
                ok = (code == 0 and payload == ([1, e[1]] if k == 'sig' else [e[1]]))
                if not ok:
                    self.out.fail({'property': 'C20', 'culprit': 'behavior', 'clause': 'behaviour-called', 'qualifiers': []},
                                  f'{op}: attached behaviour {e[1]} not in effect (code {code}, {payload})', case)
                return
            _, name, params, via = e
            sigd = {'property': 'C20', 'culprit': 'add-operation', 'qualifiers': qualifiers(name, params, via)}
            if k == 'sig':
                want = [0, len(params)]
                for pn, rq, tk in params:
                    want += mio.enc_name(pn) + ([0, 0] if rq else [1, self.intern.tok(mio.default_text(tk))])
                if code != 0 or payload != want:
                    self.out.fail(dict(sigd, clause='signature'),
                                  f'{op}: signature {payload} (code {code}) declared {want}', case)
            else:
                nreq = sum(1 for p in params if p[1])
                if nreq <= op[3] <= len(params):
                    if code != 7:
                        self.out.fail(dict(sigd, clause='raises-NotImplementedError'),
                                      f'{op}: calling the unimplemented operation gave code {code} {payload}', case)
                elif code != 6:
                    self.out.fail(dict(sigd, clause='arity'),
                                  f'{op}: {op[3]} arguments for {nreq}..{len(params)} parameters gave code {code}', case)


def run_history(out, model, intern, history, names, case, stats):
    if mio.has_live_edit(history):
        # in-place regeneration of a declared operation's method has no counterpart in the model: oracle only
        r = mio.run_impl(history, names, intern)
        stats['histories'] += 1
        stats['ops'] += len(history)
        stats['oracle_only_histories'] = stats.get('oracle_only_histories', 0) + 1
        for op, (code, _) in zip(history, r['per_op']):
            stats['op_kinds'][op[0]] = stats['op_kinds'].get(op[0], 0) + 1
            stats['outcomes'][code] = stats['outcomes'].get(code, 0) + 1
    else:
        r = compare_history(out, model, intern, history, names, case, stats)
    spec = Spec(out, intern)
    for op, res in zip(history, r['per_op']):
        spec.feed(op, res, case)
    if r['flag_after']:
        out.diff('the global linearisation replacement was installed by a C20 history', case)
    return r


def scenario(name, params, pos, beh, via):
    """Instances before; declare at `pos`; instances after; look; attach; call; remove; look."""
    h = list(GRAPH) + [['newinst', c] for c in (1, 2, 3, 4)]
    h.append(['addop', pos, name, params, via])
    h += [['newinst', c] for c in (1, 2, 3, 4)]
    nn = norm(name)
    nreq = sum(1 for p in params if p[1])
    for i in range(8):
        h.append(['sig', i, nn])
        h.append(['call', i, nn, nreq])
    h.append(['call', pos - 1, nn, len(params)])
    h.append(['call', pos - 1, nn, len(params) + 1])
    if nreq:
        h.append(['call', pos + 3, nn, nreq - 1])
    if beh is not None:
        h.append(['attach', beh, nn, 41])
        for i in range(8):
            h.append(['call', i, nn, nreq])
    h.append(['rmop', pos, name])
    for i in range(8):
        h.append(['sig', i, nn])
    h.append(['newinst', 3])
    h.append(['sig', 8, nn])
    return h


def random_history(rng, decls, n):
    h = list(GRAPH)
    ninst = 0
    names = ['run', 'class', 'go']
    declared = []
    for _ in range(n):
        x = rng.random()
        if x < 0.22 or ninst == 0:
            h.append(['newinst', rng.randint(1, 4)])
            ninst += 1
        elif x < 0.42:
            nm, ps = rng.choice(decls)
            nm = rng.choice(names)
            c = rng.randint(1, 4)
            if (c, nm) in declared:      # one operation of a name per class (Ecore well-formedness)
                continue
            declared.append((c, nm))
            h.append(['addop', c, nm, ps, rng.choice(['append', 'extend'])])
        elif x < 0.52:
            if declared and rng.random() < 0.85:
                c, nm = rng.choice(declared)
                declared.remove((c, nm))
            else:
                c, nm = rng.randint(1, 4), rng.choice(names)
                if (c, nm) in declared:
                    declared.remove((c, nm))
            h.append(['rmop', c, nm])
        elif x < 0.55:
            c = rng.randint(1, 4)
            declared = [d for d in declared if d[0] != c]
            h.append(['clearops', c])
        elif x < 0.63:
            h.append(['attach', rng.randint(1, 4), norm(rng.choice(names)), rng.randint(1, 9)])
        elif x < 0.82:
            h.append(['sig', rng.randrange(ninst), norm(rng.choice(names))])
        else:
            h.append(['call', rng.randrange(ninst), norm(rng.choice(names)), rng.randint(0, 4)])
    return h


def section_d(out, model, intern, stats, ctx):
    thorough = ctx.tier == 'thorough'
    decls = main_decls()
    for name, params in decls:
        for pos in (1, 2, 3):
            for beh in (None, pos, min(pos + 1, 3)):
                for via in ('append', 'extend'):
                    if not thorough and via == 'extend' and (len(params) + pos) % 2:
                        continue
                    h = scenario(name, params, pos, beh, via)
                    case = {'section': 'D', 'history': h, 'names': [norm(name), name]}
                    run_history(out, model, intern, h, case['names'], case, stats)
                    stats['scenarios'] += 1
    for name, params in special_decls():
        for pos in (1, 2):
            for via in ('append', 'extend'):
                h = scenario(name, params, pos, None, via)
                case = {'section': 'D-special', 'history': h, 'names': [norm(name), name]}
                run_history(out, model, intern, h, case['names'], case, stats)
                stats['scenarios'] += 1
    pool = decls + [d for d in special_decls() if d[0] == 'run'][:12]
    for j in range(2500 if thorough else 400):
        h = random_history(ctx.rng, pool, ctx.rng.randint(6, 18))
        case = {'section': 'D-random', 'history': h, 'names': ['run', 'class_', 'class', 'go']}
        run_history(out, model, intern, h, case['names'], case, stats)
        stats['random_histories'] += 1
        if j < 2:
            stats['samples'].append(case)


# ---------------------------------------------------------------- section E: the same EOperation object declared again
def fresh_names(params, n):
    used = {p[0] for p in params}
    return [x for x in ('g', 'h', 's', 't', 'u', 'v', 'w', 'k', 'm', 'n', 'q', 'r', 'y', 'z') if x not in used][:n]


def valid_edits(params):
    """Single in-place edits of a required-first parameter list that keep it required-first, with fresh names."""
    nreq = sum(1 for p in params if p[1])
    n = len(params)
    g, h_, s_, t_ = fresh_names(params, 4)
    out = [[['append', [g, 0, 'str']]], [['insert', 0, [s_, 1, 'int']]], [['insert', nreq, [t_, 1, 'ref']]],
           [['insert', nreq, [h_, 0, 'bool']]]]
    if n == nreq:
        out.append([['append', [h_, 1, 'str']]])
    if n:
        out += [[['remove', 0]], [['remove', n - 1]]]
    if nreq:
        out.append([['flip', nreq - 1]])            # the last required one becomes optional
    if n > nreq:
        out.append([['flip', nreq]])                # the first optional one becomes required
    if nreq >= 2:
        out.append([['move', 0, nreq - 1]])         # required ones reordered
    if n - nreq >= 2:
        out.append([['move', n - 1, nreq]])         # optional ones reordered
    if n >= 2:
        out.append([['remove', 0], ['append', [g, 0, 'int']]])
    return out


def probe(h, insts, nn, params):
    nreq = sum(1 for p in params if p[1])
    for i in insts:
        h.append(['sig', i, nn])
        h.append(['call', i, nn, nreq])
    h.append(['call', insts[0], nn, len(params)])
    h.append(['call', insts[-1], nn, len(params) + 1])
    if nreq:
        h.append(['call', insts[-1], nn, nreq - 1])


def redecl_scenario(name, params, edits, src, dst, mode, beh, via):
    """Instances before; declare `name` at src; instances after; look; [attach]; take the operation out of src
    (mode 'remove': remove, edit, declare the same object at dst; 'live': edit while declared, then append to dst,
    which moves it; 'move': append to dst unedited, remove there, edit, declare at src again); instances after;
    look at every instance; then the way back with the edit undone by a second edit."""
    nn = norm(name)
    h = list(GRAPH) + [['newinst', c] for c in (1, 2, 3, 4)]
    h.append(['addop', src, name, params, 'append'])
    h += [['newinst', c] for c in (1, 2, 3, 4)]
    probe(h, [src - 1, 2, src + 3, 6], nn, params)
    if beh is not None:
        h.append(['attach', beh, nn, 41])
        h.append(['call', 2, nn, 0])
    cur = params
    if mode == 'remove':
        h.append(['rmop', src, name])
        h.append(['sig', src - 1, nn])
        h.append(['editop', src, name, edits])
        cur = mio.apply_param_edits(cur, edits)
        h.append(['redecl', dst, src, name, via])
        at = dst
    elif mode == 'live':
        h.append(['editop', src, name, edits])
        cur = mio.apply_param_edits(cur, edits)
        h += [['newinst', src], ['newinst', 3]]                # instances 8, 9: created after the edit
        probe(h, [src - 1, 2, src + 3, 8, 9], nn, cur)         # the declared operation follows the edit at once
        h.append(['redecl', dst, src, name, via])
        at = dst
    else:
        h.append(['redecl', dst, src, name, via])
        probe(h, [dst - 1, 2, 6], nn, cur)
        h.append(['rmop', dst, name])
        h.append(['editop', dst, name, edits])
        cur = mio.apply_param_edits(cur, edits)
        h.append(['redecl', src, dst, name, via])
        at = src
    n0 = sum(1 for o in h if o[0] == 'newinst')
    h += [['newinst', c] for c in (1, 2, 3, 4)]
    probe(h, list(range(n0 + 4)), nn, cur)
    # a second round: out again, one more parameter in front, back in at the first class
    h.append(['popop', at, -1, 'pop'])
    e2 = [['insert', 0, [fresh_names(cur, 1)[0], 1, 'int']]]
    h.append(['editop', at, name, e2])
    cur = mio.apply_param_edits(cur, e2)
    h.append(['redecl', src, at, name, 'append'])
    probe(h, [0, 1, 2, 3, n0, n0 + 1, n0 + 2, n0 + 3], nn, cur)
    return h


def edit_scenario(name, params, edits, pos, beh):
    """Instances before; declare `name` at pos; [behaviour at pos, or below]; edit the parameters of the DECLARED operation
    in place; look at once, on instances created before and after the edit; one more edit (a parameter in front); look."""
    nn = norm(name)
    h = list(GRAPH) + [['newinst', c] for c in (1, 2, 3, 4)]
    h.append(['addop', pos, name, params, 'append'])
    h += [['newinst', c] for c in (1, 2, 3, 4)]
    if beh is not None:
        h.append(['attach', beh, nn, 41])
    probe(h, [pos - 1, 2, 6], nn, params)
    cur = mio.apply_param_edits(params, edits)
    h.append(['editop', pos, name, edits])
    h += [['newinst', c] for c in (1, 2, 3, 4)]
    probe(h, list(range(12)), nn, cur)
    e2 = [['insert', 0, [fresh_names(cur, 1)[0], 1, 'int']]]
    h.append(['editop', pos, name, e2])
    cur = mio.apply_param_edits(cur, e2)
    probe(h, [0, 1, 2, 3, 8, 9, 10, 11], nn, cur)
    h.append(['rmop', pos, name])
    for i in (pos - 1, 2, 10):
        h.append(['sig', i, nn])
    return h


def random_redecl_history(rng, n):
    h = list(GRAPH)
    t = mio.Tracker()
    for op in h:
        t.expand(op)
    names = ['run', 'class', 'go']
    shapes = [shape(r, o) for r in range(3) for o in range(3)]
    ninst = 0
    has_method = {}      # (class, name) of a declared operation -> its declaration gave a method

    def emit(op):
        h.append(op)
        t.expand(op)
        if op[0] == 'editop' and t.find_op(op[1], op[2])[0] == 'live':
            has_method[(op[1], op[2])] = in_quantifier(op[2], t.find_op(op[1], op[2])[1])     # the method follows the edit
        if op[0] in ('addop', 'redecl'):
            has_method[(op[1], op[3] if op[0] == 'redecl' else op[2])] = in_quantifier(
                op[2] if op[0] == 'addop' else op[3], t.find_op(op[1], op[3] if op[0] == 'redecl' else op[2])[1])
    for _ in range(n):
        x = rng.random()
        live = [(c, nm) for c in t.ops for nm, _ in t.ops[c]]
        dead = list(t.dead)
        if x < 0.15 or ninst == 0:
            emit(['newinst', rng.randint(1, 4)])
            ninst += 1
        elif x < 0.30:
            c, nm = rng.randint(1, 4), rng.choice(names)
            if (c, nm) in live:
                continue
            emit(['addop', c, nm, rng.choice(shapes), rng.choice(['append', 'extend'])])
        elif x < 0.40:
            if not live:
                continue
            c, nm = rng.choice(live)
            y = rng.random()
            if y < 0.6:
                emit(['rmop', c, nm])
            elif y < 0.8:
                emit(['clearops', c, rng.choice(['clear', 'delslice', 'delattr', 'assign'])])
            else:
                emit(['popop', c, rng.choice([-1, 0]), rng.choice(['pop', 'delitem'])])
        elif x < 0.55:
            known = dead + ([rng.choice(live)] if live and rng.random() < 0.4 else [])
            if not known:
                continue
            c, nm = rng.choice(known)
            ps = t.find_op(c, nm)[1]
            es = valid_edits(ps)
            if rng.random() < 0.1:
                es.append([['flip', 0]] if ps else [['append', ['g', 0, 'int']]])      # possibly ill-ordered: outside the property
            emit(['editop', c, nm, rng.choice(es)])
        elif x < 0.72:
            # (an operation whose declaration gave no method cannot leave its class through a plain call: delattr
            #  fails in the middle; that is outside the property and outside the sequence reading of 'redecl')
            # (nor is a failing re-declaration in place: the old method stays, where remove + add leaves none)
            known = dead + [x for x in live if has_method.get(x) and in_quantifier(x[1], t.find_op(*x)[1])]
            if not known:
                continue
            src, nm = rng.choice(known)
            dst = src if rng.random() < 0.35 else rng.randint(1, 4)
            if (dst, nm) in live and not (dst == src and (src, nm) in live):
                continue
            emit(['redecl', dst, src, nm, rng.choice(['append', 'append', 'extend', 'insert', 'iadd'])])
        elif x < 0.77:
            emit(['attach', rng.randint(1, 4), norm(rng.choice(names)), rng.randint(1, 9)])
        elif x < 0.90:
            emit(['sig', rng.randrange(ninst), norm(rng.choice(names))])
        else:
            emit(['call', rng.randrange(ninst), norm(rng.choice(names)), rng.randint(0, 4)])
    # look at everything at the end
    for nm in names:
        for i in range(ninst):
            h.append(['sig', i, norm(nm)])
    return h


def redeclare_scenarios(ctx, out, model=None, intern=None, stats=None):
    """Own PRNG stream; every failing case carries scenario/seed/tier/history."""
    thorough = ctx.tier == 'thorough'
    rng = common.rng_for(ctx.seed, 'C20:redeclare')
    own_model = model is None
    if own_model:
        model, intern = common.Model(), mio.Interner()
        stats = {'histories': 0, 'ops': 0, 'op_kinds': {}, 'outcomes': {}, 'samples': []}
    stats.setdefault('redeclare_scenarios', 0)
    stats.setdefault('redeclare_random', 0)
    tag = {'scenario': 'redeclare', 'seed': ctx.seed, 'tier': ctx.tier}
    k = 0
    targets = {1: [1, 2, 4], 2: [2, 3, 1, 4]}          # same class, a subtype, (a supertype,) an unrelated class
    vias = ['append', 'extend', 'insert', 'iadd']
    for name in ('run', 'class'):
        for r in range(3):
            for o in range(3):
                params = shape(r, o)
                for edits in valid_edits(params):
                    for src in (1, 2):
                        for dst in targets[src]:
                            for mode in ('remove', 'live', 'move'):
                                k += 1
                                if mode == 'move' and dst == src:
                                    continue
                                if name == 'class' and (k % 4):
                                    continue
                                if not thorough and (k % 3) != (ctx.seed % 3) and mode != 'remove':
                                    continue
                                beh = [None, None, src, min(src + 1, 3)][k % 4]
                                h = redecl_scenario(name, params, edits, src, dst, mode, beh, vias[k % 4])
                                case = dict(tag, section='E', history=h, names=[norm(name), name])
                                run_history(out, model, intern, h, case['names'], case, stats)
                                stats['redeclare_scenarios'] += 1
    stats.setdefault('edit_scenarios', 0)
    for name in ('run', 'class'):
        for r in range(3):
            for o in range(3):
                params = shape(r, o)
                for edits in valid_edits(params):
                    for pos in (1, 2, 3):
                        k += 1
                        if name == 'class' and (k % 3):
                            continue
                        if not thorough and (k % 2) != (ctx.seed % 2):
                            continue
                        beh = [None, pos, min(pos + 1, 3), None][k % 4]
                        h = edit_scenario(name, params, edits, pos, beh)
                        case = dict(tag, section='E-edit', history=h, names=[norm(name), name])
                        run_history(out, model, intern, h, case['names'], case, stats)
                        stats['edit_scenarios'] += 1
    for j in range(3000 if thorough else 500):
        h = random_redecl_history(rng, rng.randint(8, 24))
        case = dict(tag, section='E-random', history=h, names=['run', 'class_', 'class', 'go'])
        run_history(out, model, intern, h, case['names'], case, stats)
        stats['redeclare_random'] += 1
        if j < 1:
            stats['samples'].append(case)
    if own_model:
        model.close()


# ---------------------------------------------------------------- section E2: edits THROUGH invalid parameter lists
def probe_step(h, insts, name, cur):
    """After one edit of the declared operation: the full probe when the list has a Python signature, else only
    'is there a method' (signature + one call: with no method of its own the class shows what it inherits, or nothing)."""
    nn = norm(name)
    if in_quantifier(name, cur):
        probe(h, insts, nn, cur)
    else:
        for i in insts:
            h.append(['sig', i, nn])
        h.append(['call', insts[0], nn, 0])


def walk_history(name, params, steps, pos, beh, upper=None):
    """Instances before; [an operation of the same name on the super type `upper`]; declare at pos; instances after;
    [behaviour BELOW pos]; then the edits one by one, each followed by a new instance of a subtype and a look at old and
    new instances of the class and of its subtypes."""
    h = list(GRAPH) + [['newinst', c] for c in (1, 2, 3, 4)]
    if upper is not None:
        h.append(['addop', upper, name, [['k', 1, 'int']], 'append'])
    h.append(['addop', pos, name, params, 'append'])
    h += [['newinst', c] for c in (1, 2, 3, 4)]
    if beh is not None:
        h.append(['attach', beh, norm(name), 41])
    ninst = 8
    cur = params
    probe_step(h, [pos - 1, 2, pos + 3, 6], name, cur)
    for e in steps:
        h.append(['editop', pos, name, [e]])
        cur = mio.apply_param_edits(cur, [e])
        h.append(['newinst', 3 if ninst % 2 else pos])
        ninst += 1
        probe_step(h, [pos - 1, 2, pos + 3, 6, ninst - 1], name, cur)
    return h


def random_walk(rng, params, n):
    """n single edits; any flag may flip, parameters come, go and move anywhere: many intermediate lists are invalid."""
    cur = [list(p) for p in params]
    steps = []
    for _ in range(n):
        x = rng.random()
        k = len(cur)
        if k and x < 0.5:
            e = ['flip', rng.randrange(k)]
        elif x < 0.7 and k < 5:
            e = ['insert', rng.randint(0, k), [fresh_names(cur, 1)[0], rng.choice([0, 1]), rng.choice(['int', 'str', 'bool'])]]
        elif x < 0.85 and k:
            e = ['remove', rng.randrange(k)]
        elif k >= 2:
            i = rng.randrange(k)
            e = ['move', i, rng.choice([j for j in range(k) if j != i])]
        else:
            e = ['append', [fresh_names(cur, 1)[0], rng.choice([0, 1]), 'int']]
        steps.append(e)
        cur = mio.apply_param_edits(cur, [e])
    return steps


# ---------------------------------------------------------------- section C2: static bodies with every kind of parameter
def rich_def(name, posonly, pos, ndef, varargs, kwonly, varkw):
    """`def name(self, <posonly>, /, <pos>, *args | *, <kwonly>, **kw)`; the last `ndef` of posonly + pos have a default;
    kwonly = [(name, has default)]"""
    positional = list(posonly) + list(pos)
    k = len(positional) - ndef
    parts = ['self']
    for i, a in enumerate(positional):
        parts.append(a if i < k else f'{a}={i}')
        if posonly and i == len(posonly) - 1:
            parts.append('/')
    if varargs:
        parts.append('*args')
    elif kwonly:
        parts.append('*')
    parts += [f'{n}=True' if d else n for n, d in kwonly]
    if varkw:
        parts.append('**kw')
    return f'    def {name}({", ".join(parts)}):\n        return 0'


def static_signature_scenarios(ctx, out, stats=None):
    """Static classes whose methods mix positional-only, positional, *args, keyword-only (with and without default) and
    **kwargs parameters: the reflected EOperation lists the POSITIONAL parameters of the method (self first) in order,
    required exactly those without a default in the Python signature.  Parameters that are not positional cannot be
    declared by an EOperation; what the reflection does with them is not judged beyond: they do not disturb the
    positional ones.  Own PRNG stream 'C20:staticsig'; the Python signature is read back with inspect."""
    import inspect
    common.use_repo()
    stats = stats if stats is not None else {}
    rng = common.rng_for(ctx.seed, 'C20:staticsig')
    tag = {'scenario': 'staticsig', 'seed': ctx.seed, 'tier': ctx.tier, 'section': 'C2'}
    shapes = []
    for posonly in ([], ['a'], ['a', 'b']):
        for pos in ([], ['c'], ['c', 'd']):
            for ndef in range(0, len(posonly) + len(pos) + 1):
                for varargs in (False, True):
                    for kwonly in ([], [('k', True)], [('k', False)], [('k', True), ('m', True)], [('k', False), ('m', True)]):
                        for varkw in (False, True):
                            shapes.append((posonly, pos, ndef, varargs, kwonly, varkw))
    rng.shuffle(shapes)
    per_class = 6
    n_classes = len(shapes) // per_class if ctx.tier == 'thorough' else 40
    for ci in range(n_classes):
        chunk = shapes[ci * per_class:(ci + 1) * per_class]
        style = 'meta' if ci % 2 == 0 else 'decorator'
        lines = ['from pyecore.ecore import *']
        lines += [f'class S{ci}(EObject, metaclass=MetaEClass):'] if style == 'meta' else ['@EMetaclass', f'class S{ci}(object):']
        lines += [rich_def(f'm{j}', *sh) for j, sh in enumerate(chunk)]
        src = '\n'.join(lines) + '\n'
        case = dict(tag, history=__import__('json').loads(__import__('json').dumps(chunk)), style=style, source=src)
        stats['static_signature_classes'] = stats.get('static_signature_classes', 0) + 1
        try:
            cls = getattr(exec_static(src), f'S{ci}')
        except Exception as e:      # noqa: BLE001
            out.fail({'property': 'C20', 'clause': 'static-reflection-raised', 'culprit': 'promote', 'qualifiers': ['non-positional-parameters']},
                     f'defining the static class raised {type(e).__name__}: {e}\n{src}', case)
            continue
        got = {o[0]: o[1] for o in reflected(cls)}
        for j, sh in enumerate(chunk):
            nm = f'm{j}'
            pysig = inspect.signature(cls.__dict__[nm] if nm in cls.__dict__ else getattr(cls, nm))
            want = [[p.name, 1 if p.default is inspect.Parameter.empty else 0] for p in pysig.parameters.values()
                    if p.kind in (inspect.Parameter.POSITIONAL_ONLY, inspect.Parameter.POSITIONAL_OR_KEYWORD)]
            others = {p.name for p in pysig.parameters.values()} - {w[0] for w in want}
            stats['static_signature_methods'] = stats.get('static_signature_methods', 0) + 1
            r = got.get(nm)
            if r is None or [x for x in r if x[0] not in others] != want:
                out.fail({'property': 'C20', 'clause': 'static-reflection', 'culprit': 'promote', 'qualifiers': ['non-positional-parameters']},
                         f'static method `{rich_def(nm, *sh).strip().splitlines()[0]}`: reflected parameters (name, required) {r}, '
                         f'the positional parameters of the Python signature are {want}', case)


def alias_scenarios(ctx, out, stats=None):
    """Static class bodies in which names are bound to functions defined under another name: dunder ALIASES of ordinary
    methods (`__str__ = describe`, `__call__ = run`), ordinary aliases (`go = run`), an ordinary name for a dunder method
    (`shown = __repr__`).  A double-underscore KEY never gives an operation, nor does a double-underscore function; every
    other binding of a method gives one operation (named after the function).  Own PRNG stream 'C20:aliases'."""
    import collections
    common.use_repo()
    stats = stats if stats is not None else {}
    rng = common.rng_for(ctx.seed, 'C20:aliases')
    tag = {'scenario': 'aliases', 'seed': ctx.seed, 'tier': ctx.tier, 'section': 'C3'}
    plain = ['describe', 'run', 'step', '_helper']
    dunders = ['__str__', '__call__', '__repr__', '__len__', '__iter__']
    for ci in range(400 if ctx.tier == 'thorough' else 60):
        style = 'meta' if ci % 2 == 0 else 'decorator'
        defs = rng.sample(plain, rng.randint(1, 3))
        ddefs = rng.sample(dunders[2:], rng.randint(0, 1))
        body = [['def', n, rng.randint(0, 2)] for n in defs + ddefs]
        rng.shuffle(body)
        for _ in range(rng.randint(1, 4)):
            target = rng.choice(defs + ddefs)
            key = rng.choice(dunders[:2] + ['go', 'shown', 'also']) if rng.random() < 0.8 else rng.choice(dunders)
            if any(b[1] == key for b in body):
                continue
            at = max(i for i, b in enumerate(body) if b[0] == 'def' and b[1] == target) + 1
            body.insert(rng.randint(at, len(body)), ['alias', key, target])
        if ci < 4:      # the plain witnesses first
            body = [['def', 'describe', 1], ['alias', '__str__', 'describe'], ['def', 'run', 0], ['alias', '__call__', 'run']] + \
                   ([['alias', 'go', 'run']] if ci >= 2 else [])
        lines = ['from pyecore.ecore import *']
        lines += [f'class S{ci}(EObject, metaclass=MetaEClass):'] if style == 'meta' else ['@EMetaclass', f'class S{ci}(object):']
        for b in body:
            if b[0] == 'def':
                lines += [f'    def {b[1]}({", ".join(["self"] + REQ_NAMES[:b[2]])}):', "        return 'x'"]
            else:
                lines.append(f'    {b[1]} = {b[2]}')
        src = '\n'.join(lines) + '\n'
        case = dict(tag, history=body, style=style, source=src)
        stats['alias_classes'] = stats.get('alias_classes', 0) + 1
        try:
            cls = getattr(exec_static(src), f'S{ci}')
        except Exception as e:      # noqa: BLE001
            out.fail({'property': 'C20', 'clause': 'static-reflection-raised', 'culprit': 'promote', 'qualifiers': ['aliased-methods']},
                     f'defining the static class raised {type(e).__name__}: {e}\n{src}', case)
            continue
        got = collections.Counter(o[0] for o in reflected(cls))
        want = collections.Counter()
        for b in body:
            fn = b[1] if b[0] == 'def' else b[2]
            if not b[1].startswith('__') and not fn.startswith('__'):
                want[fn] += 1
        if got != want:
            out.fail({'property': 'C20', 'clause': 'static-reflection', 'culprit': 'promote', 'qualifiers': ['aliased-methods']},
                     f'static class with aliases: operations {dict(got)}, the bindings of methods under non-dunder names are {dict(want)}\n{src}', case)


def random_bulk_walk(rng, params, n):
    """n edits of which about half are BULK calls on eParameters (clear, del [:], del op.eParameters, extend of several,
    +=, whole-list assignment, pop), the others single edits."""
    cur = [list(p) for p in params]
    steps = []

    def some(k):
        names = fresh_names(cur, 4)
        out = [[names[j], 1, ['int', 'str', 'bool'][j % 3]] for j in range(rng.randint(0, 2))]
        out += [[names[len(out) + j], 0, ['str', 'int', 'bool'][j % 3]] for j in range(rng.randint(0 if out else 1, 2))]
        if rng.random() < 0.12 and len(out) >= 2:
            out.reverse()                       # possibly optional before required: no Python signature
        return out[:k]
    for _ in range(n):
        x = rng.random()
        k = len(cur)
        if x < 0.18:
            e = [rng.choice(['clear', 'delslice', 'delattr'])]
        elif x < 0.36:
            e = [rng.choice(['extend', 'iadd']), some(3)]
        elif x < 0.50:
            e = ['assign', some(4) if rng.random() < 0.85 else []]
        elif x < 0.58 and k:
            e = ['pop', rng.choice([-1, 0, k - 1])]
        elif x < 0.62:
            e = ['extend', []]
        else:
            e = random_walk(rng, cur, 1)[0]
        steps.append(e)
        cur = mio.apply_param_edits(cur, [e])
    return steps


def bulk_param_scenarios(ctx, out, model=None, intern=None, stats=None):
    """Own PRNG stream 'C20:bulkparams'; implementation + oracle only (every history edits a declared operation)."""
    common.use_repo()
    intern = intern or mio.Interner()
    stats = stats if stats is not None else {'histories': 0, 'ops': 0, 'op_kinds': {}, 'outcomes': {}, 'samples': []}
    thorough = ctx.tier == 'thorough'
    rng = common.rng_for(ctx.seed, 'C20:bulkparams')
    tag = {'scenario': 'bulkparams', 'seed': ctx.seed, 'tier': ctx.tier, 'section': 'E3'}
    hs = []
    two = [['x', 1, 'int'], ['y', 0, 'str']]
    for params in (shape(1, 1), shape(2, 0), shape(0, 2)):
        for emptier in (['clear'], ['delslice'], ['delattr'], ['assign', []]):
            for filler in (['extend', two], ['iadd', two], ['assign', two], ['append', ['x', 1, 'int']]):
                for pos, beh, upper in ((1, None, None), (2, 3, 1)):
                    hs.append(walk_history('run', params, [emptier, filler, ['pop', -1], emptier], pos, beh, upper))
        hs.append(walk_history('class', params, [['assign', two], ['extend', []], ['assign', [two[1], two[0]]], ['assign', two]], 2, None, None))
    for _ in range(2000 if thorough else 200):
        params = shape(rng.randrange(3), rng.randrange(3))
        pos = rng.choice([1, 2, 2, 3])
        hs.append(walk_history(rng.choice(['run', 'class', 'go']), params, random_bulk_walk(rng, params, rng.randint(3, 7)), pos,
                               rng.choice([None, None, min(pos + 1, 3)]) if pos < 3 else None,
                               rng.choice([None, 1]) if pos > 1 else None))
    for h in hs:
        name = [op[2] for op in h if op[0] == 'addop'][-1]
        case = dict(tag, history=h, names=[norm(name), name])
        run_history(out, model, intern, h, case['names'], case, stats)
        stats['bulk_parameter_histories'] = stats.get('bulk_parameter_histories', 0) + 1


def retype_scenarios(ctx, out, model=None, intern=None, stats=None):
    """A declared operation's parameters get another type -- also NO type (eType = None) and back -- or another name, one at a
    time, mixed with the single edits: the signature (defaults included) follows at once.  Own PRNG stream 'C20:retype';
    implementation + oracle only."""
    common.use_repo()
    intern = intern or mio.Interner()
    stats = stats if stats is not None else {'histories': 0, 'ops': 0, 'op_kinds': {}, 'outcomes': {}, 'samples': []}
    rng = common.rng_for(ctx.seed, 'C20:retype')
    tag = {'scenario': 'retype', 'seed': ctx.seed, 'tier': ctx.tier, 'section': 'E4'}
    kinds = ['int', 'str', 'bool', 'none', 'sdt', 'enum', 'ref']
    hs = []
    for k0 in ('int', 'bool', 'sdt', 'enum'):
        for k1 in ('none', 'str', 'bool'):
            params = [['a', 1, 'int'], ['d', 0, k0], ['e', 0, 'int']]
            for pos, beh, upper in ((1, None, None), (2, 3, 1)):
                hs.append(walk_history('run', params, [['retype', 1, k1], ['retype', 1, k0], ['retype', 0, 'none'], ['retype', 2, 'none'],
                                                        ['rename', 1, 'dd'], ['retype', 2, 'bool']], pos, beh, upper))
    for _ in range(1500 if ctx.tier == 'thorough' else 150):
        params = shape(rng.randrange(3), rng.randrange(1, 3))
        cur = [list(p) for p in params]
        steps = []
        for _ in range(rng.randint(3, 7)):
            x = rng.random()
            if cur and x < 0.5:
                e = ['retype', rng.randrange(len(cur)), rng.choice(kinds + ['none', 'none'])]
            elif cur and x < 0.65:
                e = ['rename', rng.randrange(len(cur)), fresh_names(cur, 1)[0]]
            else:
                e = random_walk(rng, cur, 1)[0]
            steps.append(e)
            cur = mio.apply_param_edits(cur, [e])
        pos = rng.choice([1, 2, 3])
        hs.append(walk_history(rng.choice(['run', 'class', 'go']), params, steps, pos,
                               rng.choice([None, None, min(pos + 1, 3)]) if pos < 3 else None, rng.choice([None, 1]) if pos > 1 else None))
    for h in hs:
        name = [op[2] for op in h if op[0] == 'addop'][-1]
        case = dict(tag, history=h, names=[norm(name), name])
        run_history(out, model, intern, h, case['names'], case, stats)
        stats['retype_histories'] = stats.get('retype_histories', 0) + 1


def invalid_walk_scenarios(ctx, out, model=None, intern=None, stats=None):
    """Own PRNG stream 'C20:throughinvalid'; implementation + oracle only (every history edits a declared operation)."""
    common.use_repo()
    intern = intern or mio.Interner()
    stats = stats if stats is not None else {'histories': 0, 'ops': 0, 'op_kinds': {}, 'outcomes': {}, 'samples': []}
    thorough = ctx.tier == 'thorough'
    rng = common.rng_for(ctx.seed, 'C20:throughinvalid')
    tag = {'scenario': 'throughinvalid', 'seed': ctx.seed, 'tier': ctx.tier, 'section': 'E2'}
    hs = []
    # all required -> all optional and back, one flag at a time, in every order
    for n in (2, 3):
        params = [[REQ_NAMES[i], 1, ['int', 'str', 'bool'][i]] for i in range(n)]
        for order in itertools.permutations(range(n)):
            for back in itertools.permutations(range(n)):
                if n == 3 and not thorough and (sum(order) * 7 + back[0] * 3 + back[1] + ctx.seed) % 3:
                    continue
                steps = [['flip', i] for i in order] + [['flip', i] for i in back]
                for pos, beh, upper in ((1, None, None), (2, None, 1), (2, 3, None)):
                    hs.append(walk_history('run', params, steps, pos, beh, upper))
    # a required parameter arrives at the end and is moved to the front; an optional one arrives in front and is made required
    for pos, upper in ((1, None), (2, 1)):
        hs.append(walk_history('go', shape(1, 1), [['append', ['g', 1, 'int']], ['move', 2, 0]], pos, None, upper))
        hs.append(walk_history('go', shape(1, 1), [['insert', 0, ['g', 0, 'int']], ['flip', 0], ['flip', 2], ['flip', 1], ['remove', 1]], pos, None, upper))
        hs.append(walk_history('class', shape(2, 0), [['flip', 0], ['remove', 0], ['insert', 0, ['g', 0, 'str']], ['move', 0, 1]], pos, None, upper))
    for _ in range(2000 if thorough else 250):
        params = shape(rng.randrange(3), rng.randrange(3))
        pos = rng.choice([1, 2, 2, 3])
        hs.append(walk_history(rng.choice(['run', 'class', 'go']), params, random_walk(rng, params, rng.randint(3, 8)), pos,
                               rng.choice([None, None, min(pos + 1, 3)]) if pos < 3 else None,
                               rng.choice([None, 1]) if pos > 1 else None))
    for h in hs:
        name = next(op[2] for op in h if op[0] == 'addop')
        case = dict(tag, history=h, names=[norm(name), name])
        run_history(out, model, intern, h, case['names'], case, stats)
        stats['through_invalid_histories'] = stats.get('through_invalid_histories', 0) + 1


# ---------------------------------------------------------------- section F: through an .ecore file and back
RT_KINDS = ['int', 'str', 'bool', 'ref']


def visible_decls(decls, c):
    """name -> (class, params) of the nearest declaration along the super types of c"""
    out = {}
    for k in reversed(chain(c)):
        for dc, name, params, _ in decls:
            if dc == k:
                out[name] = (dc, params)
    return out


def check_methods(out, classes, decls, stage, case, stats):
    import inspect
    culprit = 'load-ecore' if stage == 'loaded' else 'add-operation'
    for c in (1, 2, 3, 4):
        inst = classes[c]()
        for name, (dc, params) in sorted(visible_decls(decls, c).items()):
            stats['roundtrip_methods'] = stats.get('roundtrip_methods', 0) + 1
            nn = norm(name)
            where = f'{stage} metamodel: operation {name}{params} of class {dc} on an instance of class {c}'
            sigd = {'property': 'C20', 'culprit': culprit, 'qualifiers': []}
            m = getattr(inst, nn, None)
            if m is None or not callable(m):
                out.fail(dict(sigd, clause='add-gives-method'), f'{where}: no method {nn}', case)
                continue
            got = [[p.name, p.default is inspect.Parameter.empty, None if p.default is inspect.Parameter.empty else repr(p.default)]
                   for p in inspect.signature(m).parameters.values()]
            want = [[pn, bool(rq), None if rq else mio.default_text(tk)] for pn, rq, tk in params]
            if got != want:
                out.fail(dict(sigd, clause='signature'), f'{where}: signature (name, required, default) {got}, declared {want}', case)
                continue
            nreq = sum(1 for p in params if p[1])
            for k in sorted({nreq, len(params), len(params) + 1, max(nreq - 1, 0)}):
                try:
                    m(*([1] * k))
                    res = 'returned'
                except NotImplementedError:
                    res = 'NotImplementedError'
                except TypeError:
                    res = 'TypeError'
                except Exception as e:      # noqa: BLE001
                    res = type(e).__name__
                exp = 'NotImplementedError' if nreq <= k <= len(params) else 'TypeError'
                if res != exp:
                    out.fail(dict(sigd, clause='raises-NotImplementedError' if exp == 'NotImplementedError' else 'arity'),
                             f'{where}: called with {k} arguments -> {res}, expected {exp}', case)


def roundtrip_case(out, decls, case, path, stats, uid):
    import pyecore.ecore as ec
    from pyecore.resources import ResourceSet, URI
    pkg = ec.EPackage(f'p{uid}', nsURI=f'http://verif/c20/{uid}', nsPrefix=f'p{uid}')
    classes = {1: ec.EClass('K1')}
    classes[2] = ec.EClass('K2', superclass=classes[1])
    classes[3] = ec.EClass('K3', superclass=classes[2])
    classes[4] = ec.EClass('K4', superclass=classes[1])
    pkg.eClassifiers.extend(classes.values())
    types = {'int': ec.EInt, 'str': ec.EString, 'bool': ec.EBoolean, 'ref': classes[1]}
    for c, name, params, how in decls:
        mk = [ec.EParameter(pn, types[tk], required=bool(rq)) for pn, rq, tk in params]
        if how == 'later':                  # the operation is declared first, its parameters arrive one by one
            o = ec.EOperation(name)
            classes[c].eOperations.append(o)
            for p in mk:
                o.eParameters.append(p)
        elif how == 'extend':
            classes[c].eOperations.extend([ec.EOperation(name, params=mk)])
        else:
            classes[c].eOperations.append(ec.EOperation(name, params=mk))
    check_methods(out, classes, decls, 'built', case, stats)
    rset = ResourceSet()
    res = rset.create_resource(URI(path))
    res.append(pkg)
    res.save()
    rset2 = ResourceSet()
    pkg2 = rset2.get_resource(URI(path)).contents[0]
    loaded = {c: pkg2.getEClassifier(f'K{c}') for c in classes}
    for c, name, params, _ in decls:        # the declaration itself must have survived (else it is not C20's business)
        o = next((x for x in loaded[c].eOperations if x.name == name), None)
        if o is None or [[p.name, 1 if p.required else 0] for p in o.eParameters] != [[pn, 1 if rq else 0] for pn, rq, _ in params]:
            stats['roundtrip_declaration_lost'] = stats.get('roundtrip_declaration_lost', 0) + 1
            return
    check_methods(out, loaded, decls, 'loaded', case, stats)


def roundtrip_scenarios(ctx, out, stats=None):
    """A dynamic package with operations at every level of the graph is saved to an .ecore file and loaded in a fresh
    ResourceSet: every operation of every class, seen from an instance of every class, has the declared signature and
    call outcomes -- in the package as built and in the loaded one.  Own PRNG stream 'C20:roundtrip'."""
    import os
    import shutil
    import tempfile
    common.use_repo()
    stats = stats if stats is not None else {}
    rng = common.rng_for(ctx.seed, 'C20:roundtrip')
    tag = {'scenario': 'roundtrip', 'seed': ctx.seed, 'tier': ctx.tier, 'section': 'F'}
    shapes = [shape(r, o, RT_KINDS) for r in range(4) for o in range(4)]
    shapes = [[[pn, rq, tk if tk in RT_KINDS else 'int'] for pn, rq, tk in ps] for ps in shapes]
    base = os.path.join(common.VERIF, 'build', 'scratch')
    os.makedirs(base, exist_ok=True)
    tmp = tempfile.mkdtemp(prefix='c20_roundtrip_', dir=base)
    try:
        cases = []
        # every shape once, at the top, declared in the three ways
        for j, ps in enumerate(shapes):
            cases.append([[1 + j % 3, ['run', 'class', 'go'][j % 3], ps, ['append', 'later', 'extend'][j % 3]]])
        for _ in range(300 if ctx.tier == 'thorough' else 40):
            decls = []
            for c in (1, 2, 3, 4):
                for nm in ('run', 'class', 'go'):
                    if rng.random() < 0.45:
                        decls.append([c, nm, rng.choice(shapes), rng.choice(['append', 'later', 'extend'])])
            cases.append(decls)
        for uid, decls in enumerate(cases):
            case = dict(tag, history=decls)
            roundtrip_case(out, decls, case, os.path.join(tmp, f'm{uid}.ecore'), stats, uid)
            stats['roundtrips_through_ecore'] = stats.get('roundtrips_through_ecore', 0) + 1
    finally:
        shutil.rmtree(tmp, ignore_errors=True)


# ---------------------------------------------------------------- entry points
def run(ctx, out):
    common.use_repo()
    model = common.Model()
    intern = mio.Interner()
    stats = {'kw': 0, 'decls': 0, 'decl_outcomes': {}, 'static_bodies': 0, 'roundtrips': 0, 'histories': 0, 'ops': 0,
             'scenarios': 0, 'random_histories': 0, 'samples': [], 'op_kinds': {}, 'outcomes': {}}
    section_a(out, model, stats)
    section_b(out, model, intern, stats)
    section_c(out, model, intern, stats, ctx.tier == 'thorough')
    static_hierarchy_cases(out, model, stats, common.rng_for(ctx.seed, 'C20:hierarchy'), 60 if ctx.tier != 'thorough' else 1500)
    section_d(out, model, intern, stats, ctx)
    redeclare_scenarios(ctx, out, model, intern, stats)
    static_signature_scenarios(ctx, out, stats)
    alias_scenarios(ctx, out, stats)
    invalid_walk_scenarios(ctx, out, model, intern, stats)
    bulk_param_scenarios(ctx, out, model, intern, stats)
    retype_scenarios(ctx, out, model, intern, stats)
    roundtrip_scenarios(ctx, out, stats)
    model.close()
    if mio.flag_installed():
        out.diff('Metasubinstance.mro is replaced at the end of the C20 run', {'global': True})
    n = stats['decls'] + stats['static_bodies'] + stats['roundtrips'] + stats['histories']
    out.coverage.update({
        'evaluations': n + stats['kw'],
        'distinct_nontrivial': stats['decls'] + stats['static_bodies'] + stats['scenarios'] + stats['random_histories']
                               + stats['redeclare_scenarios'] + stats['redeclare_random'] + stats.get('edit_scenarios', 0)
                               + stats.get('roundtrips_through_ecore', 0),
        'rule': 'a case = one declaration on a fresh class (B), one generated static class body (C), or one history on the '
                '3-level graph (D); B is exhaustive over <=3 required + <=3 optional parameters x {plain, keyword, None} names '
                'plus every ill-ordered flag vector of length <=4 and the listed odd names; D declares each of them at every '
                'level with instances created before and after, behaviour at the class or below, both add paths, then removes; '
                'E (own PRNG stream) takes a declared operation OBJECT out of its class (remove / pop / move to the same class, a '
                'subtype, a supertype, an unrelated class), edits its eParameters in place (append, insert, remove, required flag, '
                'reorder), declares the same object again and compares signature and call outcomes of old and new instances with '
                'the current declaration, plus seeded random histories over that alphabet',
        'traces_validated_against_impl': n,
        'keyword_table_entries_checked': stats['kw'],
        'declarations': stats['decls'], 'declaration_outcomes_by_code': stats['decl_outcomes'],
        'static_bodies': stats['static_bodies'], 'static_hierarchies': stats.get('static_hierarchies', 0), 'roundtrips': stats['roundtrips'],
        'histories': stats['histories'], 'history_ops': stats['ops'],
        'history_ops_by_kind': stats['op_kinds'], 'history_outcomes_by_code': stats['outcomes'],
        'scenarios': stats['scenarios'], 'random_histories': stats['random_histories'],
        'redeclare_scenarios': stats['redeclare_scenarios'], 'redeclare_random_histories': stats['redeclare_random'],
        'edit_while_declared_scenarios': stats.get('edit_scenarios', 0),
        'edit_walks_through_invalid_parameter_lists': stats.get('through_invalid_histories', 0),
        'edit_walks_with_bulk_calls_on_eParameters': stats.get('bulk_parameter_histories', 0),
        'static_classes_with_non_positional_parameters': stats.get('static_signature_classes', 0),
        'static_classes_with_aliased_methods': stats.get('alias_classes', 0), 'retype_rename_walks': stats.get('retype_histories', 0),
        'static_methods_with_non_positional_parameters': stats.get('static_signature_methods', 0),
        'roundtrips_through_ecore': stats.get('roundtrips_through_ecore', 0), 'methods_checked_in_roundtrips': stats.get('roundtrip_methods', 0),
        'roundtrips_whose_declaration_did_not_survive_the_file': stats.get('roundtrip_declaration_lost', 0),
        'histories_judged_by_the_oracle_only_(in_place_edits_of_declared_operations)': stats.get('oracle_only_histories', 0),
        'samples': stats['samples'][:6],
    })
    out.assumptions += [
        'names are ASCII; parameter names that are Python keywords, duplicate parameter names and a declared parameter '
        'called self are outside the property (no Python signature can carry them): the model predicts what happens, the oracle is silent',
        'a required parameter after an optional one is outside the property: pyecore raises SyntaxError from eOperations.append '
        'and keeps the operation declared without a method (model and implementation agree on that)',
        'default values are compared through repr(); parameter types used: EInt, EString, EBoolean, an EClass, a str-valued '
        'EDataType with default, an EEnum',
        'static methods with *args, keyword-only, positional-only and **kwargs parameters (section C2): only the positional '
        'parameters are judged (names in order, required iff no default); an EOperation cannot declare the other kinds',
        'RestrictedPython compiles the generated source: its naming policy is part of the model (Operations.restricted_name)',
        'parameters edited while the operation is declared: the generated method follows at once (fix e6fe3b2), an attached '
        'behaviour stays; the Coq model has no in-place edits, such histories are judged by the oracle only; while the edited '
        'parameter list is outside the property (no Python signature) nothing is judged',
    ]


def replay(ctx, rep):
    common.use_repo()
    case = rep['case']
    if case.get('scenario') == 'roundtrip':
        return common.scenario_replay(ctx, rep, {'roundtrip': roundtrip_scenarios})
    if case.get('scenario') == 'aliases':
        return common.scenario_replay(ctx, rep, {'aliases': alias_scenarios})
    if case.get('scenario') == 'retype':
        return common.scenario_replay(ctx, rep, {'retype': retype_scenarios})
    if case.get('scenario') == 'staticsig':
        return common.scenario_replay(ctx, rep, {'staticsig': static_signature_scenarios})
    if case.get('scenario') == 'bulkparams':
        return common.scenario_replay(ctx, rep, {'bulkparams': bulk_param_scenarios})
    if case.get('scenario') == 'throughinvalid':
        return common.scenario_replay(ctx, rep, {'throughinvalid': invalid_walk_scenarios})
    intern = mio.Interner()
    out = common.Outcome('C20', 'quick', 0)
    if case.get('section') == 'B':
        code, nn, sig, _ = one_decl_impl(case['name'], case['params'], intern)
        print('outcome code', code, 'method name', nn, 'signature tokens', sig)
        if in_quantifier(case['name'], case['params']):
            oracle_decl(out, case['name'], case['params'], code, nn, sig, intern, case, 'append')
    elif case.get('section') == 'C':
        members = [tuple(m) for m in case['members']]
        src = body_source(case['class'], members, case['style'])
        print(src)
        got = reflected(getattr(exec_static(src), case['class']))
        want = expected_reflection(members)
        print('eOperations', got)
        print('declared   ', want)
        if got != want:
            out.fail({}, 'static', case)
    elif case.get('section') == 'C-roundtrip':
        got = reflected(exec_static(case['source']).RT)
        print(case['source'], got)
        out.fail({}, 'roundtrip', case)
    else:
        r = mio.run_impl(case['history'], case['names'], intern)
        spec = Spec(out, intern)
        for op, res in zip(case['history'], r['per_op']):
            print(op, '->', res)
            spec.feed(op, res, case)
    for f in out.oracle_fails:
        print('FAILS:', f['what'])
    print('REPRODUCED' if out.oracle_fails else 'not reproduced')
    return 1 if out.oracle_fails else 0
