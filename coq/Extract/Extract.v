(* Extraction of the executable models (trusted base: ExtrOcamlBasic only;
   Z, positive and nat stay extracted inductive datatypes). *)
From Coq Require Import ExtrOcamlBasic.
From PyecoreV Require Import Model.Coll Model.KernelIO Model.Premises Model.Fragment Model.Defaults Model.MetaViews Model.Commands Model.SaveFsIO Model.ResourceSet Model.DataConv Model.C3 Model.Operations Model.MetaEdit Model.EcoreIO Model.NameFrag Model.XmiAttr Model.JsonVal Model.RefLoad Model.PathsIO Model.Href Model.IdFragIO Model.IdFragPremises Model.EnumEdit Model.Slice Model.StaticDecl Model.XmiDoc Model.JsonDoc.
(* the executable precondition of the acyclicity theorems (Proofs/Acyclic.v: fits_b, sound by fits_b_sound_init),
   on the same case encoding as run_kernel *)
From PyecoreV Require Import Model.Kernel Proofs.Acyclic.
Definition run_fits (t : list BinNums.Z) : list BinNums.Z :=
  let '(m, rest) := KernelIO.dec_mm t in
  cons (b2z (fits_b m (Kernel.init_state m) (KernelIO.dec_ops (length rest) rest))) nil.
Extraction "modelgen.ml" run_idfrag run_idfrag_premises run_coll run_kernel run_premises run_fits run_frag run_defaults run_metaviews run_commands run_savefs run_rset run_dataconv run_c3 run_sig run_promote run_iskw run_metaedit run_ecoremm run_namefrag run_xmiattr run_jsonval run_refload run_paths run_proxy run_href run_enum run_slice run_slicenotif run_sliceinv run_staticdecl run_xmidoc_enc run_xmidoc_dec run_jsondoc_enc run_jsondoc_dec.
