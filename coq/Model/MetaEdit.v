(* The dynamic-metaclass mirror: what EClass keeps in step with the
   metamodel (ecore.py EClass.__new__ 807-847, notifyChanged 872-895,
   __create_fun 897-904, _update_supertypes / __compute_supertypes 906-929),
   the Python class objects it maintains (namespace, __bases__, linearisation:
   Model/C3.v), and attribute access on instances (descriptor protocol:
   EStructuralFeature.__get__/__set__ 676-720, data descriptor before instance
   dict before plain class attribute).

   State per class: own features, own operations, eSuperTypes (metamodel side)
   and namespace, bases, cached linearisation (__mro__) and registered direct
   subclasses in registration order (Python side).  A __bases__ assignment
   (typeobject.c type_set_bases / mro_hierarchy) re-linearises the class from
   the *cached* linearisations of its bases, then each registered subclass in
   turn, depth first; the first failure rolls everything back.  Subclasses are
   therefore re-linearised against partly stale caches, which makes some
   assignments fail although a from-scratch linearisation exists -- pyecore
   then falls back (sorted order, then the global replacement).
   Class 0 is EObject (root); dynamic classes are numbered from 1.
   Values: -1 = None, 0..999 = that int, 1000+j = instance j.
   No proofs here. *)
From Coq Require Import String Ascii ZArith Bool List.
From PyecoreV Require Import Lib.PyBase Lib.PyList Model.C3 Model.Operations.
Import ListNotations.
Open Scope Z_scope.

Record feat : Type := mkFeat {
  f_name : name;
  f_type : Z;          (* 0: EAttribute of EInt ; t > 0: EReference to class t *)
  f_many : bool;       (* upper = -1 *)
  f_default : Z        (* default value of a single-valued feature *)
}.

Record oper : Type := mkOper { o_name : name; o_params : list param }.

Inductive entry : Type :=
| EFeat (f : feat)          (* the feature object itself: a data descriptor *)
| EFun (s : argspec)        (* the generated stub *)
| EBeh (b : Z).             (* a function attached with @behavior *)

(* what an instance __dict__ holds under a name *)
Inductive slot : Type :=
| SSingle (f : feat) (v : Z)          (* EValue created for feature f *)
| SColl (f : feat) (vs : list Z)      (* EOrderedSet created for feature f *)
| SRaw (v : Z).                       (* a plain Python attribute *)

Record cls : Type := mkCls {
  c_feats : list feat;
  c_ops : list oper;
  c_supers : list Z;
  c_ns : list (name * entry);
  c_bases : list Z;
  c_mro : list Z;      (* cached __mro__ (EObject = 0 included) *)
  c_subs : list Z      (* __subclasses__(), registration order *)
}.

Record inst : Type := mkInst { i_cls : Z; i_dict : list (name * slot) }.

Record state : Type := mkState {
  classes : list cls;
  insts : list inst;
  flag : bool          (* Metasubinstance.mro has been replaced (process-wide) *)
}.

Definition empty_state (fl : bool) : state := mkState [] [] fl.

Inductive mexn : Type :=
| XKey | XBadValue | XAttr | XType | XNotImpl | XSyntax.

Definition mexn_code (e : mexn) : Z :=
  match e with
  | XKey => 1 | XBadValue => 4 | XAttr => 5 | XType => 6 | XNotImpl => 7
  | XSyntax => 8
  end.

(* ---------- association lists keyed by names ---------- *)

Fixpoint ns_get {V} (n : name) (ns : list (name * V)) : option V :=
  match ns with
  | [] => None
  | (k, v) :: r => if name_eqb k n then Some v else ns_get n r
  end.

Fixpoint ns_set {V} (n : name) (v : V) (ns : list (name * V)) : list (name * V) :=
  match ns with
  | [] => [(n, v)]
  | (k, x) :: r => if name_eqb k n then (k, v) :: r else (k, x) :: ns_set n v r
  end.

(* delattr: None when the name is absent (AttributeError) *)
Fixpoint ns_del {V} (n : name) (ns : list (name * V)) : option (list (name * V)) :=
  match ns with
  | [] => None
  | (k, x) :: r =>
    if name_eqb k n then Some r
    else match ns_del n r with Some r' => Some ((k, x) :: r') | None => None end
  end.

(* ---------- access to classes and instances ---------- *)

Definition idx (c : Z) : nat := Z.to_nat (c - 1).

Definition getc (st : state) (c : Z) : option cls :=
  if c <=? 0 then None else nth_error (classes st) (idx c).

Definition setc (st : state) (c : Z) (k : cls) : state :=
  mkState (set_at (idx c) k (classes st)) (insts st) (flag st).

Definition geti (st : state) (i : Z) : option inst :=
  if i <? 0 then None else nth_error (insts st) (Z.to_nat i).

Definition seti (st : state) (i : Z) (x : inst) : state :=
  mkState (classes st) (set_at (Z.to_nat i) x (insts st)) (flag st).

Definition with_feats (fs : list feat) (k : cls) :=
  mkCls fs (c_ops k) (c_supers k) (c_ns k) (c_bases k) (c_mro k) (c_subs k).
Definition with_ops (os : list oper) (k : cls) :=
  mkCls (c_feats k) os (c_supers k) (c_ns k) (c_bases k) (c_mro k) (c_subs k).
Definition with_ns (ns : list (name * entry)) (k : cls) :=
  mkCls (c_feats k) (c_ops k) (c_supers k) ns (c_bases k) (c_mro k) (c_subs k).
Definition with_supers (ss : list Z) (k : cls) :=
  mkCls (c_feats k) (c_ops k) ss (c_ns k) (c_bases k) (c_mro k) (c_subs k).
Definition with_bases (bs : list Z) (k : cls) :=
  mkCls (c_feats k) (c_ops k) (c_supers k) (c_ns k) bs (c_mro k) (c_subs k).
Definition with_mro (l : list Z) (k : cls) :=
  mkCls (c_feats k) (c_ops k) (c_supers k) (c_ns k) (c_bases k) l (c_subs k).
Definition with_subs (l : list Z) (k : cls) :=
  mkCls (c_feats k) (c_ops k) (c_supers k) (c_ns k) (c_bases k) (c_mro k) l.

Definition nclasses (st : state) : nat := length (classes st).
Definition fuel_of (st : state) : nat := S (S (nclasses st)).

Definition bases_fn (st : state) (c : Z) : list Z :=
  match getc st c with Some k => c_bases k | None => [] end.

Definition supers_fn (st : state) (c : Z) : list Z :=
  match getc st c with Some k => c_supers k | None => [] end.

Definition ns_of (st : state) (c : Z) : list (name * entry) :=
  match getc st c with Some k => c_ns k | None => [] end.

(* type(x).__mro__ restricted to EObject and the dynamic classes: the cache *)
Definition mro (st : state) (c : Z) : option (list Z) :=
  if c =? 0 then Some [0]
  else match getc st c with Some k => Some (c_mro k) | None => None end.

(* what a linearisation from scratch over the current bases graph gives *)
Definition mro_spec (st : state) (c : Z) : option (list Z) :=
  mro_of (bases_fn st) (flag st) (fuel_of st) c.

Definition is_some {A} (o : option A) : bool := match o with Some _ => true | None => false end.

(* ---------- supertypes ---------- *)

(* EClass.eAllSuperTypes(): metamodel side *)
Definition all_supertypes (st : state) (c : Z) : list Z :=
  zdedup (all_bases (supers_fn st) (fuel_of st) c).

(* __compute_supertypes *)
Definition compute_supertypes (supers : list Z) : list Z :=
  match supers with
  | [] => [0]
  | _ =>
    if (Nat.ltb 1 (length supers)) && zmem 0 supers
    then match remove_first Z.eqb 0 supers with Some l => l | None => supers end
    else supers
  end.

(* sorted(..., key=..., reverse=True): stable *)
Fixpoint insert_desc (key : Z -> nat) (x : Z) (l : list Z) : list Z :=
  match l with
  | [] => [x]
  | y :: r => if Nat.leb (key y) (key x) then x :: l else y :: insert_desc key x r
  end.

Definition sort_desc (key : Z -> nat) (l : list Z) : list Z :=
  fold_right (insert_desc key) [] l.

Definition set_bases (st : state) (c : Z) (bs : list Z) : state :=
  match getc st c with
  | Some k => setc st c (with_bases bs k)
  | None => st
  end.

Definition set_flag (st : state) : state := mkState (classes st) (insts st) true.

Definition upd_cls (st : state) (c : Z) (f : cls -> cls) : state :=
  match getc st c with Some k => setc st c (f k) | None => st end.

(* metatype.mro(cls): type.mro over the cached linearisations of the bases;
   with the replacement installed, its fall-back when C3 fails *)
Definition linearize_cached (st : state) (c : Z) (bs : list Z) : option (list Z) :=
  match map_opt (mro st) bs with
  | None => None
  | Some ms =>
    match linearize c ms bs with
    | Some l => Some l
    | None => if flag st then Some (zdedup (c :: all_bases (bases_fn st) (fuel_of st) c)) else None
    end
  end.

(* mro_hierarchy: the class, then each registered subclass, depth first *)
Definition obind {A B} (o : option A) (f : A -> option B) : option B :=
  match o with Some a => f a | None => None end.

Fixpoint hier (fuel : nat) (st : state) (c : Z) : option state :=
  match fuel with
  | O => None
  | S f =>
    match getc st c with
    | None => None
    | Some k =>
      match linearize_cached st c (c_bases k) with
      | None => None
      | Some l =>
        fold_left (fun acc d => obind acc (fun s => hier f s d)) (c_subs k)
                  (Some (setc st c (with_mro l k)))
      end
    end
  end.

Definition remove_sub (c : Z) (olds : list Z) (st : state) : state :=
  fold_left (fun s b => upd_cls s b (fun k => with_subs (filter (fun x => negb (x =? c)) (c_subs k)) k)) olds st.

Definition add_sub (c : Z) (news : list Z) (st : state) : state :=
  fold_left (fun s b => upd_cls s b (fun k => with_subs (c_subs k ++ [c]) k)) news st.

(* python_class.__bases__ = bs (type_set_bases): no cycle; the class and all
   its subclasses get a linearisation, otherwise TypeError and nothing
   changes; then the subclass registrations move *)
Definition assign (st : state) (c : Z) (bs : list Z) : option state :=
  match getc st c with
  | None => None
  | Some k =>
    if existsb (fun b => match mro st b with Some l => zmem c l | None => false end) bs then None
    else match hier (fuel_of st) (setc st c (with_bases bs k)) c with
         | None => None
         | Some st2 => Some (add_sub c bs (remove_sub c (c_bases k) st2))
         end
  end.

(* _update_supertypes (and the same three attempts in EClass.__new__) *)
Definition update_supertypes (st : state) (c : Z) : state * option mexn :=
  let bs := compute_supertypes (supers_fn st c) in
  match assign st c bs with
  | Some st' => (st', None)
  | None =>
    let bs2 := sort_desc (fun x => length (all_supertypes st x)) bs in
    match assign st c bs2 with
    | Some st' => (st', None)
    | None =>
      let st1 := set_flag st in
      match assign st1 c bs2 with
      | Some st' => (st', None)
      | None => (st1, Some XType)
      end
    end
  end.

Definition set_supers (st : state) (c : Z) (ss : list Z) : state :=
  match getc st c with
  | Some k => setc st c (with_supers ss k)
  | None => st
  end.

(* ---------- the edits ---------- *)

Inductive op : Type :=
| NewClass (supers : list Z)               (* EClass(name, superclass=tuple) *)
| AddSuper (c s : Z)                       (* c.eSuperTypes.append(s) *)
| RemoveSuper (c s : Z)
| AddFeat (c : Z) (f : feat)               (* append / extend of a fresh feature *)
| RemoveFeat (c : Z) (n : name)            (* remove the feature of c named n *)
| ClearFeats (c : Z)
| AddOp (c : Z) (o : oper)
| RemoveOp (c : Z) (n : name)
| ClearOps (c : Z)
| Attach (c : Z) (n : name) (b : Z)        (* @c.behavior def n(self, *args): return b *)
| NewInst (c : Z)
| Get (i : Z) (n : name)                   (* getattr(i, n) *)
| SetA (i : Z) (n : name) (v : Z)          (* setattr(i, n, v) *)
| Append (i : Z) (n : name) (v : Z)        (* getattr(i, n).append(v) *)
| Call (i : Z) (n : name) (k : Z)          (* getattr(i, n)(k positional arguments) *)
| Sig (i : Z) (n : name).                  (* inspect.signature(getattr(i, n)) *)

Inductive outcome : Type :=
| ROk (payload : list Z)
| RErr (e : mexn).


Fixpoint remove_feat (n : name) (fs : list feat) : option (list feat) :=
  match fs with
  | [] => None
  | f :: r => if name_eqb (f_name f) n then Some r
              else match remove_feat n r with Some r' => Some (f :: r') | None => None end
  end.

Fixpoint remove_oper (n : name) (os : list oper) : option (list oper) :=
  match os with
  | [] => None
  | o :: r => if name_eqb (o_name o) n then Some r
              else match remove_oper n r with Some r' => Some (o :: r') | None => None end
  end.

(* delattr(python_class, n) for each n in turn; stops at the first absent one *)
Fixpoint del_all (ns : list (name * entry)) (names : list name) : list (name * entry) * bool :=
  match names with
  | [] => (ns, true)
  | n :: r => match ns_del n ns with
              | Some ns' => del_all ns' r
              | None => (ns, false)
              end
  end.

(* ---------- attribute access on instances ---------- *)

Fixpoint first_some {A B} (f : A -> option B) (l : list A) : option B :=
  match l with
  | [] => None
  | x :: r => match f x with Some y => Some y | None => first_some f r end
  end.

(* type(instance).n through the linearisation *)
Definition class_lookup (st : state) (c : Z) (n : name) : option entry :=
  match mro st c with
  | Some l => first_some (fun d => ns_get n (ns_of st d)) l
  | None => None
  end.

Definition default_slot (f : feat) : slot :=
  if f_many f then SColl f [] else SSingle f (f_default f).

Inductive gres : Type :=
| GAbsent                      (* AttributeError *)
| GSingle (v : Z)              (* value of a single-valued feature *)
| GColl (vs : list Z)          (* the collection of a many-valued feature *)
| GStaleSingle                 (* a bare EValue holder comes back *)
| GStaleColl (vs : list Z)     (* a collection that no declared feature owns *)
| GFun (s : argspec)
| GBeh (b : Z)
| GRaw (v : Z).

Definition set_slot (st : state) (i : Z) (n : name) (s : slot) : state :=
  match geti st i with
  | Some x => seti st i (mkInst (i_cls x) (ns_set n s (i_dict x)))
  | None => st
  end.

(* getattr(i, n): data descriptor of the type first, then the instance
   dict, then the remaining class attributes *)
Definition getattr_m (st : state) (i : Z) (n : name) : state * gres :=
  match geti st i with
  | None => (st, GAbsent)
  | Some x =>
    let d := ns_get n (i_dict x) in
    match class_lookup st (i_cls x) n with
    | Some (EFeat f) =>
      match d with
      | Some (SSingle _ v) => (st, GSingle v)
      | Some (SColl _ vs) => (st, GColl vs)
      | Some (SRaw v) => (st, GRaw v)
      | None =>
        let s := default_slot f in
        (set_slot st i n s,
         match s with SSingle _ v => GSingle v | SColl _ vs => GColl vs | SRaw v => GRaw v end)
      end
    | other =>
      match d with
      | Some (SSingle _ _) => (st, GStaleSingle)
      | Some (SColl _ vs) => (st, GStaleColl vs)
      | Some (SRaw v) => (st, GRaw v)
      | None =>
        match other with
        | Some (EFun s) => (st, GFun s)
        | Some (EBeh b) => (st, GBeh b)
        | _ => (st, GAbsent)
        end
      end
    end
  end.

(* EcoreUtils.isinstance(value, eType) for the modelled value space *)
Definition conforms (st : state) (ftype v : Z) : bool :=
  if v =? -1 then true
  else if ftype =? 0 then (0 <=? v) && (v <? 1000)
  else if v <? 1000 then false
  else match geti st (v - 1000) with
       | Some j => match mro st (i_cls j) with Some l => zmem ftype l | None => false end
       | None => false
       end.

Definition setattr_m (st : state) (i : Z) (n : name) (v : Z) : state * outcome :=
  match geti st i with
  | None => (st, RErr XAttr)
  | Some x =>
    match class_lookup st (i_cls x) n with
    | Some (EFeat f) =>
      let '(st1, s) := match ns_get n (i_dict x) with
                       | Some s => (st, s)
                       | None => (set_slot st i n (default_slot f), default_slot f)
                       end in
      match s with
      | SColl _ _ => (st1, RErr XBadValue)          (* a scalar is not iterable *)
      | SSingle fs _ =>
        if conforms st1 (f_type fs) v then (set_slot st1 i n (SSingle fs v), ROk [])
        else (st1, RErr XBadValue)
      | SRaw _ => (st1, RErr XAttr)
      end
    | _ => (set_slot st i n (SRaw v), ROk [])
    end
  end.

Definition append_m (st : state) (i : Z) (n : name) (v : Z) : state * outcome :=
  let '(st1, _) := getattr_m st i n in
  match geti st1 i with
  | None => (st1, RErr XAttr)
  | Some x =>
    match ns_get n (i_dict x) with
    | Some (SColl f vs) =>
      (* ECollection.check: None is refused by reference collections *)
      if conforms st1 (f_type f) v && negb ((v =? -1) && (0 <? f_type f))
      then (set_slot st1 i n (SColl f (if zmem v vs then vs else vs ++ [v])), ROk [])
      else (st1, RErr XBadValue)
    | _ => (st1, RErr XAttr)
    end
  end.

Definition enc_gres (g : gres) : list Z :=
  match g with
  | GAbsent => [0]
  | GSingle v => [1; v]
  | GColl vs => 2 :: Z.of_nat (length vs) :: vs
  | GStaleSingle => [3]
  | GStaleColl vs => 2 :: Z.of_nat (length vs) :: vs   (* the same object a live feature would give *)
  | GFun _ => [4; 0]
  | GBeh b => [4; b]
  | GRaw v => [1; v]
  end.

(* ---------- one step ---------- *)

Definition new_class (st : state) (supers : list Z) : state * outcome :=
  let ss := zdedup supers in
  let c := Z.of_nat (S (nclasses st)) in
  let st1 := mkState (classes st ++ [mkCls [] [] ss [] [] [c] []]) (insts st) (flag st) in
  match update_supertypes st1 c with
  | (st2, None) => (st2, ROk [c])
  | (st2, Some e) => (st2, RErr e)
  end.

Definition add_oper (st : state) (c : Z) (o : oper) : state * outcome :=
  match getc st c with
  | None => (st, RErr XKey)
  | Some k =>
    let st1 := setc st c (with_ops (c_ops k ++ [o]) k) in
    let h := to_code (o_name o) (o_params o) in
    match py_def h with
    | inl SyntaxErr => (st1, RErr XSyntax)
    | inr s => (upd_cls st1 c (fun k1 => with_ns (ns_set (h_name h) (EFun s) (c_ns k1)) k1), ROk [])
    end
  end.

Definition step (o : op) (st : state) : state * outcome :=
  match o with
  | NewClass supers => new_class st supers
  | AddSuper c s =>
    match getc st c with
    | None => (st, RErr XKey)
    | Some k =>
      (* appending a supertype that is already there changes nothing in the
         ordered set but still notifies: the bases are recomputed *)
      let ss := if zmem s (c_supers k) then c_supers k else c_supers k ++ [s] in
      match update_supertypes (set_supers st c ss) c with
      | (st2, None) => (st2, ROk [])
      | (st2, Some e) => (st2, RErr e)
      end
    end
  | RemoveSuper c s =>
    match getc st c with
    | None => (st, RErr XKey)
    | Some k =>
      match remove_first Z.eqb s (c_supers k) with
      | None => (st, RErr XKey)
      | Some ss => match update_supertypes (set_supers st c ss) c with
                   | (st2, None) => (st2, ROk [])
                   | (st2, Some e) => (st2, RErr e)
                   end
      end
    end
  | AddFeat c f =>
    match getc st c with
    | None => (st, RErr XKey)
    | Some k =>
      (setc st c (with_ns (ns_set (f_name f) (EFeat f) (c_ns k)) (with_feats (c_feats k ++ [f]) k)), ROk [])
    end
  | RemoveFeat c n =>
    match getc st c with
    | None => (st, RErr XKey)
    | Some k =>
      match remove_feat n (c_feats k) with
      | None => (st, RErr XKey)
      | Some fs =>
        let k1 := with_feats fs k in
        match ns_del n (c_ns k1) with
        | Some ns => (setc st c (with_ns ns k1), ROk [])
        | None => (setc st c k1, RErr XAttr)
        end
      end
    end
  | ClearFeats c =>
    match getc st c with
    | None => (st, RErr XKey)
    | Some k =>
      let k1 := with_feats [] k in
      let '(ns, ok) := del_all (c_ns k1) (map f_name (c_feats k)) in
      (setc st c (with_ns ns k1), if ok then ROk [] else RErr XAttr)
    end
  | AddOp c o => add_oper st c o
  | RemoveOp c n =>
    match getc st c with
    | None => (st, RErr XKey)
    | Some k =>
      match remove_oper n (c_ops k) with
      | None => (st, RErr XKey)
      | Some os =>
        let k1 := with_ops os k in
        match ns_del (normalized_name n) (c_ns k1) with
        | Some ns => (setc st c (with_ns ns k1), ROk [])
        | None => (setc st c k1, RErr XAttr)
        end
      end
    end
  | ClearOps c =>
    match getc st c with
    | None => (st, RErr XKey)
    | Some k =>
      let k1 := with_ops [] k in
      let '(ns, ok) := del_all (c_ns k1) (map (fun o => normalized_name (o_name o)) (c_ops k)) in
      (setc st c (with_ns ns k1), if ok then ROk [] else RErr XAttr)
    end
  | Attach c n b =>
    match getc st c with
    | None => (st, RErr XKey)
    | Some k => (setc st c (with_ns (ns_set n (EBeh b) (c_ns k)) k), ROk [])
    end
  | NewInst c =>
    match getc st c with
    | None => (st, RErr XKey)
    | Some _ =>
      (mkState (classes st) (insts st ++ [mkInst c []]) (flag st),
       ROk [Z.of_nat (length (insts st))])
    end
  | Get i n =>
    let '(st1, g) := getattr_m st i n in
    match g with GAbsent => (st1, RErr XAttr) | _ => (st1, ROk (enc_gres g)) end
  | SetA i n v => setattr_m st i n v
  | Append i n v => append_m st i n v
  | Call i n k =>
    let '(st1, g) := getattr_m st i n in
    match g with
    | GAbsent => (st1, RErr XAttr)
    | GFun s => (st1, RErr (if accepts s (Z.to_nat k) then XNotImpl else XType))
    | GBeh b => (st1, ROk [b])
    | _ => (st1, RErr XType)
    end
  | Sig i n =>
    let '(st1, g) := getattr_m st i n in
    match g with
    | GAbsent => (st1, RErr XAttr)
    | GFun s => (st1, ROk (0 :: enc_view (bound_signature s)))
    | GBeh b => (st1, ROk [1; b])
    | _ => (st1, RErr XType)
    end
  end.

Definition next (st : state) (o : op) : state := fst (step o st).

(* ---------- reflective views (metamodel side) ---------- *)

Definition closure (st : state) (c : Z) : list Z := c :: all_supertypes st c.

Definition feats_of (st : state) (c : Z) : list feat :=
  match getc st c with Some k => c_feats k | None => [] end.
Definition ops_of (st : state) (c : Z) : list oper :=
  match getc st c with Some k => c_ops k | None => [] end.

Definition starts_underscore (n : name) : bool :=
  match n with c :: _ => c =? UNDERSCORE | [] => false end.

(* n in dir(instance of c)  (EObject.__dir__) *)
Definition in_dir (st : state) (c : Z) (n : name) : bool :=
  existsb (fun d => nmem n (map f_name (feats_of st d))) (closure st c)
  || (negb (starts_underscore n)
      && existsb (fun d => nmem n (map o_name (ops_of st d))) (closure st c)).

(* isinstance(i, c) = EcoreUtils.isinstance(i, c) *)
Definition isinstance_m (st : state) (i c : Z) : bool :=
  match geti st i with
  | Some x => match mro st (i_cls x) with Some l => zmem c l | None => false end
  | None => false
  end.

(* ---------- token codec ---------- *)

Definition dec_list (t : list Z) : list Z * list Z :=
  match t with
  | k :: r => (Operations.take (Z.to_nat k) r, Operations.drop (Z.to_nat k) r)
  | [] => ([], [])
  end.

Definition dec_op (t : list Z) : option (op * list Z) :=
  match t with
  | 1 :: r => let '(l, r') := dec_list r in Some (NewClass l, r')
  | 2 :: c :: s :: r => Some (AddSuper c s, r)
  | 3 :: c :: s :: r => Some (RemoveSuper c s, r)
  | 4 :: c :: r =>
    let '(n, r1) := dec_name r in
    match r1 with
    | ty :: many :: dflt :: r2 => Some (AddFeat c (mkFeat n ty (many =? 1) dflt), r2)
    | _ => None
    end
  | 5 :: c :: r => let '(n, r1) := dec_name r in Some (RemoveFeat c n, r1)
  | 6 :: c :: r => Some (ClearFeats c, r)
  | 7 :: c :: r =>
    let '(n, r1) := dec_name r in
    match r1 with
    | k :: r2 => let '(ps, r3) := dec_params (Z.to_nat k) r2 in Some (AddOp c (mkOper n ps), r3)
    | [] => None
    end
  | 8 :: c :: r => let '(n, r1) := dec_name r in Some (RemoveOp c n, r1)
  | 9 :: c :: r => Some (ClearOps c, r)
  | 10 :: c :: b :: r => let '(n, r1) := dec_name r in Some (Attach c n b, r1)
  | 11 :: c :: r => Some (NewInst c, r)
  | 12 :: i :: r => let '(n, r1) := dec_name r in Some (Get i n, r1)
  | 13 :: i :: v :: r => let '(n, r1) := dec_name r in Some (SetA i n v, r1)
  | 14 :: i :: v :: r => let '(n, r1) := dec_name r in Some (Append i n v, r1)
  | 15 :: i :: k :: r => let '(n, r1) := dec_name r in Some (Call i n k, r1)
  | 16 :: i :: r => let '(n, r1) := dec_name r in Some (Sig i n, r1)
  | _ => None
  end.

Fixpoint dec_ops (k : nat) (t : list Z) : list op * list Z :=
  match k with
  | O => ([], t)
  | S k' => match dec_op t with
            | Some (o, r) => let '(os, r') := dec_ops k' r in (o :: os, r')
            | None => ([], t)
            end
  end.

(* a record: code ; payload length ; payload *)
Definition enc_outcome (r : outcome) : list Z :=
  match r with
  | ROk p => 0 :: Z.of_nat (length p) :: p
  | RErr e => [mexn_code e; 0]
  end.

Fixpoint run_steps (os : list op) (st : state) : state * list Z :=
  match os with
  | [] => (st, [])
  | o :: r =>
    let '(st1, out) := step o st in
    let '(st2, outs) := run_steps r st1 in
    (st2, enc_outcome out ++ outs)
  end.

(* the final dump of one instance: for every name its visibility (a Get) and
   its presence in dir(); then the isinstance row over all classes *)
Fixpoint dump_names (st : state) (i : Z) (names : list name) : state * list Z :=
  match names with
  | [] => (st, [])
  | n :: r =>
    let c := match geti st i with Some x => i_cls x | None => 0 end in
    let '(st1, g) := getattr_m st i n in
    let '(st2, out) := dump_names st1 i r in
    (st2, enc_gres g ++ [if in_dir st c n then 1 else 0] ++ out)
  end.

Fixpoint dump_insts (st : state) (is_ : list Z) (names : list name) : state * list Z :=
  match is_ with
  | [] => (st, [])
  | i :: r =>
    let '(st1, out) := dump_names st i names in
    let row := map (fun c => if isinstance_m st1 i c then 1 else 0) (zseq 1 (nclasses st1)) in
    let '(st2, outs) := dump_insts st1 r names in
    (st2, out ++ row ++ outs)
  end.

(* the class objects: bases and linearisation of every class *)
Definition dump_classes (st : state) : list Z :=
  flat_map (fun c => (Z.of_nat (length (bases_fn st c)) :: bases_fn st c) ++ enc_mro (mro st c))
           (zseq 1 (nclasses st)).

Fixpoint list_eqb (a b : list Z) : bool :=
  match a, b with
  | [], [] => true
  | x :: a', y :: b' => (x =? y) && list_eqb a' b'
  | _, _ => false
  end.

(* every cached linearisation is what a linearisation from scratch gives
   (only claimed while the replacement is not installed) *)
Definition consistentb (st : state) : bool :=
  flag st ||
  forallb (fun c => match mro st c, mro_spec st c with
                    | Some a, Some b => list_eqb a b
                    | _, _ => false
                    end) (zseq 1 (nclasses st)).

(* input : initial flag ; nops ; ops.. ; nnames ; names..
   output: per-op records ; dump of instances ; dump of classes ; final flag ; cache consistent *)
Definition run_metaedit (t : list Z) : list Z :=
  match t with
  | fl :: k :: r =>
    let '(os, r1) := dec_ops (Z.to_nat k) r in
    match r1 with
    | nn :: r2 =>
      let '(names, _) := dec_names (Z.to_nat nn) r2 in
      let '(st1, out1) := run_steps os (empty_state (fl =? 1)) in
      let '(st2, out2) := dump_insts st1 (zseq 0 (length (insts st1))) names in
      out1 ++ out2 ++ dump_classes st2 ++ [if flag st2 then 1 else 0; if consistentb st2 then 1 else 0]
    | [] => []
    end
  | _ => []
  end.
