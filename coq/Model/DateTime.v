(* datetime values, datetime.strftime for the directives pyecore uses, and
   the two readers behind innerutils.parse_date:
     datetime.fromisoformat   (tried first)
     datetime.strptime(fmt)   over the generated format list (fall-back)
   both restricted to the image of the formatter (fixed-width fields; the
   real readers accept more: those inputs answer None = "not modelled").
   The format strings are interpreted, so that the format literal found in
   /repo (coq/Gen/DataTypes.v) is what runs.  CPython 3.12 / glibc behaviour:
     %Y prints the year without padding (so years < 1000 give < 4 digits),
     %z prints +HHMM[SS[.ffffff]], empty for naive values,
     fromisoformat builds the zone from (seconds, microseconds) of the offset
       but answers UTC whenever the whole-second part is 0 -- the sub-second
       part is then dropped (tzinfo_from_isoformat_results in _datetimemodule.c).
   No proofs here. *)
From Coq Require Import ZArith List Bool String.
From PyecoreV Require Import Model.Text.
Import ListNotations.
Open Scope Z_scope.

Record datetime : Type := {
  dy : Z; dmo : Z; dd : Z; dh : Z; dmi : Z; ds : Z; dus : Z;
  dtz : option Z       (* None = naive; Some o = fixed offset of o microseconds *)
}.

Definition is_leap (y : Z) : bool :=
  ((y mod 4 =? 0) && negb (y mod 100 =? 0)) || (y mod 400 =? 0).

Definition days_in_month (y m : Z) : Z :=
  if m =? 2 then (if is_leap y then 29 else 28)
  else if (m =? 4) || (m =? 6) || (m =? 9) || (m =? 11) then 30 else 31.

Definition day_us : Z := 86400 * 1000000.

(* what the datetime / timezone constructors accept *)
Definition valid_datetime (d : datetime) : bool :=
  (1 <=? dy d) && (dy d <=? 9999) && (1 <=? dmo d) && (dmo d <=? 12)
  && (1 <=? dd d) && (dd d <=? days_in_month (dy d) (dmo d))
  && (0 <=? dh d) && (dh d <? 24) && (0 <=? dmi d) && (dmi d <? 60)
  && (0 <=? ds d) && (ds d <? 60) && (0 <=? dus d) && (dus d <? 1000000)
  && match dtz d with None => true | Some o => (- day_us <? o) && (o <? day_us) end.

(* ---------- strftime ---------- *)
Definition year_str (y : Z) : text :=
  if (1000 <=? y) && (y <=? 9999) then padn 4 y else str_of_Z y.

Definition tz_str (tz : option Z) : text :=
  match tz with
  | None => []
  | Some o =>
    let a := Z.abs o in
    let us := a mod 1000000 in
    let s := a / 1000000 in
    (if o <? 0 then 45 else 43) :: padn 2 (s / 3600) ++ padn 2 ((s / 60) mod 60)
      ++ (if us =? 0 then (if s mod 60 =? 0 then [] else padn 2 (s mod 60))
          else padn 2 (s mod 60) ++ 46 :: padn 6 us)
  end.

(* Y m d H M S f z % *)
Definition directive_out (k : Z) (d : datetime) : option text :=
  if k =? 89 then Some (year_str (dy d))
  else if k =? 109 then Some (padn 2 (dmo d))
  else if k =? 100 then Some (padn 2 (dd d))
  else if k =? 72 then Some (padn 2 (dh d))
  else if k =? 77 then Some (padn 2 (dmi d))
  else if k =? 83 then Some (padn 2 (ds d))
  else if k =? 102 then Some (padn 6 (dus d))
  else if k =? 122 then Some (tz_str (dtz d))
  else if k =? 37 then Some [37]
  else None.

Fixpoint strftime_go (fmt : text) (d : datetime) : option text :=
  match fmt with
  | [] => Some []
  | c :: rest =>
    if c =? 37 then
      match rest with
      | [] => None
      | k :: rest' =>
        match directive_out k d, strftime_go rest' d with
        | Some a, Some b => Some (a ++ b)
        | _, _ => None
        end
      end
    else option_map (cons c) (strftime_go rest d)
  end.

Definition strftime (fmt : string) (d : datetime) : option text :=
  strftime_go (cps_of_string fmt) d.

(* ---------- readers ---------- *)
Inductive reader : Type := Iso | Strp.

Definition set_y (a : datetime) v := {| dy := v; dmo := dmo a; dd := dd a; dh := dh a; dmi := dmi a; ds := ds a; dus := dus a; dtz := dtz a |}.
Definition set_mo (a : datetime) v := {| dy := dy a; dmo := v; dd := dd a; dh := dh a; dmi := dmi a; ds := ds a; dus := dus a; dtz := dtz a |}.
Definition set_d (a : datetime) v := {| dy := dy a; dmo := dmo a; dd := v; dh := dh a; dmi := dmi a; ds := ds a; dus := dus a; dtz := dtz a |}.
Definition set_h (a : datetime) v := {| dy := dy a; dmo := dmo a; dd := dd a; dh := v; dmi := dmi a; ds := ds a; dus := dus a; dtz := dtz a |}.
Definition set_mi (a : datetime) v := {| dy := dy a; dmo := dmo a; dd := dd a; dh := dh a; dmi := v; ds := ds a; dus := dus a; dtz := dtz a |}.
Definition set_s (a : datetime) v := {| dy := dy a; dmo := dmo a; dd := dd a; dh := dh a; dmi := dmi a; ds := v; dus := dus a; dtz := dtz a |}.
Definition set_us (a : datetime) v := {| dy := dy a; dmo := dmo a; dd := dd a; dh := dh a; dmi := dmi a; ds := ds a; dus := v; dtz := dtz a |}.
Definition set_tz (a : datetime) v := {| dy := dy a; dmo := dmo a; dd := dd a; dh := dh a; dmi := dmi a; ds := ds a; dus := dus a; dtz := v |}.

(* [+-]HHMM[SS[.ffffff]] ; fromisoformat also accepts its absence *)
Definition parse_tz (m : reader) (s : text) : option (option Z * text) :=
  match s with
  | [] => match m with Iso => Some (None, []) | Strp => None end
  | c :: r =>
    obind (if c =? 43 then Some 1 else if c =? 45 then Some (-1) else None) (fun sg =>
    obind (take_digits 2 r 0) (fun p1 =>
    obind (take_digits 2 (snd p1) 0) (fun p2 =>
      let r2 := snd p2 in
      let '(ss, us, rest) :=
        match take_digits 2 r2 0 with
        | Some (ss, r3) =>
          match r3 with
          | dot :: r4 =>
            if dot =? 46 then
              match take_digits 6 r4 0 with
              | Some (us, r5) => (ss, us, r5)
              | None => (ss, 0, r3)
              end
            else (ss, 0, r3)
          | [] => (ss, 0, r3)
          end
        | None => (0, 0, r2)
        end in
      let secs := fst p1 * 3600 + fst p2 * 60 + ss in
      let off := match m with
                 | Iso => if secs =? 0 then 0 else sg * (secs * 1000000 + us)
                 | Strp => sg * (secs * 1000000 + us)
                 end in
      Some (Some off, rest))))
  end.

Definition field (n : nat) (set : datetime -> Z -> datetime) (s : text) (a : datetime)
  : option (datetime * text) :=
  match take_digits n s 0 with
  | Some (v, r) => Some (set a v, r)
  | None => None
  end.

Definition directive_in (m : reader) (k : Z) (s : text) (a : datetime) : option (datetime * text) :=
  if k =? 89 then field 4 set_y s a
  else if k =? 109 then field 2 set_mo s a
  else if k =? 100 then field 2 set_d s a
  else if k =? 72 then field 2 set_h s a
  else if k =? 77 then field 2 set_mi s a
  else if k =? 83 then field 2 set_s s a
  else if k =? 102 then field 6 set_us s a
  else if k =? 122 then
    match parse_tz m s with Some (tz, r) => Some (set_tz a tz, r) | None => None end
  else if k =? 37 then
    match s with c :: r => if c =? 37 then Some (a, r) else None | [] => None end
  else None.

Fixpoint parse_go (m : reader) (fmt : text) (s : text) (a : datetime) : option datetime :=
  match fmt with
  | [] => match s with [] => Some a | _ => None end
  | c :: rest =>
    if c =? 37 then
      match rest with
      | [] => None
      | k :: rest' =>
        match directive_in m k s a with
        | Some (a', s') => parse_go m rest' s' a'
        | None => None
        end
      end
    else
      match s with
      | c' :: s' => if c' =? c then parse_go m rest s' a else None
      | [] => None
      end
  end.

(* strptime's defaults for fields the format does not mention *)
Definition dt_init : datetime :=
  {| dy := 1900; dmo := 1; dd := 1; dh := 0; dmi := 0; ds := 0; dus := 0; dtz := None |}.

Definition parse_fmt (m : reader) (fmt : string) (s : text) : option datetime :=
  match parse_go m (cps_of_string fmt) s dt_init with
  | Some d => if valid_datetime d then Some d else None
  | None => None
  end.

(* the shape of the formatter's image as datetime.fromisoformat reads it *)
Definition iso_shape : string := "%Y-%m-%dT%H:%M:%S.%f%z".

Definition fromisoformat_img (s : text) : option datetime := parse_fmt Iso iso_shape s.

Fixpoint strptime_first (formats : list string) (s : text) : option datetime :=
  match formats with
  | [] => None
  | f :: fs => match parse_fmt Strp f s with Some d => Some d | None => strptime_first fs s end
  end.

(* innerutils.parse_date *)
Definition parse_date (formats : list string) (s : text) : option datetime :=
  match fromisoformat_img s with
  | Some d => Some d
  | None => strptime_first formats s
  end.
