(* Python list primitives used by every model: index normalisation, insert
   clamping, positional removal, first-occurrence removal and lookup.
   Mirrors CPython's list semantics for int indices (no slices here). *)
From Coq Require Import ZArith List Bool Lia.
Import ListNotations.
Open Scope Z_scope.

Definition zlen {A} (l : list A) : Z := Z.of_nat (length l).

(* l[i], del l[i], l.pop(i): None stands for IndexError *)
Definition norm_index (len i : Z) : option Z :=
  if (0 <=? i) && (i <? len) then Some i
  else if (i <? 0) && (0 <=? len + i) then Some (len + i)
  else None.

(* l.insert(i, x) never fails: the position is clamped *)
Definition clamp_index (len i : Z) : Z :=
  if i <? 0 then Z.max 0 (len + i) else Z.min i len.

Fixpoint insert_at {A} (n : nat) (x : A) (l : list A) : list A :=
  match n, l with
  | O, _ => x :: l
  | S _, [] => [x]
  | S n', y :: ys => y :: insert_at n' x ys
  end.

Fixpoint remove_at {A} (n : nat) (l : list A) {struct l} : list A :=
  match l with
  | [] => []
  | y :: ys => match n with O => ys | S n' => y :: remove_at n' ys end
  end.

Fixpoint set_at {A} (n : nat) (x : A) (l : list A) {struct l} : list A :=
  match l with
  | [] => []
  | y :: ys => match n with O => x :: ys | S n' => y :: set_at n' x ys end
  end.

Definition py_insert {A} (i : Z) (x : A) (l : list A) : list A :=
  insert_at (Z.to_nat (clamp_index (zlen l) i)) x l.

(* l[i] *)
Definition py_get {A} (i : Z) (l : list A) : option A :=
  match norm_index (zlen l) i with
  | Some k => nth_error l (Z.to_nat k)
  | None => None
  end.

(* del l[i] / l.pop(i): the removed element and the new list *)
Definition py_pop {A} (i : Z) (l : list A) : option (A * list A) :=
  match norm_index (zlen l) i with
  | Some k => match nth_error l (Z.to_nat k) with
              | Some x => Some (x, remove_at (Z.to_nat k) l)
              | None => None
              end
  | None => None
  end.

Section Eq.
  Context {A : Type} (eqb : A -> A -> bool).

  Fixpoint memb (x : A) (l : list A) : bool :=
    match l with [] => false | y :: ys => eqb y x || memb x ys end.

  (* l.index(x): position of the first occurrence *)
  Fixpoint index_of (x : A) (l : list A) : option nat :=
    match l with
    | [] => None
    | y :: ys => if eqb y x then Some O
                 else match index_of x ys with Some n => Some (S n) | None => None end
    end.

  (* l.remove(x): first occurrence; None stands for ValueError *)
  Fixpoint remove_first (x : A) (l : list A) : option (list A) :=
    match l with
    | [] => None
    | y :: ys => if eqb y x then Some ys
                 else match remove_first x ys with Some r => Some (y :: r) | None => None end
    end.

  Fixpoint count_of (x : A) (l : list A) : nat :=
    match l with [] => O | y :: ys => (if eqb y x then 1 else 0)%nat + count_of x ys end.

  Fixpoint dedup_acc (seen l : list A) : list A :=
    match l with
    | [] => []
    | y :: ys => if memb y seen then dedup_acc seen ys else y :: dedup_acc (seen ++ [y]) ys
    end.
End Eq.
