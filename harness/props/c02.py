"""C02 — kernel property: see DESIGN.md section 5 and harness/kprop.py."""
from harness import kgen, kprop

PID = 'C02'


def run(ctx, out):
    kprop.run(ctx, out, PID, ['C02'], {'outcome','values','ownership'}, 2000, 40000, pool=kgen.CONT_TEMPLATES+['p1n','rn','r1','s11'], weights={'res':0.2,'delete':0.05}, p_wrong=0.05)


def replay(ctx, rep):
    from harness import krun
    case = rep['case']
    r = krun.Run(case, ['C02']).run()
    for s in r.steps:
        print(s['op'], '->', s['outcome'])
    if r.failure:
        print('REPRODUCED', r.failure['property'], r.failure['clause'], r.failure['detail'])
        return 1
    print('not reproduced')
    return 0
