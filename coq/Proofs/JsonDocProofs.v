(* C09, whole documents: decode_jdoc mm (encode_jdoc mm sd F) = Some (map forget F) for every
   well-formed forest (Model/JsonDoc.v).  Layers:
     1. values: dec_val inverts enc_val on the names of well-typed values (JsonVal's
        json_value_roundtrip, int_of_str_of_Z);
     2. entries: what `d[name] = value` wrote under a key is what `d.items()` hands back for it;
     3. phase 1 of the reader rebuilds classes, nesting, attribute values and keeps the JSON values of
        the references;
     4. phase 2 resolves every {"$ref": fragment} to the target it was written from (XmiDocProofs:
        resolve (render p) = p on trees, path_ok_frag);
     5. whole documents: one root / an array of roots. *)
From Coq Require Import ZArith List Bool Lia Arith.
From PyecoreV Require Import Model.XmiAttr Model.Text Model.JsonVal Model.XmiDoc Model.JsonDoc
  Proofs.XmiAttrProofs Proofs.TextFacts Proofs.JsonValProofs Proofs.XmiDocProofs.
Import ListNotations.
Open Scope Z_scope.

(* ================================================================ generic lists *)
Lemma gather_app {A B} (f : A -> option (list B)) (a b : list A) (xs ys : list B) :
  gather f a = Some xs -> gather f b = Some ys -> gather f (a ++ b) = Some (xs ++ ys).
Proof.
  revert xs. induction a as [|x r IH]; simpl; intros xs Ha Hb.
  - inversion Ha; subst. exact Hb.
  - destruct (f x) as [zs|]; [|discriminate].
    destruct (gather f r) as [ws|]; [|discriminate]. inversion Ha; subst.
    rewrite (IH ws eq_refl Hb), app_assoc. reflexivity.
Qed.

Lemma gather_skip {A B} (f : A -> option (list B)) (l : list A) :
  Forall (fun x => f x = Some []) l -> gather f l = Some [].
Proof.
  induction 1 as [|x r Hx _ IH]; simpl; [reflexivity|]. rewrite Hx, IH. reflexivity.
Qed.

Lemma gather_flat_map {A B C} (f : B -> option (list C)) (g : A -> list B) (h : A -> list C) (l : list A) :
  Forall (fun x => gather f (g x) = Some (h x)) l -> gather f (flat_map g l) = Some (flat_map h l).
Proof.
  induction 1 as [|x r Hx _ IH]; simpl; [reflexivity|]. exact (gather_app f _ _ _ _ Hx IH).
Qed.

Lemma flat_map_ext_in {A B} (g h : A -> list B) (l : list A) :
  (forall x, In x l -> g x = h x) -> flat_map g l = flat_map h l.
Proof.
  induction l as [|x r IH]; simpl; intros H; [reflexivity|].
  rewrite (H x (or_introl eq_refl)), IH; [reflexivity|]. intros y Hy. apply H. right. exact Hy.
Qed.

Lemma map_flat_map {A B C} (g : B -> C) (h : A -> list B) (l : list A) :
  map g (flat_map h l) = flat_map (fun x => map g (h x)) l.
Proof. induction l as [|x r IH]; simpl; [reflexivity|]. rewrite map_app, IH. reflexivity. Qed.

Lemma flat_map_map {A B C} (g : A -> B) (h : B -> list C) (l : list A) :
  flat_map h (map g l) = flat_map (fun x => h (g x)) l.
Proof. induction l as [|x r IH]; simpl; [reflexivity|]. rewrite IH. reflexivity. Qed.

Lemma map_ext_in' {A B} (g h : A -> B) (l : list A) : (forall x, In x l -> g x = h x) -> map g l = map h l.
Proof. intros H. apply map_ext_in. exact H. Qed.

Lemma NoDup_nodup_z (l : list Z) : NoDup l -> nodup_z l = true.
Proof.
  induction 1 as [|x r Hx _ IH]; simpl; [reflexivity|]. rewrite IH, andb_true_r. apply negb_true_iff.
  destruct (existsb (Z.eqb x) r) eqn:E; [|reflexivity]. exfalso. apply existsb_exists in E.
  destruct E as (y & Hy & He). apply Z.eqb_eq in He. subst y. exact (Hx Hy).
Qed.

Lemma filter_nil_neg {A} (p : A -> bool) (l : list A) : filter p l = [] -> filter (fun x => negb (p x)) l = l.
Proof.
  induction l as [|x r IH]; simpl; intros H; [reflexivity|].
  destruct (p x); [discriminate|]. simpl. rewrite (IH H). reflexivity.
Qed.

Lemma traverse_zip {V} (f : feat -> option (Z * V)) (sl : list (Z * V)) (L : list feat) :
  map fst sl = map f_id L ->
  (forall a d, In a sl -> In d L -> fst a = f_id d -> f d = Some a) ->
  traverse f L = Some sl.
Proof.
  revert L. induction sl as [|a r IH]; intros [|d L'] Hk HG; simpl in Hk; try discriminate; [reflexivity|].
  inversion Hk as [[H1 H2]]. cbn [traverse].
  rewrite (HG a d (or_introl eq_refl) (or_introl eq_refl) H1).
  rewrite (IH L' H2); [reflexivity|].
  intros a' d' Ha Hd. apply HG; right; assumption.
Qed.

(* ================================================================ 1. values *)
Lemma text_of_pyv_typed t (p : pyv str) w : text_of_pyv t p = Some w -> well_typed t p.
Proof. destruct p, t; simpl; intros H; try discriminate; exact I. Qed.

Theorem val_roundtrip t v : canon t v = true -> dec_val t (enc_val t v) = Some v.
Proof.
  unfold canon, dec_val, enc_val. intros H.
  destruct (text_of_pyv t (pyv_of_text t v)) as [w|] eqn:E; [|discriminate].
  apply ostr_eqb_eq in H. subst w.
  rewrite (json_value_roundtrip str (fun s : str => s) (fun s : str => Some s) text_instance_roundtrip
             t _ (text_of_pyv_typed _ _ _ E)).
  exact E.
Qed.

Lemma vals_roundtrip t vs : forallb (canon t) vs = true ->
  traverse (dec_val t) (map (enc_val t) vs) = Some vs.
Proof.
  intros H. rewrite forallb_forall in H. rewrite <- (map_id vs) at 2. apply traverse_map.
  apply Forall_forall. intros v Hv. exact (val_roundtrip t v (H v Hv)).
Qed.

(* the premise is not empty: str(z) names the int z, 'true' / 'false' the booleans, any text a string / an object *)
Lemma canon_int z : canon TInt (Some (str_of_Z z)) = true.
Proof. unfold canon. cbn [pyv_of_text]. rewrite int_of_str_of_Z. cbn [text_of_pyv ostr_eqb]. apply str_eqb_refl. Qed.
Lemma canon_float z : canon TFloat (Some (str_of_Z z)) = true.
Proof. unfold canon. cbn [pyv_of_text]. rewrite int_of_str_of_Z. cbn [text_of_pyv ostr_eqb]. apply str_eqb_refl. Qed.
Lemma canon_bool (b : bool) : canon TBool (Some (if b then str_true else str_false)) = true.
Proof. destruct b; reflexivity. Qed.
Lemma canon_str s : canon TStr (Some s) = true.
Proof. unfold canon. cbn. apply str_eqb_refl. Qed.
Lemma canon_other s : canon TOther (Some s) = true.
Proof. unfold canon. cbn. apply str_eqb_refl. Qed.
Lemma canon_none t : canon t None = true.
Proof. destruct t; reflexivity. Qed.

(* ================================================================ 2. entries of an object *)
Lemma jfind_cons k key v r : jfind key ((k, v) :: r) = if k =? key then Some v else jfind key r.
Proof. unfold jfind. cbn [find fst snd]. destruct (k =? key); reflexivity. Qed.

Lemma jfind_entries_notin (L : list (Z * option json)) f :
  ~ In f (map fst L) -> jfind f (opt_entries L) = None.
Proof.
  induction L as [|[g e] r IH]; intros Hn; [reflexivity|]. unfold opt_entries in *. cbn [flat_map fst snd].
  assert (Hg : g <> f) by (intros E; apply Hn; left; exact E).
  assert (Hr : ~ In f (map fst r)) by (intros H; apply Hn; right; exact H).
  destruct e as [j|]; cbn [app]; [|exact (IH Hr)].
  rewrite jfind_cons. destruct (Z.eqb_spec g f) as [E|_]; [contradiction | exact (IH Hr)].
Qed.

Lemma jfind_entries_in (L : list (Z * option json)) f e :
  NoDup (map fst L) -> In (f, e) L -> jfind f (opt_entries L) = e.
Proof.
  induction L as [|[g e'] r IH]; intros Hn Hin; [contradiction|].
  simpl in Hn. inversion Hn as [|a b Hx Hr]; subst. unfold opt_entries in *. cbn [flat_map fst snd].
  destruct Hin as [E|Hin].
  - inversion E; subst. destruct e as [j|]; cbn [app].
    + rewrite jfind_cons, Z.eqb_refl. reflexivity.
    + exact (jfind_entries_notin r f Hx).
  - assert (Hg : g <> f).
    { intros E. subst g. apply Hx. change f with (fst (f, e)). apply in_map. exact Hin. }
    destruct e' as [j|]; cbn [app]; [|exact (IH Hr Hin)].
    rewrite jfind_cons. destruct (Z.eqb_spec g f) as [E|_]; [contradiction | exact (IH Hr Hin)].
Qed.

Lemma entries_keys_in (L : list (Z * option json)) q : In q (opt_entries L) -> In (fst q) (map fst L).
Proof.
  unfold opt_entries. intros H. apply in_flat_map in H. destruct H as ([g e] & Hin & Hq). cbn [fst snd] in Hq.
  destruct e as [j|]; [|contradiction]. destruct Hq as [<-|[]]. cbn [fst].
  change g with (fst (g, Some j)). apply in_map. exact Hin.
Qed.

Lemma entries_keys_nodup (L : list (Z * option json)) : NoDup (map fst L) -> NoDup (map fst (opt_entries L)).
Proof.
  induction L as [|[g e] r IH]; intros Hn; [constructor|].
  simpl in Hn. inversion Hn as [|a b Hx Hr]; subst. unfold opt_entries in *. cbn [flat_map fst snd].
  destruct e as [j|]; cbn [app]; [|exact (IH Hr)]. cbn [map fst]. constructor; [|exact (IH Hr)].
  intros Hin. apply in_map_iff in Hin. destruct Hin as (q & Eq & Hq).
  apply Hx. rewrite <- Eq. exact (entries_keys_in r q Hq).
Qed.

Lemma opt_entries_app (a b : list (Z * option json)) : opt_entries (a ++ b) = opt_entries a ++ opt_entries b.
Proof. unfold opt_entries. apply flat_map_app. Qed.

(* ================================================================ children grouped by feature *)
Lemma split_group {A} (f : Z) (kids : list (Z * A)) : forall K',
  ~ In f K' -> map fst kids = map fst (filter (fun p => fst p =? f) kids) ++ K' ->
  kids = filter (fun p => fst p =? f) kids ++ filter (fun p => negb (fst p =? f)) kids
  /\ map fst (filter (fun p => negb (fst p =? f)) kids) = K'.
Proof.
  induction kids as [|p r IH]; intros K' Hn H.
  - simpl in *. split; [reflexivity | exact H].
  - cbn [filter] in *. destruct (Z.eqb_spec (fst p) f) as [E|N]; cbn [negb].
    + cbn [map app] in H. inversion H as [H']. destruct (IH K' Hn H') as [I1 I2].
      split; [cbn [app]; f_equal; exact I1 | exact I2].
    + destruct (filter (fun q => fst q =? f) r) as [|x t] eqn:Ef.
      * cbn [map app] in *. rewrite (filter_nil_neg _ r Ef). split; [reflexivity | exact H].
      * exfalso. assert (Hx : In x (filter (fun q => fst q =? f) r)) by (rewrite Ef; left; reflexivity).
        apply filter_In in Hx. destruct Hx as [_ Hx]. apply Z.eqb_eq in Hx.
        cbn [map app] in H. inversion H as [[H1 H2]]. apply N. congruence.
Qed.

Lemma filter_key_neg {A} (f g : Z) (l : list (Z * A)) : f <> g ->
  filter (fun p => fst p =? g) (filter (fun p => negb (fst p =? f)) l) = filter (fun p => fst p =? g) l.
Proof.
  intros N. induction l as [|p r IH]; [reflexivity|]. cbn [filter].
  destruct (Z.eqb_spec (fst p) f) as [E|_]; cbn [negb].
  - destruct (Z.eqb_spec (fst p) g) as [E'|_]; [exfalso; apply N; congruence | exact IH].
  - cbn [filter]. rewrite IH. reflexivity.
Qed.

Theorem grouped_ok {A} (L : list feat) : NoDup (map f_id L) -> forall kids : list (Z * A),
  map fst kids = flat_map (fun d => map fst (filter (fun p => fst p =? f_id d) kids)) L ->
  kids = flat_map (fun d => filter (fun p => fst p =? f_id d) kids) L.
Proof.
  induction L as [|d L' IH]; intros Hn kids H.
  - simpl in *. destruct kids; [reflexivity | discriminate].
  - simpl in Hn. inversion Hn as [|a b Hx Hr]; subst. cbn [flat_map] in *.
    set (K' := flat_map (fun d' => map fst (filter (fun p => fst p =? f_id d') kids)) L') in *.
    assert (HK : ~ In (f_id d) K').
    { unfold K'. intros Hin. apply in_flat_map in Hin. destruct Hin as (d' & Hd' & Hin).
      apply in_map_iff in Hin. destruct Hin as (p & Ep & Hp). apply filter_In in Hp. destruct Hp as [_ Hp].
      apply Z.eqb_eq in Hp. apply Hx. rewrite <- Ep, Hp. apply in_map. exact Hd'. }
    destruct (split_group (f_id d) kids K' HK H) as [S1 S2].
    set (B := filter (fun p => negb (fst p =? f_id d)) kids) in *.
    assert (HB : forall d', In d' L' ->
              filter (fun p => fst p =? f_id d') B = filter (fun p => fst p =? f_id d') kids).
    { intros d' Hd'. apply filter_key_neg. intros E. apply Hx. rewrite E. apply in_map. exact Hd'. }
    assert (IB : B = flat_map (fun d' => filter (fun p => fst p =? f_id d') B) L').
    { apply (IH Hr). rewrite S2. unfold K'. apply flat_map_ext_in. intros d' Hd'. rewrite (HB d' Hd'). reflexivity. }
    rewrite S1 at 1. f_equal. rewrite IB at 1. apply flat_map_ext_in. exact HB.
Qed.

(* ================================================================ 3. phase 1 of the reader on a written object *)
Section Phase1.
  Variable mm : mmodel.
  Variable sd : bool.
  Variable S : list sk.
  Hypothesis Hmm : wf_mm mm = true.

  (* what phase 1 must produce: the object without `_isset`, every reference as the JSON value written for it *)
  Fixpoint jpre (t : tree (list path)) : tree (option json) :=
    match t with
    | Node c iss attrs refs kids =>
      Node c [] attrs
           (map (fun p => (fst p, jenc_ref mm sd S (feat_in (c_refs (class_or mm c)) (fst p))
                                           (isset iss (fst p)) (snd p))) refs)
           (map (fun p => (fst p, jpre (snd p))) kids)
    end.

  (* ---- the entries of the object of one node, and their keys *)
  Section Keys.
    Variables (decl : option Z) (c : Z) (k : class) (iss : list Z) (attrs : list (Z * list ostr))
              (refs : list (Z * list path)) (kids : list (Z * tree (list path))).
    Hypothesis Ek : find_class mm c = Some k.
    Hypothesis Wattrs : map fst attrs = map f_id (c_attrs k).
    Hypothesis Wrefs : map fst refs = map f_id (c_refs k).

    Let Hk : class_ok k := wf_mm_found mm c k Hmm Ek.

    Definition jek : list (Z * json) :=
      map (fun p => (fst p, jenc_tree mm sd S (Some (f_type (feat_in (c_conts k) (fst p)))) (snd p))) kids.
    Definition LA : list (Z * option json) :=
      map (fun p => (fst p, jenc_attr sd (feat_in (c_attrs k) (fst p)) (isset iss (fst p)) (snd p))) attrs.
    Definition LR : list (Z * option json) :=
      map (fun p => (fst p, jenc_ref mm sd S (feat_in (c_refs k) (fst p)) (isset iss (fst p)) (snd p))) refs.
    Definition LC : list (Z * option json) :=
      map (fun d => (f_id d, jenc_cont sd d (isset iss (f_id d)) (kids_of (f_id d) jek))) (c_conts k).
    Definition LL : list (Z * option json) := (K_CLASS, class_entry decl c) :: LA ++ LR ++ LC.

    Lemma enc_node : jenc_tree mm sd S decl (Node c iss attrs refs kids) = JObj (opt_entries LL).
    Proof. cbn [jenc_tree]. rewrite Ek. reflexivity. Qed.

    Lemma LC_keys : map fst LC = map f_id (c_conts k).
    Proof. unfold LC. rewrite map_map. reflexivity. Qed.

    Lemma LL_keys : map fst LL = K_CLASS :: map f_id (c_attrs k) ++ map f_id (c_refs k) ++ map f_id (c_conts k).
    Proof.
      unfold LL, LA, LR. cbn [map fst]. rewrite !map_app, !map_fst_map, LC_keys, Wattrs, Wrefs. reflexivity.
    Qed.

    Lemma feat_key_nonneg f :
      In f (map f_id (c_attrs k) ++ map f_id (c_refs k) ++ map f_id (c_conts k)) -> 0 <= f.
    Proof.
      rewrite <- !map_app. intros H. apply in_map_iff in H. destruct H as (d & <- & Hd).
      exact (ok_nonneg k Hk d Hd).
    Qed.

    Lemma LL_nodup : NoDup (map fst LL).
    Proof.
      rewrite LL_keys. constructor; [|exact (ok_nodup k Hk)].
      intros H. apply feat_key_nonneg in H. unfold K_CLASS in H. lia.
    Qed.

    Lemma jfind_ref_none : jfind K_REF (opt_entries LL) = None.
    Proof.
      apply jfind_entries_notin. rewrite LL_keys. intros [H|H]; [unfold K_CLASS, K_REF in H; lia|].
      apply feat_key_nonneg in H. unfold K_REF in H. lia.
    Qed.

    Lemma jfind_class : jfind K_CLASS (opt_entries LL) = class_entry decl c.
    Proof. apply (jfind_entries_in LL K_CLASS _ LL_nodup). left. reflexivity. Qed.

    Lemma obj_class_node : obj_class decl (JObj (opt_entries LL)) = Some c.
    Proof.
      unfold obj_class. rewrite jfind_ref_none, jfind_class. cbn [is_some].
      unfold class_entry. destruct decl as [t|]; [|reflexivity].
      destruct (Z.eqb_spec t c) as [E|_]; [rewrite E|]; reflexivity.
    Qed.
  End Keys.

  (* the object written for a well-formed tree: an object, without "$ref", whose class is read back *)
  Lemma enc_shape t : wf_tree mm S t = true ->
    forall decl, exists es, jenc_tree mm sd S decl t = JObj es /\ obj_class decl (JObj es) = Some (t_cls t).
  Proof.
    destruct t as [c iss attrs refs kids]. intros Hwf decl.
    destruct (wf_tree_node _ _ _ _ _ _ _ Hwf) as (k & Ek & _ & Wa & _ & Wr & _).
    exists (opt_entries (LL decl c k iss attrs refs kids)). split.
    - exact (enc_node decl c k iss attrs refs kids Ek).
    - exact (obj_class_node decl c k iss attrs refs kids Ek Wa Wr).
  Qed.

  Section Node.
    Variables (decl : option Z) (c : Z) (k : class) (iss : list Z) (attrs : list (Z * list ostr))
              (refs : list (Z * list path)) (kids : list (Z * tree (list path))).
    Hypothesis Ek : find_class mm c = Some k.
    Hypothesis Wattrs : map fst attrs = map f_id (c_attrs k).
    Hypothesis Wrefs : map fst refs = map f_id (c_refs k).

    Let Hk : class_ok k := wf_mm_found mm c k Hmm Ek.
    Let es : list (Z * json) := opt_entries (LL decl c k iss attrs refs kids).
    Let Hnd : NoDup (map fst (LL decl c k iss attrs refs kids)) := LL_nodup decl c k iss attrs refs kids Ek Wattrs Wrefs.

    Lemma slot_attr a : In a attrs ->
      jfind (fst a) es = jenc_attr sd (feat_in (c_attrs k) (fst a)) (isset iss (fst a)) (snd a).
    Proof.
      intros H. apply (jfind_entries_in _ _ _ Hnd). right. apply in_or_app. left.
      unfold LA. apply in_map_iff. exists a. split; [reflexivity | exact H].
    Qed.

    Lemma slot_ref a : In a refs ->
      jfind (fst a) es = jenc_ref mm sd S (feat_in (c_refs k) (fst a)) (isset iss (fst a)) (snd a).
    Proof.
      intros H. apply (jfind_entries_in _ _ _ Hnd). right. apply in_or_app. right. apply in_or_app. left.
      unfold LR. apply in_map_iff. exists a. split; [reflexivity | exact H].
    Qed.

    Lemma es_nodup_z : nodup_z (map fst es) = true.
    Proof. apply NoDup_nodup_z. apply entries_keys_nodup. exact Hnd. Qed.

    Lemma es_keys_ok : forallb (key_ok k) es = true.
    Proof.
      apply forallb_forall. intros q Hq. apply entries_keys_in in Hq.
      rewrite (LL_keys decl c k iss attrs refs kids Wattrs Wrefs) in Hq. unfold key_ok.
      destruct Hq as [E|Hq]; [rewrite <- E; reflexivity|].
      rewrite <- !map_app in Hq. fold (all_feats k) in Hq.
      destruct (find_feat (all_feats k) (fst q)) eqn:E; [apply orb_true_r|].
      exfalso. exact (find_feat_none _ _ E Hq).
    Qed.

    (* ---- attributes *)
    Hypothesis Wattr_vals : forall a, In a attrs ->
      let d := feat_in (c_attrs k) (fst a) in
      (f_many d || (length (snd a) =? 1)%nat)
      && (isset iss (fst a)
          || (if f_many d then is_nil (snd a)
              else match snd a with [v] => ostr_eqb v (f_dflt d) | _ => false end)) = true.
    Hypothesis Wcanon : forall a, In a attrs ->
      forallb (canon (atag (feat_in (c_attrs k) (fst a)))) (snd a) = true.

    Lemma jattrs_back : traverse (jrd_attr es) (c_attrs k) = Some attrs.
    Proof.
      apply traverse_zip; [exact Wattrs|]. intros a d Ha Hd Hfd.
      pose proof (Wattr_vals a Ha) as W. cbv zeta in W. pose proof (Wcanon a Ha) as Wc.
      pose proof (slot_attr a Ha) as Hs.
      destruct a as [f vs]. cbn [fst snd] in *. subst f.
      rewrite (feat_in_attr mm Hmm c k Ek d Hd) in W, Wc, Hs.
      unfold jrd_attr. rewrite Hs. clear Hs.
      apply andb_true_iff in W. destruct W as [W1 W2]. unfold jenc_attr.
      destruct (isset iss (f_id d)); cbn [negb orb] in *.
      - destruct (f_many d) eqn:Em.
        + rewrite (vals_roundtrip _ _ Wc). reflexivity.
        + cbn [orb] in W1. apply Nat.eqb_eq in W1. destruct vs as [|v [|v' r]]; try discriminate.
          cbn [hd_none]. cbn [forallb] in Wc. rewrite andb_true_r in Wc.
          destruct (negb sd && ostr_eqb v (f_dflt d)) eqn:Eo.
          * apply andb_true_iff in Eo. destruct Eo as [_ Eo]. rewrite (ostr_eqb_eq _ _ Eo). reflexivity.
          * rewrite (val_roundtrip _ _ Wc). reflexivity.
      - destruct (f_many d) eqn:Em.
        + destruct vs; [reflexivity | discriminate].
        + destruct vs as [|v [|v' r]]; try discriminate. rewrite (ostr_eqb_eq _ _ W2). reflexivity.
    Qed.

    (* ---- references: the JSON value is kept *)
    Lemma jrefs_back :
      map (fun d => (f_id d, jfind (f_id d) es)) (c_refs k)
      = map (fun p => (fst p, jenc_ref mm sd S (feat_in (c_refs k) (fst p)) (isset iss (fst p)) (snd p))) refs.
    Proof.
      apply zip_map; [rewrite map_fst_map; exact Wrefs|]. intros a d Ha Hd Hfd.
      apply in_map_iff in Ha. destruct Ha as (p & <- & Hp). cbn [fst snd] in *.
      rewrite <- Hfd. exact (slot_ref p Hp).
    Qed.

    (* ---- the children *)
    Hypothesis Wcont : forall d, In d (c_conts k) ->
      (f_many d || (length (kids_of (f_id d) kids) <=? 1)%nat)
      && (isset iss (f_id d) || is_nil (kids_of (f_id d) kids)) = true.
    Hypothesis Wgroup : grouped_b k kids = true.
    Hypothesis Wkid_wf : forall p, In p kids -> wf_tree mm S (snd p) = true.
    Hypothesis IHkids : forall p, In p kids -> forall dcl,
      jdec_obj mm (t_cls (snd p)) (jenc_tree mm sd S dcl (snd p)) = Some (jpre (snd p)).
    Hypothesis Wconf : forall p d, In p kids -> find_feat (c_conts k) (fst p) = Some d ->
      conforms mm (t_cls (snd p)) (f_type d) = true.

    Definition kd (d : feat) : list (Z * tree (list path)) := filter (fun p => fst p =? f_id d) kids.

    Lemma kd_in d p : In p (kd d) -> In p kids /\ fst p = f_id d.
    Proof. unfold kd. intros H. apply filter_In in H. destruct H as [H1 H2]. apply Z.eqb_eq in H2. split; assumption. Qed.

    Lemma ch_of d : In d (c_conts k) ->
      kids_of (f_id d) (jek k kids) = map (fun p => jenc_tree mm sd S (Some (f_type d)) (snd p)) (kd d).
    Proof.
      intros Hd. unfold kids_of, jek. rewrite filter_map_comm, map_map. cbn [fst snd]. fold (kd d).
      apply map_ext_in'. intros p Hp. destruct (kd_in d p Hp) as [_ E].
      rewrite E, (feat_in_cont mm Hmm c k Ek d Hd). reflexivity.
    Qed.

    Lemma kid_back d p : In d (c_conts k) -> In p (kd d) ->
      forall x, x = jenc_tree mm sd S (Some (f_type d)) (snd p) ->
      jdec_kid mm (jdec_obj mm) d x = Some (f_id d, jpre (snd p)) /\ exists es', x = JObj es'.
    Proof.
      intros Hd Hp x Ex. destruct (kd_in d p Hp) as [Hin E].
      destruct (enc_shape (snd p) (Wkid_wf p Hin) (Some (f_type d))) as (es' & E1 & E2).
      pose proof (IHkids p Hin (Some (f_type d))) as IHp. rewrite <- Ex in *. rewrite E1 in *.
      split; [|exists es'; reflexivity].
      assert (Hf : find_feat (c_conts k) (fst p) = Some d).
      { rewrite E. exact (find_feat_in _ d (nd_conts k Hk) Hd). }
      unfold jdec_kid. rewrite E2, (Wconf p d Hin Hf), IHp. reflexivity.
    Qed.

    Definition entry_of (x : Z * option json) : list (Z * json) :=
      match snd x with Some j => [(fst x, j)] | None => [] end.

    Lemma cont_entry_back d : In d (c_conts k) ->
      gather (jdec_entry mm (jdec_obj mm) k)
             (entry_of (f_id d, jenc_cont sd d (isset iss (f_id d)) (kids_of (f_id d) (jek k kids))))
      = Some (map (fun p => (f_id d, jpre (snd p))) (kd d)).
    Proof.
      intros Hd. rewrite (ch_of d Hd). pose proof (Wcont d Hd) as W.
      apply andb_true_iff in W. destruct W as [W1 W2].
      unfold kids_of in W1, W2. fold (kd d) in W1, W2. rewrite map_length in W1.
      pose proof (find_feat_in _ d (nd_conts k Hk) Hd) as Hf.
      unfold jenc_cont, entry_of. cbn [fst snd].
      destruct (isset iss (f_id d)); cbn [negb orb] in *.
      2:{ destruct (kd d); [reflexivity | discriminate]. }
      destruct (f_many d) eqn:Em.
      - cbn [gather]. unfold jdec_entry. cbn [fst snd]. rewrite Hf, Em.
        rewrite (traverse_map _ _ (fun p => (f_id d, jpre (snd p))) (kd d)); [rewrite app_nil_r; reflexivity|].
        apply Forall_forall. intros p Hp. exact (proj1 (kid_back d p Hd Hp _ eq_refl)).
      - cbn [orb] in W1. apply Nat.leb_le in W1.
        pose proof (kid_back d) as KB.
        destruct (kd d) as [|p [|p' r]]; [| |cbn [length] in W1; lia].
        + cbn [map]. destruct sd; [|reflexivity].
          cbn [gather]. unfold jdec_entry. cbn [fst snd]. rewrite Hf, Em. reflexivity.
        + cbn [map]. destruct (KB p Hd (or_introl eq_refl) _ eq_refl) as [K1 (es' & K2)].
          rewrite K2 in *. cbn [gather]. unfold jdec_entry. cbn [fst snd]. rewrite Hf, Em, K1. reflexivity.
    Qed.

    Lemma LL_split : LL decl c k iss attrs refs kids
      = ((K_CLASS, class_entry decl c) :: LA k iss attrs ++ LR k iss refs) ++ LC k iss kids.
    Proof. unfold LL. cbn [app]. rewrite app_assoc. reflexivity. Qed.

    Lemma head_entries_skip :
      gather (jdec_entry mm (jdec_obj mm) k)
             (opt_entries ((K_CLASS, class_entry decl c) :: LA k iss attrs ++ LR k iss refs)) = Some [].
    Proof.
      apply gather_skip. apply Forall_forall. intros q Hq. apply entries_keys_in in Hq.
      cbn [map fst] in Hq. unfold LA, LR in Hq. rewrite map_app, !map_fst_map, Wattrs, Wrefs in Hq.
      unfold jdec_entry. rewrite (find_feat_notin (c_conts k) (fst q)); [reflexivity|]. intros Hc.
      destruct Hq as [E|Hq].
      - rewrite <- E in Hc. apply in_map_iff in Hc. destruct Hc as (d & Ed & Hd).
        pose proof (cont_nonneg k Hk d Hd) as Hn. unfold K_CLASS in Ed. lia.
      - apply in_app_or in Hq. destruct Hq as [Ha|Hr].
        + exact (attr_not_cont k Hk _ Ha Hc).
        + exact (ref_not_cont k Hk _ Hr Hc).
    Qed.

    Lemma jkids_back :
      gather (jdec_entry mm (jdec_obj mm) k) es = Some (map (fun p => (fst p, jpre (snd p))) kids).
    Proof.
      unfold es. rewrite LL_split, opt_entries_app.
      assert (HC : gather (jdec_entry mm (jdec_obj mm) k) (opt_entries (LC k iss kids))
                   = Some (flat_map (fun d => map (fun p => (f_id d, jpre (snd p))) (kd d)) (c_conts k))).
      { unfold opt_entries, LC. rewrite flat_map_map. apply gather_flat_map.
        apply Forall_forall. intros d Hd. exact (cont_entry_back d Hd). }
      rewrite (gather_app _ _ _ _ _ head_entries_skip HC). cbn [app]. f_equal.
      unfold grouped_b in Wgroup. apply str_eqb_true in Wgroup.
      pose proof (grouped_ok (c_conts k) (nd_conts k Hk) kids Wgroup) as Hg.
      transitivity (map (fun p => (fst p, jpre (snd p))) (flat_map (fun d => kd d) (c_conts k))).
      - rewrite map_flat_map. apply flat_map_ext_in. intros d _. apply map_ext_in'. intros p Hp.
        rewrite (proj2 (kd_in d p Hp)). reflexivity.
      - f_equal. symmetry. exact Hg.
    Qed.

    Hypothesis Wabs : c_abstract k = false.

    Theorem jnode_back :
      jdec_obj mm c (jenc_tree mm sd S decl (Node c iss attrs refs kids))
      = Some (jpre (Node c iss attrs refs kids)).
    Proof.
      rewrite (enc_node decl c k iss attrs refs kids Ek).
      change (opt_entries (LL decl c k iss attrs refs kids)) with es.
      cbn [jdec_obj]. rewrite Ek, Wabs, es_nodup_z, es_keys_ok. cbn [andb].
      rewrite jattrs_back, jkids_back, jrefs_back.
      cbn [jpre]. unfold class_or. rewrite Ek. reflexivity.
    Qed.
  End Node.

  (* the conjuncts of jwf_tree *)
  Lemma jwf_tree_node c iss attrs refs kids k :
    find_class mm c = Some k -> jwf_tree mm (Node c iss attrs refs kids) = true ->
    forallb (fun p => forallb (canon (atag (feat_in (c_attrs k) (fst p)))) (snd p)) attrs = true
    /\ grouped_b k kids = true
    /\ forallb (fun p => jwf_tree mm (snd p)) kids = true.
  Proof.
    intros Ek H. cbn [jwf_tree] in H. rewrite Ek in H.
    apply andb_true_iff in H. destruct H as [H H3]. apply andb_true_iff in H. destruct H as [H1 H2].
    repeat split; assumption.
  Qed.

  (* ---- phase 1, whole trees *)
  Theorem jphase1 : forall t, wf_tree mm S t = true -> jwf_tree mm t = true ->
    forall decl, jdec_obj mm (t_cls t) (jenc_tree mm sd S decl t) = Some (jpre t).
  Proof.
    induction t as [c iss attrs refs kids IH] using tree_ind'. intros Hwf Hj decl.
    destruct (wf_tree_node _ _ _ _ _ _ _ Hwf) as (k & Ek & Hab & Wa & Wav & Wr & Wrv & Wk & Wc).
    destruct (jwf_tree_node _ _ _ _ _ _ Ek Hj) as (Jc & Jg & Jk).
    rewrite forallb_forall in Wav, Wk, Wc, Jc, Jk. rewrite Forall_forall in IH.
    assert (Hkid : forall p, In p kids -> exists d, find_feat (c_conts k) (fst p) = Some d
                     /\ conforms mm (t_cls (snd p)) (f_type d) = true /\ wf_tree mm S (snd p) = true).
    { intros p Hp. specialize (Wk p Hp); cbv beta zeta in Wk.
      destruct (find_feat (c_conts k) (fst p)) as [d|]; [|discriminate Wk].
      apply andb_true_iff in Wk. exists d. split; [reflexivity | exact Wk]. }
    cbn [t_cls]. apply (jnode_back decl c k iss attrs refs kids Ek Wa Wr).
    - intros a Ha. exact (Wav a Ha).
    - intros a Ha. exact (Jc a Ha).
    - intros d Hd. exact (Wc d Hd).
    - exact Jg.
    - intros p Hp. destruct (Hkid p Hp) as (d & _ & _ & Hw). exact Hw.
    - intros p Hp dcl. destruct (Hkid p Hp) as (d & _ & _ & Hw). exact (IH p Hp Hw (Jk p Hp) dcl).
    - intros p d Hp Hd. destruct (Hkid p Hp) as (d' & Hd' & Hc & _). rewrite Hd in Hd'. inversion Hd'; subst d'. exact Hc.
    - exact Hab.
  Qed.
End Phase1.

(* ================================================================ 4. phase 2: every {"$ref": fragment} resolves *)
Section Phase2.
  Variable mm : mmodel.
  Variable sd : bool.
  Variable S : list sk.
  Hypothesis Hmm : wf_mm mm = true.

  Lemma ref_target_obj d p : path_ok mm S d p = true -> ref_target mm S d (ref_obj mm S p) = Some p.
  Proof. intros H. unfold ref_target, ref_obj. exact (proj1 (path_ok_frag mm S Hmm d p H)). Qed.

  Lemma ref_targets_objs d ps : forallb (path_ok mm S d) ps = true ->
    traverse (ref_target mm S d) (map (ref_obj mm S) ps) = Some ps.
  Proof.
    intros H. rewrite forallb_forall in H. rewrite <- (map_id ps) at 2. apply traverse_map.
    apply Forall_forall. intros p Hp. exact (ref_target_obj d p (H p Hp)).
  Qed.

  (* one reference slot: the JSON value written for it resolves to its targets *)
  Lemma jlink_ref_back d set ps :
    (f_many d || (length ps <=? 1)%nat)
    && forallb (path_ok mm S d) ps
    && (negb (f_many d && f_unique d) || nodup_paths ps)
    && (set || is_nil ps) = true ->
    jlink_ref mm S d (jenc_ref mm sd S d set ps) = Some ps.
  Proof.
    intros W. repeat (apply andb_true_iff in W; let W' := fresh "W" in destruct W as [W W']).
    unfold jenc_ref. destruct set; cbn [negb].
    2:{ cbn [orb] in W0. destruct ps; [reflexivity | discriminate]. }
    destruct (f_many d) eqn:Em.
    - cbn [jlink_ref]. rewrite Em, (ref_targets_objs d ps W2).
      destruct (f_unique d); [|reflexivity]. cbn [andb negb orb] in W1. rewrite (dedup_nodup ps W1). reflexivity.
    - cbn [orb] in W. apply Nat.leb_le in W.
      destruct ps as [|p [|p' r]]; [destruct sd; cbn [jlink_ref]; rewrite ?Em; reflexivity| |cbn in W; lia].
      cbn [forallb] in W2. rewrite andb_true_r in W2.
      pose proof (ref_target_obj d p W2) as Ht. unfold ref_obj in *. cbn [jlink_ref]. rewrite Em, Ht. reflexivity.
  Qed.

  Lemma skel_jpre t : skel (jpre mm sd S t) = skel t.
  Proof.
    induction t as [c iss attrs refs kids IH] using tree_ind'. cbn [jpre skel]. f_equal.
    rewrite map_map. apply map_ext_Forall. eapply Forall_impl'; [|exact IH].
    intros p Hp. cbn [fst snd]. rewrite Hp. reflexivity.
  Qed.

  Theorem jphase2 : forall t, wf_tree mm S t = true -> jlink_tree mm S (jpre mm sd S t) = Some (forget t).
  Proof.
    induction t as [c iss attrs refs kids IH] using tree_ind'. intros Hwf.
    destruct (wf_tree_node _ _ _ _ _ _ _ Hwf) as (k & Ek & Hab & Wa & Wav & Wr & Wrv & Wk & Wc).
    rewrite forallb_forall in Wrv, Wk. rewrite Forall_forall in IH.
    cbn [jpre jlink_tree]. rewrite Ek. unfold class_or. rewrite Ek.
    rewrite (traverse_map _ _ (fun p => (fst p, snd p)) refs).
    - rewrite (traverse_map _ _ (fun p => (fst p, forget (snd p))) kids).
      + cbn [forget]. f_equal. f_equal. rewrite <- (map_id refs) at 2. apply map_ext. intros [a b]. reflexivity.
      + apply Forall_forall. intros p Hp. cbn [fst snd]. rewrite (IH p Hp); [reflexivity|].
        specialize (Wk p Hp); cbv beta zeta in Wk. destruct (find_feat (c_conts k) (fst p)) as [d|]; [|discriminate Wk].
        apply andb_true_iff in Wk. exact (proj2 Wk).
    - apply Forall_forall. intros p Hp. cbn [fst snd].
      assert (Hkey : In (fst p) (map f_id (c_refs k))) by (rewrite <- Wr; apply in_map; exact Hp).
      rewrite (proj2 (feat_in_In _ _ Hkey)).
      rewrite (jlink_ref_back _ _ _ (Wrv p Hp)). reflexivity.
  Qed.
End Phase2.

(* ================================================================ 5. whole documents *)
Lemma jroots_doc mm sd F : wf_mm mm = true -> wf_forest mm F = true ->
  jroots (encode_jdoc mm sd F) = map (jenc_tree mm sd (map skel F) None) F.
Proof.
  intros Hmm HF. unfold encode_jdoc. destruct F as [|t [|t' r]]; [reflexivity| |reflexivity].
  unfold wf_forest in HF. cbn [forallb] in HF. rewrite andb_true_r in HF.
  destruct (enc_shape mm sd _ Hmm t HF None) as (es & E & _).
  change (map (jenc_tree mm sd (map skel [t]) None) [t]) with [jenc_tree mm sd (map skel [t]) None t].
  rewrite E. reflexivity.
Qed.

Theorem jdocument_round_trip mm sd F :
  wf_mm mm = true -> wf_forest mm F = true -> jwf_forest mm F = true ->
  decode_jdoc mm (encode_jdoc mm sd F) = Some (map forget F).
Proof.
  intros Hmm HF HJ. unfold decode_jdoc. rewrite (jroots_doc mm sd F Hmm HF).
  unfold wf_forest in HF. unfold jwf_forest in HJ. rewrite forallb_forall in HF, HJ.
  set (S := map skel F) in *.
  rewrite (traverse_map _ _ (jpre mm sd S) F).
  - rewrite map_map. rewrite (map_ext _ _ (skel_jpre mm sd S)). fold S.
    apply traverse_map. apply Forall_forall. intros t Ht. exact (jphase2 mm sd S Hmm t (HF t Ht)).
  - apply Forall_forall. intros t Ht. unfold jdec_root.
    destruct (enc_shape mm sd S Hmm t (HF t Ht) None) as (es & E & Ec). rewrite E, Ec, <- E.
    exact (jphase1 mm sd S Hmm t (HF t Ht) (HJ t Ht) None).
Qed.

(* read literally: an observation G (no `_isset`) is exactly what the document of the state in which every
   feature was assigned loads as *)
Theorem jdocument_round_trip_literal mm sd (G : list (tree (list path))) :
  wf_mm mm = true -> map forget G = G ->
  wf_forest mm (map (set_all (all_ids mm)) G) = true -> jwf_forest mm (map (set_all (all_ids mm)) G) = true ->
  decode_jdoc mm (encode_jdoc mm sd (map (set_all (all_ids mm)) G)) = Some G.
Proof.
  intros Hmm HG Hwf Hj. rewrite (jdocument_round_trip mm sd _ Hmm Hwf Hj), map_map.
  rewrite (map_ext _ _ (forget_set_all (all_ids mm))). rewrite HG. reflexivity.
Qed.

(* ================================================================ a witness *)
(* A (names* : str, label : str = 'd', count : int = 0, uses* -> B, parts* <>- B, main <>- B) ;
   B (note : str, flags* : bool, owner -> A) ; C extends B.   The field f_type of an attribute is the kind of
   its data type (0 int, 2 bool, 3 str). *)
Definition jx_names := mkFeat 0 true false 3 None.
Definition jx_label := mkFeat 1 false true 3 (Some [100]).
Definition jx_count := mkFeat 6 false true 0 (Some [48]).
Definition jx_uses := mkFeat 2 true true 1 None.
Definition jx_parts := mkFeat 3 true true 1 None.
Definition jx_main := mkFeat 8 false true 1 None.
Definition jx_note := mkFeat 4 false true 3 None.
Definition jx_flags := mkFeat 7 true false 2 None.
Definition jx_owner := mkFeat 5 false true 0 None.
Definition jx_mm : mmodel :=
  [ mkClass 0 false [] [jx_names; jx_label; jx_count] [jx_uses] [jx_parts; jx_main];
    mkClass 1 false [] [jx_note; jx_flags] [jx_owner] [];
    mkClass 2 false [1] [jx_note; jx_flags] [jx_owner] [] ].
(* two roots (a JSON array); names = ['a b', None, 'c'] (null inside an array); count = -5 (a JSON number);
   the second part is a C under a containment declared as B ("eClass" in the nested object); its flags are
   [true, None, false]; uses = [the C, the B] (cross references, order kept); the C's owner is the second
   root; its note is ''; main holds a B *)
Definition jx_forest : list (tree (list path)) :=
  [ Node 0 [0; 2; 3; 6; 8]
         [(0, [Some [97; 32; 98]; None; Some [99]]); (1, [Some [100]]); (6, [Some [45; 53]])]
         [(2, [(0%nat, [(3, 1%nat)]); (0%nat, [(3, 0%nat)])])]
         [(3, Node 1 [] [(4, [None]); (7, [])] [(5, [])] []);
          (3, Node 2 [4; 5; 7] [(4, [Some []]); (7, [Some str_true; None; Some str_false])] [(5, [(1%nat, [])])] []);
          (8, Node 1 [5] [(4, [None]); (7, [])] [(5, [])] [])];
    Node 0 [1] [(0, []); (1, [Some [120]]); (6, [Some [48]])] [(2, [])] [] ].
