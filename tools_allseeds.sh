#!/bin/bash
# usage: tools_allseeds.sh [seed-name-glob]   -- re-runs every seeded change of /verif/seeded against the CURRENT /repo HEAD in one
# scratch worktree (outside /repo and /verif, removed afterwards) and writes /verif/seeded/STATUS.md
PAT=${1:-*}
WT=/tmp/allseeds_wt
git -C /repo worktree remove --force $WT 2>/dev/null
git -C /repo worktree add -q --detach $WT main || exit 9
OUT=/verif/seeded/STATUS.md
HEAD=$(git -C /repo log --format=%h -1)
if [ "$PAT" = "*" ]; then echo "# seeded changes against /repo HEAD $HEAD ($(date -u +%F))" > $OUT; echo >> $OUT; echo "| seed | patch applies | demo clean/mutated | suite | check |" >> $OUT; echo "|---|---|---|---|---|" >> $OUT; fi
for d in /verif/seeded/$PAT/; do
  n=$(basename $d); pid=${n%%_*}
  [ -f $d/patch.diff ] || continue
  cd $WT; git checkout -q -- . ; git clean -fdq
  cp $d/demo.py $WT/_demo_tmp.py
  /venv/bin/python _demo_tmp.py >/dev/null 2>&1; clean=$?
  if git apply $d/patch.diff 2>/dev/null; then ap=yes; else ap=no; fi
  if [ $ap = yes ]; then
    /venv/bin/python _demo_tmp.py >/dev/null 2>&1; mut=$?
    tests=$(/venv/bin/python -m pytest -q -p no:cacheprovider -x 2>&1 | tail -1 | cut -c1-40)
    res=$(cd /verif && VERIF_REPO=$WT ./check $pid --no-build 2>&1 | tail -1 | sed 's/.*-> //')
  else mut=-; tests=-; res=-; fi
  echo "| $n | $ap | $clean/$mut | $tests | $res |" | tee -a $OUT
done
cd /; git -C /repo worktree remove --force $WT
