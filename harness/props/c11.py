"""C11 — an object's URI fragment always resolves back to that object.
Kernel histories biased to containment/resource moves; after every call the
implementation's eURIFragment()/resource.resolve() are evaluated for every
object under a resource (oracle) and compared with Model/Fragment.v
(correspondence on the fragment text and on what it resolves to).
Two implementation-only scenario families follow (own PRNG streams, replayable through
common.scenario_replay): models saved, LOADED (XMI/JSON, plain and uuid, several roots, positional
references inside the document) and then edited; metamodels (nested packages, built or loaded from
.ecore) whose classifiers/members are renamed, removed, re-added under used names, swapped, moved --
resolve(fragment(o)) is o and fragments pairwise distinct after the load and after every edit."""
import copy
import re

from harness import common, kgen, kmodel, kprop, krun

PID = 'C11'
POOL = kgen.CONT_TEMPLATES + ['ai', 'rn', 'p1n']


def render(case, pre, segs):
    ff = kgen.flat_features(case['mm'])
    s = '/' if pre < 0 else f'/{pre}'
    for f, i in segs:
        name = ff[f][1]['name']
        s += f'/@{name}' if i < 0 else f'/@{name}.{i}'
    if s.startswith('//') and pre >= 0:
        s = s
    return s


def model_frags(model, case):
    toks = kmodel.encode_mm(case)
    for op in case['history']:
        toks += kmodel.encode_op(op)
    out = model.ask('frag', toks)
    r = kmodel.Reader(out)
    res = {}
    for oi in range(len(case['objs'])):
        tag = r.get()
        if tag == 0:
            continue
        if tag == 2:
            res[oi] = ('exn', None)
            continue
        pre = r.get()
        n = r.get()
        segs = [(r.get(), r.get()) for _ in range(n)]
        back = r.get()
        res[oi] = (pre, segs, back)
    assert r.i == len(out)
    return res


def canon(frag):
    """'/' , '//@a.0' and '/2/@a.0' -> (root number or -1, [(name, idx or -1)])"""
    parts = [p for p in frag.split('/') if p]
    pre = -1
    if parts and re.fullmatch(r'\d+', parts[0]):
        pre = int(parts[0])
        parts = parts[1:]
    segs = []
    for p in parts:
        m = re.fullmatch(r'@([A-Za-z_]\w*)(?:\.(\d+))?', p)
        if not m:
            return None
        segs.append((m.group(1), int(m.group(2)) if m.group(2) is not None else -1))
    return pre, segs


def ids_after_load(ctx, out, cases):
    """save with xmi:id, reload in a fresh resource set: ids and positional fragments resolve to the very objects"""
    import os
    import tempfile
    common.use_repo()
    from pyecore.resources import ResourceSet, URI
    from harness import kimpl
    n = 0
    for case in cases:
        c2 = dict(case)
        c2['history'] = [op for op in case['history'] if op[0] in kmodel.MODELLED]
        c2, _ = kprop.clean_case(c2, [], False)
        w = kimpl.World(c2, observers=False)
        for op in c2['history']:
            w.apply(op)
        roots = [o for o in w.objs if o.eContainer() is None and o.eResource is None][:2] + \
                [o for r in w.res for o in r.contents]
        if not roots:
            continue
        with tempfile.TemporaryDirectory() as td:
            rs = ResourceSet()
            res = rs.create_resource(URI(os.path.join(td, 'm.xmi')))
            res.use_uuid = True
            for o in roots:
                res.append(o)
            try:
                res.save()
            except Exception:   # noqa  (references leaving the resource etc.: not this check's business)
                continue
            rs2 = ResourceSet()
            rs2.metamodel_registry[w.pkg.nsURI] = w.pkg
            try:
                r2 = rs2.get_resource(URI(os.path.join(td, 'm.xmi')))
            except Exception:   # noqa
                continue
            n += 1
            todo = list(r2.contents)
            while todo:
                o = todo.pop()
                todo += list(o.eContents)
                for what, frag in (('id', o._internal_id), ('fragment', o.eURIFragment())):
                    try:
                        back = r2.resolve(frag) if frag else o
                    except Exception as e:  # noqa
                        back = 'raised ' + type(e).__name__
                    if back is not o:
                        out.fail({'property': PID, 'clause': f'after-load-{what}', 'roots': min(len(r2.contents), 2)},
                                 f'after a load with xmi:id, {what} {frag!r} resolves to {back!r}', c2)
                        todo = []
                        break
    out.coverage['ids_after_load_models'] = n


def run(ctx, out):
    # oracle + kernel correspondence on ownership through the common runner
    focus = [kgen.gen_focus_case(ctx.rng, t, nops=ctx.rng.randrange(4, 12))
             for t in ('cn', 'ckn', 'ctree0', 'ctree') for _ in range(150 if ctx.tier != 'thorough' else 3000)]
    for j, c in enumerate(focus):
        c['uuid'] = (j % 2 == 1)        # resources that work with xmi:id must still resolve positional fragments
    ids_after_load(ctx, out, focus[:40 if ctx.tier != 'thorough' else 600])
    st = kprop.run(ctx, out, PID, ['C11'], {'outcome', 'values', 'ownership'}, 900, 25000, pool=POOL,
                   weights={'res': 0.25, 'delete': 0.04}, p_wrong=0.03, extra_cases=focus)
    # fragment correspondence: final state of fresh histories (prefixes are covered by varying lengths)
    n = 400 if ctx.tier != 'thorough' else 6000
    model = common.Model()
    compared = 0
    from harness import kimpl
    for i in range(n):
        case = kgen.gen_case(ctx.rng, nops=ctx.rng.randrange(2, 14), pool=POOL,
                             weights={'res': 0.3, 'delete': 0.03}, p_wrong=0.02)
        case['history'] = [op for op in case['history'] if op[0] in kmodel.MODELLED]
        case, r = kprop.clean_case(case, [], False)
        w = kimpl.World(case, observers=False)
        for op in case['history']:
            w.apply(op)
        impl = w.fragments()
        ff = kgen.flat_features(case['mm'])
        mf = model_frags(model, case)
        for oi, (frag, back) in impl.items():
            compared += 1
            mo = mf.get(oi)
            if mo is None:
                out.diff(f'obj{oi}: implementation has a resource, model has none', case)
                break
            if frag.startswith('exn:'):
                if mo[0] != 'exn':
                    out.diff(f'obj{oi}: implementation raised {frag}, model gives {mo}', case)
                    break
                continue
            if mo[0] == 'exn':
                out.diff(f'obj{oi}: model raised, implementation gives {frag!r}', case)
                break
            c = canon(frag)
            want = (mo[0], [(ff[f][1]['name'], idx) for f, idx in mo[1]])
            if c != want:
                out.diff(f'obj{oi}: fragment impl={frag!r} model={want}', case)
                break
            mb = mo[2] if mo[2] != kmodel.NONE_TOK else kmodel.NONE_TOK
            ib = back if isinstance(back, int) else 'exn'
            if ib != mb and not (ib == 'exn' and mb == kmodel.NONE_TOK):
                out.diff(f'obj{oi}: resolve impl={back} model={mo[2]}', case)
                break
    model.close()
    out.coverage['fragment_objects_compared'] = compared
    out.coverage['fragment_cases'] = n


def replay(ctx, rep):
    case = rep['case']
    if case.get('scenario'):
        return common.scenario_replay(ctx, rep, SCENARIOS)
    r = krun.Run(case, ['C11']).run()
    for s in r.steps:
        print(s['op'], '->', s['outcome'], s.get('frags'))
    if r.failure:
        print('REPRODUCED', r.failure['clause'], r.failure['detail'])
        return 1
    print('not reproduced')
    return 0


# ---------------------------------------------------------------------------
# scenario families (oracle on the implementation only, public API): the kernel
# histories above run on freshly built resources; these cover what a LOAD leaves
# behind in a resource and the name-based fragments of metamodel elements while
# the metamodel is edited.

def _reach(res):
    """every object reachable from the roots through containment, each once, roots first"""
    seen, found = set(), []
    for root in list(res.contents):
        todo = [root]
        while todo:
            o = todo.pop(0)
            if id(o) in seen:
                continue
            seen.add(id(o))
            found.append(o)
            todo += _children(o)
    return found


def _children(o):
    # eContents follows a set of references: the order between features is made reproducible here (replays);
    # within one feature the collection's own order is kept (the sort is stable)
    return sorted(o.eContents, key=lambda c: c.eContainmentFeature().name)


def _check_resolution(res, objs, label, only=None, ids=False, idtext=None):
    """objs: the reachable objects the property talks about.  Returns (resolutions done, None | (clause, text))"""
    frags, seen = {}, {}
    for o in objs:
        try:
            frag = o.eURIFragment()
        except Exception as e:  # noqa
            return 0, ('fragment-raised', f'eURIFragment() of {label(o)} raised {type(e).__name__}: {e}')
        if frag in seen:
            return 0, ('not-distinct', f'{label(seen[frag])} and {label(o)} have the same fragment {frag!r}')
        seen[frag] = o
        frags[id(o)] = frag
    n = 0
    for o in (objs if only is None else only):
        frag = frags[id(o)]
        # eURIFragment() of a metamodel element includes the '#' separator: resolved as given, and as the bare
        # fragment (what follows the '#', which is how pyecore itself consumes it when decoding references)
        keys = [('fragment', frag)] + ([('fragment', frag[1:])] if frag.startswith('#') else [])
        if ids and getattr(o, '_internal_id', None):
            keys.append(('id', o._internal_id))
        if idtext is not None:
            keys += [('id', t) for t in (idtext(o) or [])]       # text of the id attribute / uuid of the object
        for what, key in keys:
            n += 1
            try:
                back = res.resolve(key)
            except Exception as e:  # noqa
                return n, ('resolve-raised', f'resolve({key!r}) ({what} of {label(o)}) raised {type(e).__name__}: {e}')
            if back is not o:
                return n, (f'{what}-resolves-elsewhere', f'{what} {key!r} of {label(o)} resolves to {label(back)}')
    return n, None


# ---- 1. load, then edit ----------------------------------------------------

def _lte_metamodel(E, idmode=None):
    """idmode 'str' / 'int': Node has an id attribute `key` (iD=True) of type EString / EInt, inherited by Leaf"""
    pack = E.EPackage('lte', nsURI=f'http://verif/c11/load-then-edit/{idmode}', nsPrefix='lte')
    Node = E.EClass('Node')
    Leaf = E.EClass('Leaf', superclass=(Node,))
    if idmode:
        Node.eStructuralFeatures.append(E.EAttribute('key', E.EString if idmode == 'str' else E.EInt, iD=True))
    Node.eStructuralFeatures.extend([
        E.EAttribute('name', E.EString),
        E.EReference('children', Node, upper=-1, containment=True),
        E.EReference('items', Node, upper=-1, containment=True, unique=False),   # an EList, not an ordered set
        E.EReference('slot', Node, containment=True),
        E.EReference('fav', Node),
        E.EReference('links', Node, upper=-1)])
    Leaf.eStructuralFeatures.append(E.EReference('parts', Leaf, upper=-1, containment=True))
    pack.eClassifiers.extend([Node, Leaf])
    return pack, Node, Leaf


LTE_FORMATS = ['xmi', 'xmi', 'xmi-uuid', 'json', 'json-uuid']
LTE_ID_SHAPES = ['k{n}', '{n}', 'id.{n}_x', 'lib/shelf-{n}/b{n}', 'a/{n}', '{n}/2', '{n}/', 'k:{n}', 'a@{n}', 'p-q_{n}',
                 'x..{n}', '@{n}', '%{n}%', '{n}.0', 'a/@b.{n}', 'http://x/{n}', '..{n}', '{n}?q', "{n}'s"]


def load_edit_scenarios(ctx, out):
    """random small models (several roots, containment through an ordered set, a list and a single slot, single and
    many-valued references inside the document) are saved, loaded in a fresh resource set and then edited; after the
    load and after every edit every object reachable from the roots must be what its fragment resolves to."""
    import os
    import tempfile
    common.use_repo()
    from pyecore import ecore as E
    from pyecore.resources import ResourceSet, URI
    from pyecore.resources.json import JsonResource
    rng = common.rng_for(ctx.seed, 'C11:load_edit')
    metamodels = {m: _lte_metamodel(E, m) for m in (None, 'str', 'int')}
    n_models = 500 if ctx.tier != 'thorough' else 4000
    cov = {'loads': 0, 'edits': 0, 'resolutions': 0, 'moves_between_parents': 0, 'root_edits': 0,
           'documents_with_positional_refs': 0, 'abandoned': 0, 'by_format': {}, 'by_id_attribute': {},
           'id_attribute_resolutions': 0, 'roots_with_id': 0, 'documents_without_cross_reference': {},
           'uuid_resolutions': 0, 'int_ids_equal_to_0': 0, 'references_compared_after_load': 0}
    samples = []

    def new_rs():
        rs = ResourceSet()
        for pk, _, _ in metamodels.values():
            rs.metamodel_registry[pk.nsURI] = pk
        rs.resource_factory['json'] = lambda uri: JsonResource(uri)
        return rs

    def label(o):
        if isinstance(o, E.EObject) and isinstance(getattr(o, 'name', None), str):
            return o.name
        return repr(o)

    def cont_feats(o):
        return ['children', 'items', 'slot'] + (['parts'] if isinstance(o, Leaf) else [])

    def ancestors(o):
        res = []
        while o is not None:
            res.append(o)
            o = o.eContainer()
        return res

    with tempfile.TemporaryDirectory() as td:
        for it in range(n_models):
            fmt = rng.choice(LTE_FORMATS)
            # id attributes (EString / EInt, also the int 0) on roots and nested objects: the references to an object
            # with a SET id are written as the id's text, the others stay positional
            idmode = rng.choice([None, None, None, 'str', 'int', 'int'])
            pack, Node, Leaf = metamodels[idmode]
            nroots = rng.choice([1, 1, 1, 2, 2, 3])
            nobj = rng.randrange(nroots + 1, 13)
            objs = []
            for i in range(nobj):
                o = rng.choice([Node, Node, Leaf])(name=f'o{i}')
                if i >= nroots:
                    for _ in range(8):
                        parent = rng.choice(objs)
                        f = rng.choice(cont_feats(parent))
                        if f == 'parts' and not isinstance(o, Leaf):
                            continue
                        if f == 'slot':
                            if parent.slot is not None:
                                continue
                            parent.slot = o
                        else:
                            coll = parent.eGet(f)
                            coll.insert(rng.randrange(len(coll) + 1), o)
                        break
                    else:
                        objs[0].children.append(o)
                objs.append(o)
            idtexts = {}                     # object name -> text form of its id
            if idmode:
                pool = rng.sample([1, 2, 7, 10, 13, 42, 100, 255, 1000, -3, -1, 65536, 99, 5, 6, 8, 9], nobj)   # distinct
                if rng.random() < 0.6:
                    pool[rng.randrange(nobj) if rng.random() < 0.5 else 0] = 0       # the default value of EInt, set
                for i, o in enumerate(objs):
                    if rng.random() < (0.85 if i < nroots else 0.65):
                        # string ids of every shape _id_fragment accepts (anything not empty, without blank or '#',
                        # not STARTING with '/'): inner and trailing '/', dots, '@', '%', ':' ... are legal in an id
                        o.key = pool[i] if idmode == 'int' else rng.choice(LTE_ID_SHAPES).format(n=pool[i])
                        idtexts[o.name] = str(o.key)
                        cov['roots_with_id'] += i < nroots
                        cov['int_ids_equal_to_0'] += idmode == 'int' and o.key == 0
            nref = 0
            # a quarter of the documents hold containment only: the loader has no reference to link (its other path)
            for o in (objs if rng.random() < 0.75 else []):
                if rng.random() < 0.6:
                    o.fav = rng.choice(objs)
                    nref += 1
                for t in rng.sample(objs, min(len(objs), rng.choice([0, 0, 1, 2, 3]))):
                    o.links.append(t)
                    nref += 1
            cov['documents_without_cross_reference'][fmt] = cov['documents_without_cross_reference'].get(fmt, 0) + (nref == 0)
            ext = 'json' if fmt.startswith('json') else 'xmi'
            path = os.path.join(td, f'm{it}.{ext}')
            rs = new_rs()
            res = rs.create_resource(URI(path))
            res.use_uuid = fmt.endswith('uuid')
            for o in objs[:nroots]:
                res.append(o)
            dump = [[o.name, o.eClass.name, o.eContainer().name if o.eContainer() else None,
                     o.eContainmentFeature().name if o.eContainer() else None,
                     o.fav.name if o.fav else None, [t.name for t in o.links], idtexts.get(o.name)] for o in objs]
            hist = [['model', fmt, nroots, idmode, dump]]
            sig = {'property': PID, 'clause': None, 'scenario': 'load-then-edit', 'format': fmt, 'id_attribute': idmode}

            def case():
                return {'scenario': 'load_edit', 'seed': ctx.seed, 'tier': ctx.tier, 'format': fmt, 'roots': nroots,
                        'id_attribute': idmode, 'history': [list(h) for h in hist]}

            res.save()
            uuids = {o.name: o._internal_id for o in objs} if fmt.endswith('uuid') else {}
            rs2 = new_rs()
            try:
                r2 = rs2.get_resource(URI(path))
            except Exception as e:   # noqa  (a document this library wrote itself: its references must be found again)
                sig['clause'] = 'load-raised'
                out.fail(dict(sig), f'{fmt} document with {nroots} root(s), id attribute {idmode}: load raised '
                                    f'{type(e).__name__}: {e}', case())
                continue
            finally:
                os.unlink(path)
            cov['loads'] += 1
            cov['by_format'][fmt] = cov['by_format'].get(fmt, 0) + 1
            cov['by_id_attribute'][str(idmode)] = cov['by_id_attribute'].get(str(idmode), 0) + 1
            if nref and not fmt.endswith('uuid'):
                cov['documents_with_positional_refs'] += 1
            known = _reach(r2)              # every object the history may use (also detached ones, later)
            # the ids a loaded object must be found under: the text of its id attribute and, in a uuid resource, the
            # uuid the SAVED object was given (taken from the saved objects, not from what the loader left behind)
            loaded_ids = {id(o): [idtexts[o.name]] for o in known if o.name in idtexts}
            if fmt.endswith('uuid'):
                for o in known:
                    if uuids.get(o.name):
                        loaded_ids.setdefault(id(o), []).append(uuids[o.name])
            fresh = [0]

            def verify():
                n, bad = _check_resolution(r2, _reach(r2), label, idtext=lambda o: loaded_ids.get(id(o)))
                cov['resolutions'] += n
                if not bad:
                    cov['id_attribute_resolutions'] += sum(1 for o in _reach(r2) if id(o) in loaded_ids and idmode)
                    cov['uuid_resolutions'] += sum(1 for o in _reach(r2) if id(o) in loaded_ids and fmt.endswith('uuid'))
                if not bad and fmt.endswith('uuid'):
                    # the object itself knows the id it is registered under (what a later reference to it is written with)
                    for o in _reach(r2):
                        want = uuids.get(o.name) if id(o) in loaded_ids else None
                        if want and o._internal_id != want:
                            bad = ('id-not-kept-after-load', f'{label(o)} was saved with the uuid {want!r} and resolves '
                                                             f'through it, but carries {o._internal_id!r} after the load')
                            break
                if bad:
                    sig['clause'] = bad[0]
                    out.fail(dict(sig), f'{fmt} document loaded, then {hist[-1] if len(hist) > 1 else "nothing"}: {bad[1]}', case())
                return bad is None

            def candidate(owner, f):
                """something that can be put into owner.f: a new object, a detached one, or one held elsewhere"""
                if rng.random() < 0.4:
                    fresh[0] += 1
                    o = (Leaf if f == 'parts' or rng.random() < 0.3 else Node)(name=f'n{fresh[0]}')
                    known.append(o)
                    return o
                up = ancestors(owner)
                cur = owner.eGet(f)
                cands = [o for o in known if not any(o is a for a in up) and (f != 'parts' or isinstance(o, Leaf))
                         and not (f != 'slot' and any(o is x for x in cur)) and not (f == 'slot' and o is cur)]
                return rng.choice(cands) if cands else None

            if len(known) != len(objs) or not verify():
                if len(known) != len(objs):
                    cov['abandoned'] += 1     # the document did not come back whole: C08's subject
                continue
            # the references of the document (written as ids, uuids or positions) reach their targets
            byname = {o.name: o for o in known}
            wrong = None
            for name, _, _, _, fav, links, _ in dump:
                o = byname.get(name)
                cov['references_compared_after_load'] += (fav is not None) + len(links)
                if o is None or (o.fav is not None or fav is not None) and o.fav is not byname.get(fav):
                    wrong = f'{name}.fav is {label(o.fav) if o is not None else "?"}, was written as {fav}'
                elif len(o.links) != len(links) or any(a is not byname.get(b) for a, b in zip(o.links, links)):
                    wrong = f'{name}.links is {[label(t) for t in o.links]}, was written as {links}'
                if wrong:
                    break
            if wrong:
                sig['clause'] = 'reference-after-load'
                out.fail(dict(sig), f'{fmt} document, id attribute {idmode}: {wrong}', case())
                continue
            nedits = rng.randrange(3, 10)
            ok = True
            for step in range(nedits):
                attached = _reach(r2)
                owners = attached if attached and rng.random() < 0.9 else known
                owner = rng.choice(owners)
                kind = rng.choice(['insert', 'insert', 'append', 'remove', 'remove', 'pop', 'pop', 'delitem', 'setitem',
                                   'clear', 'slot', 'slot', 'extend', 'root-append', 'root-append', 'root-remove', 'link'])
                f = rng.choice([x for x in cont_feats(owner) if x != 'slot'])
                coll = owner.eGet(f)
                h = None
                try:
                    if kind in ('insert', 'append', 'setitem', 'extend'):
                        c = candidate(owner, f)
                        if c is None or (kind == 'setitem' and (not len(coll) or f == 'items')):
                            continue      # (list[i] = x on a containment EList: ownership of the replaced value is C02's subject)
                        moved = c.eContainer() is not None
                        if kind == 'insert':
                            i = rng.randrange(len(coll) + 1)
                            h = ['insert', owner.name, f, i, c.name]
                            coll.insert(i, c)
                        elif kind == 'append':
                            h = ['append', owner.name, f, c.name]
                            coll.append(c)
                        elif kind == 'extend':
                            c2 = candidate(owner, f)
                            cs = [c] + ([c2] if c2 is not None and c2 is not c and
                                        not any(c2 is a for a in ancestors(c)) and not any(c is a for a in ancestors(c2)) else [])
                            h = ['extend', owner.name, f, [x.name for x in cs]]
                            coll.extend(cs)
                        else:
                            i = rng.randrange(len(coll))
                            h = ['setitem', owner.name, f, i, c.name]
                            coll[i] = c
                        cov['moves_between_parents'] += moved
                    elif kind in ('remove', 'pop', 'delitem'):
                        if not len(coll) or (kind == 'delitem' and f == 'items'):
                            continue      # (del list[i] on a containment EList: same remark)
                        if kind == 'remove':
                            c = rng.choice(list(coll))
                            h = ['remove', owner.name, f, c.name]
                            coll.remove(c)
                        elif kind == 'pop':
                            i = rng.choice([None] + list(range(-len(coll), len(coll))))
                            h = ['pop', owner.name, f, i]
                            coll.pop() if i is None else coll.pop(i)
                        else:
                            i = rng.randrange(len(coll))
                            h = ['delitem', owner.name, f, i]
                            del coll[i]
                    elif kind == 'clear':
                        h = ['clear', owner.name, f]
                        coll.clear()
                    elif kind == 'slot':
                        c = candidate(owner, 'slot') if rng.random() < 0.7 else None
                        if c is not None:
                            cov['moves_between_parents'] += c.eContainer() is not None
                        h = ['slot', owner.name, c.name if c is not None else None]
                        owner.slot = c
                    elif kind == 'root-append':
                        c = rng.choice(known) if rng.random() < 0.7 else Node(name=f'n{fresh[0] + 1}')
                        if not any(c is x for x in known):
                            fresh[0] += 1
                            known.append(c)
                        h = ['root-append', c.name]
                        r2.append(c)
                        cov['root_edits'] += 1
                    elif kind == 'root-remove':
                        if len(r2.contents) < 2 and rng.random() < 0.7:
                            continue
                        if not r2.contents:
                            continue
                        c = rng.choice(r2.contents)
                        h = ['root-remove', c.name]
                        r2.remove(c)
                        cov['root_edits'] += 1
                    else:
                        t = rng.choice(known)
                        if rng.random() < 0.5:
                            h = ['fav', owner.name, t.name]
                            owner.fav = t
                        else:
                            h = ['links-append', owner.name, t.name]
                            owner.links.append(t)
                except Exception as e:   # noqa  (what a legal edit may raise is the business of C01-C04)
                    cov['abandoned'] += 1
                    cov.setdefault('abandoned_on', []).append([h, type(e).__name__])
                    break
                hist.append(h)
                cov['edits'] += 1
                if not verify():
                    ok = False
                    break
            if ok and len(samples) < 3:
                samples.append(case())
    cov['abandoned_on'] = cov.get('abandoned_on', [])[:5]
    out.coverage['load_then_edit'] = cov
    out.coverage.setdefault('scenario_samples', []).extend(samples[:2])


# ---- 2. name-based fragments of metamodel elements while the metamodel is edited ----

# Names are unique among the eContents of ONE element: two children of one element with the same name (a classifier
# named like a sub-package, a feature named like an operation of the same class) are legal Ecore and legitimately
# ambiguous; not generated (classifiers and sub-packages draw from disjoint pools).  The members of a class (features,
# operations, type parameters) draw from ONE pool, so that members of different kinds of DIFFERENT classes share
# names -- in particular an operation / type parameter named like a feature inherited from a (transitive) super
# type and a feature named like a super type's operation: '#//Circle/area' and '#//Shape/area' are not ambiguous.
# (Two FEATURES of one inheritance line with the same name are invalid Ecore: not generated.)
MM_MEMBERS = ['x', 'y', 'z', 'ref', 'val', 'label', 'run', 'area']
MM_NAMES = {'classifier': ['A', 'B', 'C', 'D', 'Item', 'Order', 'Kind', 'Money'],
            'package': ['sub', 'inner', 'deep', 'aux'],
            'feature': MM_MEMBERS, 'operation': MM_MEMBERS, 'typeparameter': MM_MEMBERS,
            'literal': ['l0', 'l1', 'l2', 'RED', 'GREEN'],
            'parameter': ['p', 'q', 'x', 'area']}
# annotations are designated by position: any source is legal, also the same source twice on one element
MM_SOURCES = ['doc', 'doc', 'GenModel', 'org.example.validation', 'a.b', 'http://www.eclipse.org/emf/2002/GenModel',
              'http://verif/c11#note', '', None, 'x/y', '50%', 'with space']


def metamodel_edit_scenarios(ctx, out):
    """a package tree (nested sub-packages, one or two roots) in a resource -- built in memory or loaded from an
    .ecore document -- is edited: classifiers/members added, renamed in place, removed, re-added under a name used
    before, names swapped, classifiers moved to another package, super types added and removed (operations and type
    parameters named like inherited features, features named like inherited operations); fragments are resolved
    before the edits and after every edit every named element reachable from the roots must be what its fragment
    resolves to."""
    import os
    import tempfile
    common.use_repo()
    from pyecore import ecore as E
    from pyecore.resources import ResourceSet, URI
    rng = common.rng_for(ctx.seed, 'C11:metamodel_edit')
    n_cases = 70 if ctx.tier != 'thorough' else 700
    cov = {'metamodels': 0, 'loaded_from_ecore': 0, 'edits': 0, 'resolutions': 0, 'by_edit': {}, 'abandoned': 0,
           'names_reused': 0, 'two_root_states': 0, 'abandoned_on': [],
           'inherited_name_clash_states': 0, 'inherited_name_clash_elements': 0,
           'annotations_checked': 0, 'states_with_same_source_twice': 0, 'states_with_dotted_source': 0}
    samples = []
    uid = [0]

    def kind_of(o):
        if isinstance(o, E.EPackage):
            return 'package'
        if isinstance(o, E.EClassifier):
            return 'classifier'
        if isinstance(o, E.EStructuralFeature):
            return 'feature'
        if isinstance(o, E.EOperation):
            return 'operation'
        if isinstance(o, E.EEnumLiteral):
            return 'literal'
        if isinstance(o, E.EParameter):
            return 'parameter'
        if isinstance(o, E.ETypeParameter):
            return 'typeparameter'
        return None

    def siblings(parent):
        return [c for c in _children(parent) if kind_of(c)]

    def free_names(parent, kind):
        used = {c.name for c in siblings(parent)}
        return [n for n in MM_NAMES[kind] if n not in used]

    def anc(c):
        """c and its transitive super types"""
        seen, todo = [], [c]
        while todo:
            k = todo.pop(0)
            if not any(k is x for x in seen):
                seen.append(k)
                todo += list(k.eSuperTypes)
        return seen

    def closure(classes):
        u = []
        for c in classes:
            for k in anc(c):
                if not any(k is x for x in u):
                    u.append(k)
        return u

    def feat_names(classes, skip=None):
        return {f.name for k in classes for f in k.eStructuralFeatures if f is not skip}

    def other_names(classes):
        return {m.name for k in classes for m in list(k.eOperations) + list(k.eTypeParameters)}

    def lines_through(c, U):
        """the classes of every inheritance line c belongs to: the ancestors of every descendant of c"""
        rel = []
        for d in U:
            if any(c is a for a in anc(d)):
                rel += [k for k in anc(d) if not any(k is x for x in rel)]
        return rel

    def member_name_ok(c, kind, name, U, skip=None):
        if name in {m.name for m in siblings(c) if m is not skip}:
            return False
        return kind != 'feature' or name not in feat_names(lines_through(c, U), skip)

    def mro_ok(U, override=None, new_bases=None):
        """would Python linearise the class graph (after giving id(c) -> super types of `override`)?"""
        override = override or {}
        built = {}

        def mk(k, depth=0):
            if id(k) not in built:
                if depth > 40:
                    raise TypeError('cycle')
                bases = tuple(mk(b, depth + 1) for b in override.get(id(k), list(k.eSuperTypes))) or (object,)
                built[id(k)] = type('K', bases, {})
            return built[id(k)]
        try:
            for k in U:
                mk(k)
            if new_bases:
                type('K', tuple(mk(b) for b in new_bases), {})
            return True
        except TypeError:
            return False

    def super_ok(c, sup, U):
        if any(c is a for a in anc(sup)) or any(sup is x for x in c.eSuperTypes):
            return False
        for d in U:
            if any(c is a for a in anc(d)):
                have = anc(d)
                extra = [k for k in anc(sup) if not any(k is x for x in have)]
                if feat_names(extra) & feat_names(have):
                    return False
        return mro_ok(U, {id(c): list(c.eSuperTypes) + [sup]})

    def pick(names, liked):
        """a name, preferably one that clashes (across kinds) with a member of a related class"""
        names = list(names)
        good = [n for n in names if n in liked]
        return rng.choice(good) if good and rng.random() < 0.65 else rng.choice(names)

    with tempfile.TemporaryDirectory() as td:
        for it in range(n_cases):
            tags = {}
            keep = []          # (ids stay unique while the objects are alive)
            limbo = []         # classifiers taken out of the metamodel
            everused = {}      # id(package) -> names its classifiers carried at some point

            def tag(o):
                if id(o) not in tags:
                    keep.append(o)
                    tags[id(o)] = f'{kind_of(o) or type(o).__name__}{len(keep)}'
                return tags[id(o)]

            def label(o):
                if isinstance(o, E.EObject) and kind_of(o):
                    return f'{tag(o)}({type(o).__name__} {o.name!r})'
                if isinstance(o, E.EAnnotation):
                    return f'{tag(o)}(EAnnotation source={o.source!r})'
                return repr(o)

            def note_name(pkg, name):
                everused.setdefault(id(pkg), set()).add(name)

            def make_class(name, classes):
                sups = []
                U = closure(classes)
                for sup in rng.sample(classes, min(len(classes), rng.choice([0, 1, 1, 2]))):
                    have = closure(sups)
                    extra = [k for k in anc(sup) if not any(k is x for x in have)]
                    if feat_names(extra) & feat_names(have) or not mro_ok(U, new_bases=sups + [sup]):
                        continue
                    sups.append(sup)
                c = E.EClass(name, superclass=tuple(sups))
                up = closure(sups)
                inh_f, inh_o = feat_names(up), other_names(up)
                used = set()
                for _ in range(rng.randrange(0, 4)):
                    free = [n for n in MM_MEMBERS if n not in used and n not in inh_f]
                    if not free:
                        break
                    fn = pick(free, inh_o)            # a feature named like an operation of a super type
                    used.add(fn)
                    if classes and rng.random() < 0.5:
                        c.eStructuralFeatures.append(E.EReference(fn, rng.choice(classes), upper=rng.choice([1, -1])))
                    else:
                        c.eStructuralFeatures.append(E.EAttribute(fn, rng.choice([E.EString, E.EInt, E.EBoolean])))
                for _ in range(rng.choice([0, 1, 1, 2])):
                    free = [n for n in MM_MEMBERS if n not in used]
                    if not free:
                        break
                    on = pick(free, inh_f)            # an operation named like an inherited feature
                    used.add(on)
                    op = E.EOperation(on)
                    for pn in rng.sample(MM_NAMES['parameter'], rng.randrange(0, 3)):
                        op.eParameters.append(E.EParameter(pn, E.EString))
                    c.eOperations.append(op)
                for _ in range(rng.choice([0, 0, 0, 1, 2])):
                    free = [n for n in MM_MEMBERS if n not in used]
                    if not free:
                        break
                    tn = pick(free, inh_f)
                    used.add(tn)
                    c.eTypeParameters.append(E.ETypeParameter(tn))
                return c

            def make_classifier(name, classes):
                r = rng.random()
                if r < 0.7:
                    return make_class(name, classes)
                if r < 0.9:
                    return E.EEnum(name, literals=rng.sample(MM_NAMES['literal'], rng.randrange(1, 4)))
                return E.EDataType(name, instanceClassName='java.lang.Object')

            def make_annotation(like=None, depth=0, classes=()):
                a = E.EAnnotation(source=like[0] if like else rng.choice(MM_SOURCES))
                if rng.random() < 0.6:
                    a.details['documentation'] = 'some text'
                if classes and rng.random() < 0.2:
                    a.references.append(rng.choice(classes))
                if depth < 2:
                    r = rng.random()
                    if r < 0.2:
                        a.contents.append(make_annotation(depth=depth + 1))
                    elif r < 0.35:
                        a.contents.append(E.EAttribute(rng.choice(['note', 'extra']), E.EString))
                    if rng.random() < 0.15:
                        a.eAnnotations.append(make_annotation(depth=depth + 1))
                return a

            def make_package(name):
                uid[0] += 1
                return E.EPackage(name, nsURI=f'http://verif/c11/mm/{uid[0]}', nsPrefix=f'{name}{uid[0]}')

            # ---- the initial metamodel
            roots = [make_package('root')] + ([make_package('second')] if rng.random() < 0.3 else [])
            pkgs = list(roots)
            for sn in rng.sample(MM_NAMES['package'], rng.randrange(1, 4)):
                parent = rng.choice(pkgs)
                sp = make_package(sn)
                parent.eSubpackages.append(sp)
                pkgs.append(sp)
            classes = []
            for pkg in pkgs:
                for cn in rng.sample(MM_NAMES['classifier'], rng.randrange(0, 5) if pkg is not roots[0] else rng.randrange(2, 5)):
                    c = make_classifier(cn, classes)
                    pkg.eClassifiers.append(c)
                    if isinstance(c, E.EClass):
                        classes.append(c)
            rs = ResourceSet()
            loaded = rng.random() < 0.4
            res = rs.create_resource(URI(os.path.join(td, f'mm{it}.ecore')))
            for r in roots:
                res.append(r)
            for host in [o for o in _reach(res) if isinstance(o, E.EModelElement)]:
                if rng.random() < 0.1:       # packages, classifiers, features, operations, parameters, literals ...
                    for k in range(rng.choice([1, 1, 2, 3])):
                        first = host.eAnnotations[0] if k and rng.random() < 0.5 else None      # the same source again
                        host.eAnnotations.append(make_annotation([first.source] if first is not None else None,
                                                                 classes=classes))
            hist = [['metamodel', 'loaded' if loaded else 'built',
                     [[o.eURIFragment(), type(o).__name__] + ([o.source] if isinstance(o, E.EAnnotation) else [])
                      for o in _reach(res) if kind_of(o) or isinstance(o, E.EAnnotation)]]]
            if loaded:
                res.save()
                rs = ResourceSet()
                res = rs.get_resource(URI(os.path.join(td, f'mm{it}.ecore')))
                os.unlink(os.path.join(td, f'mm{it}.ecore'))
                cov['loaded_from_ecore'] += 1
            cov['metamodels'] += 1
            spare = make_package('spare')     # a root that comes and goes
            sig = {'property': PID, 'clause': None, 'scenario': 'metamodel-edit', 'loaded': loaded}

            def named():
                return [o for o in _reach(res) if kind_of(o)]

            def all_classifiers():
                return [o for o in _reach(res) if isinstance(o, E.EClassifier)]

            for c in all_classifiers():
                note_name(c.ePackage, c.name)

            def case():
                return {'scenario': 'metamodel_edit', 'seed': ctx.seed, 'tier': ctx.tier, 'loaded': loaded,
                        'history': [list(h) for h in hist]}

            def verify(full=True):
                objs = _reach(res)       # every element: named ones, annotations and what annotations contain
                anns = [o for o in objs if isinstance(o, E.EAnnotation)]
                cov['annotations_checked'] += len(anns)
                by_host = {}
                for a in anns:
                    if a.eContainmentFeature().name == 'eAnnotations':
                        by_host.setdefault(id(a.eContainer()), []).append(a.source)
                cov['states_with_same_source_twice'] += any(len(v) != len(set(v)) for v in by_host.values())
                cov['states_with_dotted_source'] += any('.' in (a.source or '') for a in anns)
                only = None
                if not full:
                    only = [o for o in objs if rng.random() < 0.4]
                cov['two_root_states'] += len(res.contents) > 1
                clash = 0
                for c in objs:
                    if isinstance(c, E.EClass) and len(c.eSuperTypes):
                        up = [k for k in anc(c) if k is not c]
                        clash += len(other_names([c]) & feat_names(up)) + len(feat_names([c]) & other_names(up))
                cov['inherited_name_clash_states'] += clash > 0
                cov['inherited_name_clash_elements'] += clash
                n, bad = _check_resolution(res, objs, label, only=only)
                cov['resolutions'] += n
                if bad:
                    sig['clause'] = bad[0]
                    last = [h for h in hist[1:] if h[0] != 'check'][-1]
                    out.fail(dict(sig), f'metamodel ({hist[0][1]}) after {last}: {bad[1]}', case())
                return bad is None

            # fragments resolved BEFORE any edit (all of them, some of them, or by name look-ups only)
            pre = rng.choice(['all', 'all', 'some', 'lookups'])
            hist.append(['resolve-before', pre])
            if pre == 'lookups':
                for c in all_classifiers():
                    c.ePackage.getEClassifier(c.name)
            elif not verify(full=(pre == 'all')):
                continue
            pending = None
            ok = True
            for step in range(rng.randrange(3, 11)):
                kind = rng.choice(['add', 'add', 'rename', 'rename', 'rename-member', 'remove', 'remove', 'readd', 'readd',
                                   'swap', 'swap', 'swap-members', 'move', 'move', 'takeover', 'takeover', 'rename-package',
                                   'add-member', 'add-member', 'remove-member', 'move-member', 'root', 'move-package', 'back',
                                   'add-super', 'add-super', 'add-super', 'remove-super', 'rename-member',
                                   'annotate', 'annotate', 'annotate', 'unannotate', 'unannotate', 're-source', 're-source',
                                   'move-annotation', 'move-annotation', 'annotation-content'])
                if pending:
                    kind = 'add'
                elif limbo and rng.random() < 0.2:
                    kind = 'readd'
                h = None
                try:
                    R = _reach(res)
                    N = [o for o in R if kind_of(o)]
                    P = [o for o in N if isinstance(o, E.EPackage)]
                    C = [o for o in N if isinstance(o, E.EClassifier)]
                    U = closure([c for c in C + limbo if isinstance(c, E.EClass)])
                    if kind == 'add':
                        if pending:
                            pkg, name = pending
                            pending = None
                            if name not in free_names(pkg, 'classifier') or not any(pkg is p for p in P):
                                continue
                        else:
                            pkg = rng.choice(P)
                            free = free_names(pkg, 'classifier')
                            again = [n for n in free if n in everused.get(id(pkg), ())]
                            if not free:
                                continue
                            name = rng.choice(again) if again and rng.random() < 0.7 else rng.choice(free)
                        cov['names_reused'] += name in everused.get(id(pkg), ())
                        c = make_classifier(name, [x for x in C if isinstance(x, E.EClass)])
                        how = rng.choice(['append', 'insert', 'extend'])
                        h = ['add', how, tag(pkg), type(c).__name__, name, tag(c)]
                        if how == 'append':
                            pkg.eClassifiers.append(c)
                        elif how == 'insert':
                            pkg.eClassifiers.insert(rng.randrange(len(pkg.eClassifiers) + 1), c)
                        else:
                            pkg.eClassifiers.extend([c])
                        note_name(pkg, name)
                    elif kind in ('rename', 'takeover'):
                        if not C:
                            continue
                        c = rng.choice(C)
                        free = free_names(c.ePackage, 'classifier')
                        if not free:
                            continue
                        new = rng.choice(free)
                        h = ['rename', tag(c), c.name, new]
                        if kind == 'takeover':
                            pending = (c.ePackage, c.name)      # the next edit gives the old name to a new classifier
                        c.name = new
                        note_name(c.ePackage, new)
                    elif kind == 'rename-member':
                        ms = [m for c in C for m in siblings(c)] + [p for c in C for o in siblings(c)
                                                                    if isinstance(o, E.EOperation) for p in siblings(o)]
                        if not ms:
                            continue
                        m = rng.choice(ms)
                        owner = m.eContainer()
                        if isinstance(owner, E.EClass):      # "rename into the clash" with a related class's member
                            free = [n for n in MM_MEMBERS if member_name_ok(owner, kind_of(m), n, U, skip=m)]
                            rel = [k for k in lines_through(owner, U) if k is not owner]
                            liked = other_names(rel) if kind_of(m) == 'feature' else feat_names(rel)
                        else:
                            free, liked = free_names(owner, kind_of(m)), ()
                        if not free:
                            continue
                        new = pick(free, liked)
                        h = ['rename-member', tag(m), m.name, new]
                        m.name = new
                    elif kind == 'remove':
                        if len(C) < 2:
                            continue
                        c = rng.choice(C)
                        pkg = c.ePackage
                        how = rng.choice(['remove', 'pop', 'delitem'])
                        h = ['remove', how, tag(pkg), tag(c), c.name]
                        if how == 'remove':
                            pkg.eClassifiers.remove(c)
                        elif how == 'pop':
                            pkg.eClassifiers.pop(list(pkg.eClassifiers).index(c))
                        else:
                            del pkg.eClassifiers[list(pkg.eClassifiers).index(c)]
                        limbo.append(c)
                    elif kind == 'readd':
                        if not limbo:
                            continue
                        c = limbo.pop(rng.randrange(len(limbo)))
                        pkg = rng.choice(P)
                        free = free_names(pkg, 'classifier')
                        if not free:
                            continue
                        if c.name not in free or rng.random() < 0.4:
                            again = [n for n in free if n in everused.get(id(pkg), ())]
                            c.name = rng.choice(again or free)
                        cov['names_reused'] += c.name in everused.get(id(pkg), ())
                        h = ['readd', tag(pkg), tag(c), c.name]
                        pkg.eClassifiers.append(c)
                        note_name(pkg, c.name)
                    elif kind == 'swap':
                        pairs = [p for p in P if len(p.eClassifiers) > 1]
                        if not pairs:
                            continue
                        pkg = rng.choice(pairs)
                        a, b = rng.sample(list(pkg.eClassifiers), 2)
                        how = rng.choice(['direct', 'through-temporary'])
                        h = ['swap', how, tag(a), a.name, tag(b), b.name]
                        if how == 'direct':
                            a.name, b.name = b.name, a.name
                        else:
                            na, nb = a.name, b.name
                            a.name = 'Tmp'
                            b.name = na
                            a.name = nb
                    elif kind == 'swap-members':
                        owners = [o for o in C if len(siblings(o)) > 1]
                        if not owners:
                            continue
                        o = rng.choice(owners)
                        a, b = rng.sample(siblings(o), 2)
                        if isinstance(o, E.EClass) and not (member_name_ok(o, kind_of(a), b.name, U, skip=b) and
                                                            member_name_ok(o, kind_of(b), a.name, U, skip=a)):
                            continue
                        h = ['swap-members', tag(a), a.name, tag(b), b.name]
                        a.name, b.name = b.name, a.name
                    elif kind == 'move':
                        if not C or len(P) < 2:
                            continue
                        c = rng.choice(C)
                        dsts = [p for p in P if p is not c.ePackage and c.name in free_names(p, 'classifier')]
                        if not dsts:
                            continue
                        dst = rng.choice(dsts)
                        h = ['move', tag(c), c.name, tag(c.ePackage), tag(dst)]
                        if rng.random() < 0.5:
                            dst.eClassifiers.append(c)
                        else:
                            dst.eClassifiers.insert(0, c)
                        note_name(dst, c.name)
                    elif kind == 'rename-package':
                        subs = [p for p in P if p.eContainer() is not None]
                        if not subs:
                            continue
                        p = rng.choice(subs)
                        free = free_names(p.eContainer(), 'package')
                        if not free:
                            continue
                        new = rng.choice(free)
                        h = ['rename-package', tag(p), p.name, new]
                        p.name = new
                    elif kind == 'move-package':
                        subs = [p for p in P if p.eContainer() is not None]
                        if not subs:
                            continue
                        p = rng.choice(subs)
                        inside = [x for x in _reach_from(p) if isinstance(x, E.EPackage)]
                        dsts = [d for d in P if not any(d is x for x in inside) and d is not p.eContainer()
                                and p.name in free_names(d, 'package')]
                        if not dsts:
                            continue
                        dst = rng.choice(dsts)
                        h = ['move-package', tag(p), p.name, tag(dst)]
                        dst.eSubpackages.append(p)
                    elif kind == 'add-member':
                        cls = [c for c in C if isinstance(c, (E.EClass, E.EEnum))]
                        if not cls:
                            continue
                        c = rng.choice(cls)
                        if isinstance(c, E.EEnum):
                            free = free_names(c, 'literal')
                            if not free:
                                continue
                            m = E.EEnumLiteral(name=rng.choice(free), value=len(c.eLiterals))
                            h = ['add-member', tag(c), 'literal', m.name, tag(m)]
                            c.eLiterals.append(m)
                        else:
                            mk = rng.choice(['feature', 'feature', 'operation', 'operation', 'typeparameter'])
                            free = [n for n in MM_MEMBERS if member_name_ok(c, mk, n, U)]
                            if not free:
                                continue
                            rel = [k for k in lines_through(c, U) if k is not c]
                            new = pick(free, other_names(rel) if mk == 'feature' else feat_names(rel))
                            if mk == 'feature':
                                m = E.EAttribute(new, E.EString)
                                coll = c.eStructuralFeatures
                            elif mk == 'operation':
                                m = E.EOperation(new)
                                if rng.random() < 0.5:
                                    m.eParameters.append(E.EParameter(rng.choice(MM_NAMES['parameter']), E.EString))
                                coll = c.eOperations
                            else:
                                m = E.ETypeParameter(new)
                                coll = c.eTypeParameters
                            h = ['add-member', tag(c), mk, m.name, tag(m)]
                            coll.insert(rng.randrange(len(coll) + 1), m)
                    elif kind == 'remove-member':
                        ms = [m for c in C if isinstance(c, E.EClass) for m in siblings(c)
                              if isinstance(m, (E.EStructuralFeature, E.EOperation))]
                        if not ms:
                            continue
                        m = rng.choice(ms)
                        h = ['remove-member', tag(m), m.name]
                        coll = m.eContainer().eGet(m.eContainmentFeature())
                        coll.remove(m)
                    elif kind == 'move-member':
                        ms = [m for c in C if isinstance(c, E.EClass) for m in siblings(c)
                              if isinstance(m, (E.EStructuralFeature, E.EOperation))]
                        if not ms:
                            continue
                        m = rng.choice(ms)
                        dsts = [c for c in C if isinstance(c, E.EClass) and c is not m.eContainer()
                                and member_name_ok(c, kind_of(m), m.name, U, skip=m)]
                        if not dsts:
                            continue
                        dst = rng.choice(dsts)
                        h = ['move-member', tag(m), m.name, tag(dst)]
                        (dst.eStructuralFeatures if isinstance(m, E.EStructuralFeature) else dst.eOperations).append(m)
                    elif kind == 'add-super':
                        pairs = [(c, sup) for c in C if isinstance(c, E.EClass) for sup in U
                                 if sup is not c and super_ok(c, sup, U)]
                        if not pairs:
                            continue
                        c, sup = rng.choice(pairs)
                        h = ['add-super', tag(c), c.name, tag(sup), sup.name]
                        c.eSuperTypes.append(sup)
                    elif kind == 'remove-super':
                        pairs = [(c, sup) for c in C if isinstance(c, E.EClass) for sup in c.eSuperTypes
                                 if mro_ok(U, {id(c): [x for x in c.eSuperTypes if x is not sup]})]
                        if not pairs:
                            continue
                        c, sup = rng.choice(pairs)
                        h = ['remove-super', tag(c), c.name, tag(sup), sup.name]
                        c.eSuperTypes.remove(sup)
                    elif kind == 'annotate':
                        host = rng.choice([o for o in R if isinstance(o, E.EModelElement)])
                        same = [x.source for x in host.eAnnotations]
                        a = make_annotation([rng.choice(same)] if same and rng.random() < 0.4 else None,
                                            classes=[c for c in C if isinstance(c, E.EClass)])
                        i = rng.choice([0, len(host.eAnnotations), rng.randrange(len(host.eAnnotations) + 1)])
                        h = ['annotate', tag(host), i, a.source, tag(a)]
                        if i == len(host.eAnnotations) and rng.random() < 0.5:
                            host.eAnnotations.append(a)
                        else:
                            host.eAnnotations.insert(i, a)
                    elif kind in ('unannotate', 're-source', 'move-annotation', 'annotation-content'):
                        anns = [o for o in R if isinstance(o, E.EAnnotation)]
                        if not anns:
                            continue
                        a = rng.choice(anns)
                        coll = a.eContainer().eGet(a.eContainmentFeature())
                        if kind == 'unannotate':
                            how = rng.choice(['remove', 'pop', 'delitem'])
                            h = ['unannotate', how, tag(a), a.source]
                            if how == 'remove':
                                coll.remove(a)
                            elif how == 'pop':
                                coll.pop(list(coll).index(a))
                            else:
                                del coll[list(coll).index(a)]
                        elif kind == 're-source':
                            others = [x.source for x in coll if x is not a and isinstance(x, E.EAnnotation)]
                            new = rng.choice(others) if others and rng.random() < 0.5 else rng.choice(MM_SOURCES)
                            h = ['re-source', tag(a), a.source, new]
                            a.source = new
                        elif kind == 'move-annotation':
                            inside = _reach_from(a)
                            dsts = [o for o in R if isinstance(o, E.EModelElement)
                                    and not any(o is x for x in inside) and o is not a.eContainer()]
                            if not dsts:
                                continue
                            dst = rng.choice(dsts)
                            into = 'contents' if isinstance(dst, E.EAnnotation) and rng.random() < 0.4 else 'eAnnotations'
                            i = rng.choice([0, len(dst.eGet(into))])
                            h = ['move-annotation', tag(a), a.source, tag(dst), into, i]
                            dst.eGet(into).insert(i, a)
                        elif len(a.contents) and rng.random() < 0.4:
                            i = rng.randrange(len(a.contents))
                            h = ['annotation-content', 'pop', tag(a), i]
                            a.contents.pop(i)
                        else:
                            used = {getattr(x, 'name', None) for x in a.contents}
                            free = [n for n in ('note', 'extra', 'more') if n not in used]
                            x = E.EAttribute(rng.choice(free), E.EString) if free and rng.random() < 0.5 else make_annotation(depth=1)
                            h = ['annotation-content', 'insert', tag(a), 0, tag(x)]
                            a.contents.insert(0, x)
                    elif kind == 'root':
                        if any(spare is r for r in res.contents):
                            h = ['root-remove', tag(spare)]
                            res.remove(spare)
                        elif len(res.contents) > 1 and rng.random() < 0.4:
                            r = res.contents[-1]
                            h = ['root-remove', tag(r)]
                            res.remove(r)
                            spare = r
                        else:
                            h = ['root-append', tag(spare)]
                            res.append(spare)
                    else:   # 'back': a classifier gets back a name it (or another one) carried before in this package
                        cands = [(c, n) for c in C for n in free_names(c.ePackage, 'classifier')
                                 if n in everused.get(id(c.ePackage), ())]
                        if not cands:
                            continue
                        c, new = rng.choice(cands)
                        cov['names_reused'] += 1
                        h = ['rename', tag(c), c.name, new]
                        c.name = new
                except Exception as e:   # noqa  (what a legal metamodel edit may raise is the business of C12)
                    cov['abandoned'] += 1
                    cov['abandoned_on'].append([h, type(e).__name__, str(e)[:80]])
                    break
                hist.append(h)
                cov['edits'] += 1
                cov['by_edit'][h[0]] = cov['by_edit'].get(h[0], 0) + 1
                full = rng.random() < 0.75
                hist.append(['check', 'all' if full else 'some'])
                if not verify(full):
                    ok = False
                    break
            else:
                hist.append(['check', 'all'])
                ok = verify(True)
            if ok and len(samples) < 2:
                samples.append(case())
    cov['abandoned_on'] = cov['abandoned_on'][:5]
    out.coverage['metamodel_edit'] = cov
    out.coverage.setdefault('scenario_samples', []).extend(samples[:1])


def _reach_from(o):
    found, todo = [], [o]
    while todo:
        x = todo.pop(0)
        found.append(x)
        todo += _children(x)
    return found


# ---- 3. ids: correspondence with Model/IdFrag.v (run_idfrag) ----------------------------------------------
# The operations of the model run on pyecore: one resource (XMI or JSON, uuid mode or id attribute `key`), a tree
# whose pre-order is the order of addition (a new object becomes a root or the last child of a node of the rightmost
# path), a second resource that writes references into the first (Ref).  After every operation, per member:
# obj._internal_id (uuids renumbered by first appearance on both sides), and whether resource.resolve(id) is the
# object, against run_idfrag's tokens.  Which id-attribute texts can serve as a reference is decided here by the rule
# of Resource._id_fragment (set, non-empty, no blank, no leading '/', no '#'): the model takes it as input.

IDF_USABLE = ['k1', 'k2', 'k3', 'k4', 'k5', 'k6', '7', 'id.8_x', 'a/b', 'lib/shelf-1/b2', 'x.y', 'k:1', 'a@b', '1/2',
              'p-q_r', 'a/', '..', '@a', '%a%', 'a.0', 'a/@b.1', 'http://x/y']
IDF_UNUSABLE = ['', 'a b', '/x', 'p#q']


class _IdWorld:
    def __init__(self, E, ResourceSet, URI, JsonResource, mm, td, tag, fmt):
        self.E, self.ResourceSet, self.URI, self.JsonResource = E, ResourceSet, URI, JsonResource
        self.pack, self.Node, self.Leaf = mm
        self.ext = 'json' if fmt == 'json' else 'xmi'
        self.path = f'{td}/{tag}.{self.ext}'
        self.path2 = f'{td}/{tag}_other.{self.ext}'
        self.rs = self._rs()
        self.res = self.rs.create_resource(URI(self.path))
        self.objs = {}            # model number -> live object
        self.parent = {}          # model number -> parent number or None (root), for members
        self.order = []           # members in order of addition (= pre-order of the tree)

    def _rs(self):
        rs = self.ResourceSet()
        rs.metamodel_registry[self.pack.nsURI] = self.pack
        rs.resource_factory['json'] = lambda uri: self.JsonResource(uri)
        return rs

    def rightmost_path(self):
        path, cur = [], None
        roots = [n for n in self.order if self.parent[n] is None]
        while True:
            kids = roots if cur is None else [n for n in self.order if self.parent[n] == cur]
            if not kids:
                return path
            cur = kids[-1]
            path.append(cur)

    def is_leaf(self, n):
        return not any(self.parent[m] == n for m in self.order)

    def add(self, n, parent):
        o = self.objs.get(n)
        if o is None:
            o = self.objs[n] = self.Node(name=f'o{n}')
        if parent is None:
            self.res.append(o)
        else:
            self.objs[parent].children.append(o)
        self.parent[n] = parent
        self.order.append(n)

    def remove(self, n):
        o = self.objs[n]
        if self.parent[n] is None:
            self.res.remove(o)
        else:
            self.objs[self.parent[n]].children.remove(o)
        self.order.remove(n)
        del self.parent[n]

    def reload(self):
        self.res.save()
        self.rs = self._rs()
        self.res = self.rs.get_resource(self.URI(self.path))
        byname = {o.name: o for o in _reach(self.res)}
        self.objs = {n: byname[f'o{n}'] for n in self.order}      # the objects outside the resource are forgotten

    def ref(self, n):
        """a reference to member n written from another resource of the same set; returns the written fragment"""
        import re as _re
        holder = self.Node(name='holder')
        holder.fav = self.objs[n]
        other = self.rs.create_resource(self.URI(self.path2))
        other.append(holder)
        try:
            other.save()
            text = open(self.path2, encoding='utf-8').read()
        finally:
            other.remove(holder)
            holder.fav = None
            self.rs.remove_resource(other)
        m = _re.search(r'"\$ref": "([^"]*)"' if self.ext == 'json' else r'(?:fav|href)="([^"]*)"', text)
        return m.group(1).rsplit('#', 1)[-1] if m else None

    def observe(self):
        """per member: (_internal_id or None, key text or None, resolves through its id or None when positional)"""
        res, obs = self.res, {}
        for n in self.order:
            o = self.objs[n]
            iid = o._internal_id or None
            key = o.key if o.eIsSet('key') else None
            obs[n] = (iid, key)
        return bool(res.use_uuid), obs

    def resolves(self, text, n):
        try:
            return self.res.resolve(text) is self.objs[n]
        except Exception:   # noqa  (KeyError / IndexError: the model's None)
            return False


def _idf_usable(text):
    return bool(text) and text[0] != '/' and '#' not in text and not any(c.isspace() for c in text)


def _idfrag_compare(toks, states, hist, cov):
    """model tokens (IdFragIO.v: use_uuid, n, then o hasI I hasK K kind back per member) against the observations;
    uuids / drawn ids are renumbered by first appearance on each side.  Returns None or the first difference."""
    pos = 0
    mcls, icls = {}, {}
    for i, (uu, order, st, written) in enumerate(states):
        after = hist[i + 1] if i + 1 < len(hist) else '?'
        if pos + 2 > len(toks):
            return f'after {after}: the model stops after {i} operations'
        m_uu, m_n = toks[pos], toks[pos + 1]
        pos += 2
        rows = [toks[pos + 7 * j: pos + 7 * j + 7] for j in range(m_n)]
        pos += 7 * m_n
        if bool(m_uu) != uu:
            return f'after {after}: use_uuid model={bool(m_uu)} implementation={uu}'
        if [r[0] for r in rows] != order:
            return f'after {after}: members model={[r[0] for r in rows]} implementation={order}'
        unreg = False
        for o, has_i, iv, has_k, kv, kind, back in rows:
            iid, key, ikind, iback = st[o]
            cov['member_states_compared'] += 1
            if bool(has_i) != (iid is not None):
                return f'after {after}: object {o} _internal_id model={"set" if has_i else "none"} implementation={iid!r}'
            if has_i:
                a = mcls.setdefault(iv, len(mcls))
                b = icls.setdefault(iid, len(icls))
                if a != b:
                    return (f'after {after}: object {o} carries the {b}-th distinct uuid of the history in the '
                            f'implementation, the {a}-th in the model')
            mkey = IDF_USABLE[kv - 1] if has_k else None
            if mkey != key:
                return f'after {after}: object {o} usable id attribute model={mkey!r} implementation={key!r}'
            if bool(kind) != ikind:
                return f'after {after}: object {o} is referred to by {"id" if kind else "position"} in the model'
            if kind:
                cov['id_resolutions_compared'] += 1
            if bool(back) != iback:
                return (f'after {after}: object {o} (referred to by {"id" if kind else "position"}) resolves back: '
                        f'model={bool(back)} implementation={iback}')
            unreg = unreg or not back
        cov['states_with_unregistered_or_stale_id'] += unreg
        cov['states_with_ids_drawn_but_not_loaded'] += any(r[1] and r[2] >= 1000 for r in rows) and uu
        if written is not None:
            o, frag = written
            iid, key, ikind, _ = st[o]
            want = (iid if uu else key) if ikind else None
            cov['written_references_compared'] += 1
            if ikind and frag != want:
                return f'after {after}: the reference to object {o} was written as {frag!r}, its id is {want!r}'
            if not ikind and not (frag or '').startswith('/'):
                return f'after {after}: the reference to object {o} was written as {frag!r}, a position was expected'
    if pos != len(toks):
        return 'the model produced more observations than the implementation'
    return None


def idfrag_scenarios(ctx, out):
    """histories over the operations of Model/IdFrag.v on pyecore and through run_idfrag (variant head), compared
    after every operation"""
    import tempfile
    common.use_repo()
    from pyecore import ecore as E
    from pyecore.resources import ResourceSet, URI
    from pyecore.resources.json import JsonResource
    rng = common.rng_for(ctx.seed, 'C11:idfrag')
    mm = _lte_metamodel(E, 'str')
    n_hist = 300 if ctx.tier != 'thorough' else 5000
    N0 = 1000
    cov = {'histories': 0, 'operations': 0, 'by_operation': {}, 'by_format': {}, 'member_states_compared': 0,
           'states_with_ids_drawn_but_not_loaded': 0, 'states_with_unregistered_or_stale_id': 0,
           'id_resolutions_compared': 0, 'written_references_compared': 0, 'uuid_mode_histories': 0,
           'histories_meeting_head_ok': 0, 'meeting_head_ok_by_format_and_mode': {}}
    model = common.Model()
    samples = []
    with tempfile.TemporaryDirectory() as td:
        for it in range(n_hist):
            fmt = rng.choice(['xmi', 'json'])
            uuid0 = rng.random() < 0.6
            w = _IdWorld(E, ResourceSet, URI, JsonResource, mm, td, f'i{it}', fmt)
            w.res.use_uuid = uuid0
            nxt = [0]
            if rng.random() < 0.55:
                # the history starts by LOADING a document prepared elsewhere (the model's Load d: ids that were never
                # drawn in this session): only so can id attributes be inside the theorems' premises
                k = rng.randrange(1, 6)
                texts = rng.sample(IDF_USABLE, k)
                spec = []
                for n in range(k):
                    parent = rng.choice([None] + w.rightmost_path()) if n else None
                    w.add(n, parent)
                    r = rng.random()
                    key = texts[n] if r < 0.6 else (rng.choice(IDF_UNUSABLE) if r < 0.7 else None)
                    if n and rng.random() < 0.06:
                        key = spec[0][2]                       # the same id twice in one document
                    if key is not None:
                        w.objs[n].key = key
                    spec.append([n, parent, key])
                w.reload()
                nxt[0] = k
                hist = [['format', fmt], ['load', uuid0, spec]]
                toks = [0, N0, 1, k]
                for n, _, key in spec:
                    toks += [n] + ([1, 100 + n] if uuid0 else [0, 0]) + \
                            ([1, IDF_USABLE.index(key) + 1] if key is not None and _idf_usable(key) else [0, 0])
                loaded_key = {n: key for n, _, key in spec if key is not None and _idf_usable(key)}
            else:
                hist, toks = [['format', fmt], ['uuid', uuid0]], [0, N0, 7, int(uuid0)]
                loaded_key = {}
            expect_written = []                 # per operation: None or (member, written fragment)
            states = []                         # implementation observations after every operation
            drawn_not_loaded = set()

            def record(written=None):
                uu, obs = w.observe()
                st = {}
                for n, (iid, key) in obs.items():
                    usable = key is not None and _idf_usable(key)
                    kind = (iid is not None) if uu else usable
                    text = (iid if uu else key) if kind else w.objs[n].eURIFragment()
                    st[n] = (iid, key if usable else None, kind, w.resolves(text, n))
                states.append((uu, list(w.order), st, written))
            record()
            failed = None
            for step in range(rng.randrange(5, 15)):
                k = rng.choice(['add'] * 4 + ['remove'] + ['save'] * 2 + ['reload'] * 2 + ['key'] * 3 + ['ref'] * 2 + ['uuid'])
                if len(w.order) < 1:
                    k = 'add'
                written = None
                try:
                    if k == 'add':
                        out_of = [n for n in w.objs if n not in w.order]
                        if out_of and rng.random() < 0.3:
                            n = rng.choice(out_of)
                        else:
                            n = nxt[0]
                            nxt[0] += 1
                        parent = rng.choice([None] + w.rightmost_path())
                        h, t = ['add', n, parent], [3, n]
                        w.add(n, parent)
                    elif k == 'remove':
                        leaves = [n for n in w.order if w.is_leaf(n)]
                        if len(w.order) < 2 or not leaves:
                            continue
                        n = rng.choice(leaves)
                        h, t = ['remove', n], [4, n]
                        w.remove(n)
                    elif k == 'save':
                        h, t = ['save'], [0]
                        w.res.save()
                    elif k == 'reload':
                        h, t = ['reload'], [2]
                        w.reload()
                        drawn_not_loaded.clear()
                    elif k == 'key':
                        n = rng.choice(w.order)
                        r = rng.random()     # (an edit to a text that is not bound to the object leaves the premises)
                        if r < 0.35 and n in loaded_key:
                            text = loaded_key[n]                  # back to the id the document gave it
                        elif r < 0.7:
                            text = rng.choice(IDF_UNUSABLE + [None, None])
                        else:
                            text = rng.choice(IDF_USABLE)
                        h = ['key', n, text]
                        t = [5, n] + ([1, IDF_USABLE.index(text) + 1] if text is not None and _idf_usable(text) else [0, 0])
                        w.objs[n].key = text
                    elif k == 'ref':
                        n = rng.choice(w.order)
                        h, t = ['ref', n], [6, n]
                        written = (n, w.ref(n))
                    else:
                        b = not w.res.use_uuid
                        h, t = ['uuid', b], [7, int(b)]
                        w.res.use_uuid = b
                except Exception as e:   # noqa  (the model has no exception: every operation generated here is legal)
                    failed = f'{h}: the implementation raised {type(e).__name__}: {e}'
                    hist.append(h)
                    break
                hist.append(h)
                toks += t
                cov['operations'] += 1
                cov['by_operation'][h[0]] = cov['by_operation'].get(h[0], 0) + 1
                record(written)
            case = {'scenario': 'idfrag', 'seed': ctx.seed, 'tier': ctx.tier, 'format': fmt, 'history': [list(x) for x in hist]}
            cov['histories'] += 1
            cov['by_format'][fmt] = cov['by_format'].get(fmt, 0) + 1
            cov['uuid_mode_histories'] += uuid0
            if failed:
                out.diff(f'idfrag: {failed}', case)
                continue
            inside = model.ask('idfrag_premises', toks) == [1]     # head_okb: the history meets the theorems' premises
            cov['histories_meeting_head_ok'] += inside
            mode = f'{fmt}-{"uuid" if uuid0 else "idattr"}'
            cov['meeting_head_ok_by_format_and_mode'].setdefault(mode, [0, 0])
            cov['meeting_head_ok_by_format_and_mode'][mode][0] += inside
            cov['meeting_head_ok_by_format_and_mode'][mode][1] += 1
            bad = _idfrag_compare(model.ask('idfrag', toks), states, hist, cov)
            if bad:
                out.diff(f'idfrag ({fmt}): {bad}', case)
            elif len(samples) < 2:
                samples.append(case)
    model.close()
    out.coverage['idfrag'] = cov
    out.coverage.setdefault('scenario_samples', []).extend(samples[:1])


SCENARIOS = {'load_edit': load_edit_scenarios, 'metamodel_edit': metamodel_edit_scenarios, 'idfrag': idfrag_scenarios}


_kernel_run = run


def run(ctx, out):   # noqa: F811
    _kernel_run(ctx, out)
    load_edit_scenarios(ctx, out)
    metamodel_edit_scenarios(ctx, out)
    idfrag_scenarios(ctx, out)
    a, b = out.coverage['load_then_edit'], out.coverage['metamodel_edit']
    out.coverage['scenario_loads'] = a['loads'] + b['loaded_from_ecore']
    out.coverage['scenario_edits'] = a['edits'] + b['edits']
    out.coverage['scenario_resolutions_checked'] = a['resolutions'] + b['resolutions']


# ---------------------------------------------------------------------------
# list-based containment (unique=False): positions exchanged by item assignment (`l[i], l[j] = l[j], l[i]`, the natural
# "move" on a list), an element assigned to its own position, next to insert / pop / remove / append; after every call
# every object of the tree resolves from its fragment and fragments are pairwise distinct
# (oracle on the implementation only; the kernel model has no item assignment on lists)

def list_move_scenarios(ctx, out):
    common.use_repo()
    from pyecore import ecore as E
    from pyecore.resources import ResourceSet, URI
    rng = common.rng_for(ctx.seed, 'C11:listmove')
    n = 40 if ctx.tier != 'thorough' else 800
    cnt = res_cnt = 0
    for it in range(n):
        N = E.EClass('N')
        N.eStructuralFeatures.append(E.EAttribute('name', E.EString))
        N.eStructuralFeatures.append(E.EReference('kids', N, upper=-1, containment=True, unique=False,
                                                  ordered=rng.random() < 0.8))
        nroots = rng.choice([1, 1, 2])
        rs = ResourceSet()
        res = rs.create_resource(URI('/nonexistent/listmove.xmi'))
        count = [0]

        def mk(depth):
            o = N(name=f'n{count[0]}')
            count[0] += 1
            if depth < 2:
                for _ in range(rng.randrange(0, 4)):
                    o.kids.append(mk(depth + 1))
            return o
        roots = [mk(0) for _ in range(nroots)]
        for r in roots:
            res.append(r)
        hist = [['tree', [[o.name, [k.name for k in o.kids]] for r in roots for o in [r] + list(r.eAllContents())]]]
        bad = None
        for step in range(rng.randrange(3, 9)):
            objs = [o for r in res.contents for o in [r] + list(r.eAllContents())]
            holders = [o for o in objs if len(o.kids) >= 1]
            if not holders:
                break
            h = rng.choice(holders)
            k = rng.choice(['swap', 'swap', 'self', 'insert', 'pop', 'pop', 'append', 'assign', 'assign'])
            L = h.kids
            try:
                if k == 'swap' and len(L) >= 2:
                    i, j = rng.sample(range(len(L)), 2)
                    L[i], L[j] = L[j], L[i]
                    hist.append(['swap', h.name, i, j])
                elif k == 'self':
                    i = rng.randrange(len(L))
                    L[i] = L[i]
                    hist.append(['self-assign', h.name, i])
                elif k == 'insert':
                    c = N(name=f'n{count[0]}')
                    count[0] += 1
                    i = rng.randrange(0, len(L) + 1)
                    L.insert(i, c)
                    hist.append(['insert', h.name, i, c.name])
                elif k == 'pop':
                    i = rng.randrange(len(L))
                    L.pop(i)
                    hist.append(['pop', h.name, i])
                elif k == 'assign':
                    # whole-list assignment with a list that OVERLAPS the current content (some kept, reordered, some new)
                    keep = [x for x in list(L) if rng.random() < 0.7]
                    rng.shuffle(keep)
                    fresh = []
                    if rng.random() < 0.5:
                        fresh.append(N(name=f'n{count[0]}'))
                        count[0] += 1
                    h.kids = keep + fresh
                    hist.append(['assign', h.name, [x.name for x in keep + fresh]])
                elif k == 'append':
                    c = N(name=f'n{count[0]}')
                    count[0] += 1
                    L.append(c)
                    hist.append(['append', h.name, c.name])
                else:
                    continue
            except Exception as e:  # noqa
                bad = ('call-raised', f'{hist[-1] if hist else k} -> {type(e).__name__}: {e}')
            cnt += 1
            if not bad:
                seen = {}
                for o in [o for r in res.contents for o in [r] + list(r.eAllContents())]:
                    try:
                        fr = o.eURIFragment()
                        got = res.resolve(fr)
                    except Exception as e:  # noqa
                        bad = ('resolve-raised', f'{o.name}: {type(e).__name__}: {e}')
                        break
                    res_cnt += 1
                    if got is not o:
                        bad = ('fragment-resolves-elsewhere', f'fragment {fr!r} of {o.name} resolves to {getattr(got, "name", got)}')
                        break
                    if fr in seen:
                        bad = ('fragment-shared', f'{o.name} and {seen[fr]} share the fragment {fr!r}')
                        break
                    seen[fr] = o.name
            if bad:
                out.fail({'property': 'C11', 'clause': bad[0], 'scenario': 'listmove'}, f'after {hist[-1]}: {bad[1]}',
                         {'scenario': 'listmove', 'seed': ctx.seed, 'tier': ctx.tier, 'history': hist})
                break
    out.coverage['list_containment_moves'] = {'calls': cnt, 'resolutions': res_cnt}


SCENARIOS['listmove'] = list_move_scenarios
_run_ids = run


def run(ctx, out):   # noqa: F811
    _run_ids(ctx, out)
    list_move_scenarios(ctx, out)
