(* C02 — every object has exactly one owner, and the back-pointers say so.
   Statements only; proofs in Proofs/C02Proofs.v over Model/Kernel.v.
   Proved:
   * atomicity at full strength — whatever public operation fails
     (BadValueError, KeyError, IndexError, ValueError, TypeError), the whole
     state, hence every container, containment slot, resource list and
     back-pointer, is exactly what it was;
   * the resource half of the ownership invariant, for EVERY operation of the
     kernel model and every history from the initial state: an object is
     listed as a root at most once and in at most one resource, and it is
     listed in resource r exactly when its eResource back-pointer names r
     (container updates that take a root out of its resource, Resource.append
     moving a root, delete(), ... included).  With C19 (eResource of any
     object is its root's) this gives "every descendant reports its root's
     resource".
   PARTIAL: the containment half (slot membership <-> eContainer /
   eContainmentFeature, acyclicity) is not yet a theorem; it is carried by the
   correspondence on the ownership projection and by the forest oracle of
   harness/props/c02.py. *)
From Coq Require Import ZArith List Bool Arith.
From PyecoreV Require Import Lib.PyBase Lib.PyList Model.Kernel Proofs.C02Proofs.
Import ListNotations.

Theorem C02_failed_operation_changes_nothing_partial :
  forall m s o e s' r,
    atomic_op m o -> step m s o = ((Some e, s'), r) -> s' = s.
Proof. exact failed_op_changes_nothing. Qed.
Print Assumptions C02_failed_operation_changes_nothing_partial.

Theorem C02_root_lists_and_eresource_agree_step :
  forall m s o, res_ok s -> res_ok (next m s o).
Proof. exact res_ok_step. Qed.
Print Assumptions C02_root_lists_and_eresource_agree_step.

Theorem C02_root_lists_and_eresource_agree_in_every_reachable_state :
  forall m ops, res_ok (fold_left (next m) ops (init_state m)).
Proof. exact res_ok_history. Qed.
Print Assumptions C02_root_lists_and_eresource_agree_in_every_reachable_state.

(* non-vacuity: a failing remove on a containment, and an accepted move between two owners *)
Definition ex_mm : mm :=
  {| feats := [ {| f_owner := 0; f_isref := true; f_many := true; f_unique := true; f_cont := true;
                   f_opp := Some 1; f_type := TClass 1; f_default := VNone |};
                {| f_owner := 1; f_isref := true; f_many := false; f_unique := true; f_cont := false;
                   f_opp := Some 0; f_type := TClass 0; f_default := VNone |} ];
     conf := [(0, 0); (1, 1)]; ocls := [0; 0; 1]; enames := []; nres := 1 |}.

Example C02_witness :
  let s1 := next ex_mm (init_state ex_mm) (OAppend 0 0 (VObj 2)) in
  let r := step ex_mm s1 (ORemove 1 0 (VObj 2)) in
  let s2 := next ex_mm s1 (OAppend 1 0 (VObj 2)) in
  fst (fst r) = Some KeyErr /\ cont (snd (fst r)) 2 = Some (0, 0) /\
  cont s2 2 = Some (1, 0) /\ vals s2 (0, 0) = [] /\ vals s2 (1, 0) = [VObj 2] /\ vals s2 (2, 1) = [VObj 1].
Proof. vm_compute. repeat split; reflexivity. Qed.
