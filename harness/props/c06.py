"""C06 - undo restores the previous model state, redo the next one (pyecore/commands.py).

Words over {exec(cmd), undo, redo} from states built by random kernel histories.
  * oracle on the implementation (public API only: kimpl.World.dump): full dump
    before execute / after execute / after undo / after redo, "redo after a new
    execute is impossible", k undos then k redos = identity, failed execute leaves
    no partial effect;
  * correspondence with the extracted Coq model Model/Commands.v (`commands`):
    outcome class, values with order, container, resource membership, resource
    contents, stack_index and len(stack) after every stack operation.
See DESIGN.md section 5 (C06) and coq/Props/C06.v."""
import collections
import copy
import json
import os

from harness import common, kgen, kmodel, krun, koracle, kprop
from harness import c06impl

PID = 'C06'
NONE_TOK = -99999
KIND_CODE = {'Set': 1, 'Add': 2, 'Remove': 3, 'Move': 4, 'Delete': 5}


# ---------------------------------------------------------------- model side
def enc_cmd(cmd):
    k = cmd[0]
    if k == 'Compound':
        t = [6, len(cmd[1])]
        for c in cmd[1]:
            t += enc_cmd(c)
        return t
    x = cmd[1]
    f = hi = i = hf = fr = to = 0
    v = None
    if k != 'Delete':
        f, v = cmd[2], cmd[3]
    if k in ('Add', 'Remove') and cmd[4] is not None:
        hi, i = 1, cmd[4]
    if k == 'Move':
        if cmd[4] is not None:
            hf, fr = 1, cmd[4]
        to = cmd[5]
    return [KIND_CODE[k], x, f, hi, i, hf, fr, to] + kmodel.vtok(v)


def enc_word(word):
    t = []
    for sop in word:
        if sop[0] == 'exec':
            t += [0] + enc_cmd(sop[1])
        elif sop[0] == 'undo':
            t += [1]
        else:
            t += [2]
    return t


def run_model_flat(model, case, word):
    """the model's answer for a word of single stack operations"""
    toks = kmodel.encode_mm(case)
    h = []
    for op in case['history']:
        h += kmodel.encode_op(op)
    toks += [len(h)] + h + enc_word(word)
    ans = model.ask('commands', toks)
    n = len(word)
    body, trailer = ans[:len(ans) - 2 * n], ans[len(ans) - 2 * n:]
    fake = dict(case)
    fake['history'] = word
    steps = kmodel.parse_steps(fake, body)
    for j, s in enumerate(steps):
        s['stack'] = (trailer[2 * j], trailer[2 * j + 1])
    return steps


def run_model(model, case):
    """the model's answer: [{'outcome','log','dump','views','stack':(index, len)}] per stack operation.
    ['exec*', [c1, c2, ...]] = CommandStack.execute(c1, c2, ...) is, for the model, the sequence of the single
    executes up to and including the first one that is refused or raises (the earlier ones stay executed and
    recorded, the exception is the outcome of the call); where that happens is read from the model itself."""
    keep = {i: len(sop[1]) for i, sop in enumerate(case['word']) if sop[0] == 'exec*'}
    while True:
        flat, owner = [], []
        for i, sop in enumerate(case['word']):
            if sop[0] == 'exec*':
                for c in sop[1][:keep[i]]:
                    flat.append(['exec', c])
                    owner.append(i)
            else:
                flat.append(sop)
                owner.append(i)
        steps = run_model_flat(model, case, flat) if flat else []
        changed = False
        for i in sorted(keep):
            js = [j for j, o in enumerate(owner) if o == i]
            for n_, j in enumerate(js):
                if steps[j]['outcome'][0] != 0 and n_ + 1 < len(js):
                    keep[i] = n_ + 1
                    changed = True
                    break
            if changed:
                break           # later calls meet another state: look again
        if not changed:
            break
    out = []
    for i, sop in enumerate(case['word']):
        js = [j for j, o in enumerate(owner) if o == i]
        if js:
            out.append(steps[js[-1]])
        else:                   # execute() without a command: nothing happens
            prev = out[-1] if out else None
            out.append({'outcome': (0, None), 'log': [], 'dump': prev['dump'] if prev else None,
                        'views': prev['views'] if prev else None, 'stack': prev['stack'] if prev else (-1, 0)})
    return out


# ---------------------------------------------------------------- the side condition, from the PRE-state
def prim_steals(m, d, cmd):
    """does this primitive command take its value away from another container, from the resource it
    is a root of, or from an opposite partner?  (decided on the dump d taken before the command)"""
    k = cmd[0]
    if k not in ('Set', 'Add'):
        return False
    x, fi, v = cmd[1], cmd[2], cmd[3]
    if v is None or v[0] != 'o':
        return False
    if fi not in d['objs'][x]['feats']:
        return False
    fd = m.fd(fi)
    if fd['kind'] != 'ref' or not koracle.conforms(m, fd, koracle.tokv(v)):
        return False
    if fd['many'] != (k == 'Add'):
        return False
    y = v[1]
    yo = d['objs'][y]
    cur = koracle.objs_of(d['objs'][x]['feats'][fi])
    if y in cur:
        return False          # already there: nothing is taken
    if fd['containment']:
        if yo['container'] != NONE_TOK and (yo['container'], yo['cfeature']) != (x, fi):
            return True
        if any(y in c for c in d['res']):
            return True
    g = m.opp.get(fi)
    if g is not None and not m.fd(g)['many']:
        back = yo['feats'].get(g)
        if back is not None:
            bo = koracle.objs_of(back)
            if bo and bo[0] != x:
                return True
    if g is not None and m.fd(g)['containment']:
        # container end: the same link seen from the child, which is then the object that is taken away
        xo = d['objs'][x]
        if xo['container'] != NONE_TOK and xo['cfeature'] != g:
            return True
        if any(x in c for c in d['res']):
            return True
    return False


def prim_cycle(m, d, cmd):
    k = cmd[0]
    if k == 'Set':
        return krun.creates_cycle(m, d, ['set', cmd[1], cmd[2], cmd[3]])
    if k == 'Add':
        return krun.creates_cycle(m, d, ['append', cmd[1], cmd[2], cmd[3]])
    return False


def flatten(cmd):
    if cmd[0] == 'Compound':
        out = []
        for c in cmd[1]:
            out += flatten(c)
        return out
    return [cmd]


def relink_prone(m, d, p):
    """cells whose ORDER the undo of the primitive p (executed on dump d) is known not to restore: undo
    re-establishes a link through the ordinary setter, which appends the owner to the many-valued opposite
    end of its partner (finding F-C06-relink-order)"""
    k = p[0]
    if k == 'Delete':
        # every collection that holds the deleted object, or one of its contents, through a reference with an
        # opposite: Delete.undo gives the deleted objects their own references back, which appends them there
        dead = set(koracle.subtree(m, d, p[1]))
        out = set()
        for h, od in enumerate(d['objs']):
            for fi, vals in od['feats'].items():
                fd = m.fd(fi)
                if fd['kind'] == 'ref' and fd['many'] and m.opp.get(fi) is not None \
                        and any(t in dead for t in koracle.objs_of(vals)):
                    out.add((h, int(fi)))
        return out
    if k not in ('Set', 'Remove', 'Move') or p[2] >= len(m.ff):
        return set()
    x, fi = p[1], p[2]
    cur = d['objs'][x]['feats'].get(fi)
    g = m.opp.get(fi)
    if cur is None or g is None or not m.fd(g)['many'] or m.fd(fi)['kind'] != 'ref':
        return set()
    n = len(cur)
    if k == 'Set':
        partners = koracle.objs_of(cur)
    elif p[3] is not None:
        partners = [p[3][1]] if p[3][0] == 'o' else []
    else:
        i = p[4]
        partners = koracle.objs_of([cur[i]]) if i is not None and n and -n <= i < n else []
    return {(q, g) for q in partners}


def analyse(m, case, upto, pre, cmd):
    """(scope, stale, prone) for the command word[upto].
    scope: 'steals' | 'cycle' | None (the side condition of the property / acyclicity);
    stale: a Compound one of whose members, executed on its own in the state it will really meet, would be
    refused (can_execute False) or raise - the compound was accepted because CommandStack.execute asks every
    member before the first one runs;
    prone: the cells whose order undo is known not to restore (relink_prone of every member, in the state
    the member meets).
    Compounds are examined member by member on a scratch replay."""
    if cmd[0] != 'Compound':
        if prim_cycle(m, pre, cmd):
            return 'cycle', False, set()
        return ('steals' if prim_steals(m, pre, cmd) else None), False, relink_prone(m, pre, cmd)
    prims = flatten(cmd)
    if len(prims) <= 1:
        return analyse(m, case, upto, pre, prims[0]) if prims else (None, False, set())
    sc = c06impl.CmdWorld(dict(case, word=case['word'][:upto]), observers=False)
    for sop in case['word'][:upto]:
        sc.do(sop)
    steals = stale = False
    prone = set()
    for p in prims:
        try:
            d = sc.dump()
        except RecursionError:
            return 'cycle', stale, prone
        if prim_cycle(m, d, p):
            return 'cycle', stale, prone
        steals = steals or prim_steals(m, d, p)
        prone |= relink_prone(m, d, p)
        if sc.do(['exec', p]) != 0:     # it may still run inside the compound: keep looking
            stale = True
    return ('steals' if steals else None), stale, prone


def scope_of(m, case, upto, pre, cmd):
    return analyse(m, case, upto, pre, cmd)[0]


# ---------------------------------------------------------------- comparison of two dumps, as the property words it
def canon_val(t):
    return koracle.pyeq(t)


def cells(d):
    out = {}
    for o, od in enumerate(d['objs']):
        for fi, vals in od['feats'].items():
            out[(o, int(fi))] = [canon_val(v) for v in vals]
    return out


def state_diff(m, want, got, delete_exception=False):
    """[(class, detail)] - differences in feature values (with order), container, resource membership
    and resource contents.  delete_exception: after undoing a Delete a many-valued reference whose
    opposite is also many-valued may hold the same elements in another order."""
    diffs = []
    cw, cg = cells(want), cells(got)
    tolerated = []
    for key in cw:
        a, b = cw[key], cg[key]
        if a == b:
            continue
        o, fi = key
        fd = m.fd(fi)
        same_elems = sorted(a) == sorted(b)
        if same_elems and delete_exception and fd['kind'] == 'ref' and fd['many']:
            g = m.opp.get(fi)
            if g is not None and m.fd(g)['many']:
                tolerated.append(key)
                continue
        diffs.append((('order' if same_elems else 'content'), key, f'obj{o}.{fd["name"]} expected {a} got {b}'))
    for o, (a, b) in enumerate(zip(want['objs'], got['objs'])):
        if (a['container'], a['cfeature']) != (b['container'], b['cfeature']):
            diffs.append(('container', (o, None), f'obj{o} container expected {a["container"]}/{a["cfeature"]} '
                                                  f'got {b["container"]}/{b["cfeature"]}'))
        if a['resource'] != b['resource']:
            diffs.append(('resource', (o, None), f'obj{o}.eResource expected {a["resource"]} got {b["resource"]}'))
    if want['res'] != got['res']:
        diffs.append(('resource-contents', (None, None), f'resource contents expected {want["res"]} got {got["res"]}'))
    return diffs, tolerated


def has_delete(cmd):
    return any(p[0] == 'Delete' for p in flatten(cmd))


# ---------------------------------------------------------------- signatures
def cmd_qualifiers(m, pre, cmd):
    k = cmd[0]
    q = []
    if k in ('Delete', 'Compound'):
        return q
    x, fi, v = cmd[1], cmd[2], cmd[3]
    cur = pre['objs'][x]['feats'].get(fi)
    if cur is None:
        return ['feature-not-applicable']
    n = len(cur)
    present = v is not None and list(koracle.tokv(v)) in [list(c) for c in cur]
    if k in ('Set', 'Add') and v is None:
        q.append('value-None')
    if k == 'Add':
        i = cmd[4]
        if i is not None and i < 0:
            q.append('negative-index')
        if i is not None and i > n:
            q.append('index-past-end')
        if present:
            q.append('element-already-present')
    if k == 'Remove':
        i = cmd[4]
        if i is None:
            q.append('by-value')
        elif i < 0:
            q.append('negative-index')
    if k == 'Move':
        fr, to = cmd[4], cmd[5]
        if fr is None:
            q.append('by-value')
        elif fr < 0:
            q.append('negative-from-index')
        if to < 0:
            q.append('negative-to-index')
        if to >= n:
            q.append('to-index-past-end')
    return q


def diff_classes(m, cmd, diffs):
    out = set()
    k = cmd[0]
    for cls, key, _ in diffs:
        if cls in ('container', 'resource', 'resource-contents'):
            out.add(cls)
            continue
        o, fi = key
        if k in ('Delete', 'Compound'):
            out.add(cls)
            continue
        if (o, fi) == (cmd[1], cmd[2]):
            out.add(cls + '@own-cell')
        elif m.opp.get(cmd[2]) == fi:
            out.add(cls + '@opposite-end')
        else:
            out.add(cls + '@elsewhere')
    return sorted(out)


def relink_only(m, cmd, diffs, prone=()):
    """are all differences order differences in many-valued opposite ends where undo is known to append?
    primitive commands and Delete: ends that the command does not address itself; Compounds: the cells that
    `analyse` found relink-prone for a member in the state that member met"""
    prims = flatten(cmd)
    has_del = any(p[0] == 'Delete' for p in prims)
    if cmd[0] == 'Compound':
        return all(cls == 'order' and key in prone for cls, key, _ in diffs)
    own = {(p[1], p[2]) for p in prims if p[0] != 'Delete'}
    touched = {p[2] for p in prims if p[0] != 'Delete'}
    for cls, key, _ in diffs:
        if cls != 'order' or key in own:
            return False
        fd = m.fd(key[1])
        g = m.opp.get(key[1])
        if fd['kind'] != 'ref' or not fd['many'] or g is None:
            return False
        if not has_del and g not in touched:
            return False
    return True


def held_twice_earlier(m, case, upto, pre, cmd):
    """was an object that `cmd` deletes (or one of its contents) held MORE THAN ONCE, at some earlier point of
    the history or of the word, in a non-unique many-valued reference without opposite of an object that the
    command does not delete?  (decided by replaying the case on a scratch world)"""
    dead = set()
    for p in flatten(cmd):
        if p[0] == 'Delete':
            dead |= set(koracle.subtree(m, pre, p[1]))
    if not dead:
        return False
    slots = [fi for fi, (_, fd) in enumerate(m.ff)
             if fd['kind'] == 'ref' and fd['many'] and not fd['unique'] and m.opp.get(fi) is None]
    if not slots:
        return False

    def twice(d):
        for h, od in enumerate(d['objs']):
            if h in dead:
                continue
            for fi in slots:
                os_ = koracle.objs_of(od['feats'].get(fi, []))
                if any(os_.count(t) > 1 for t in dead):
                    return True
        return False

    sc = c06impl.CmdWorld(dict(case, history=[], word=[]), observers=False)
    try:
        for op in case['history']:
            sc.w.apply(op)
            if twice(sc.dump()):
                return True
        for sop in case['word'][:upto]:
            sc.do(sop)
            if twice(sc.dump()):
                return True
    except RecursionError:
        return False
    return False


def twice_recorded(m, pre, cmd):
    """does a deleted subtree contain both the holder and the target of a link of a non-unique many-valued
    reference without opposite?  (Delete records such a link twice: among the holder's own references and
    among the target's inverse references)"""
    for p in flatten(cmd):
        if p[0] != 'Delete':
            continue
        sub = set(koracle.subtree(m, pre, p[1]))
        for h in sub:
            for fi, vals in pre['objs'][h]['feats'].items():
                fd = m.fd(fi)
                if fd['kind'] == 'ref' and fd['many'] and not fd['unique'] and m.opp.get(fi) is None \
                        and any(t in sub for t in koracle.objs_of(vals)):
                    return True
    return False


def signature(m, clause, cmd, pre, diffs, extra=(), prone=()):
    if clause == 'truncate':
        return {'property': PID, 'clause': clause, 'kind': 'CommandStack', 'shape': {},
                'qualifiers': ['superseded-command-reapplied' if diffs else 'redo-did-not-raise']}
    k = cmd[0] if cmd else 'none'
    classes = diff_classes(m, cmd, diffs) if cmd else []
    shape = {}
    if cmd and k not in ('Delete', 'Compound') and cmd[2] < len(m.ff):
        shape = krun.shape(m, ['cmd', cmd[1], cmd[2]])
    if cmd and diffs and not [x for x in extra if x not in ('partial-effect', 'held-twice-earlier')] and relink_only(m, cmd, diffs, prone):
        # one defect whatever the command and the index: a link is re-established through append() on the
        # many-valued opposite end, so the owner comes back at the end of its partner's collection
        return {'property': PID, 'clause': 'undo' if clause == 'can_execute-raised' else clause, 'kind': 'relink',
                'shape': {'opposite': 'many'}, 'qualifiers': ['partner-collection-order']}
    if 'refused-by-can_undo' in extra:
        return {'property': PID, 'clause': clause, 'kind': k, 'shape': shape, 'qualifiers': ['refused-by-can_undo']}
    if k == 'Compound' and prone and 'member-not-executable-when-reached' not in extra:
        # the same re-linking, seen through another member: the owner comes back at the END of a collection
        # that another member of the compound addresses by position, whose undo then works one place off
        own = {(p[1], p[2]) for p in flatten(cmd) if p[0] != 'Delete'}
        hit = own & set(prone)
        if hit and any(key in hit for _, key, _ in diffs):
            return {'property': PID, 'clause': 'undo' if clause == 'can_execute-raised' else clause, 'kind': 'relink',
                    'shape': {'opposite': 'many'},
                    'qualifiers': ['partner-collection-order', 'shifts-position-used-by-another-member']}
    if k == 'Compound' and 'member-not-executable-when-reached' in extra:
        # one defect: can_execute of every member is asked before the first member runs, so a member can be
        # accepted that would be refused (or raise) in the state the earlier members leave; what it records
        # for undo is then wrong (a failing member makes Compound.execute undo the members already run: same clause)
        return {'property': PID, 'clause': 'undo' if clause == 'can_execute-raised' else clause, 'kind': k,
                'shape': shape, 'qualifiers': ['member-not-executable-when-reached']}
    if 'held-twice-earlier' in extra and diffs and all(
            cls == 'content' and key[1] is not None and m.fd(key[1])['kind'] == 'ref' and m.fd(key[1])['many']
            and not m.fd(key[1])['unique'] and m.opp.get(key[1]) is None for cls, key, _ in diffs):
        # the C07 defect F-C07-nonunique-duplicate-target seen through C06: the inverse bookkeeping is a set, the
        # entry of a holder that held the object twice was dropped at the first removal; delete() then leaves the
        # object in that collection, or not, depending on whether a later insert re-created the entry
        return {'property': PID, 'clause': 'redo' if clause == 'k-undo-redo' else clause, 'kind': 'Delete', 'shape': {},
                'qualifiers': ['deleted-object-was-held-twice-in-nonunique-reference-without-opposite']}
    extra = tuple(x for x in extra if x != 'held-twice-earlier')
    if any(p[0] == 'Delete' for p in flatten(cmd)) and twice_recorded(m, pre, cmd):
        quals_extra = ['link-inside-deleted-subtree-through-nonunique-reference']
        return {'property': PID, 'clause': 'undo' if clause == 'can_execute-raised' else clause, 'kind': 'Delete',
                'shape': {}, 'qualifiers': quals_extra}
    quals = sorted(set((cmd_qualifiers(m, pre, cmd) if cmd else []) + list(extra) + ['diff:' + c for c in classes]))
    return {'property': PID, 'clause': clause, 'kind': k, 'shape': shape, 'qualifiers': quals}


# ---------------------------------------------------------------- oracle on the implementation
STALE = ('member-not-executable-when-reached',)


def compound_class(m, cmd):
    """how the members of a compound relate: 'same-slot' (two members address one feature slot),
    'opposite-ends' (a member addresses the opposite end of another member's feature), 'independent'"""
    prims = [p for p in flatten(cmd) if p[0] != 'Delete']
    cls = 'independent'
    for i, p in enumerate(prims):
        for q in prims[i + 1:]:
            if (p[1], p[2]) == (q[1], q[2]):
                return 'same-slot'
            if p[2] < len(m.ff) and m.opp.get(p[2]) == q[2]:
                cls = 'opposite-ends'
            if p[2] == q[2] and p[1] != q[1]:
                cls = 'same-feature' if cls == 'independent' else cls
    return cls


class Verdict:
    def __init__(self):
        self.failure = None          # {'index', 'clause', 'signature', 'what'}
        self.stopped = None          # why the evaluation of this word stopped early (out of scope)
        self.steps = []
        self.stats = collections.Counter()


def members_of_call(m, case, flat, cmds):
    """what ONE call stack.execute(c1, c2, ...) is made of, member by member, on a scratch replay of the
    implementation: every command is checked right before it runs, the call ends at the first command that is
    refused or raises (the earlier ones stay executed and recorded).  -> 'cycle' or
    [{'cmd', 'pre', 'post', 'code', 'scope', 'stale', 'prone'}] for the members the call reaches"""
    sc = c06impl.CmdWorld(dict(case, word=[]), observers=False)
    for sop in flat:
        sc.do(sop)
    out, singles = [], []
    for c in cmds:
        try:
            mpre = sc.dump()
        except RecursionError:
            return 'cycle'
        scope, stale, prone = analyse(m, dict(case, word=flat + singles), len(flat) + len(singles), mpre, c)
        if scope == 'cycle':
            return 'cycle'
        code = sc.do(['exec', c])
        try:
            mpost = sc.dump()
        except RecursionError:
            return 'cycle'
        singles.append(['exec', c])
        out.append({'cmd': c, 'pre': mpre, 'post': mpost, 'code': code, 'scope': scope, 'stale': stale, 'prone': prone})
        if code != 0:
            break
    return out


def evaluate(case, record=True):
    """run the word on the implementation; check every stack operation against the property"""
    m = koracle.MM(case)
    w = c06impl.CmdWorld(case)
    v = Verdict()
    done, undone = [], []
    pre = w.dump()
    run_start = None        # (dump before the current run of undos, number of successful undos, redos so far)
    flat = []               # the word so far as single stack operations (an exec* call = the members it reached)
    for i, sop in enumerate(case['word']):
        kind = sop[0]
        fcase, fi = dict(case, word=list(flat)), len(flat)
        scope, stale, prone, members = None, False, set(), None
        if kind == 'exec':
            scope, stale, prone = analyse(m, fcase, fi, pre, sop[1])
        elif kind == 'exec*':
            members = members_of_call(m, case, flat, sop[1])
            if members == 'cycle':
                scope = 'cycle'
        if scope == 'cycle':
            v.stopped = ('containment-cycle', i)
            break
        idx_before = w.stack.stack_index
        try:
            code = w.do(sop)
            post = w.dump()
        except RecursionError:
            v.stopped = ('containment-cycle', i)
            break
        idx_after = w.stack.stack_index
        if record:
            v.steps.append({'op': sop, 'outcome': (code, None), 'dump': post, 'log': w.w.take_log(),
                            'stack': (w.stack.stack_index, len(w.stack.stack))})
        v.stats[kind] += 1
        fail = None
        fprone = prone
        if kind == 'exec':
            cmd = sop[1]
            run_start = None
            if code == 0:
                done.append({'cmd': cmd, 'pre': pre, 'post': post, 'scope': scope, 'index': i, 'stale': stale,
                             'prone': prone})
                undone = []
                v.stats['exec-ok:' + cmd[0]] += 1
                if cmd[0] == 'Compound':
                    v.stats['exec-ok:Compound:' + compound_class(m, cmd)] += 1
                    if stale:
                        v.stats['exec-ok:Compound:stale-member'] += 1
                if scope:
                    v.stats['exec-ok-out-of-scope'] += 1
            else:
                v.stats['exec-raised'] += 1
                # a failing Compound undoes the members already run: a Delete among them is undone
                diffs, tolerated = state_diff(m, pre, post, delete_exception=has_delete(cmd))
                if tolerated and not diffs:
                    # the order the property tolerates after undoing a Delete: later expectations are stale
                    v.stats['delete-order-exception-used'] += 1
                    v.stopped = ('order-changed-within-delete-exception', i)
                    break
                if diffs and not scope:
                    fail = ('can_execute-raised', cmd, pre, diffs,
                            ('partial-effect',) + (STALE if stale else ()),
                            f'{cmd} raised (code {code}) after changing the model: {diffs[0][2]}')
                elif diffs:
                    v.stopped = ('out-of-scope-command-raised', i)
                    break
        elif kind == 'exec*':
            run_start = None
            stop = None
            for mb in members:
                cmd = mb['cmd']
                if mb['code'] == 0:
                    done.append({'cmd': cmd, 'pre': mb['pre'], 'post': mb['post'], 'scope': mb['scope'], 'index': i,
                                 'stale': mb['stale'], 'prone': mb['prone']})
                    undone = []
                    v.stats['exec-ok:' + cmd[0]] += 1
                    v.stats['exec-ok-in-multi-command-call'] += 1
                    if mb['scope']:
                        v.stats['exec-ok-out-of-scope'] += 1
                else:
                    v.stats['exec-raised'] += 1
                    v.stats['multi-command-call-ended-by-refused-command'] += 1
                    diffs, tolerated = state_diff(m, mb['pre'], mb['post'], delete_exception=has_delete(cmd))
                    if tolerated and not diffs:
                        stop = 'order-changed-within-delete-exception'
                    elif diffs and not mb['scope']:
                        fprone = mb['prone']
                        fail = ('can_execute-raised', cmd, mb['pre'], diffs,
                                ('partial-effect',) + (STALE if mb['stale'] else ()),
                                f'{cmd} raised (code {mb["code"]}) after changing the model: {diffs[0][2]}')
                    elif diffs:
                        stop = 'out-of-scope-command-raised'
            v.stats['multi-command-calls'] += 1
            if stop:
                v.stopped = (stop, i)
                break
        elif kind == 'undo':
            if not done:
                diffs, _ = state_diff(m, pre, post)
                if code != 2 or diffs:
                    fail = ('undo', None, pre, diffs, ('empty-stack',), f'undo on an empty stack: code {code}')
                v.stats['undo-empty'] += 1
            else:
                e = done[-1]
                fprone = e['prone']
                if e['scope']:
                    v.stopped = ('undo-of-out-of-scope-command', i)
                    break
                exc = has_delete(e['cmd'])
                diffs, tolerated = state_diff(m, e['pre'], post, delete_exception=exc)
                if idx_after == idx_before and not state_diff(m, pre, post)[0]:
                    # the call had no effect at all: can_undo answered False (undo() then returns silently) or raised
                    fail = ('undo', e['cmd'], e['pre'], [], ('refused-by-can_undo',) + (STALE if e['stale'] else ()),
                            f'undo of {e["cmd"]} did nothing (code {code}): the command stays on top of the stack')
                elif code != 0:
                    fail = ('undo', e['cmd'], e['pre'], diffs, ('raised',) + (STALE if e['stale'] else ()),
                            f'undo of {e["cmd"]} raised (code {code})')
                elif diffs:
                    fail = ('undo', e['cmd'], e['pre'], diffs, (STALE if e['stale'] else ()),
                            f'undo of {e["cmd"]} does not restore the state: {diffs[0][2]}')
                else:
                    done.pop()
                    undone.append(e)
                    v.stats['undo-checked:' + e['cmd'][0]] += 1
                    if run_start is None or run_start[2] > 0:
                        run_start = [pre, 0, 0]
                    run_start[1] += 1
                    if tolerated:
                        v.stats['delete-order-exception-used'] += 1
                        v.stopped = ('order-changed-within-delete-exception', i)
                        break
        else:
            if not undone:
                diffs, _ = state_diff(m, pre, post)
                if code != 2 or diffs:
                    last = done[-1]['cmd'] if done else None
                    fail = ('truncate', last, pre, diffs, (), f'redo with nothing undone: code {code}'
                            + (f', model changed: {diffs[0][2]}' if diffs else ''))
                v.stats['redo-nothing'] += 1
            else:
                e = undone[-1]
                fprone = e['prone']
                diffs, _ = state_diff(m, e['post'], post)
                if code != 0:
                    fail = ('redo', e['cmd'], e['pre'], diffs, ('raised',) + (STALE if e['stale'] else ()),
                            f'redo of {e["cmd"]} raised (code {code})')
                elif diffs:
                    fail = ('redo', e['cmd'], e['pre'], diffs, (STALE if e['stale'] else ()),
                            f'redo of {e["cmd"]} does not bring back the state after it: {diffs[0][2]}')
                else:
                    undone.pop()
                    done.append(e)
                    v.stats['redo-checked:' + e['cmd'][0]] += 1
                    if run_start is not None:
                        run_start[2] += 1
                        if run_start[2] == run_start[1]:
                            d2, _ = state_diff(m, run_start[0], post)
                            v.stats['k-undo-redo-checked'] += 1
                            v.stats[f'k-undo-redo-k={run_start[1]}'] += 1
                            if d2:
                                fail = ('k-undo-redo', e['cmd'], e['pre'], d2,
                                        (f'k={run_start[1]}',) + (STALE if e['stale'] else ()),
                                        f'{run_start[1]} undos then {run_start[1]} redos: {d2[0][2]}')
                            run_start = None
        if fail:
            clause, cmd, fpre, diffs, extra, what = fail
            if cmd and has_delete(cmd) and held_twice_earlier(m, fcase, fi, fpre, cmd):
                extra = tuple(extra) + ('held-twice-earlier',)
            v.failure = {'index': i, 'clause': clause, 'what': f'C06/{clause}: {what}',
                         'signature': signature(m, clause, cmd, fpre, diffs, extra, fprone)}
            break
        pre = post
        flat += [['exec', mb['cmd']] for mb in members] if kind == 'exec*' else [sop]
    return v


# ---------------------------------------------------------------- shrinking
def simpler_cmds(cmd):
    """candidate simplifications of one command"""
    if cmd[0] == 'Compound':
        subs = cmd[1]
        if len(subs) == 1:
            yield subs[0]
        for j in range(len(subs)):
            yield ['Compound', subs[:j] + subs[j + 1:]]
        for j, s in enumerate(subs):
            if s[0] == 'Compound':
                yield ['Compound', subs[:j] + s[1] + subs[j + 1:]]


def shrink(case, sig):
    """greedy delta-debugging on the word, the commands and the building history, keeping the signature"""
    best = copy.deepcopy(case)

    def still(c):
        try:
            r = evaluate(c, record=False)
        except Exception:  # noqa
            return False
        return r.failure is not None and r.failure['signature'] == sig

    changed = True
    while changed:
        changed = False
        for i in range(len(best['word'])):
            cand = copy.deepcopy(best)
            del cand['word'][i]
            if still(cand):
                best, changed = cand, True
                break
        if changed:
            continue
        for i, sop in enumerate(best['word']):
            if sop[0] == 'exec*':
                cands = [['exec*', sop[1][:j] + sop[1][j + 1:]] for j in range(len(sop[1])) if len(sop[1]) > 2]
                if len(sop[1]) == 2:
                    cands += [['exec', sop[1][0]], ['exec', sop[1][1]]]
                for j, c in enumerate(sop[1]):
                    cands += [['exec*', sop[1][:j] + [sc] + sop[1][j + 1:]] for sc in simpler_cmds(c)]
            elif sop[0] == 'exec':
                cands = [['exec', sc] for sc in simpler_cmds(sop[1])]
            else:
                continue
            for cnd in cands:
                cand = copy.deepcopy(best)
                cand['word'][i] = cnd
                if still(cand):
                    best, changed = cand, True
                    break
            if changed:
                break
        if changed:
            continue
        for i in range(len(best['history'])):
            cand = copy.deepcopy(best)
            del cand['history'][i]
            if still(cand):
                best, changed = cand, True
                break
    r = evaluate(best, record=False)
    if r.failure:
        best['word'] = best['word'][:r.failure['index'] + 1]
    return best


# ---------------------------------------------------------------- generation
def gen_value(m, case, fd, rng, cur, want_present=None):
    r = rng.random()
    if r < 0.05:
        return None
    if want_present and cur:
        t = rng.choice(cur)
        return untok(t)
    wrong = r < 0.09
    return kgen.conforming_values(case['mm'], case['objs'], fd, rng, wrong)


def untok(t):
    tag, p = t
    if tag == 0:
        return None
    if tag == 5:
        return ['e', p // 100, p % 100]
    return [{1: 'o', 2: 'i', 3: 's', 4: 'b', 6: 'f'}[tag], p]


def gen_prim(m, case, d, rng, focus=None):
    objs = case['objs']
    ff = m.ff
    kind = rng.choice(['Set'] * 4 + ['Add'] * 5 + ['Remove'] * 4 + ['Move'] * 3 + ['Delete'])
    if kind == 'Delete':
        return ['Delete', rng.randrange(len(objs))]
    for _ in range(40):
        if focus is not None and rng.random() < 0.6:
            x, fi = focus
        else:
            x = rng.randrange(len(objs))
            app = kgen.applicable(case['mm'], objs[x])
            if rng.random() < 0.03:
                fi = rng.randrange(len(ff))          # possibly a feature of another class
            elif app:
                fi = rng.choice(app)
            else:
                continue
        fd = m.fd(fi)
        cur = d['objs'][x]['feats'].get(fi)
        applicable = cur is not None
        cur = cur or []
        n = len(cur)
        if kind == 'Set':
            if fd['many'] and rng.random() > 0.04:
                continue
            return ['Set', x, fi, gen_value(m, case, fd, rng, cur)]
        if not fd['many']:
            continue                                  # Add/Remove/Move on a single-valued feature: not modelled
        if kind in ('Remove', 'Move') and n == 0 and applicable and rng.random() < 0.9:
            continue                                  # mostly on collections that hold something
        if kind == 'Add':
            i = None if rng.random() < 0.35 else rng.randrange(-n - 2, n + 3)
            return ['Add', x, fi, gen_value(m, case, fd, rng, cur, want_present=rng.random() < 0.08), i]
        if kind == 'Remove':
            if rng.random() < 0.5:
                return ['Remove', x, fi, None, rng.randrange(-n, n) if n and rng.random() < 0.85
                        else rng.randrange(-n - 2, n + 2)]
            v = gen_value(m, case, fd, rng, cur, want_present=rng.random() < 0.85)
            if v is None:
                continue
            return ['Remove', x, fi, v, None]
        if kind == 'Move':
            to = rng.randrange(-n - 1, n + 2)
            if rng.random() < 0.55:
                return ['Move', x, fi, None, rng.randrange(-n, n) if n and rng.random() < 0.85
                        else rng.randrange(-n - 2, n + 2), to]
            v = gen_value(m, case, fd, rng, cur, want_present=rng.random() < 0.9)
            if v is None:
                continue
            return ['Move', x, fi, v, None, to]
    return ['Delete', rng.randrange(len(objs))]


def owners_of(case, fi):
    """objects whose class has feature fi"""
    return [o for o, c in enumerate(case['objs']) if fi in kgen.applicable(case['mm'], c)]


def gen_related(m, case, d, rng, first):
    """a second member acting on what `first` changes: the same slot, the slot of another owner for the same
    element (a move expressed as Remove plus Add), or the opposite end of the element (Remove plus Set through
    the container / opposite end, as in EMF)"""
    if first[0] == 'Delete':
        return gen_prim(m, case, d, rng)
    k, x, fi = first[0], first[1], first[2]
    if fi >= len(m.ff) or fi not in d['objs'][x]['feats']:
        return gen_prim(m, case, d, rng, (x, fi))
    fd = m.fd(fi)
    cur = d['objs'][x]['feats'][fi]
    n = len(cur)
    g = m.opp.get(fi)
    # the element the first member is about
    elem = None
    if k in ('Set', 'Add'):
        elem = first[3]
    elif k in ('Remove', 'Move'):
        if first[3] is not None:
            elem = first[3]
        elif first[4] is not None and n and -n <= first[4] < n:
            elem = untok(cur[first[4]])
    r = rng.random()
    if not fd['many']:
        # Set then Set on the same slot, or the previous/new partner's end
        if r < 0.5 or g is None or fd['kind'] != 'ref':
            return ['Set', x, fi, gen_value(m, case, fd, rng, cur)]
        gd = m.fd(g)
        y = elem[1] if elem is not None and elem[0] == 'o' else None
        prev = koracle.objs_of(cur)
        tgt = rng.choice([t for t in ([y] if y is not None else []) + prev] or [None])
        if tgt is None:
            return ['Set', x, fi, gen_value(m, case, fd, rng, cur)]
        if gd['many']:
            return rng.choice([['Remove', tgt, g, ['o', x], None], ['Add', tgt, g, ['o', x], None]])
        return ['Set', tgt, g, rng.choice([None, ['o', x]])]
    idx = lambda extra=0: rng.randrange(-n - 1, n + 2 + extra)
    if elem is None or r < 0.3:
        # same slot, another operation
        k2 = rng.choice(['Add', 'Remove', 'Move', 'Add', 'Remove'])
        if k2 == 'Add':
            v = elem if elem is not None and rng.random() < 0.6 else gen_value(m, case, fd, rng, cur)
            return ['Add', x, fi, v, rng.choice([None, idx()])]
        if k2 == 'Remove':
            if elem is not None and rng.random() < 0.6:
                return ['Remove', x, fi, elem, None]
            return ['Remove', x, fi, None, idx()]
        if elem is not None and rng.random() < 0.5:
            return ['Move', x, fi, elem, None, idx()]
        return ['Move', x, fi, None, idx(), idx()]
    if fd['kind'] == 'ref' and elem[0] == 'o' and g is not None and r < 0.65:
        # the opposite end of the element
        gd = m.fd(g)
        y = elem[1]
        others = [o for o in owners_of(case, fi) if o != x]
        x2 = rng.choice(others) if others and rng.random() < 0.7 else x
        if gd['many']:
            return rng.choice([['Add', y, g, ['o', x2], None], ['Remove', y, g, ['o', x], None]])
        return ['Set', y, g, rng.choice([['o', x2], ['o', x2], None])]
    # the same element in the slot of another owner (or back into the same collection elsewhere)
    others = [o for o in owners_of(case, fi) if o != x]
    x2 = rng.choice(others) if others and rng.random() < 0.75 else x
    n2 = len(d['objs'][x2]['feats'].get(fi, []))
    if k in ('Remove', 'Move'):
        return ['Add', x2, fi, elem, rng.choice([None, None, rng.randrange(-n2 - 1, n2 + 2)])]
    return ['Remove', x2, fi, elem, None]


def gen_idiom_first(m, case, d, rng):
    """a first member worth following up: a Remove / Set / Add on a slot that holds something, references preferred"""
    best = None
    for _ in range(12):
        p = gen_prim(m, case, d, rng)
        if p[0] == 'Delete' or p[2] >= len(m.ff):
            continue
        cur = d['objs'][p[1]]['feats'].get(p[2])
        if cur is None:
            continue
        fd = m.fd(p[2])
        score = (2 if fd['kind'] == 'ref' else 0) + (2 if m.opp.get(p[2]) is not None else 0) \
            + (1 if p[0] in ('Remove', 'Set') else 0) + (2 if any(t[0] != 0 for t in cur) else 0)
        if best is None or score > best[0] or (score == best[0] and rng.random() < 0.5):
            best = (score, p)
        if score >= 6:
            break
    return best[1] if best else gen_prim(m, case, d, rng)


def gen_cmd(m, case, d, rng):
    r = rng.random()
    if r < 0.10:
        # members that act on what earlier members change (moves as Remove + Add, Remove + Set through the
        # opposite end, Set + Set, Add + Remove of one element)
        first = gen_idiom_first(m, case, d, rng)
        subs = [first, gen_related(m, case, d, rng, first)]
        if rng.random() < 0.25:
            subs.append(gen_related(m, case, d, rng, rng.choice(subs)))
        if rng.random() < 0.15:
            subs = [subs[0], ['Compound', subs[1:]]]
        return ['Compound', subs]
    if r < 0.20:
        n = rng.choice([0, 1, 2, 2, 3, 3])
        first = gen_prim(m, case, d, rng)
        focus = (first[1], first[2]) if first[0] != 'Delete' else None
        subs = [first] + [gen_prim(m, case, d, rng, focus) for _ in range(n - 1)] if n else []
        if len(subs) >= 2 and rng.random() < 0.2:
            subs = [subs[0], ['Compound', subs[1:]]]
        return ['Compound', subs]
    return gen_prim(m, case, d, rng)


def gen_call(m, case, d, rng):
    """['exec*', [c1, c2(, c3)]]: ONE call stack.execute(c1, c2, ...) whose later commands often depend on or
    conflict with the earlier ones (the same element added twice, a Remove of what the first removes, a Move
    after an Add, a Set after a Set); the side condition is decided member by member on a scratch replay"""
    cmds = []
    sc = c06impl.CmdWorld(dict(case, word=[]), observers=False)
    for sop in case['word']:
        sc.do(sop)
    for j in range(rng.choice([2, 2, 2, 3])):
        try:
            dj = sc.dump()
        except RecursionError:
            break
        tmp = dict(case, word=case['word'] + [['exec', c] for c in cmds])
        for _ in range(20):
            r = rng.random()
            if cmds and r < 0.25:
                c = copy.deepcopy(rng.choice(cmds))                     # the very same command again
            elif cmds and r < 0.85 and any(flatten(x) for x in cmds):
                c = gen_related(m, case, dj, rng, rng.choice([p for x in cmds for p in flatten(x)]))
            elif not cmds and r < 0.7:
                c = gen_idiom_first(m, case, dj, rng)
            else:
                c = gen_cmd(m, case, dj, rng)
            scp = scope_of(m, tmp, len(tmp['word']), dj, c)
            if scp == 'cycle' or (scp == 'steals' and rng.random() < 0.9):
                continue
            break
        else:
            c = ['Delete', 0]
        cmds.append(c)
        if sc.do(['exec', c]) != 0:
            break                                                       # the call ends here
    return ['exec*', cmds] if len(cmds) > 1 else ['exec', cmds[0]]


def gen_case(rng, thorough):
    pool = list(kgen.TEMPLATES)
    n = rng.randrange(2, 6)
    templates = rng.sample(pool, n)
    if rng.random() < 0.5 and not any(t in templates for t in ('ains', 'ainl', 'asl', 'aes')):
        templates.append(rng.choice(['ains', 'ainl', 'asl', 'aes']))
    base = kgen.gen_case(rng, templates=templates, nops=rng.choice([1, 4, 10, 14]), nres=2, p_wrong=0.0,
                         weights={'delete': 0.02})
    base['history'] = [op for op in base['history'] if op[0] in kmodel.MODELLED]
    base, _ = kprop.clean_case(base, [], False)
    case = dict(base)
    case['word'] = []
    m = koracle.MM(case)
    maxlen = 16 if thorough else 10
    length = rng.randrange(3, maxlen + 1)
    w = c06impl.CmdWorld(case, observers=False)
    ndone, nundone = 0, 0
    tail_k = None
    while len(case['word']) < length:
        d = w.dump()
        r = rng.random()
        room = length - len(case['word'])
        if ndone and room >= 2 and rng.random() < 0.15:
            k = rng.randrange(1, min(ndone, room // 2) + 1)
            block = [['undo']] * k + [['redo']] * k
            for sop in block:
                case['word'].append(list(sop))
                w.do(sop)
            try:
                w.dump()
            except RecursionError:
                del case['word'][-len(block):]
                break
            continue
        if r < 0.045:
            sop = gen_call(m, case, d, rng)
        elif r < 0.56 or (ndone == 0 and nundone == 0 and r < 0.9):
            for _ in range(30):
                cmd = gen_cmd(m, case, d, rng)
                sc = scope_of(m, case, len(case['word']), d, cmd)
                if sc == 'cycle':
                    continue
                if sc == 'steals' and rng.random() < 0.9:
                    continue
                break
            else:
                cmd = ['Delete', 0]
            sop = ['exec', cmd]
        elif r < 0.80:
            sop = ['undo']
        else:
            sop = ['redo']
        case['word'].append(sop)
        try:
            code = w.do(sop)
            w.dump()
        except RecursionError:      # a containment cycle slipped through: the word ends before it
            case['word'].pop()
            break
        if sop[0] == 'exec*':
            ndone, nundone = w.stack.stack_index + 1, len(w.stack.stack) - w.stack.stack_index - 1
        elif code == 0:
            if sop[0] == 'exec':
                ndone, nundone = ndone + 1, 0
            elif sop[0] == 'undo':
                ndone, nundone = max(0, ndone - 1), nundone + 1
            else:
                ndone, nundone = ndone + 1, max(0, nundone - 1)
    return case


# ---------------------------------------------------------------- correspondence
def compare(case, impl_steps, model_steps):
    """first difference between implementation and model, or None"""
    delete_undone = False
    for j, (a, b) in enumerate(zip(impl_steps, model_steps)):
        d = kmodel.compare_step(case, ['cmd'], a, b, {'outcome', 'values', 'ownership'})
        if a['stack'] != b['stack']:
            d.append(f'stack (index, len) impl={a["stack"]} model={b["stack"]}')
        if d:
            return j, d
    return None


def order_only(case, a, b):
    """do two dumps differ only in the order of many-valued references?"""
    m = koracle.MM(case)
    diffs, _ = state_diff(m, a, b)
    return bool(diffs) and all(cls == 'order' and m.fd(key[1])['kind'] == 'ref' for cls, key, _ in diffs)


CORPUS = [
    # hand-written regression words (the defects of DESIGN.md "Expected today")
    {'templates': ['ai'], 'history': [],
     'word': [['exec', ['Set', 0, 0, ['i', 1]]], ['undo'], ['exec', ['Set', 0, 0, ['i', 2]]], ['redo'], ['undo'], ['undo']]},
    {'templates': ['ainl'], 'history': [['append', 0, 0, ['i', 1]], ['append', 0, 0, ['i', 7]]],
     'word': [['exec', ['Add', 0, 0, ['i', 5], -1]], ['undo'], ['redo'], ['undo']]},
    {'templates': ['ainl'], 'history': [['append', 0, 0, ['i', 1]], ['append', 0, 0, ['i', 7]]],
     'word': [['exec', ['Add', 0, 0, ['i', 5], 9]], ['undo'], ['redo']]},
    {'templates': ['ains'], 'history': [['append', 0, 0, ['i', 1]], ['append', 0, 0, ['i', 7]]],
     'word': [['exec', ['Add', 0, 0, ['i', 7], 0]], ['undo'], ['redo']]},
    {'templates': ['ainl'], 'history': [['append', 0, 0, ['i', 1]], ['append', 0, 0, ['i', 7]], ['append', 0, 0, ['i', 0]]],
     'word': [['exec', ['Remove', 0, 0, None, -1]], ['undo'], ['redo'], ['undo']]},
    {'templates': ['ainl'], 'history': [['append', 0, 0, ['i', 1]], ['append', 0, 0, ['i', 7]], ['append', 0, 0, ['i', 0]]],
     'word': [['exec', ['Move', 0, 0, None, 0, -1]], ['undo'], ['redo']]},
    {'templates': ['ainl'], 'history': [['append', 0, 0, ['i', 1]], ['append', 0, 0, ['i', 7]], ['append', 0, 0, ['i', 0]]],
     'word': [['exec', ['Move', 0, 0, None, -1, 7]], ['undo'], ['redo'], ['undo']]},
    {'templates': ['ckn', 'rn'], 'history': [['append', 0, 0, ['o', 3]], ['append', 0, 0, ['o', 4]], ['append', 1, 2, ['o', 3]]],
     'word': [['exec', ['Delete', 0]], ['undo'], ['redo'], ['undo']]},
    {'templates': ['ains'], 'history': [['append', 0, 0, ['i', 1]]],
     'word': [['exec', ['Compound', [['Add', 0, 0, ['i', 7], 0], ['Remove', 0, 0, None, 0]]]], ['undo'], ['redo']]},
    # a move the EMF way: Remove from the old parent, then Set the container end / Add to the new parent
    {'templates': ['ckn'], 'history': [['append', 0, 0, ['o', 3]], ['append', 0, 0, ['o', 4]]],
     'word': [['exec', ['Compound', [['Remove', 0, 0, ['o', 3], None], ['Set', 3, 1, ['o', 1]]]]],
              ['undo'], ['redo'], ['undo'], ['redo']]},
    {'templates': ['ckn'], 'history': [['append', 0, 0, ['o', 3]], ['append', 0, 0, ['o', 4]]],
     'word': [['exec', ['Compound', [['Remove', 0, 0, None, 0], ['Add', 1, 0, ['o', 3], None]]]],
              ['undo'], ['redo'], ['undo']]},
    {'templates': ['p1n'], 'history': [['set', 0, 0, ['o', 3], 'attr'], ['set', 1, 0, ['o', 3], 'attr']],
     'word': [['exec', ['Compound', [['Remove', 3, 1, ['o', 1], None], ['Set', 1, 0, ['o', 4]]]]],
              ['undo'], ['redo'], ['undo']]},
    {'templates': ['p11'], 'history': [['set', 0, 0, ['o', 3], 'attr']],
     'word': [['exec', ['Compound', [['Set', 0, 0, None], ['Set', 1, 0, ['o', 3]]]]], ['undo'], ['redo'], ['undo']]},
    {'templates': ['ai'], 'history': [['set', 0, 0, ['i', 1], 'attr']],
     'word': [['exec', ['Compound', [['Set', 0, 0, ['i', 7]], ['Set', 0, 0, ['i', -1]]]]], ['undo'], ['redo'], ['undo']]},
    # one call stack.execute(c1, c2): every command is checked right before it runs
    {'templates': ['rn'], 'history': [['append', 0, 0, ['o', 3]], ['append', 0, 0, ['o', 4]]],
     'word': [['exec*', [['Add', 0, 0, ['o', 5], None], ['Add', 0, 0, ['o', 5], 0]]], ['undo'], ['undo'], ['redo']]},
    {'templates': ['ainl'], 'history': [['append', 0, 0, ['i', 1]]],
     'word': [['exec*', [['Add', 0, 0, ['i', 7], 0], ['Move', 0, 0, ['i', 7], None, 5], ['Remove', 0, 0, None, 0]]],
              ['undo'], ['undo'], ['undo'], ['redo'], ['redo']]},
    # Delete of an object and its child that one collection without opposite holds both (fix fd7bdda)
    {'templates': ['ctree', 'rself', 'rbag'],
     'history': [['assign', 4, 3, [['o', 1], ['o', 2], ['o', 1]], 'list'], ['insert', 4, 3, -4, ['o', 0]],
                 ['set', 0, 1, ['o', 2], 'eset-feat']],
     'word': [['exec', ['Delete', 2]], ['undo'], ['redo'], ['undo']]},
]


def corpus_cases():
    out = []
    for c in CORPUS:
        out.append({'mm': kgen.make_mm(c['templates']), 'templates': c['templates'], 'objs': list(kgen.DEFAULT_OBJS),
                    'nres': 2, 'strings': kgen.STRINGS, 'history': copy.deepcopy(c['history']),
                    'word': copy.deepcopy(c['word'])})
    # the witnesses of the known findings, so that every run re-observes them
    kdir = os.path.join(common.VERIF, 'known')
    for fn in sorted(os.listdir(kdir)) if os.path.isdir(kdir) else []:
        if fn.startswith('C06_') and fn.endswith('.json'):
            out.append(json.load(open(os.path.join(kdir, fn)))['case'])
    return out + [dict(c) for c in kprop.corpus_cases(PID)]


def run(ctx, out):
    thorough = ctx.tier == 'thorough'
    n = 20000 if thorough else 1500
    rng = ctx.rng
    model = common.Model()
    st = collections.Counter()
    stats = collections.Counter()
    word_len = collections.Counter()
    tmpl = collections.Counter()
    kinds = collections.Counter()
    outcomes = collections.Counter()
    stops = collections.Counter()
    distinct = set()
    samples = []
    reported = {}
    cases = corpus_cases()
    st['corpus_cases'] = len(cases)
    for ci in range(n):
        case = gen_case(rng, thorough)
        if ci % 4 == 1:
            # the same case on STATIC classes whose instances are falsy (define __bool__ -> False): a truth-value
            # test on a model object in commands.py (`if value:` for `if value is not None:`) behaves differently
            case['render'] = 'static-falsy'
        cases.append(case)
    # the hand-written words once more on the falsy rendering
    cases += [dict(copy.deepcopy(c), render='static-falsy') for c in corpus_cases()[:len(CORPUS)]]
    for case in cases:
        st['cases'] += 1
        if case.get('render') == 'static-falsy':
            st['cases_on_falsy_static_rendering'] += 1
        v = evaluate(case)
        stats.update(v.stats)
        word_len[len(case['word'])] += 1
        for t in case.get('templates', []):
            tmpl[t] += 1
        for s in v.steps:
            outcomes[s['outcome'][0]] += 1
            for c in ([s['op'][1]] if s['op'][0] == 'exec' else s['op'][1] if s['op'][0] == 'exec*' else []):
                for p in flatten(c):
                    kinds[p[0]] += 1
                if c[0] == 'Compound':
                    kinds['Compound'] += 1
            if s['op'][0] == 'exec*':
                kinds['multi-command call'] += 1
        if v.stopped:
            stops[v.stopped[0]] += 1
        if len(case['word']) >= 3:
            distinct.add(hash(json.dumps([case.get('templates'), case['history'], case['word']], sort_keys=True)))
        # ---- correspondence with the Coq model (on the prefix the implementation run covered) ----
        sub = dict(case)
        sub['word'] = case['word'][:len(v.steps)]
        try:
            ms = run_model(model, sub) if sub['word'] else []
            cmp_ = compare(sub, v.steps, ms)
        except Exception as e:  # noqa
            cmp_ = (0, [f'model run failed: {e!r}'])
            ms = []
        if cmp_:
            j, d = cmp_
            m = koracle.MM(case)
            if any(has_delete(c) for s in v.steps[:j + 1] if s['op'][0] in ('exec', 'exec*')
                   for c in ([s['op'][1]] if s['op'][0] == 'exec' else s['op'][1])) \
                    and v.steps[j]['outcome'][0] == ms[j]['outcome'][0] \
                    and order_only(case, v.steps[j]['dump'], ms[j]['dump']):
                # Delete.undo walks Python sets (eAllReferences, _inverse_rels): the order in which links come
                # back is unspecified; the model fixes one order
                st['words_cut_at_set_order_dependent_delete_undo'] += 1
            else:
                cut = dict(sub)
                cut['word'] = sub['word'][:j + 1]
                out.diff(f'stack operation {j} {sub["word"][j]}: ' + '; '.join(d[:3]), cut)
                st['cases_with_diff'] += 1
        st['traces_validated'] += 1
        st['stack_operations_compared'] += len(v.steps)
        # ---- property failures on the implementation ----
        if v.failure:
            st['cases_failing_oracle'] += 1
            k = common.sig_key(v.failure['signature'])
            if k not in reported:
                cut = dict(case)
                cut['word'] = case['word'][:v.failure['index'] + 1]
                small = shrink(cut, v.failure['signature'])
                reported[k] = small
                out.fail(v.failure['signature'], v.failure['what'], small)
        if len(samples) < 3 and len(case['word']) >= 5:
            samples.append({'templates': case.get('templates'), 'history': case['history'], 'word': case['word']})
    model.close()
    nontrivial = stats['k-undo-redo-checked'] + sum(c for k, c in stats.items() if k.startswith('undo-checked:'))
    out.coverage.update({
        'evaluations': st['cases'],
        'distinct_nontrivial': len(distinct),
        'rule': 'a case = (metamodel from the feature templates of harness/kgen.py, 7 objects, 2 resources, a random '
                'kernel history building the start state, a word over {exec(cmd), undo, redo}); non-trivial = word of '
                '>= 3 stack operations; distinct = distinct (templates, history, word)',
        'traces_validated_against_impl': st['traces_validated'],
        'stack_operations_compared_with_model': st['stack_operations_compared'],
        'cases_with_correspondence_difference': st['cases_with_diff'],
        'words_cut_at_set_order_dependent_delete_undo': st['words_cut_at_set_order_dependent_delete_undo'],
        'cases_failing_oracle': st['cases_failing_oracle'],
        'corpus_cases': st['corpus_cases'],
        'cases_on_falsy_static_rendering': st['cases_on_falsy_static_rendering'],
        'undo_redo_checks_passed': nontrivial,
        'oracle_counters': dict(stats),
        'word_lengths': dict(word_len),
        'commands_by_kind': dict(kinds),
        'compounds_executed_by_member_relation': {k.split(':', 2)[2]: c for k, c in stats.items()
                                                  if k.startswith('exec-ok:Compound:')},
        'outcomes_by_code': dict(outcomes),
        'early_stops': dict(stops),
        'templates_used': dict(tmpl),
        'samples': samples,
    })
    out.assumptions += [
        'wf metamodels (templates of harness/kgen.py), acyclic containment: a command that would create a containment '
        'cycle ends the word',
        'side condition of the property decided on the pre-state dump: a Set/Add whose object value has another '
        'container, is a root of a resource (containment features) or has another partner on a single-valued opposite '
        'end is out of scope; such commands are generated rarely and end the evaluation when they are undone',
        'Add/Remove/Move are generated on many-valued features only (on a single-valued feature the command fails '
        'inside do_execute with an AttributeError/TypeError that depends on the Python type of the value)',
        'values are compared with Python equality (True == 1 == 1.0); eIsSet is not part of the compared state',
        'nested Compounds are flattened neither by the harness nor by the model (the model has nested compounds)',
        'Delete.undo iterates Python sets (eAllReferences(), _inverse_rels): when model and implementation then differ '
        'only in the order of many-valued references the word is cut there (counted in the coverage)',
        "['exec*', [c1, c2, ...]] is ONE call CommandStack.execute(c1, c2, ...): for the oracle and for the model it "
        'is the sequence of the single executes up to and including the first command that is refused or raises '
        '(oracle: members replayed one by one on a scratch world; model: the expansion is cut where the model itself '
        'reports the first refusal)',
        'every 4th generated case and the hand-written words run a second time on the static-falsy rendering '
        '(harness/kstatic.py: static classes whose instances define __bool__ returning False), same model, same oracle',
        'Compounds: about half are built from a first member and members acting on what it changes (same slot, the '
        'same element in another owner\'s slot = a move as Remove + Add, the opposite / container end of the element '
        '= Remove + Set as in EMF, Set + Set, Add + Remove); the side condition, "a member would be refused on its '
        'own in the state it meets" and the cells where undo is known to re-link by append are decided member by '
        'member on a scratch replay of the implementation',
    ]


def replay(ctx, rep):
    case = rep['case']
    v = evaluate(case)
    for s in v.steps:
        print(s['op'], '->', s['outcome'][0], 'stack', s['stack'])
    if v.failure:
        print('REPRODUCED', v.failure['what'])
        print('signature', json.dumps(v.failure['signature'], sort_keys=True))
        return 1
    print('not reproduced', v.stopped or '')
    return 0
