(* C06 - undo restores the previous model state; redo restores the next one.
   Statements only; proofs in Proofs/C06Proofs.v.  Model: Model/Commands.v
   (pyecore/commands.py statement by statement on the kernel model
   Model/Kernel.v, after the `fix:` commits listed in known_findings.json).

   Proved at full strength:
     * C06_stack_refinement  - for EVERY word over {execute c, undo, redo}, every command kind
       (Compound and Delete included) and every outcome (exceptions, can_execute False,
       can_undo False) the CommandStack (list + stack_index) stays well formed and denotes
       the pair (done, undone) that the two-list machine a_run computes;
     * C06_truncate          - a successful execute leaves undone = []: the next redo raises
       IndexError and changes neither model nor stack (redo never re-applies a superseded change).
   Proved per command kind on the kernel model (`inverts`: undo after execute gives back the
   observable state - all values with order, container, resource membership, resource contents -
   and redo after that undo gives back the state after the command; from every state that agrees
   on the observations):
     * Set on attributes and on references without containment and without opposite,
     * Add / Remove / Move on attribute collections (unique or not; any index in Z, default
       index, by value or by index; the recorded positions are the normalised ones).
   PARTIAL (names end with _partial): the word-level theorems - invariant of the (done, undone)
   history and `k undos then k redos = identity` (observations equal, stack literally equal) -
   hold for words whose executed commands are of the kinds above.  MISSING as theorems: references
   with an opposite or containment (the property's "no stealing" side condition only matters
   there), Delete, Compound.  For these the model is tied to the implementation by the
   correspondence only, and the implementation is known NOT to satisfy the property in the
   situations listed in known_findings.json (ids F-C06-...); two of them are exhibited on the model
   below (C06_relink_order_refuted, C06_compound_can_undo_refuted). *)
From Coq Require Import ZArith List Bool.
From PyecoreV Require Import Lib.PyBase Lib.PyList Model.Kernel Model.Commands Proofs.C06Proofs.
Import ListNotations.
Open Scope Z_scope.

Theorem C06_stack_refinement :
  forall m s w,
    wf_stack (snd (st_run m (s, empty_stack) w)) /\
    abs (st_run m (s, empty_stack) w) = a_run m (s, [], []) w.
Proof. exact stack_refinement_from_empty. Qed.
Print Assumptions C06_stack_refinement.

(* from any well-formed stack, one operation at a time, outcome included *)
Theorem C06_stack_step_refinement :
  forall m ms o,
    wf_stack (snd ms) ->
    wf_stack (snd (snd (st_step m ms o))) /\
    (fst (st_step m ms o), abs (snd (st_step m ms o))) = a_step m (abs ms) o.
Proof. exact st_step_refines. Qed.
Print Assumptions C06_stack_step_refinement.

Theorem C06_truncate :
  forall m s k c s' k',
    wf_stack k ->
    st_execute m (s, k) c = (None, (s', k')) ->
    undone_of k' = [] /\ st_redo m (s', k') = (Some IndexErr, (s', k')).
Proof. exact truncate_after_execute. Qed.
Print Assumptions C06_truncate.

Theorem C06_set_undo_redo :
  forall m s x f v p s' c',
    plain m f -> f_many (fd m f) = false -> cell_wt m f (vals s (x, f)) ->
    execute m s (CSet x f v p) = ((None, s'), c') ->
    inverts m c' s s' /\ only_cell s s' (x, f) [v] /\ cell_wt m f [v].
Proof. exact set_inverts. Qed.
Print Assumptions C06_set_undo_redo.

Theorem C06_add_attr_undo_redo :
  forall m s x f v idx c1 s' c',
    attr_many m f -> cell_wt m f (vals s (x, f)) ->
    can_execute m s (CAdd x f v idx) = (Ok true, c1) ->
    execute m s c1 = ((None, s'), c') ->
    exists i', c' = CAdd x f v (Some i') /\
               inverts m c' s s' /\ only_cell s s' (x, f) (py_insert i' v (vals s (x, f))) /\
               cell_wt m f (py_insert i' v (vals s (x, f))).
Proof. exact add_inverts. Qed.
Print Assumptions C06_add_attr_undo_redo.

Theorem C06_remove_attr_undo_redo :
  forall m s x f v idx c1 s' c',
    attr_many m f -> cell_wt m f (vals s (x, f)) ->
    can_execute m s (CRemove x f v idx) = (Ok true, c1) ->
    execute m s c1 = ((None, s'), c') ->
    exists i w l2, c' = CRemove x f w (Some i) /\
                   inverts m c' s s' /\ only_cell s s' (x, f) l2 /\ cell_wt m f l2.
Proof. exact remove_inverts. Qed.
Print Assumptions C06_remove_attr_undo_redo.

Theorem C06_move_attr_undo_redo :
  forall m s x f v from to c1 s' c',
    attr_many m f -> cell_wt m f (vals s (x, f)) ->
    (is_none v = true \/ from = None) ->
    can_execute m s (CMove x f v from to) = (Ok true, c1) ->
    execute m s c1 = ((None, s'), c') ->
    exists fr w to' l2, c' = CMove x f w (Some fr) to' /\
                        inverts m c' s s' /\ only_cell s s' (x, f) l2 /\ cell_wt m f l2.
Proof. exact move_inverts. Qed.
Print Assumptions C06_move_attr_undo_redo.

(* a covered command that raises (wrong type, absent element, index out of range) changes nothing *)
Theorem C06_failed_execute_no_effect_partial :
  forall m s c c1 e s' c2,
    wt m s -> covered m c ->
    can_execute m s c = (Ok true, c1) -> execute m s c1 = ((Some e, s'), c2) -> s' = s.
Proof. exact covered_exec_raise. Qed.
Print Assumptions C06_failed_execute_no_effect_partial.

Theorem C06_words_invariant_partial :
  forall m s0 w,
    wt m s0 -> Forall (op_ok m) w -> ainv m (abs (st_run m (s0, empty_stack) w)).
Proof. exact invariant_of_words. Qed.
Print Assumptions C06_words_invariant_partial.

Theorem C06_k_undo_k_redo_partial :
  forall m s0 w k,
    wt m s0 -> Forall (op_ok m) w ->
    let ms := st_run m (s0, empty_stack) w in
    (k <= length (done_of (snd ms)))%nat ->
    let ms' := st_run m ms (repeat SUndo k ++ repeat SRedo k) in
    obs_eq (fst ms') (fst ms) /\ snd ms' = snd ms.
Proof. exact k_undo_k_redo. Qed.
Print Assumptions C06_k_undo_k_redo_partial.

(* ---------- non-vacuity ---------- *)
(* the hypotheses of the word-level theorems are satisfiable: a well-typed start state ... *)
Example C06_wt_witness : wt ex_mm (init_state ex_mm).
Proof. exact ex_wt. Qed.

(* ... and a word that really executes commands of every covered kind (negative, over-range and
   default indices, removal by value and by index), undoes and redoes them *)
Definition ex_word : list sop :=
  [SExec (CSet 0%nat 0%nat (VInt 5) VNone); SExec (CAdd 0%nat 1%nat (VInt 7) None); SExec (CAdd 0%nat 1%nat (VInt 8) (Some (-5)));
   SExec (CAdd 0%nat 2%nat (VInt 1) (Some 9)); SExec (CAdd 0%nat 2%nat (VInt 1) None); SExec (CMove 0%nat 1%nat VNone (Some (-1)) (-7));
   SExec (CRemove 0%nat 1%nat VNone (Some (-1))); SExec (CRemove 0%nat 2%nat (VInt 1) None); SUndo; SUndo; SRedo].

Example C06_word_witness :
  let ms := st_run ex_mm (init_state ex_mm, empty_stack) ex_word in
  vals (fst ms) (0%nat, 0%nat) = [VInt 5] /\ vals (fst ms) (0%nat, 1%nat) = [VInt 7] /\
  vals (fst ms) (0%nat, 2%nat) = [VInt 1; VInt 1] /\ sidx (snd ms) = 6 /\ zlen (items (snd ms)) = 8 /\
  let ms' := st_run ex_mm ms (repeat SUndo 5 ++ repeat SRedo 5) in
  vals (fst ms') (0%nat, 1%nat) = [VInt 7] /\ vals (fst ms') (0%nat, 0%nat) = [VInt 5] /\ sidx (snd ms') = 6.
Proof. vm_compute. repeat split; reflexivity. Qed.

Example C06_word_witness_ok : Forall (op_ok ex_mm) ex_word.
Proof.
  repeat constructor; simpl; unfold plain, attr_many; simpl; auto.
Qed.

(* execute a; undo; execute b; redo  -> IndexError, b stays *)
Example C06_truncate_witness :
  let w := [SExec (CSet 0%nat 0%nat (VInt 1) VNone); SUndo; SExec (CSet 0%nat 0%nat (VInt 2) VNone)] in
  let ms := st_run ex_mm (init_state ex_mm, empty_stack) w in
  fst (st_step ex_mm ms SRedo) = Some IndexErr /\
  vals (fst (snd (st_step ex_mm ms SRedo))) (0%nat, 0%nat) = [VInt 2] /\ zlen (items (snd ms)) = 1.
Proof. vm_compute. repeat split; reflexivity. Qed.

(* ---------- known findings, exhibited on the model ---------- *)
(* F-C06-relink-order: b.bann = [a0, a1]; Remove(a0.abnn, b) then undo gives b.bann = [a1, a0] *)
Example C06_relink_order_refuted :
  let s0 := fold_left (next ex_mm) [OAppend 0%nat 3%nat (VObj 2%nat); OAppend 1%nat 3%nat (VObj 2%nat)] (init_state ex_mm) in
  let ms := st_run ex_mm (s0, empty_stack) [SExec (CRemove 0%nat 3%nat (VObj 2%nat) None); SUndo] in
  vals s0 (2%nat, 4%nat) = [VObj 0%nat; VObj 1%nat] /\ vals (fst ms) (2%nat, 4%nat) = [VObj 1%nat; VObj 0%nat] /\
  vals (fst ms) (0%nat, 3%nat) = vals s0 (0%nat, 3%nat).
Proof. vm_compute. repeat split; reflexivity. Qed.

(* F-C06-compound-can-undo: Compound(Add(7, 0), Remove(index 0)): can_undo is False on the final state,
   undo returns without doing anything and the compound stays on top of the stack *)
Example C06_compound_can_undo_refuted :
  let s0 := fold_left (next ex_mm) [OAppend 0%nat 1%nat (VInt 1)] (init_state ex_mm) in
  let ms := st_run ex_mm (s0, empty_stack)
                   [SExec (CCompound [CAdd 0%nat 1%nat (VInt 7) (Some 0); CRemove 0%nat 1%nat VNone (Some 0)])] in
  sidx (snd ms) = 0 /\ fst (st_step ex_mm ms SUndo) = None /\ sidx (snd (snd (st_step ex_mm ms SUndo))) = 0.
Proof. vm_compute. repeat split; reflexivity. Qed.
