"""Whole-document tie for C09: Model/JsonDoc.v (encode_jdoc / decode_jdoc) against the real
JsonResource.save / load.

For a generated metamodel (restricted to the modelled fragment: one package, positional fragments,
no uuid, no id attribute) and a generated model:
  (a) json.loads of the bytes the REAL save wrote equals run_jsondoc_enc on the abstract forest read
      from the real objects through the public API.  The model fixes an order of the entries of an
      object ("eClass", attributes, references, containments, each in the order of the class); pyecore
      writes them in the insertion order of `_isset`, which is not modelled: BOTH sides are compared
      with the entries of every object sorted by key ("eClass" < features by number).  What is kept
      of the real order: "eClass" comes first in every object that has it (checked separately).
  (b) the observation of the REAL load of those bytes (fresh resource set) equals run_jsondoc_dec
      applied to that same (canonicalised) document.
Names travel as numbers (class = index in the metamodel description, feature = index in the table of
feature names; "eClass" = -1, "$ref" = -2; the value of "eClass" is the class number); a feature name
inside a fragment is the code point 0x110000 + id.  An attribute value is named by a text: int ->
str(v), float -> the decimal of its index in a table kept here, bool -> 'true'/'false', str -> itself,
other types -> to_string(v)  (header of Model/JsonDoc.v).
"""
import json
import os
import tempfile

from harness import ser_gen as G
from harness import ser_rt as R
from harness import xmidoc as XD

Unmodelled = XD.Unmodelled
NB = XD.NB
K_CLASS, K_REF = -1, -2
TAGS = {'EInt': 0, 'ELong': 0, 'EBigInteger': 0, 'EDouble': 1, 'EFloat': 1, 'EBoolean': 2, 'EString': 3, 'EChar': 3}
TAG_NAMES = {0: 'int', 1: 'float', 2: 'bool', 3: 'str', 4: 'other'}


class FloatNames:
    """floats travel to the model under small integer names (the model only passes them on)"""

    def __init__(self):
        self.names, self.values = {}, []

    def name(self, f):
        k = repr(f)
        if k not in self.names:
            self.names[k] = len(self.values)
            self.values.append(f)
        return self.names[k]


def name_of_value(tag, et, v, fl):
    """the text that names the value v of a data type with tag `tag`"""
    if v is None:
        return None
    if tag == 0 and isinstance(v, int) and not isinstance(v, bool):
        return str(v)
    if tag == 1 and isinstance(v, float):
        return str(fl.name(v))
    if tag == 2 and isinstance(v, bool):
        return 'true' if v else 'false'
    if tag == 3 and isinstance(v, str):
        return v
    if tag == 4:
        return et.to_string(v)
    raise Unmodelled(f'a {type(v).__name__} under a data type of kind {TAG_NAMES[tag]}')


class Tables(XD.Tables):
    """XmiDoc's view of the metamodel; for an attribute the field `type` carries the kind of its data
    type and the default is named like every value"""

    def __init__(self, mm, built):
        super().__init__(mm, built)
        self.fl = FloatNames()

    def tag(self, f):
        return TAGS.get(f['type'], 4)

    def default_text(self, f):
        feat = self.built.features[f['name']]
        if f['many']:
            return None
        return name_of_value(self.tag(f), feat.eType, feat.get_default_value(), self.fl)

    def feat_tokens(self, f):
        ty = self.cid[f['type']] if f['kind'] == 'ref' else self.tag(f)
        dv = self.default_text(f) if f['kind'] == 'attr' else None
        return [self.fid[f['name']], int(f['many']), int(bool(f['unique'])), ty] + XD.put_ostr(dv)


# ---------------------------------------------------------------- abstract forest of a real resource (public API only)
def forest_of(tb, resource, opts, with_isset=True):
    """as xmidoc.forest_of, with the JSON naming of values and the children grouped by containment feature in the
    order of the class (the normal form of Model/JsonDoc.v, premise jwf_forest)"""
    paths = XD.paths_of(resource)
    sd = bool(opts.get('serialize_default'))

    def one(o):
        cname = o.eClass.name
        attrs, refs, conts = tb.per_class[cname]
        node = {'cls': tb.cid[cname], 'iss': [], 'attrs': [], 'refs': [], 'kids': []}
        for f in attrs + refs + conts:
            if with_isset and o.eIsSet(f['name']):
                node['iss'].append(tb.fid[f['name']])
        for f in attrs:
            feat = tb.built.features[f['name']]
            et, tag = feat.eType, tb.tag(f)
            v = o.eGet(f['name'])
            if f['many']:
                vals = [name_of_value(tag, et, x, tb.fl) for x in v]
            elif v is None:
                vals = [None]
            else:
                d = feat.get_default_value()
                # the writer compares values, the model compares names: a value equal to the default under
                # Python's == carries the default's name unless it is written because of SERIALIZE_DEFAULT_VALUES
                if d is not None and v == d and not (sd and o.eIsSet(f['name'])):
                    vals = [name_of_value(tag, et, d, tb.fl)]
                else:
                    vals = [name_of_value(tag, et, v, tb.fl)]
            node['attrs'].append((tb.fid[f['name']], vals))
        for f in refs:
            v = o.eGet(f['name'])
            ps = []
            for t in (list(v) if f['many'] else ([] if v is None else [v])):
                p = paths.get(t)
                if p is None:
                    raise Unmodelled('reference target outside the resource')
                ps.append((p[0], tuple((tb.fid[s[0]], s[1]) for s in p[1:])))
            node['refs'].append((tb.fid[f['name']], ps))
        for f in conts:
            v = o.eGet(f['name'])
            for c in (list(v) if f['many'] else ([] if v is None else [v])):
                node['kids'].append((tb.fid[f['name']], one(c)))
        return node
    return [one(r) for r in resource.contents]


# ---------------------------------------------------------------- JSON documents in the vocabulary of the model
# ('null',) ('int', z) ('flt', name) ('bool', b) ('str', code points) ('bad',) ('arr', [..]) ('obj', [(key, value)])
def canon(x):
    """entries of every object sorted by key (see the module doc string)"""
    if x[0] == 'arr':
        return ('arr', [canon(y) for y in x[1]])
    if x[0] == 'obj':
        return ('obj', sorted(((k, canon(v)) for k, v in x[1]), key=lambda e: e[0]))
    return x


def doc_of_real(tb, d, st=None):
    """json.loads(bytes pyecore wrote) -> the model's document (entries in the order of the text)"""
    nsuri = tb.mm['nsURI']

    def conv(x, key=None):
        if x is None:
            return ('null',)
        if isinstance(x, bool):
            return ('bool', x)
        if isinstance(x, int):
            return ('int', x)
        if isinstance(x, float):
            return ('flt', tb.fl.name(x))
        if isinstance(x, str):
            if key == 'eClass':
                uri, sep, name = x.partition('#//')
                if uri != nsuri or not sep or name not in tb.cid:
                    raise Unmodelled(f'eClass {x!r}')
                return ('int', tb.cid[name])
            if key == '$ref':
                return ('str', XD.ref_text_to_symbols(tb, x))
            return ('str', tuple(ord(c) for c in x))
        if isinstance(x, list):
            return ('arr', [conv(y) for y in x])
        if isinstance(x, dict):
            es = []
            for i, (k, v) in enumerate(x.items()):
                if k == 'eClass':
                    if i != 0 and st is not None:
                        st['eclass_not_first'] = st.get('eclass_not_first', 0) + 1
                    es.append((K_CLASS, conv(v, 'eClass')))
                elif k == '$ref':
                    es.append((K_REF, conv(v, '$ref')))
                elif k in tb.fid:
                    es.append((tb.fid[k], conv(v)))
                else:
                    raise Unmodelled(f'key {k!r}')
            return ('obj', es)
        raise Unmodelled(f'JSON value {x!r}')
    return conv(d)


def json_tokens(x):
    k = x[0]
    if k == 'null':
        return [0]
    if k == 'int':
        return [1] + XD.put_ostr(str(x[1]))
    if k == 'flt':
        return [2, x[1]]
    if k == 'bool':
        return [3, 1 if x[1] else 0]
    if k == 'str':
        return [4, len(x[1])] + list(x[1])
    if k == 'bad':
        return [9]
    if k == 'arr':
        t = [5, len(x[1])]
        for y in x[1]:
            t += json_tokens(y)
        return t
    t = [6, len(x[1])]
    for key, v in x[1]:
        t += [key] + json_tokens(v)
    return t


class Toks(XD.Toks):
    def json(self):
        k = self.z()
        if k == 0:
            return ('null',)
        if k == 1:
            return ('int', int(''.join(chr(c) for c in self.ostr())))
        if k == 2:
            return ('flt', self.z())
        if k == 3:
            return ('bool', self.z() == 1)
        if k == 4:
            return ('str', tuple(self.ostr()))
        if k == 9:
            return ('bad',)
        if k == 5:
            return ('arr', [self.json() for _ in range(self.z())])
        if k == 6:
            es = []
            for _ in range(self.z()):
                key = self.z()
                es.append((key, self.json()))
            return ('obj', es)
        raise ValueError(f'json token {k}')


def show(tb, x):
    """a document of the model, readable"""
    k = x[0]
    if k in ('null', 'bad'):
        return k
    if k == 'flt':
        return repr(tb.fl.values[x[1]]) if 0 <= x[1] < len(tb.fl.values) else f'float#{x[1]}'
    if k in ('int', 'bool'):
        return repr(x[1])
    if k == 'str':
        return repr(''.join(chr(c) if c < NB else '<' + tb.fname.get(c - NB, '?') + '>' for c in x[1]))
    if k == 'arr':
        return '[' + ', '.join(show(tb, y) for y in x[1]) + ']'
    names = {K_CLASS: 'eClass', K_REF: '$ref'}
    return '{' + ', '.join(f'{names.get(key) or tb.fname.get(key, key)}: {show(tb, v)}' for key, v in x[1]) + '}'


def first_json_diff(tb, a, b, where='$'):
    if a[0] != b[0]:
        return f'{where}: model {show(tb, a)[:120]} pyecore {show(tb, b)[:120]}'
    if a[0] == 'arr':
        if len(a[1]) != len(b[1]):
            return f'{where}: {len(a[1])} items in the model, {len(b[1])} written'
        for i, (x, y) in enumerate(zip(a[1], b[1])):
            d = first_json_diff(tb, x, y, f'{where}[{i}]')
            if d:
                return d
        return None
    if a[0] == 'obj':
        ka, kb = [k for k, _ in a[1]], [k for k, _ in b[1]]
        if ka != kb:
            names = {K_CLASS: 'eClass', K_REF: '$ref'}
            nm = lambda ks: [names.get(k) or tb.fname.get(k, k) for k in ks]       # noqa
            return f'{where}: keys: model {nm(ka)} pyecore {nm(kb)}'
        for (k, x), (_, y) in zip(a[1], b[1]):
            d = first_json_diff(tb, x, y, f'{where}.{ {K_CLASS: "eClass", K_REF: "$ref"}.get(k) or tb.fname.get(k, k)}')
            if d:
                return d
        return None
    return None if a == b else f'{where}: model {show(tb, a)[:120]} pyecore {show(tb, b)[:120]}'


# ---------------------------------------------------------------- observation of a forest
def observe(tb, F):
    """forest (names of values) -> comparable observation: tagged values (ser_gen.tag_value), children stably sorted by
    feature (an observation lists the children per feature)"""
    tags = {}
    for c in tb.mm['classes']:
        for f in c['features']:
            if f['kind'] == 'attr':
                tags[tb.fid[f['name']]] = (tb.tag(f), tb.built.features[f['name']])

    def val(f, t):
        if t is None:
            return ['n']
        tag, feat = tags[f]
        if tag == 0:
            return ['i', int(t)]
        if tag == 1:
            return G.tag_value(tb.fl.values[int(t)])
        if tag == 2:
            return ['b', t == 'true']
        if tag == 3:
            return ['s', t]
        return G._enum(G.tag_value(feat.eType.from_string(t)), feat, True)

    def one(n):
        return {'cls': n['cls'],
                'attrs': [(f, [val(f, t) for t in vals]) for f, vals in n['attrs']],
                'refs': [(f, list(ps)) for f, ps in n['refs']],
                'kids': sorted(((f, one(k)) for f, k in n['kids']), key=lambda e: e[0])}
    return [one(n) for n in F]


def count_json(x, pred):
    n = 1 if pred(x) else 0
    if x[0] == 'arr':
        n += sum(count_json(y, pred) for y in x[1])
    elif x[0] == 'obj':
        n += sum(count_json(v, pred) for _, v in x[1])
    return n


def nested_eclass(x, top=True):
    """number of contained objects written with "eClass" (instances of a subclass of the declared type)"""
    if x[0] == 'arr':
        return sum(nested_eclass(y, top) for y in x[1])
    if x[0] != 'obj':
        return 0
    keys = [k for k, _ in x[1]]
    if K_REF in keys:
        return 0
    return (1 if (K_CLASS in keys and not top) else 0) + sum(nested_eclass(v, False) for k, v in x[1] if k >= 0)


# ---------------------------------------------------------------- one case
def run_case(out, ask, st, mm, md, opts, built=None):
    """ask(name, tokens) -> tokens.  Returns True when the case was compared (a) and (b)."""
    URI = R._resource_classes()[0]
    built = built or G.Built(mm)
    tb = Tables(mm, built)
    case = {'mm': mm, 'md': md, 'format': 'json', 'options': opts, 'tie': 'jsondoc'}
    with tempfile.TemporaryDirectory(prefix='verif_jsondoc_') as d:
        path = os.path.join(d, 'model.json')
        rset = R.new_rset(built, 'json')
        res = rset.create_resource(URI(path), use_uuid=False)
        G.build_model(built, md, res)
        try:
            F = forest_of(tb, res, opts)
            mmt = tb.mm_tokens()
        except Unmodelled as e:
            st['outside_fragment'] = st.get('outside_fragment', 0) + 1
            st.setdefault('outside_reasons', {}).setdefault(str(e)[:60], 0)
            st['outside_reasons'][str(e)[:60]] += 1
            return False
        try:
            res.save(options=R.save_options('json', opts))
        except Exception as e:          # noqa
            out.diff(f'jsondoc: save raised {type(e).__name__}: {e} (the model predicts a document)', case)
            return False
        data = open(path, 'rb').read()
        rset2 = R.new_rset(built, 'json')
        loaded, load_exc = None, None
        try:
            loaded = rset2.get_resource(URI(path))
        except Exception as e:          # noqa
            load_exc = e
    # ---- (a) the document
    ans = ask('jsondoc_enc', mmt + [int(bool(opts.get('serialize_default')))] + XD.forest_tokens(F))
    if not ans or ans[0] != 1:
        out.diff('jsondoc: the model could not read the request', case)
        return False
    wf_mm, wf_forest, jwf_forest = ans[1], ans[2], ans[3]
    if not (wf_mm and wf_forest and jwf_forest):
        st['not_wf'] = st.get('not_wf', 0) + 1
        out.diff(f'jsondoc: a state built through the API is outside the premise of the theorem '
                 f'(wf_mm={wf_mm}, wf_forest={wf_forest}, jwf_forest={jwf_forest})', case)
        return False
    model_x = canon(Toks(ans[4:]).json())
    try:
        real_raw = doc_of_real(tb, json.loads(data.decode('utf-8')), st)
    except Unmodelled as e:
        out.diff(f'jsondoc: the document pyecore wrote is outside the modelled documents: {e}', case)
        return False
    real_x = canon(real_raw)
    d = first_json_diff(tb, model_x, real_x)
    if d:
        out.diff(f'jsondoc (a) document: {d}', case)
        return False
    # ---- (b) the load
    ans = ask('jsondoc_dec', mmt + json_tokens(real_x))
    if not ans or ans[0] != 1:
        out.diff('jsondoc: the model could not read the document', case)
        return False
    if ans[1] == 0:
        if load_exc is None:
            out.diff('jsondoc (b): decode_jdoc = None, pyecore loads the document', case)
            return False
        model_obs = None
    else:
        t = Toks(ans[2:])
        model_obs = observe(tb, [t.tree() for _ in range(t.z())])
    if load_exc is not None:
        if model_obs is not None:
            out.diff(f'jsondoc (b): pyecore load raised {type(load_exc).__name__}: {load_exc}; decode_jdoc gives a model', case)
        return False
    try:
        real_obs = observe(tb, forest_of(tb, loaded, {}, with_isset=False))
    except Unmodelled as e:
        out.diff(f'jsondoc (b): the loaded model is outside the modelled states: {e}', case)
        return False
    d = XD.first_obs_diff(model_obs, real_obs)
    if d:
        out.diff(f'jsondoc (b) loaded model: {d}', case)
        return False
    # ---- the theorem's instance, evaluated (no part of the tie: the oracle's statement on this case)
    src_obs = observe(tb, [dict(n) for n in F])
    st['round_trip_equal'] = st.get('round_trip_equal', 0) + (1 if XD.first_obs_diff(src_obs, real_obs) is None else 0)
    describe(st, tb, F, real_x, opts)
    return True


def describe(st, tb, F, real_x, opts):
    h = XD._hist
    st['cases'] = st.get('cases', 0) + 1
    dpt, wid = XD.depth_width(F)
    h(st.setdefault('depth', {}), dpt)
    h(st.setdefault('width', {}), min(wid, 8))
    h(st.setdefault('roots', {}), len(F))
    h(st.setdefault('options', {}), 'serialize_default' if opts.get('serialize_default') else 'none')
    if len(F) != 1:
        st['multi_root_array'] = st.get('multi_root_array', 0) + 1
    if nested_eclass(real_x):
        st['with_nested_eclass'] = st.get('with_nested_eclass', 0) + 1
    if count_json(real_x, lambda x: x[0] == 'null'):
        st['with_null'] = st.get('with_null', 0) + 1
    refs = sum(1 for _ in XD.iter_refs(F))
    if refs:
        st['with_cross_references'] = st.get('with_cross_references', 0) + 1
    st['objects'] = st.get('objects', 0) + sum(1 for _ in XD.iter_nodes(F))
    st['reference_targets'] = st.get('reference_targets', 0) + refs
    kinds = st.setdefault('json_atoms', {})

    def atoms(x):
        if x[0] == 'arr':
            for y in x[1]:
                atoms(y)
        elif x[0] == 'obj':
            for k, v in x[1]:
                if k >= 0:
                    atoms(v)
        else:
            h(kinds, x[0])
    atoms(real_x)


def gen_options(rng):
    return {'uuid': False, 'serialize_default': rng.random() < 0.4}


def corr_jsondoc(prop, out, model, st, rng, n_cases, t_end, oracle_stats):
    """whole documents: real save vs encode_jdoc, real load vs decode_jdoc.  A case on which the tie breaks is also
    handed to the oracle, so that a regression of save/load comes with a failing input."""
    import time
    import traceback
    serial, tried, seen = 0, 0, {}
    while tried < n_cases and time.time() < t_end:
        mm = XD.restrict_mm(G.gen_metamodel(rng, 2000 + serial))
        serial += 1
        st['metamodels'] = st.get('metamodels', 0) + 1
        built = G.Built(mm)
        for _ in range(4):
            if tried >= n_cases or time.time() > t_end:
                break
            md = XD.restrict_md(mm, G.gen_model(rng, mm, 'json', odd_ids=False))
            if rng.random() < 0.04:
                md = {'roots': [], 'objs': {}}          # a resource without root
            opts = gen_options(rng)
            tried += 1
            before = len(out.corr_diffs)
            try:
                run_case(out, model.ask, st, mm, md, opts, built)
            except Exception as e:          # noqa
                out.diff(f'jsondoc: the case could not be carried out: {type(e).__name__}: {e}',
                         {'mm': mm, 'md': md, 'format': 'json', 'options': opts, 'traceback': traceback.format_exc()[-800:]})
            if len(out.corr_diffs) > before and st.get('handed_to_oracle', 0) < 6:
                st['handed_to_oracle'] = st.get('handed_to_oracle', 0) + 1
                R.run_case(prop, 'json', out, oracle_stats, mm, md, opts, lambda: time.time() + 6, seen)
            if len(st.setdefault('samples', [])) < 2 and len(md['objs']) >= 3:
                st['samples'].append({'options': opts, 'model': md, 'classes': [c['name'] for c in mm['classes']]})
    st['tried'] = tried
