(* C06, continued: what Props/C06.v listed as partial after Proofs/C06Refs.v.
   1. Compound, generically: the members of a Compound (as prepared by
      can_execute in the compound's initial state) are executed one after the
      other; if each of them `inverts` between the states it meets, undo of the
      compound (members in reverse order) and redo (members in order) invert
      as a whole.  What the model's can_execute / can_undo of a Compound ask.
   2. Containment references WITH an opposite (children <-> container end)
      under the global invariant WF of Proofs/WFBase.v, and the lift of the
      containment kinds to words over the CommandStack.
   3. Delete.
   4. k undos then k redos for the enlarged command set.
   Nothing here changes a definition of the model or of the earlier proofs. *)
From Coq Require Import ZArith List Bool Arith Lia.
From PyecoreV Require Import Lib.PyBase Lib.PyList Model.Kernel Model.KernelIO Model.Commands
     Proofs.PyListFacts Proofs.KernelFacts Proofs.C01Proofs Proofs.C01Full Proofs.C03Proofs Proofs.C02Proofs
     Proofs.WFBase Proofs.WFRemove Proofs.SymLink Proofs.OwnPrim Proofs.OwnAdd Proofs.OwnSet Proofs.OwnColl
     Proofs.OwnAll Proofs.C06Proofs Proofs.C06Refs.
From PyecoreV Require Proofs.C07Full.
Import ListNotations.
Open Scope nat_scope.

(* ====================================================================== *)
(* 1. Compound                                                             *)
(* ====================================================================== *)
Section CompoundFns.
Variable m : mm.

(* the loops of Commands.v's Compound cases, as top-level functions *)
Fixpoint cexec (s0 : state) (acc l : list cmd) {struct l} : outcome * list cmd * list cmd :=
  match l with
  | [] => ((None, s0), [], acc)
  | c1 :: r =>
    let '(o, c1') := execute m s0 c1 in
    if raised o then (o, c1' :: r, acc)
    else let '(o', r', acc') := cexec (snd o) (c1' :: acc) r in (o', c1' :: r', acc')
  end.

Fixpoint cundo (s0 : state) (l : list cmd) {struct l} : outcome * list cmd :=
  match l with
  | [] => ((None, s0), [])
  | c1 :: r =>
    let '(o, r') := cundo s0 r in
    if raised o then (o, c1 :: r')
    else let '(o', c1') := undo m (snd o) c1 in (o', c1' :: r')
  end.

Fixpoint credo (s0 : state) (l : list cmd) {struct l} : outcome * list cmd :=
  match l with
  | [] => ((None, s0), [])
  | c1 :: r =>
    let '(o, c1') := redo m s0 c1 in
    if raised o then (o, c1' :: r)
    else let '(o', r') := credo (snd o) r in (o', c1' :: r')
  end.

Definition ccanu (s : state) : list cmd -> res bool :=
  fix go (l : list cmd) : res bool :=
    match l with
    | [] => Ok true
    | c1 :: r => match can_undo m s c1 with Ok true => go r | b => b end
    end.

Definition ccane (s : state) : list cmd -> res bool * list cmd :=
  fix go (l : list cmd) : res bool * list cmd :=
    match l with
    | [] => (Ok true, [])
    | c1 :: r =>
      match can_execute m s c1 with
      | (Ok true, c1') => let '(b, r') := go r in (b, c1' :: r')
      | (b, c1') => (b, c1' :: r)
      end
    end.

Lemma execute_compound s cs :
  execute m s (CCompound cs) =
  (let '(o, cs', acc) := cexec s [] cs in
   match o with
   | (Some e, s1) =>
     let o2 := rollback m acc s1 in
     ((Some (match fst o2 with Some e2 => e2 | None => e end), snd o2), CCompound cs')
   | _ => (o, CCompound cs')
   end).
Proof. reflexivity. Qed.

Lemma undo_compound s cs :
  undo m s (CCompound cs) = (let '(o, cs') := cundo s cs in (o, CCompound cs')).
Proof. reflexivity. Qed.

Lemma redo_compound s cs :
  redo m s (CCompound cs) = (let '(o, cs') := credo s cs in (o, CCompound cs')).
Proof. reflexivity. Qed.

Lemma can_undo_compound s cs : can_undo m s (CCompound cs) = ccanu s cs.
Proof. reflexivity. Qed.

Lemma can_execute_compound s cs :
  can_execute m s (CCompound cs) = (let '(b, cs') := ccane s cs in (b, CCompound cs')).
Proof. reflexivity. Qed.

End CompoundFns.

(* induction over commands, members of a Compound included *)
Section CmdInd.
Variable Q : cmd -> Prop.
Hypothesis HSet : forall x f v p, Q (CSet x f v p).
Hypothesis HAdd : forall x f v i, Q (CAdd x f v i).
Hypothesis HRemove : forall x f v i, Q (CRemove x f v i).
Hypothesis HMove : forall x f v fr to, Q (CMove x f v fr to).
Hypothesis HDelete : forall x r i, Q (CDelete x r i).
Hypothesis HCompound : forall cs, Forall Q cs -> Q (CCompound cs).

Fixpoint cmd_ind2 (c : cmd) : Q c :=
  match c with
  | CSet x f v p => HSet x f v p
  | CAdd x f v i => HAdd x f v i
  | CRemove x f v i => HRemove x f v i
  | CMove x f v fr to => HMove x f v fr to
  | CDelete x r i => HDelete x r i
  | CCompound cs =>
    HCompound cs ((fix go (l : list cmd) : Forall Q l :=
                     match l with
                     | [] => Forall_nil Q
                     | c1 :: r => Forall_cons c1 (cmd_ind2 c1) (go r)
                     end) cs)
  end.
End CmdInd.

Section CompoundThms.
Variable m : mm.

Lemma ccanu_cons s c r :
  ccanu m s (c :: r) = match can_undo m s c with Ok true => ccanu m s r | b => b end.
Proof. reflexivity. Qed.

Lemma ccane_cons s c r :
  ccane m s (c :: r) =
  match can_execute m s c with
  | (Ok true, c1') => let '(b, r') := ccane m s r in (b, c1' :: r')
  | (b, c1') => (b, c1' :: r)
  end.
Proof. reflexivity. Qed.

(* can_undo reads the feature values only *)
Lemma can_undo_vals c : forall s t, (forall k, vals s k = vals t k) -> can_undo m s c = can_undo m t c.
Proof.
  induction c using cmd_ind2; intros s t E; try reflexivity.
  - cbn [can_undo]. rewrite (E (x, f)). reflexivity.
  - cbn [can_undo]. rewrite (E (x, f)). reflexivity.
  - rewrite !can_undo_compound. induction H as [|c cs Hc Hcs IH]; [reflexivity|].
    rewrite !ccanu_cons. rewrite (Hc s t E). destruct (can_undo m t c) as [[|]|]; try reflexivity. exact IH.
Qed.

Lemma can_undo_obs_eq c s t : obs_eq s t -> can_undo m s c = can_undo m t c.
Proof. intros (E & _). apply can_undo_vals. exact E. Qed.

(* ---------- the members one after the other ---------- *)
(* seq_exec s cs s' cs': every member executes without raising, from s to s', recorded as cs' *)
Inductive seq_exec : state -> list cmd -> state -> list cmd -> Prop :=
| se_nil s : seq_exec s [] s []
| se_cons s c r s1 c' s2 r' :
    execute m s c = ((None, s1), c') -> seq_exec s1 r s2 r' -> seq_exec s (c :: r) s2 (c' :: r').

(* seq_inv cs s0 s1: every recorded member inverts between the states it met *)
Inductive seq_inv : list cmd -> state -> state -> Prop :=
| si_nil s : seq_inv [] s s
| si_cons c cs s0 s1 s2 : inverts m c s0 s1 -> seq_inv cs s1 s2 -> seq_inv (c :: cs) s0 s2.

Lemma raised_none s : raised (None, s) = false.
Proof. reflexivity. Qed.
Lemma raised_some e s : raised (Some e, s) = true.
Proof. reflexivity. Qed.

Lemma cexec_seq s cs s' cs' :
  seq_exec s cs s' cs' -> forall acc, cexec m s acc cs = ((None, s'), cs', rev cs' ++ acc).
Proof.
  induction 1 as [s|s c r s1 c' s2 r' E _ IH]; intros acc; [reflexivity|].
  cbn [cexec]. rewrite E. cbn [raised fst snd]. rewrite (IH (c' :: acc)).
  cbn [rev]. rewrite <- app_assoc. reflexivity.
Qed.

Lemma cexec_ok cs : forall s acc s' cs' acc',
  cexec m s acc cs = ((None, s'), cs', acc') -> seq_exec s cs s' cs' /\ acc' = rev cs' ++ acc.
Proof.
  induction cs as [|c r IH]; intros s acc s' cs' acc' H; cbn [cexec] in H.
  - inversion H; subst. split; [constructor | reflexivity].
  - destruct (execute m s c) as [[[e|] s1] c'] eqn:E; cbn [raised fst snd] in H; [inversion H|].
    destruct (cexec m s1 (c' :: acc) r) as [[[oe s2] r'] acc2] eqn:E2.
    inversion H; subst. destruct (IH _ _ _ _ _ E2) as [S A]. split; [econstructor; eauto|].
    rewrite A. cbn [rev]. rewrite <- app_assoc. reflexivity.
Qed.

(* a member raises: the members before it were executed, the rest is left alone *)
Lemma cexec_raise cs : forall s acc e s1 cs' acc',
  cexec m s acc cs = ((Some e, s1), cs', acc') ->
  exists pre c post sj pre' c',
    cs = pre ++ c :: post /\ seq_exec s pre sj pre' /\ execute m sj c = ((Some e, s1), c') /\
    cs' = pre' ++ c' :: post /\ acc' = rev pre' ++ acc.
Proof.
  induction cs as [|c r IH]; intros s acc e s1 cs' acc' H; cbn [cexec] in H; [inversion H|].
  destruct (execute m s c) as [[[e0|] s0] c'] eqn:E; cbn [raised fst snd] in H.
  - inversion H; subst. exists [], c, r, s, [], c'. repeat split; try reflexivity; try constructor. exact E.
  - destruct (cexec m s0 (c' :: acc) r) as [[[oe s2] r'] acc2] eqn:E2. inversion H; subst.
    destruct (IH _ _ _ _ _ _ E2) as (pre & c0 & post & sj & pre' & c0' & A & B & C & D & F).
    exists (c :: pre), c0, post, sj, (c' :: pre'), c0'. subst. repeat split; try reflexivity.
    + econstructor; eauto.
    + exact C.
    + cbn [rev]. rewrite <- app_assoc. reflexivity.
Qed.

(* ---------- undo in reverse order, redo in order ---------- *)
Lemma cundo_inv cs s0 s1 :
  seq_inv cs s0 s1 -> forall t, obs_eq t s1 -> exists t', cundo m t cs = ((None, t'), cs) /\ obs_eq t' s0.
Proof.
  induction 1 as [s|c cs s0 s1 s2 I _ IH]; intros t Ht.
  - exists t. split; [reflexivity | exact Ht].
  - destruct (IH t Ht) as (t1 & E1 & O1). destruct I as [U _].
    destruct (U t1 O1) as (_ & t' & Eu & Ot').
    exists t'. cbn [cundo]. rewrite E1. cbn [raised fst snd]. rewrite Eu. split; [reflexivity | exact Ot'].
Qed.

Lemma credo_inv cs s0 s1 :
  seq_inv cs s0 s1 -> forall t, obs_eq t s0 -> exists t', credo m t cs = ((None, t'), cs) /\ obs_eq t' s1.
Proof.
  induction 1 as [s|c cs s0 s1 s2 I _ IH]; intros t Ht.
  - exists t. split; [reflexivity | exact Ht].
  - destruct I as [_ R]. destruct (R t Ht) as (t1 & Er & O1).
    destruct (IH t1 O1) as (t' & E' & Ot').
    exists t'. cbn [credo]. rewrite Er. cbn [raised fst snd]. rewrite E'. split; [reflexivity | exact Ot'].
Qed.

Lemma rollback_app a b s :
  rollback m (a ++ b) s = (if raised (rollback m a s) then rollback m a s else rollback m b (snd (rollback m a s))).
Proof.
  revert s. induction a as [|c a IH]; intros s; [reflexivity|].
  cbn [app rollback]. destruct (raised (fst (undo m s c))) eqn:E.
  - rewrite E. reflexivity.
  - apply IH.
Qed.

(* the except branch of Compound.execute on the executed members *)
Lemma rollback_inv cs s0 s1 :
  seq_inv cs s0 s1 -> forall t, obs_eq t s1 -> exists t', rollback m (rev cs) t = (None, t') /\ obs_eq t' s0.
Proof.
  induction 1 as [s|c cs s0 s1 s2 I _ IH]; intros t Ht.
  - exists t. split; [reflexivity | exact Ht].
  - destruct (IH t Ht) as (t1 & E1 & O1). destruct I as [U _].
    destruct (U t1 O1) as (_ & t' & Eu & Ot').
    exists t'. cbn [rev]. rewrite rollback_app, E1. cbn [raised fst snd rollback]. rewrite Eu.
    cbn [raised fst snd]. split; [reflexivity | exact Ot'].
Qed.

(* THE COMPOUND THEOREM: members that invert one after the other make a compound that inverts; the
   only extra premise is the model's Compound.can_undo, which asks every member on the FINAL state *)
Theorem compound_inverts cs s0 s1 :
  seq_inv cs s0 s1 -> can_undo m s1 (CCompound cs) = Ok true -> inverts m (CCompound cs) s0 s1.
Proof.
  intros SI CU. split.
  - intros t Ht. split; [rewrite (can_undo_obs_eq _ t s1 Ht); exact CU|].
    destruct (cundo_inv cs s0 s1 SI t Ht) as (t' & E & O). exists t'. rewrite undo_compound, E. split; [reflexivity | exact O].
  - intros t Ht. destruct (credo_inv cs s0 s1 SI t Ht) as (t' & E & O).
    exists t'. rewrite redo_compound, E. split; [reflexivity | exact O].
Qed.

(* without the can_undo premise: what undo and redo DO when they are called *)
Theorem compound_undo_redo cs s0 s1 :
  seq_inv cs s0 s1 ->
  (forall t, obs_eq t s1 -> exists t', undo m t (CCompound cs) = ((None, t'), CCompound cs) /\ obs_eq t' s0) /\
  (forall t, obs_eq t s0 -> exists t', redo m t (CCompound cs) = ((None, t'), CCompound cs) /\ obs_eq t' s1).
Proof.
  intros SI. split; intros t Ht.
  - destruct (cundo_inv cs s0 s1 SI t Ht) as (t' & E & O). exists t'. rewrite undo_compound, E. split; [reflexivity | exact O].
  - destruct (credo_inv cs s0 s1 SI t Ht) as (t' & E & O). exists t'. rewrite redo_compound, E. split; [reflexivity | exact O].
Qed.

(* execution of a compound that does not raise = successive execution of its members *)
Lemma execute_compound_ok s cs s' c2 :
  execute m s (CCompound cs) = ((None, s'), c2) -> exists cs', c2 = CCompound cs' /\ seq_exec s cs s' cs'.
Proof.
  rewrite execute_compound. destruct (cexec m s [] cs) as [[[[e|] s1] cs'] acc] eqn:E; intros H; [inversion H|].
  inversion H; subst. exists cs'. split; [reflexivity|]. exact (proj1 (cexec_ok _ _ _ _ _ _ E)).
Qed.

Lemma seq_exec_execute s cs s' cs' :
  seq_exec s cs s' cs' -> execute m s (CCompound cs) = ((None, s'), CCompound cs').
Proof. intros H. rewrite execute_compound, (cexec_seq _ _ _ _ H []). reflexivity. Qed.

(* a compound that raises: some member raised in the state the members before it left, and the
   members before it are rolled back from there *)
Lemma execute_compound_raise s cs e s' c2 :
  execute m s (CCompound cs) = ((Some e, s'), c2) ->
  exists pre c post sj pre' e0 s1 c',
    cs = pre ++ c :: post /\ seq_exec s pre sj pre' /\ execute m sj c = ((Some e0, s1), c') /\
    s' = snd (rollback m (rev pre') s1).
Proof.
  rewrite execute_compound. destruct (cexec m s [] cs) as [[[[e0|] s1] cs'] acc] eqn:E; intros H; [|inversion H].
  destruct (cexec_raise _ _ _ _ _ _ _ E) as (pre & c & post & sj & pre' & c' & A & B & C & D & F).
  exists pre, c, post, sj, pre', e0, s1, c'. rewrite app_nil_r in F. subst acc.
  inversion H; subst. repeat split; try reflexivity; assumption.
Qed.

End CompoundThms.

(* ---------- closing a set of covered commands under Compound ---------- *)
(* P: invariant of the model state; ok0: side condition of the primitive commands in the state they
   meet.  A covered command that raises may leave a state that differs in what the property does not
   observe (a rolled-back compound leaves notifications behind), hence obs_eq in ok0_raise. *)
Section Closure.
Variable m : mm.
Variable P : state -> Prop.
Variable ok0 : state -> cmd -> Prop.
Hypothesis P_obs : forall s t, obs_eq s t -> P s -> P t.
Hypothesis ok0_exec : forall s c c1 s' c2,
  P s -> ok0 s c -> can_execute m s c = (Ok true, c1) -> execute m s c1 = ((None, s'), c2) ->
  inverts m c2 s s' /\ P s'.
Hypothesis ok0_raise : forall s c c1 e s' c2,
  P s -> ok0 s c -> can_execute m s c = (Ok true, c1) -> execute m s c1 = ((Some e, s'), c2) -> obs_eq s' s.

(* the member as can_execute of the compound, asked in the compound's initial state s0, leaves it *)
Definition prep (s0 : state) (c : cmd) : cmd := snd (can_execute m s0 c).

(* every member, in the state si it meets: is covered there, would be accepted on its own there with
   the same recorded fields as when asked in s0 (the contrary is F-C06-compound-members-interfere) *)
Definition okM (Q : state -> cmd -> Prop) (s0 : state) : state -> list cmd -> Prop :=
  fix go (si : state) (l : list cmd) : Prop :=
    match l with
    | [] => True
    | c :: r =>
      Q si c /\ can_execute m si c = (Ok true, prep s0 c) /\
      (raised (fst (execute m si (prep s0 c))) = false -> go (snd (fst (execute m si (prep s0 c)))) r)
    end.

(* Compound.can_undo accepts on the state the compound leaves (the contrary is F-C06-compound-can-undo) *)
Definition cu_end (s : state) (c : cmd) : Prop :=
  let r := execute m s (prep s c) in raised (fst r) = false -> can_undo m (snd (fst r)) (snd r) = Ok true.

Fixpoint okC (s : state) (c : cmd) {struct c} : Prop :=
  match c with
  | CCompound cs => okM okC s s cs /\ cu_end s c
  | _ => ok0 s c
  end.

Lemma okM_cons Q s0 si c r :
  okM Q s0 si (c :: r) =
  (Q si c /\ can_execute m si c = (Ok true, prep s0 c) /\
   (raised (fst (execute m si (prep s0 c))) = false -> okM Q s0 (snd (fst (execute m si (prep s0 c)))) r)).
Proof. reflexivity. Qed.

Lemma ccane_ok s l l1 : ccane m s l = (Ok true, l1) -> l1 = map (prep s) l.
Proof.
  revert l1. induction l as [|c r IH]; intros l1 H.
  - inversion H. reflexivity.
  - rewrite ccane_cons in H. unfold prep at 1. cbn [map].
    destruct (can_execute m s c) as [[[|]|e] c1'] eqn:E; try (inversion H; fail).
    destruct (ccane m s r) as [b r'] eqn:E2. inversion H; subst. cbn [snd]. f_equal. apply IH. reflexivity.
Qed.

Definition exec_stmt (c : cmd) : Prop :=
  forall s c1 s' c2, P s -> okC s c -> can_execute m s c = (Ok true, c1) -> execute m s c1 = ((None, s'), c2) ->
                     inverts m c2 s s' /\ P s'.
Definition raise_stmt (c : cmd) : Prop :=
  forall s c1 e s' c2, P s -> okC s c -> can_execute m s c = (Ok true, c1) -> execute m s c1 = ((Some e, s'), c2) ->
                       obs_eq s' s.

Lemma members_run l : Forall (fun c => exec_stmt c /\ raise_stmt c) l ->
  forall s0 si s' l2, P si -> okM okC s0 si l -> seq_exec m si (map (prep s0) l) s' l2 ->
                      seq_inv m l2 si s' /\ P s'.
Proof.
  induction 1 as [|c r [Hc _] _ IH]; intros s0 si s' l2 HP HM HS.
  - inversion HS; subst. split; [constructor | exact HP].
  - cbn [map] in HS. inversion HS as [|a1 a2 a3 s1 c' a6 r' E HS']; subst.
    rewrite okM_cons in HM. destruct HM as (HQ & HCE & HR). rewrite E in HR. cbn [raised fst snd] in HR.
    destruct (Hc si (prep s0 c) s1 c' HP HQ HCE E) as (I & HP1).
    destruct (IH s0 s1 s' r' HP1 (HR eq_refl) HS') as (SI & HP').
    split; [econstructor; eauto | exact HP'].
Qed.

Lemma members_raise l : Forall (fun c => exec_stmt c /\ raise_stmt c) l ->
  forall s0 si acc e s1 l2 acc', P si -> okM okC s0 si l ->
    cexec m si acc (map (prep s0) l) = ((Some e, s1), l2, acc') ->
    exists pre' sj, acc' = rev pre' ++ acc /\ seq_inv m pre' si sj /\ obs_eq s1 sj.
Proof.
  induction 1 as [|c r [Hc Hr] _ IH]; intros s0 si acc e s1 l2 acc' HP HM HX; cbn [map cexec] in HX; [inversion HX|].
  rewrite okM_cons in HM. destruct HM as (HQ & HCE & HR).
  destruct (execute m si (prep s0 c)) as [[[e0|] sa] c'] eqn:E; cbn [raised fst snd] in HX, HR.
  - inversion HX; subst. exists [], si. split; [reflexivity|]. split; [constructor|].
    exact (Hr si (prep s0 c) e s1 c' HP HQ HCE E).
  - destruct (cexec m sa (c' :: acc) (map (prep s0) r)) as [[[oe s2] r'] acc2] eqn:E2. inversion HX; subst.
    destruct (Hc si (prep s0 c) sa c' HP HQ HCE E) as (I & HP1).
    destruct (IH s0 sa (c' :: acc) e s1 r' acc' HP1 (HR eq_refl) E2) as (pre' & sj & A & SI & O).
    exists (c' :: pre'), sj. split; [rewrite A; cbn [rev]; rewrite <- app_assoc; reflexivity|].
    split; [econstructor; eauto | exact O].
Qed.

Theorem okC_closed c : exec_stmt c /\ raise_stmt c.
Proof.
  induction c using cmd_ind2;
    try (split; [intros s c1 s' c2 HP HO; exact (ok0_exec s _ c1 s' c2 HP HO)
                | intros s c1 e s' c2 HP HO; exact (ok0_raise s _ c1 e s' c2 HP HO)]).
  split.
  - intros s c1 s' c2 HP HO HC HE. cbn [okC] in HO. destruct HO as [HM HU].
    unfold cu_end, prep in HU. rewrite HC in HU. cbn [snd] in HU. rewrite HE in HU. cbn [raised fst snd] in HU.
    rewrite can_execute_compound in HC. destruct (ccane m s cs) as [b l1] eqn:EC. inversion HC; subst b c1.
    apply ccane_ok in EC. subst l1.
    destruct (execute_compound_ok m s _ s' c2 HE) as (l2 & -> & HS).
    destruct (members_run cs H s s s' l2 HP HM HS) as (SI & HP').
    split; [|exact HP']. apply compound_inverts; [exact SI | exact (HU eq_refl)].
  - intros s c1 e s' c2 HP HO HC HE. cbn [okC] in HO. destruct HO as [HM _].
    rewrite can_execute_compound in HC. destruct (ccane m s cs) as [b l1] eqn:EC. inversion HC; subst b c1.
    apply ccane_ok in EC. subst l1.
    rewrite execute_compound in HE.
    destruct (cexec m s [] (map (prep s) cs)) as [[[[e0|] s1] l2] acc] eqn:EX; [|inversion HE].
    destruct (members_raise cs H s s [] e0 s1 l2 acc HP HM EX) as (pre' & sj & A & SI & O).
    rewrite app_nil_r in A. subst acc.
    destruct (rollback_inv m pre' s sj SI s1 O) as (t' & ER & OT).
    rewrite ER in HE. cbn [fst snd] in HE. inversion HE; subst. exact OT.
Qed.

Lemma okC_exec s c c1 s' c2 :
  P s -> okC s c -> can_execute m s c = (Ok true, c1) -> execute m s c1 = ((None, s'), c2) ->
  inverts m c2 s s' /\ P s'.
Proof. exact (proj1 (okC_closed c) s c1 s' c2). Qed.

Lemma okC_raise s c c1 e s' c2 :
  P s -> okC s c -> can_execute m s c = (Ok true, c1) -> execute m s c1 = ((Some e, s'), c2) -> obs_eq s' s.
Proof. exact (proj2 (okC_closed c) s c1 e s' c2). Qed.

End Closure.

(* ---------- words: C06Refs' GenericWords with `a failed execute leaves an observably equal state` ---------- *)
Section GenericWords2.
Variable m : mm.
Variable P : state -> Prop.
Variable ok : state -> cmd -> Prop.
Hypothesis P_obs : forall s t, obs_eq s t -> P s -> P t.
Hypothesis ok_exec : forall s c c1 s' c2,
  P s -> ok s c -> can_execute m s c = (Ok true, c1) -> execute m s c1 = ((None, s'), c2) ->
  inverts m c2 s s' /\ P s'.
Hypothesis ok_raise : forall s c c1 e s' c2,
  P s -> ok s c -> can_execute m s c = (Ok true, c1) -> execute m s c1 = ((Some e, s'), c2) -> obs_eq s' s.

Lemma g2_step_inv a o : ginv m P a -> gop_ok ok (fst (fst a)) o -> ginv m P (snd (a_step m a o)).
Proof.
  destruct a as [[s d] u]. intros Inv Hok. destruct o as [c| |]; unfold a_step.
  - cbn [gop_ok fst] in Hok. destruct Inv as (W & Ch & Fu). unfold a_execute.
    destruct (can_execute m s c) as [[[|]|e] c1] eqn:HC; simpl; try (split; [|split]; assumption).
    destruct (execute m s c1) as [[[e|] s'] c2] eqn:HE; simpl.
    + pose proof (ok_raise s c c1 e s' c2 W Hok HC HE) as O. apply obs_eq_sym in O.
      split; [exact (P_obs s s' O W)|]. split; [exact (gchain_obs_eq m P d s s' O Ch) | exact (gfuture_obs_eq m P u s s' O Fu)].
    + destruct (ok_exec s c c1 s' c2 W Hok HC HE) as (I & W').
      split; [exact W'|]. split; [exact (gchain_cons m P c2 d s s' W Ch I) | constructor].
  - destruct d as [|c d].
    + simpl. exact Inv.
    + destruct (g_undo_inv m P P_obs s c d u Inv) as (t & E & I & _). rewrite E. exact I.
  - destruct u as [|c u].
    + simpl. exact Inv.
    + destruct (g_redo_inv m P P_obs s c d u Inv) as (t & E & I). rewrite E. exact I.
Qed.

Lemma g2_run_inv a w : ginv m P a -> run_ok m ok a w -> ginv m P (a_run m a w).
Proof.
  revert a. induction w as [|o w IH]; intros a Inv Hok; [exact Inv|].
  destruct Hok as [H1 H2]. unfold a_run in *. simpl. apply IH; [|exact H2]. apply g2_step_inv; assumption.
Qed.

Theorem g2_invariant_of_words s0 w :
  P s0 -> run_ok m ok (s0, [], []) w -> ginv m P (abs (st_run m (s0, empty_stack) w)).
Proof.
  intros W Hok. destruct (stack_refinement_from_empty m s0 w) as (_ & E). rewrite E.
  apply g2_run_inv; [|exact Hok]. split; [exact W|]. split; constructor.
Qed.

Theorem g2_k_undo_k_redo_stack s0 w k :
  P s0 -> run_ok m ok (s0, [], []) w ->
  let ms := st_run m (s0, empty_stack) w in
  (k <= length (done_of (snd ms)))%nat ->
  let ms' := st_run m ms (repeat SUndo k ++ repeat SRedo k) in
  obs_eq (fst ms') (fst ms) /\ snd ms' = snd ms.
Proof.
  intros W Hok ms L ms'.
  destruct (stack_refinement_from_empty m s0 w) as (Wf & E). fold ms in Wf, E.
  pose proof (g2_invariant_of_words s0 w W Hok) as Inv. fold ms in Inv.
  destruct (stack_refinement m ms (repeat SUndo k ++ repeat SRedo k) Wf) as (Wf' & E'). fold ms' in Wf', E'.
  unfold abs in Inv at 1.
  destruct (g_k_undo_k_redo m P P_obs k (fst ms) (done_of (snd ms)) (undone_of (snd ms)) Inv L) as (s' & Er & Os & _).
  unfold abs in E' at 2. rewrite Er in E'. unfold abs in E'. inversion E' as [[Es Ed Eu]].
  split; [rewrite Es; exact Os|]. apply stack_ext; assumption.
Qed.
End GenericWords2.

(* ====================================================================== *)
(* 2. Containment with an opposite: children <-> container end             *)
(* ====================================================================== *)
(* f is a containment reference whose opposite g is the (single-valued, non-containment) container end *)
Record ce_pair (m : mm) (f g : fid) : Prop := {
  ce_ref_f : f_isref (fd m f) = true;
  ce_cont_f : f_cont (fd m f) = true;
  ce_opp_f : f_opp (fd m f) = Some g;
  ce_ref_g : f_isref (fd m g) = true;
  ce_single_g : f_many (fd m g) = false;
  ce_cont_g : f_cont (fd m g) = false;
  ce_opp_g : f_opp (fd m g) = Some f
}.

Lemma ce_pair_of_wf m f g : wf_mm m -> f_cont (fd m f) = true -> f_opp (fd m f) = Some g -> ce_pair m f g.
Proof.
  intros W Hc Ho. destruct (wf_container_end m W f g Ho Hc) as [A B].
  pose proof (wf_opp_inv m W f g Ho) as Hg.
  constructor; try assumption; [exact (wf_opp_ref m W f g Ho) | exact (wf_opp_ref m W g f Hg)].
Qed.

Lemma ce_neq m f g : ce_pair m f g -> f <> g.
Proof. intros [_ A _ _ _ B _] E. subst g. congruence. Qed.

Lemma ce_cells m f g (a b : oid) : ce_pair m f g -> ((a, f) : cell) <> (b, g).
Proof. intros H E. inversion E. exact (ce_neq m f g H ltac:(assumption)). Qed.

Lemma upd_comm {A} (V : cell -> A) k l k2 l2 k' : k <> k2 -> upd (upd V k l) k2 l2 k' = upd (upd V k2 l2) k l k'.
Proof.
  intros N. unfold upd. destruct (cell_eqb_spec k2 k') as [E2|N2]; destruct (cell_eqb_spec k k') as [E1|N1]; try reflexivity.
  exfalso. apply N. congruence.
Qed.

(* two slots (the owner's and the child's container end) and the container of the child change *)
Definition cc2 (s0 s1 : state) (x : oid) (f : fid) (lx : list value) (y : oid) (g : fid) (ly : list value)
           (c : option cell) : Prop :=
  (forall k', vals s1 k' = upd (upd (vals s0) (y, g) ly) (x, f) lx k') /\
  (forall o, cont s1 o = updn (cont s0) y c o) /\
  (forall o, eres s1 o = eres s0 o) /\ (forall r, rcont s1 r = rcont s0 r).

Lemma cc2_vals_x s s' x f lx y g ly c : cc2 s s' x f lx y g ly c -> vals s' (x, f) = lx.
Proof. intros (V & _). rewrite V. apply upd_same. Qed.

Lemma cc2_vals_y s s' x f lx y g ly c : (x, f) <> (y, g) -> cc2 s s' x f lx y g ly c -> vals s' (y, g) = ly.
Proof. intros N (V & _). rewrite V. rewrite upd_other by exact N. apply upd_same. Qed.

Lemma cc2_cont s s' x f lx y g ly c : cc2 s s' x f lx y g ly c -> cont s' y = c.
Proof. intros (_ & C & _). rewrite C. unfold updn. rewrite Nat.eqb_refl. reflexivity. Qed.

Lemma cc2_back (s s' t t' : state) x f lx y g ly c :
  cc2 s s' x f lx y g ly c -> obs_eq t s' ->
  cc2 t t' x f (vals s (x, f)) y g (vals s (y, g)) (cont s y) -> obs_eq t' s.
Proof.
  intros (V1 & C1 & E1 & R1) (A & B & C & D) (V2 & C2 & E2 & R2).
  repeat split; intros.
  - rewrite V2. unfold upd. destruct (cell_eqb_spec (x, f) k) as [<-|N1]; [reflexivity|].
    destruct (cell_eqb_spec (y, g) k) as [<-|N2]; [reflexivity|].
    rewrite A, V1. rewrite !upd_other by assumption. reflexivity.
  - rewrite C2. unfold updn. destruct (Nat.eqb_spec y o) as [->|N]; [reflexivity|].
    rewrite B, C1. unfold updn. destruct (Nat.eqb_spec y o); [contradiction | reflexivity].
  - rewrite E2, C, E1. reflexivity.
  - rewrite R2, D, R1. reflexivity.
Qed.

Lemma cc2_again (s s' t t' : state) x f lx y g ly c :
  cc2 s s' x f lx y g ly c -> obs_eq t s -> cc2 t t' x f lx y g ly c -> obs_eq t' s'.
Proof.
  intros (V1 & C1 & E1 & R1) (A & B & C & D) (V2 & C2 & E2 & R2).
  repeat split; intros.
  - rewrite V2, V1. unfold upd. destruct (cell_eqb (x, f) k); [reflexivity|].
    destruct (cell_eqb (y, g) k); [reflexivity | apply A].
  - rewrite C2, C1. unfold updn. destruct (y =? o); [reflexivity | apply B].
  - rewrite E2, E1. apply C.
  - rewrite R2, R1. apply D.
Qed.

Section CEKernel.
Variable m : mm.
Variables f g : fid.
Hypothesis HP : ce_pair m f g.

Lemma uc_g s (a : oid) v p : update_container m s a g v p = s.
Proof. unfold update_container. rewrite (ce_cont_g m f g HP). reflexivity. Qed.

(* insert / append of an unowned child whose container end is empty *)
Lemma coll_add_ce_ok s (x : oid) pos (y : oid) :
  check_elem m f (VObj y) = true -> unowned m s y -> obj_of (single s (y, g)) = None ->
  exists s', coll_add_full m s (x, f) pos (VObj y) = (None, s') /\
             cc2 s s' x f
                 (match pos with
                  | Some i => raw_insert (f_unique (fd m f)) i (VObj y) (vals s (x, f))
                  | None => raw_append (f_unique (fd m f)) (VObj y) (vals s (x, f)) end)
                 y g [VObj x] (Some (x, f)).
Proof.
  intros Ck Hu Hs. unfold coll_add_full, link_elem. rewrite Ck, (ce_ref_f m f g HP). cbn [negb obj_of].
  rewrite (update_container_unowned m s x f y (ce_cont_f m f g HP) Hu). unfold update_opposite_add.
  rewrite (ce_opp_f m f g HP), (ce_single_g m f g HP).
  change (single (set_cont s y (Some (x, f))) (y, g)) with (single s (y, g)). rewrite Hs.
  unfold set_obj_raw. cbn [fst snd]. rewrite (ce_ref_g m f g HP), uc_g.
  eexists. split; [reflexivity|].
  assert (N : ((y, g) : cell) <> (x, f)) by (intros E; exact (ce_cells m f g x y HP (eq_sym E))).
  repeat split; intros; cbn [vals cont eres rcont set_isset notify push_log set_vals set_store set_cont]; try reflexivity.
  rewrite (upd_other _ (y, g) (x, f)) by exact N. reflexivity.
Qed.

(* pop of a child: its container end is unset, its container pointer cleared *)
Lemma coll_pop_ce_ok s (x : oid) i (y : oid) l' :
  py_pop i (vals s (x, f)) = Some (VObj y, l') ->
  exists s', coll_pop_full m s (x, f) i = ((None, s'), Some (VObj y)) /\
             cc2 s s' x f l' y g [VNone] None.
Proof.
  intros Pp. unfold coll_pop_full, unlink_elem.
  destruct (vals s (x, f)) as [|a r] eqn:E; [rewrite py_pop_nil in Pp; discriminate|].
  rewrite Pp, (ce_ref_f m f g HP). cbn [obj_of]. unfold uc_clear at 1. rewrite (ce_cont_f m f g HP).
  unfold update_opposite_remove. rewrite (ce_opp_f m f g HP), (ce_single_g m f g HP).
  unfold set_none_raw. cbn [fst snd]. rewrite (ce_ref_g m f g HP). unfold uc_clear. rewrite (ce_cont_g m f g HP).
  eexists. split; [reflexivity|].
  assert (N : ((x, f) : cell) <> (y, g)) by exact (ce_cells m f g x y HP).
  repeat split; intros; cbn [vals cont eres rcont set_isset notify push_log set_vals set_store set_cont]; try reflexivity.
  apply upd_comm. exact N.
Qed.

End CEKernel.

(* --- Add to a containment collection whose opposite is the container end --- *)
Lemma add_ce_inverts m f g s (x : oid) (y : oid) idx c1 s' c' :
  ce_pair m f g -> f_many (fd m f) = true ->
  unowned m s y -> vals s (y, g) = [VNone] ->
  can_execute m s (CAdd x f (VObj y) idx) = (Ok true, c1) ->
  execute m s c1 = ((None, s'), c') ->
  exists i', c' = CAdd x f (VObj y) (Some i') /\
             inverts m c' s s' /\
             cc2 s s' x f (py_insert i' (VObj y) (vals s (x, f))) y g [VObj x] (Some (x, f)).
Proof.
  intros CP M Hu Hyg HC HE. set (l := vals s (x, f)) in *. set (v := VObj y) in *.
  cbn [can_execute] in HC. destruct (negb (base_can m x f)); [discriminate|]. rewrite M in HC. cbn [negb] in HC.
  apply pair_eq_inv in HC. destruct HC as [HB Hc1]. subst c1.
  injection HB as HU. unfold v in HU. cbn [is_none negb andb] in HU. apply negb_true_iff in HU. fold v l in HU.
  assert (Abs : f_unique (fd m f) = true -> vmem v l = false).
  { intros U. rewrite U in HU. exact HU. }
  assert (EX : exists pos i', (0 <= i' <= zlen l)%Z /\ c' = CAdd x f v (Some i') /\
                              coll_add_full m s (x, f) pos v = (None, s') /\
                              match pos with
                              | Some i => raw_insert (f_unique (fd m f)) i v l
                              | None => raw_append (f_unique (fd m f)) v l end = py_insert i' v l).
  { cbn [execute] in HE. destruct idx as [i|]; apply pair_eq_inv in HE; destruct HE as [H1 H2].
    - exists (Some (ins_pos (zlen l) i)), (ins_pos (zlen l) i). split; [apply clamp_index_range, zlen_nonneg|].
      split; [symmetry; exact H2|]. split; [exact H1 | apply raw_insert_absent; exact Abs].
    - exists None, (zlen l). split; [pose proof (zlen_nonneg l); lia|]. split; [symmetry; exact H2|].
      split; [exact H1|]. rewrite (raw_append_absent _ _ _ Abs), py_insert_len. reflexivity. }
  destruct EX as (pos & i' & Ri & Ec & Ea & El). exists i'. split; [exact Ec|].
  destruct (check_elem m f v) eqn:Cv.
  2:{ rewrite (coll_add_bad m s (x, f) pos v Cv) in Ea. discriminate. }
  assert (Hs : obj_of (single s (y, g)) = None) by (unfold single; rewrite Hyg; reflexivity).
  destruct (coll_add_ce_ok m f g CP s x pos y Cv Hu Hs) as (s1 & E1 & CC).
  fold v in E1. rewrite E1 in Ea. inversion Ea; subst s1. clear Ea E1. fold l v in CC. rewrite El in CC.
  split; [|exact CC]. subst c'.
  assert (N : ((x, f) : cell) <> (y, g)) by exact (ce_cells m f g x y CP).
  split.
  - intros t Ht. pose proof Ht as (Vt & _). cbn [can_undo undo idx_or0].
    rewrite (Vt (x, f)), (cc2_vals_x _ _ _ _ _ _ _ _ _ CC).
    split; [f_equal; apply vmem_In; apply py_insert_In; left; reflexivity|].
    assert (Pp : py_pop i' (vals t (x, f)) = Some (v, l)).
    { rewrite (Vt (x, f)), (cc2_vals_x _ _ _ _ _ _ _ _ _ CC). apply py_pop_insert. exact Ri. }
    destruct (coll_pop_ce_ok m f g CP t x i' y l Pp) as (t' & Et & CCt).
    exists t'. fold v in Et. rewrite Et. split; [reflexivity|].
    apply (cc2_back s s' t t' x f _ y g _ _ CC Ht). fold l. rewrite (proj1 Hu), Hyg. exact CCt.
  - intros t Ht. pose proof Ht as (Vt & _). cbn [redo idx_or0].
    assert (Hut : unowned m t y) by (apply (unowned_obs_eq m s t y (obs_eq_sym _ _ Ht) Hu)).
    assert (Hst : obj_of (single t (y, g)) = None) by (unfold single; rewrite (Vt (y, g)), Hyg; reflexivity).
    destruct (coll_add_ce_ok m f g CP t x (Some i') y Cv Hut Hst) as (t' & Et & CCt).
    exists t'. fold v in Et. rewrite Et. split; [reflexivity|].
    apply (cc2_again s s' t t' x f _ y g _ _ CC Ht).
    rewrite (Vt (x, f)) in CCt. fold l v in CCt. rewrite (raw_insert_absent _ _ _ _ Abs) in CCt. exact CCt.
Qed.

(* --- Remove from a containment collection whose opposite is the container end --- *)
Lemma remove_ce_inverts m f g s (x : oid) v idx c1 s' c' :
  ce_pair m f g -> f_many (fd m f) = true -> nodup_objs (vals s (x, f)) ->
  (* the children: objects held by (x, f), pointing back to x, of the right type, none a root of a resource *)
  (forall w, In w (vals s (x, f)) ->
             exists y, w = VObj y /\ cont s y = Some (x, f) /\ not_root s y /\ vals s (y, g) = [VObj x] /\
                       check_elem m f (VObj y) = true) ->
  can_execute m s (CRemove x f v idx) = (Ok true, c1) ->
  execute m s c1 = ((None, s'), c') ->
  exists i y l2, c' = CRemove x f (VObj y) (Some i) /\
                 inverts m c' s s' /\ cc2 s s' x f l2 y g [VNone] None.
Proof.
  intros CP M ND Hown HC HE. set (l := vals s (x, f)) in *.
  cbn [can_execute] in HC. destruct (negb (base_can m x f)); [discriminate|]. rewrite M in HC. cbn [negb] in HC.
  assert (EX : exists i v1, (0 <= i)%Z /\
            (let '(o, w) := coll_pop_full m s (x, f) i in
             (o, CRemove x f (match w with Some w' => w' | None => v1 end) (Some i))) = ((None, s'), c')).
  { destruct idx as [i0|].
    - fold l in HC. destruct (py_get i0 l) as [w0|] eqn:G; [|apply pair_eq_inv in HC; destruct HC; discriminate].
      apply pair_eq_inv in HC. destruct HC as [_ Hc1]. subst c1. cbn [execute] in HE. fold l in HE.
      destruct (py_get_norm i0 l w0 G) as (k & N & _).
      rewrite (norm_index_neg_shift _ _ _ N) in HE. exists k, w0. split; [|exact HE].
      apply norm_index_range in N. lia.
    - apply pair_eq_inv in HC. destruct HC as [_ Hc1]. subst c1. cbn [execute] in HE. fold l in HE.
      destruct (index_of veqb v l) as [n|]; [|apply pair_eq_inv in HE; destruct HE; discriminate].
      exists (Z.of_nat n), v. split; [lia | exact HE]. }
  destruct EX as (i & v1 & Hi & HE2). clear HE HC.
  destruct (coll_pop_full m s (x, f) i) as [[[e|] s1] w] eqn:EP;
    apply pair_eq_inv in HE2; destruct HE2 as [H1 H2]; [discriminate|].
  inversion H1; subst s1. clear H1.
  destruct (pop_full_inv m s x f i s' w EP) as (w' & l2 & Pp & Ew). subst w. fold l in Pp.
  destruct (py_pop_nonneg i l w' l2 Hi Pp) as (Hlt & Nth & El2).
  destruct (Hown w' (nth_error_In _ _ Nth)) as (y & Ey & Hcy & Hnr & Hyg & Cw). subst w'.
  destruct (coll_pop_ce_ok m f g CP s x i y l2 Pp) as (s2 & E2 & CC).
  rewrite EP in E2. inversion E2; subst s2. clear E2.
  assert (Abs : f_unique (fd m f) = true -> vmem (VObj y) l2 = false).
  { intros _. apply vmem_obj_false. subst l2. apply nodup_objs_removed; [exact ND | exact Nth]. }
  assert (N : ((x, f) : cell) <> (y, g)) by exact (ce_cells m f g x y CP).
  exists i, y, l2. split; [symmetry; exact H2|]. split; [|exact CC].
  subst c'. split.
  - intros t Ht. pose proof Ht as (Vt & Ct & Et & Rt). split; [reflexivity|]. cbn [undo idx_or0].
    assert (Hut : unowned m t y).
    { assert (Cy : cont t y = None) by (rewrite Ct; apply (cc2_cont _ _ _ _ _ _ _ _ _ CC)).
      split; [exact Cy|]. unfold eresource_of. cbn [root_of]. rewrite Cy.
      destruct CC as (_ & _ & E1 & R1). rewrite Et, E1. unfold not_root in Hnr.
      destruct (eres s y) as [r|]; [rewrite Rt, R1; exact Hnr | exact I]. }
    assert (Hst : obj_of (single t (y, g)) = None).
    { unfold single. rewrite (Vt (y, g)), (cc2_vals_y _ _ _ _ _ _ _ _ _ N CC). reflexivity. }
    destruct (coll_add_ce_ok m f g CP t x (Some i) y Cw Hut Hst) as (t' & Et' & CCt).
    exists t'. rewrite Et'. split; [reflexivity|].
    apply (cc2_back s s' t t' x f _ y g _ _ CC Ht). fold l. rewrite Hcy, Hyg.
    rewrite (Vt (x, f)), (cc2_vals_x _ _ _ _ _ _ _ _ _ CC) in CCt.
    rewrite (raw_insert_absent _ _ _ _ Abs), (py_insert_pop i l (VObj y) l2 Hi Pp) in CCt. exact CCt.
  - intros t Ht. pose proof Ht as (Vt & _). cbn [redo idx_or0].
    assert (Pt : py_pop i (vals t (x, f)) = Some (VObj y, l2)) by (rewrite (Vt (x, f)); exact Pp).
    destruct (coll_pop_ce_ok m f g CP t x i y l2 Pt) as (t' & Et' & CCt).
    exists t'. rewrite Et'. split; [reflexivity|].
    apply (cc2_again s s' t t' x f _ y g _ _ CC Ht). exact CCt.
Qed.

(* --- Set on a single-valued containment reference whose opposite is the container end --- *)
Definition SetV (V : cell -> list value) (x : oid) (f g : fid) (v pv : value) : cell -> list value :=
  let V1 := upd V (x, f) [v] in
  let V2 := match obj_of pv with Some q => upd V1 (q, g) [VNone] | None => V1 end in
  match obj_of v with Some y => upd V2 (y, g) [VObj x] | None => V2 end.

Section CEKernel2.
Variable m : mm.
Variables f g : fid.
Hypothesis HP : ce_pair m f g.

Lemma set_none_raw_g s (q : oid) :
  set_none_raw m s (q, g) = set_store m s (q, g) VNone.
Proof.
  unfold set_none_raw. cbn [snd]. rewrite (ce_ref_g m f g HP). unfold uc_clear. rewrite (ce_cont_g m f g HP). reflexivity.
Qed.

Lemma set_obj_raw_g s (y x : oid) :
  set_obj_raw m s (y, g) x = set_store m s (y, g) (VObj x).
Proof.
  unfold set_obj_raw. cbn [fst snd]. rewrite (ce_ref_g m f g HP). apply (uc_g m f g HP).
Qed.

Lemma set_full_ce_ok s (x : oid) v :
  check_single m f v = true ->
  (forall y, v = VObj y -> unowned m s y /\ obj_of (single s (y, g)) = None) ->
  (forall y p, v = VObj y -> single s (x, f) = VObj p -> y <> p) ->
  exists s', set_full m s (x, f) v = (None, s') /\
             (forall k, vals s' k = SetV (vals s) x f g v (single s (x, f)) k) /\
             (forall o, cont s' o = cont_after (cont s) x f v (single s (x, f)) o) /\
             (forall o, eres s' o = eres s o) /\ (forall r, rcont s' r = rcont s r).
Proof.
  intros Ck Hu Hne. unfold set_full. rewrite Ck, (ce_ref_f m f g HP). cbn [negb]. rewrite (ce_opp_f m f g HP).
  set (pv := single s (x, f)) in *.
  assert (Hu1 : forall y, obj_of v = Some y -> unowned m (set_store m s (x, f) v) y).
  { intros y Ey. apply obj_of_Some' in Ey.
    apply (unowned_frame m s _ y); [reflexivity | reflexivity | reflexivity | exact (proj1 (Hu y Ey))]. }
  rewrite (update_container_set m (set_store m s (x, f) v) x f (obj_of v) (obj_of pv) (ce_cont_f m f g HP) Hu1).
  2:{ intros y p Ey Ep. apply obj_of_Some' in Ey. apply obj_of_Some' in Ep. exact (Hne y p Ey Ep). }
  rewrite (ce_single_g m f g HP).
  assert (Nfg : forall a b : oid, cell_eqb (a, g) (b, f) = false).
  { intros a b. destruct (cell_eqb_spec (a, g) (b, f)) as [E|]; [|reflexivity].
    exfalso. exact (ce_cells m f g b a HP (eq_sym E)). }
  unfold SetV, cont_after. cbv zeta.
  destruct (obj_of v) as [y|] eqn:Ev; destruct (obj_of pv) as [q|] eqn:Ep.
  - apply obj_of_Some' in Ev. apply obj_of_Some' in Ep.
    pose proof (Hne y q Ev Ep) as Nyq. destruct (Nat.eqb_spec y q) as [|_]; [contradiction|].
    rewrite Nfg, set_none_raw_g.
    match goal with |- context [single ?st (y, g)] =>
      assert (Es : single st (y, g) = single s (y, g)) end.
    { unfold single. cbn [vals set_store set_isset notify push_log set_vals set_cont].
      rewrite upd_other by (intros E; inversion E; congruence).
      rewrite upd_other by (intros E; exact (ce_cells m f g x y HP E)). reflexivity. }
    rewrite Es, (proj2 (Hu y Ev)), set_obj_raw_g.
    eexists. split; [reflexivity|]. repeat split; intros; reflexivity.
  - apply obj_of_Some' in Ev.
    match goal with |- context [single ?st (y, g)] =>
      assert (Es : single st (y, g) = single s (y, g)) end.
    { unfold single. cbn [vals set_store set_isset notify push_log set_vals set_cont].
      rewrite upd_other by (intros E; exact (ce_cells m f g x y HP E)). reflexivity. }
    rewrite Es, (proj2 (Hu y Ev)), set_obj_raw_g.
    eexists. split; [reflexivity|]. repeat split; intros; reflexivity.
  - rewrite Nfg, set_none_raw_g.
    eexists. split; [reflexivity|]. repeat split; intros; reflexivity.
  - eexists. split; [reflexivity|]. repeat split; intros; reflexivity.
Qed.

End CEKernel2.

Lemma SetV_ext V W x f g v pv : (forall k, W k = V k) -> forall k, SetV W x f g v pv k = SetV V x f g v pv k.
Proof.
  intros E k. unfold SetV. cbv zeta.
  destruct (obj_of v); destruct (obj_of pv); unfold upd;
    repeat match goal with |- context [cell_eqb ?a ?b] => destruct (cell_eqb a b) end; try reflexivity; apply E.
Qed.

(* setting the previous value again, from the store the first Set left *)
Lemma SetV_back V W (x : oid) (f g : fid) v pv :
  f <> g ->
  (forall k, W k = SetV V x f g v pv k) ->
  V (x, f) = [pv] ->
  (forall y, v = VObj y -> V (y, g) = [VNone]) ->
  (forall q, pv = VObj q -> V (q, g) = [VObj x]) ->
  (forall y q, v = VObj y -> pv = VObj q -> y <> q) ->
  forall k, SetV W x f g pv v k = V k.
Proof.
  intros Nfg EW Hx Hy Hq Hne k.
  assert (Nc : forall a b : oid, ((a, f) : cell) <> (b, g)) by (intros a b E; inversion E; contradiction).
  unfold SetV in *. cbv zeta in *.
  destruct (obj_of v) as [y|] eqn:Ev; destruct (obj_of pv) as [q|] eqn:Ep;
    try apply obj_of_Some' in Ev; try apply obj_of_Some' in Ep.
  - specialize (Hy y Ev). specialize (Hq q Ep). specialize (Hne y q Ev Ep).
    destruct (cell_eqb_spec (q, g) k) as [<-|N1]; [rewrite upd_same; symmetry; exact Hq|]. rewrite upd_other by exact N1.
    destruct (cell_eqb_spec (y, g) k) as [<-|N2]; [rewrite upd_same; symmetry; exact Hy|]. rewrite upd_other by exact N2.
    destruct (cell_eqb_spec (x, f) k) as [<-|N3]; [rewrite upd_same; symmetry; exact Hx|]. rewrite upd_other by exact N3.
    rewrite EW. rewrite !upd_other by assumption. reflexivity.
  - specialize (Hy y Ev).
    destruct (cell_eqb_spec (y, g) k) as [<-|N2]; [rewrite upd_same; symmetry; exact Hy|]. rewrite upd_other by exact N2.
    destruct (cell_eqb_spec (x, f) k) as [<-|N3]; [rewrite upd_same; symmetry; exact Hx|]. rewrite upd_other by exact N3.
    rewrite EW. rewrite !upd_other by assumption. reflexivity.
  - specialize (Hq q Ep).
    destruct (cell_eqb_spec (q, g) k) as [<-|N1]; [rewrite upd_same; symmetry; exact Hq|]. rewrite upd_other by exact N1.
    destruct (cell_eqb_spec (x, f) k) as [<-|N3]; [rewrite upd_same; symmetry; exact Hx|]. rewrite upd_other by exact N3.
    rewrite EW. rewrite !upd_other by assumption. reflexivity.
  - destruct (cell_eqb_spec (x, f) k) as [<-|N3]; [rewrite upd_same; symmetry; exact Hx|]. rewrite upd_other by exact N3.
    rewrite EW. rewrite !upd_other by assumption. reflexivity.
Qed.

(* the same for the container pointers *)
Lemma cont_after_back (C D : oid -> option cell) (x : oid) (f : fid) v pv :
  (forall o, D o = cont_after C x f v pv o) ->
  (forall y, v = VObj y -> C y = None) ->
  (forall q, pv = VObj q -> C q = Some (x, f)) ->
  forall o, cont_after D x f pv v o = C o.
Proof.
  intros ED Hy Hq o. unfold cont_after in *.
  destruct (obj_of v) as [y|] eqn:Ev; destruct (obj_of pv) as [q|] eqn:Ep;
    try apply obj_of_Some' in Ev; try apply obj_of_Some' in Ep; unfold updn in *.
  - specialize (Hy y Ev). specialize (Hq q Ep). specialize (ED o).
    destruct (Nat.eqb_spec y o) as [->|Ny]; [symmetry; exact Hy|].
    destruct (Nat.eqb_spec q o) as [->|Nq]; [symmetry; exact Hq|]. exact ED.
  - specialize (Hy y Ev). specialize (ED o).
    destruct (Nat.eqb_spec y o) as [->|Ny]; [symmetry; exact Hy | exact ED].
  - specialize (Hq q Ep). specialize (ED o).
    destruct (Nat.eqb_spec q o) as [->|Nq]; [symmetry; exact Hq | exact ED].
  - apply ED.
Qed.

Lemma cont_after_ext (C D : oid -> option cell) x f v pv :
  (forall o, D o = C o) -> forall o, cont_after D x f v pv o = cont_after C x f v pv o.
Proof.
  intros E o. unfold cont_after. destruct (obj_of v); destruct (obj_of pv); unfold updn;
    repeat match goal with |- context [?a =? ?b] => destruct (a =? b) end; try reflexivity; apply E.
Qed.

Lemma set_ce_inverts m f g s (x : oid) v p0 s' c' :
  ce_pair m f g -> f_many (fd m f) = false -> cell_wt m f (vals s (x, f)) ->
  (* the new child is taken from nobody *)
  (forall y, v = VObj y -> unowned m s y /\ vals s (y, g) = [VNone]) ->
  (* the previous child is x's, points back to x and is no root of a resource *)
  (forall p, vals s (x, f) = [VObj p] -> cont s p = Some (x, f) /\ not_root s p /\ vals s (p, g) = [VObj x]) ->
  execute m s (CSet x f v p0) = ((None, s'), c') ->
  inverts m c' s s' /\
  (forall k, vals s' k = SetV (vals s) x f g v (single s (x, f)) k) /\
  (forall o, cont s' o = cont_after (cont s) x f v (single s (x, f)) o) /\
  (forall o, eres s' o = eres s o) /\ (forall r, rcont s' r = rcont s r).
Proof.
  intros CP M W Hu Hown HE.
  pose proof (ce_neq m f g CP) as Nfg.
  unfold cell_wt in W. rewrite M in W. destruct W as (pv & Hpv & Cp).
  assert (Sg : single s (x, f) = pv) by (unfold single; rewrite Hpv; reflexivity).
  cbn [execute] in HE. apply pair_eq_inv in HE. destruct HE as [H1 H2]. rewrite Sg in H2 |- *.
  assert (Cv : check_single m f v = true).
  { destruct (check_single m f v) eqn:C; [reflexivity|]. rewrite (set_full_bad m s (x, f) v C) in H1. discriminate. }
  assert (Hne : forall y p, v = VObj y -> pv = VObj p -> y <> p).
  { intros y p Ey Ep E. subst p. destruct (Hu y Ey) as [[Hcy _] _].
    destruct (Hown y) as [Hc' _]; [rewrite Hpv, Ep; reflexivity|]. congruence. }
  assert (Hu' : forall y, v = VObj y -> unowned m s y /\ obj_of (single s (y, g)) = None).
  { intros y Ey. destruct (Hu y Ey) as [A B]. split; [exact A|]. unfold single. rewrite B. reflexivity. }
  destruct (set_full_ce_ok m f g CP s x v Cv Hu') as (s1 & E1 & VS & CS & ES & RS).
  { intros y p Ey Ep. rewrite Sg in Ep. exact (Hne y p Ey Ep). }
  rewrite E1 in H1. inversion H1; subst s1. clear H1 E1. rewrite Sg in VS, CS.
  split; [|split; [exact VS | split; [exact CS | split; [exact ES | exact RS]]]].
  assert (Cy : forall y, v = VObj y -> cont s y = None) by (intros y Ey; exact (proj1 (proj1 (Hu y Ey)))).
  assert (Vy : forall y, v = VObj y -> vals s (y, g) = [VNone]) by (intros y Ey; exact (proj2 (Hu y Ey))).
  assert (Cpp : forall p, pv = VObj p -> cont s p = Some (x, f) /\ not_root s p /\ vals s (p, g) = [VObj x]).
  { intros p Ep. apply Hown. rewrite Hpv, Ep. reflexivity. }
  subst c'. split.
  - (* undo: x.f = pv *)
    intros t Ht. pose proof Ht as (Vt & Ct & Et & Rt). split; [reflexivity|]. cbn [undo].
    assert (Vts : forall k, vals t k = SetV (vals s) x f g v pv k) by (intros k; rewrite Vt; apply VS).
    assert (St : single t (x, f) = v).
    { unfold single. rewrite Vts. unfold SetV. cbv zeta.
      assert (Nc : forall b : oid, ((b, g) : cell) <> (x, f)) by (intros b E; inversion E; congruence).
      destruct (obj_of v); destruct (obj_of pv); rewrite ?(upd_other _ (_, g) (x, f)) by apply Nc; rewrite upd_same; reflexivity. }
    assert (Hut : forall p, pv = VObj p -> unowned m t p /\ obj_of (single t (p, g)) = None).
    { intros p Ep. destruct (Cpp p Ep) as (Hcp & Hnr & _).
      assert (Cp0 : cont t p = None).
      { rewrite Ct, CS. unfold cont_after. rewrite Ep. cbn [obj_of]. unfold updn. rewrite Nat.eqb_refl. reflexivity. }
      split.
      - split; [exact Cp0|]. unfold eresource_of. cbn [root_of]. rewrite Cp0. rewrite Et, ES.
        unfold not_root in Hnr. destruct (eres s p) as [r|]; [rewrite Rt, RS; exact Hnr | exact I].
      - unfold single. rewrite Vts. unfold SetV. cbv zeta. rewrite Ep. cbn [obj_of].
        destruct (obj_of v) as [y|] eqn:Ev.
        + apply obj_of_Some' in Ev. pose proof (Hne y p Ev Ep) as N.
          rewrite upd_other by (intros E; inversion E; congruence). rewrite upd_same. reflexivity.
        + rewrite upd_same. reflexivity. }
    destruct (set_full_ce_ok m f g CP t x pv Cp Hut) as (t' & Et' & Vt' & Ct' & Et2 & Rt2).
    { intros p y Ep Ey. rewrite St in Ey. intros E. exact (Hne y p Ey Ep (eq_sym E)). }
    exists t'. rewrite Et'. split; [reflexivity|]. rewrite St in Vt', Ct'.
    repeat split; intros.
    + rewrite Vt'. apply (SetV_back (vals s) (vals t) x f g v pv Nfg Vts Hpv Vy).
      * intros q Eq. exact (proj2 (proj2 (Cpp q Eq))).
      * exact Hne.
    + rewrite Ct'. apply (cont_after_back (cont s) (cont t) x f v pv).
      * intros o'. rewrite Ct. apply CS.
      * exact Cy.
      * intros q Eq. exact (proj1 (Cpp q Eq)).
    + rewrite Et2, Et, ES. reflexivity.
    + rewrite Rt2, Rt, RS. reflexivity.
  - (* redo: x.f = v *)
    intros t Ht. pose proof Ht as (Vt & Ct & Et & Rt). cbn [redo].
    assert (St : single t (x, f) = pv) by (unfold single; rewrite (Vt (x, f)), Hpv; reflexivity).
    assert (Hut : forall y, v = VObj y -> unowned m t y /\ obj_of (single t (y, g)) = None).
    { intros y Ey. split; [apply (unowned_obs_eq m s t y (obs_eq_sym _ _ Ht)); exact (proj1 (Hu y Ey))|].
      unfold single. rewrite (Vt (y, g)), (Vy y Ey). reflexivity. }
    destruct (set_full_ce_ok m f g CP t x v Cv Hut) as (t' & Et' & Vt' & Ct' & Et2 & Rt2).
    { intros y p Ey Ep. rewrite St in Ep. exact (Hne y p Ey Ep). }
    exists t'. rewrite Et'. split; [reflexivity|]. rewrite St in Vt', Ct'.
    repeat split; intros.
    + rewrite Vt', VS. apply SetV_ext. exact Vt.
    + rewrite Ct', CS. apply cont_after_ext. exact Ct.
    + rewrite Et2, ES. apply Et.
    + rewrite Rt2, RS. apply Rt.
Qed.

(* ====================================================================== *)
(* 2b. The invariant for metamodels WITH containment and the lift to words *)
(* ====================================================================== *)
(* WF (symmetry, shape, ownership, resources; Proofs/WFBase.v, preserved by every kernel operation:
   Proofs/OwnAll.v) + typed slots (C03) + duplicate-free unique attribute collections (C04) *)
Definition K (m : mm) (s : state) : Prop := WF m s /\ typed m s /\ uniq_attr m s.

Lemma K_obs_eq m s t : obs_eq s t -> K m s -> K m t.
Proof.
  intros (A & B & C & D) (HW & HT & HU). split; [|split].
  - apply (WF_ext m s t); try (intros; symmetry; auto); exact HW.
  - apply (typed_ext m s t); [intros k; symmetry; apply A | exact HT].
  - intros x f H1 H2 H3. rewrite <- A. apply HU; assumption.
Qed.

(* where a successful primitive command leaves the model, as a kernel procedure *)
Lemma exec_set_state m s x f v p s' c' :
  execute m s (CSet x f v p) = ((None, s'), c') -> s' = snd (set_full m s (x, f) v).
Proof. cbn [execute]. intros H. apply pair_eq_inv in H. destruct H as [H _]. rewrite H. reflexivity. Qed.

Lemma exec_add_state m s x f v idx c1 s' c2 :
  can_execute m s (CAdd x f v idx) = (Ok true, c1) -> execute m s c1 = ((None, s'), c2) ->
  exists pos, s' = snd (coll_add_full m s (x, f) pos v).
Proof.
  intros HC HE. cbn [can_execute] in HC. destruct (negb (base_can m x f)); [discriminate|].
  destruct (negb (f_many (fd m f))); [discriminate|]. apply pair_eq_inv in HC. destruct HC as [_ <-].
  cbn [execute] in HE. destruct idx as [i|]; apply pair_eq_inv in HE; destruct HE as [H _];
    eexists; rewrite H; reflexivity.
Qed.

Lemma exec_remove_state m s x f v idx c1 s' c2 :
  can_execute m s (CRemove x f v idx) = (Ok true, c1) -> execute m s c1 = ((None, s'), c2) ->
  exists i, s' = snd (fst (coll_pop_full m s (x, f) i)).
Proof.
  intros HC HE. cbn [can_execute] in HC. destruct (negb (base_can m x f)); [discriminate|].
  destruct (negb (f_many (fd m f))); [discriminate|].
  assert (EX : exists v1 idx1, c1 = CRemove x f v1 idx1).
  { destruct idx as [i0|].
    - destruct (py_get i0 (vals s (x, f))); apply pair_eq_inv in HC; destruct HC as [_ Hc]; subst c1; eauto.
    - apply pair_eq_inv in HC; destruct HC as [_ Hc]; subst c1; eauto. }
  destruct EX as (v1 & idx1 & ->). cbn [execute] in HE.
  match type of HE with (match ?ri with _ => _ end) = _ => destruct ri as [i|e0] end.
  - exists i. destruct (coll_pop_full m s (x, f) i) as [o w]. apply pair_eq_inv in HE. destruct HE as [H _].
    rewrite H. reflexivity.
  - apply pair_eq_inv in HE. destruct HE as [H _]. discriminate.
Qed.

Section Lift.
Variable m : mm.
Hypothesis W : wf_mm m.
Hypothesis Hrt : ref_typed m.

Lemma K_cell_wt_single s (x : oid) (f : fid) : K m s -> f_many (fd m f) = false -> cell_wt m f (vals s (x, f)).
Proof.
  intros (HW & HT & _) M. unfold cell_wt. rewrite M.
  destruct (proj1 (wf_shape m s HW x f) M) as (v & Hv). exists v. split; [exact Hv|].
  pose proof (HT (x, f) v) as Ho. rewrite Hv in Ho. specialize (Ho (or_introl eq_refl)).
  unfold okv in Ho. cbn [snd] in Ho. rewrite M in Ho. exact Ho.
Qed.

Lemma K_cell_wt_attr s (x : oid) (f : fid) : K m s -> attr_many m f -> cell_wt m f (vals s (x, f)).
Proof.
  intros (_ & HT & HU) [M R]. unfold cell_wt. rewrite M. split.
  - intros v Hv. pose proof (HT (x, f) v Hv) as Ho. unfold okv in Ho. cbn [snd] in Ho. rewrite M in Ho. exact Ho.
  - intros U. apply HU; assumption.
Qed.

(* a slot of a reference holds objects or None *)
Lemma ref_slot_cases s (a : oid) (f : fid) w :
  typed m s -> f_isref (fd m f) = true -> In w (vals s (a, f)) -> w = VNone \/ exists o, w = VObj o.
Proof.
  intros HT R Hw. pose proof (HT (a, f) w Hw) as Ho. unfold okv in Ho. cbn [snd] in Ho.
  destruct (Hrt f R) as (c & Ec). unfold check_elem, check_single in Ho. rewrite R, Ec in Ho.
  destruct w; [left; reflexivity | right; eexists; reflexivity | | | | | ];
    destruct (f_many (fd m f)); simpl in Ho; discriminate.
Qed.

Lemma check_elem_of_typed s (a : oid) (f : fid) w :
  typed m s -> f_many (fd m f) = true -> In w (vals s (a, f)) -> check_elem m f w = true.
Proof. intros HT M Hw. pose proof (HT (a, f) w Hw) as Ho. unfold okv in Ho. cbn [snd] in Ho. rewrite M in Ho. exact Ho. Qed.

(* a child listed in a containment slot: container pointer, no root of a resource *)
Lemma child_facts_plain s (x : oid) (f : fid) (y : oid) :
  WF m s -> f_cont (fd m f) = true -> In (VObj y) (vals s (x, f)) -> cont s y = Some (x, f) /\ not_root s y.
Proof.
  intros HW Hc Hin. assert (Cy : cont s y = Some (x, f)) by (apply (wf_own m s HW); split; assumption).
  split; [exact Cy|]. unfold not_root. destruct (eres s y) as [r|] eqn:Er; [|exact I].
  exfalso. apply (proj2 (wf_res m s HW)) in Er. apply (wf_roots m s HW) in Er. congruence.
Qed.

(* ... and with a container end: the child points back *)
Lemma child_facts s (x : oid) (f g : fid) (y : oid) :
  WF m s -> ce_pair m f g -> In (VObj y) (vals s (x, f)) ->
  cont s y = Some (x, f) /\ not_root s y /\ vals s (y, g) = [VObj x].
Proof.
  intros HW CP Hin. destruct (child_facts_plain s x f y HW (ce_cont_f m f g CP) Hin) as [A B].
  split; [exact A|]. split; [exact B|].
  destruct (proj1 (wf_shape m s HW y g) (ce_single_g m f g CP)) as (v & Hv).
  pose proof (proj1 (wf_sym m s HW f g (ce_opp_f m f g CP) x y) Hin) as Hb. unfold R in Hb. rewrite Hv in Hb.
  destruct Hb as [<-|[]]. exact Hv.
Qed.

(* an object without container has an empty container end *)
Lemma unowned_g_none s (f g : fid) (y : oid) :
  K m s -> ce_pair m f g -> cont s y = None -> vals s (y, g) = [VNone].
Proof.
  intros (HW & HT & _) CP Cy.
  destruct (proj1 (wf_shape m s HW y g) (ce_single_g m f g CP)) as (v & Hv). rewrite Hv. f_equal.
  destruct (ref_slot_cases s y g v HT (ce_ref_g m f g CP)) as [E|(c & E)]; [rewrite Hv; left; reflexivity | exact E |].
  exfalso. subst v.
  assert (Hin : In (VObj y) (vals s (c, f))).
  { apply (wf_sym m s HW f g (ce_opp_f m f g CP) c y). unfold R. rewrite Hv. left. reflexivity. }
  destruct (child_facts_plain s c f y HW (ce_cont_f m f g CP) Hin) as [A _]. congruence.
Qed.

Lemma uniq_attr_refcells s s' :
  (forall (a : oid) (h : fid), f_isref (fd m h) = false -> f_many (fd m h) = true -> vals s' (a, h) = vals s (a, h)) ->
  uniq_attr m s -> uniq_attr m s'.
Proof. intros Fr HU a h H1 H2 H3. rewrite Fr by assumption. apply HU; assumption. Qed.

(* ---------- the three containment-with-opposite theorems from the invariant ---------- *)
Theorem add_ce_undo_redo s (f g : fid) (x y : oid) idx c1 s' c' :
  K m s -> f_cont (fd m f) = true -> f_opp (fd m f) = Some g -> f_many (fd m f) = true ->
  unowned m s y ->
  can_execute m s (CAdd x f (VObj y) idx) = (Ok true, c1) ->
  execute m s c1 = ((None, s'), c') ->
  exists i', c' = CAdd x f (VObj y) (Some i') /\
             inverts m c' s s' /\
             cc2 s s' x f (py_insert i' (VObj y) (vals s (x, f))) y g [VObj x] (Some (x, f)).
Proof.
  intros HK Hc Ho M Hu HC HE. pose proof (ce_pair_of_wf m f g W Hc Ho) as CP.
  exact (add_ce_inverts m f g s x y idx c1 s' c' CP M Hu (unowned_g_none s f g y HK CP (proj1 Hu)) HC HE).
Qed.

Lemma many_ref_objs s (x : oid) (f : fid) w :
  typed m s -> f_isref (fd m f) = true -> f_many (fd m f) = true -> In w (vals s (x, f)) -> exists y, w = VObj y.
Proof.
  intros HT R M Hw. destruct (ref_slot_cases s x f w HT R Hw) as [E|E]; [|exact E].
  exfalso. subst w. pose proof (check_elem_of_typed s x f VNone HT M Hw) as C. unfold check_elem in C. rewrite R in C. discriminate.
Qed.

Theorem remove_ce_undo_redo s (f g : fid) (x : oid) v idx c1 s' c' :
  K m s -> f_cont (fd m f) = true -> f_opp (fd m f) = Some g -> f_many (fd m f) = true ->
  can_execute m s (CRemove x f v idx) = (Ok true, c1) ->
  execute m s c1 = ((None, s'), c') ->
  exists i y l2, c' = CRemove x f (VObj y) (Some i) /\
                 inverts m c' s s' /\ cc2 s s' x f l2 y g [VNone] None.
Proof.
  intros HK Hc Ho M HC HE. pose proof (ce_pair_of_wf m f g W Hc Ho) as CP. destruct HK as (HW & HT & HU).
  apply (remove_ce_inverts m f g s x v idx c1 s' c' CP M); try assumption.
  - apply (proj2 (wf_shape m s HW x f)). right. exact Hc.
  - intros w Hw. destruct (many_ref_objs s x f w HT (ce_ref_f m f g CP) M Hw) as (y & ->).
    destruct (child_facts s x f g y HW CP Hw) as (A & B & C).
    exists y. repeat split; try assumption. exact (check_elem_of_typed s x f _ HT M Hw).
Qed.

Theorem set_ce_undo_redo s (f g : fid) (x : oid) v p0 s' c' :
  K m s -> f_cont (fd m f) = true -> f_opp (fd m f) = Some g -> f_many (fd m f) = false ->
  (forall y, v = VObj y -> unowned m s y) ->
  execute m s (CSet x f v p0) = ((None, s'), c') ->
  inverts m c' s s' /\
  (forall k, vals s' k = SetV (vals s) x f g v (single s (x, f)) k) /\
  (forall o, cont s' o = cont_after (cont s) x f v (single s (x, f)) o) /\
  (forall o, eres s' o = eres s o) /\ (forall r, rcont s' r = rcont s r).
Proof.
  intros HK Hc Ho M Hu HE. pose proof (ce_pair_of_wf m f g W Hc Ho) as CP.
  apply (set_ce_inverts m f g s x v p0 s' c' CP M (K_cell_wt_single s x f HK M)); try assumption.
  - intros y Ey. split; [exact (Hu y Ey) | exact (unowned_g_none s f g y HK CP (proj1 (Hu y Ey)))].
  - intros p Ep. apply (child_facts s x f g p (proj1 HK) CP). rewrite Ep. left. reflexivity.
Qed.

(* ---------- K after the primitive commands ---------- *)
Lemma K_only_cell_attr s s' (x : oid) (f : fid) l1 :
  K m s -> f_isref (fd m f) = false -> only_cell s s' (x, f) l1 -> cell_wt m f l1 -> K m s'.
Proof.
  intros (HW & HT & HU) R (V & C & E & Rc) CW.
  assert (Fr : forall k, k <> (x, f) -> vals s' k = vals s k).
  { intros k Nk. rewrite V. apply upd_other. intros E0; apply Nk; symmetry; exact E0. }
  assert (Eo : vals s' (x, f) = l1) by (rewrite V; apply upd_same).
  split; [|split].
  - apply (C07Full.WF_attr_write m W s s' x f l1 HW R); try assumption.
    intros M. unfold cell_wt in CW. rewrite M in CW. destruct CW as (v & Ev & _). exists v. exact Ev.
  - intros k v Hv. destruct (cell_eqb_spec k (x, f)) as [E0|N].
    + subst k. rewrite Eo in Hv. unfold okv. cbn [snd]. unfold cell_wt in CW.
      destruct (f_many (fd m f)); [apply (proj1 CW); exact Hv|].
      destruct CW as (w & Ew & Cw). rewrite Ew in Hv. destruct Hv as [<-|[]]. exact Cw.
    + rewrite (Fr k N) in Hv. exact (HT k v Hv).
  - intros a h H1 H2 H3. destruct (cell_eqb_spec (a, h) (x, f)) as [E0|N].
    + inversion E0; subst a h. rewrite Eo. unfold cell_wt in CW. rewrite H2 in CW. apply (proj2 CW). exact H3.
    + rewrite (Fr _ N). apply HU; assumption.
Qed.

Lemma K_set s s' (x : oid) (f : fid) v :
  K m s -> f_many (fd m f) = false -> (forall y, v = VObj y -> opp_typed m x f) ->
  s' = snd (set_full m s (x, f) v) ->
  (forall (a : oid) (h : fid), f_isref (fd m h) = false -> f_many (fd m h) = true -> vals s' (a, h) = vals s (a, h)) ->
  K m s'.
Proof.
  intros (HW & HT & HU) M Hot -> Fr. split; [|split].
  - apply (WF_set_full m W); assumption.
  - apply typed_set_full; assumption.
  - exact (uniq_attr_refcells s _ Fr HU).
Qed.

Lemma K_add s s' (x : oid) (f : fid) pos v :
  K m s -> f_many (fd m f) = true -> opp_typed m x f ->
  s' = snd (coll_add_full m s (x, f) pos v) ->
  (forall (a : oid) (h : fid), f_isref (fd m h) = false -> f_many (fd m h) = true -> vals s' (a, h) = vals s (a, h)) ->
  K m s'.
Proof.
  intros (HW & HT & HU) M Hot -> Fr. split; [|split].
  - apply (WF_coll_add_full m W); assumption.
  - apply typed_coll_add_full; assumption.
  - exact (uniq_attr_refcells s _ Fr HU).
Qed.

Lemma K_pop s s' (x : oid) (f : fid) i :
  K m s -> f_many (fd m f) = true ->
  s' = snd (fst (coll_pop_full m s (x, f) i)) ->
  (forall (a : oid) (h : fid), f_isref (fd m h) = false -> f_many (fd m h) = true -> vals s' (a, h) = vals s (a, h)) ->
  K m s'.
Proof.
  intros (HW & HT & HU) M -> Fr. split; [|split].
  - apply (WF_pop m W); assumption.
  - apply typed_coll_pop_full; assumption.
  - exact (uniq_attr_refcells s _ Fr HU).
Qed.

Lemma nodupv_of_objs l : (forall w, In w l -> exists y, w = VObj y) -> nodup_objs l -> nodupv l = true.
Proof.
  unfold nodup_objs. induction l as [|a r IH]; intros Ho ND; [reflexivity|].
  destruct (Ho a (or_introl eq_refl)) as (y & ->). simpl in ND. inversion ND as [|? ? Hn ND']; subst.
  cbn [nodupv]. rewrite IH; [|intros w Hw; apply Ho; right; exact Hw | exact ND'].
  rewrite andb_true_r. apply negb_true_iff. apply vmem_obj_false. rewrite <- objs_of_In. exact Hn.
Qed.

(* ---------- the side condition of a primitive command in the state it meets ---------- *)
(* the kinds of C06Proofs.v (attributes, plain references), or Set / Add / Remove on a containment
   reference - with or without a container end as opposite - that puts only an unowned child under
   the owner (the property's `does not take its value away from another container`); opp_typed: the
   owner conforms to the type of the container end *)
Definition covered3 (s : state) (c : cmd) : Prop :=
  covered m c \/
  match c with
  | CSet x f v _ => f_cont (fd m f) = true /\ f_many (fd m f) = false /\
                    (forall y, v = VObj y -> unowned m s y /\ opp_typed m x f)
  | CAdd x f v _ => exists y, v = VObj y /\ f_cont (fd m f) = true /\ f_many (fd m f) = true /\
                              unowned m s y /\ opp_typed m x f
  | CRemove x f v _ => f_cont (fd m f) = true /\ f_many (fd m f) = true
  | _ => False
  end.

Lemma nonref_neq (h f : fid) : f_isref (fd m h) = false -> f_isref (fd m f) = true -> h <> f.
Proof. intros A B E. subst h. congruence. Qed.

Lemma cell_neq_feat (a b : oid) (h f : fid) : h <> f -> ((b, f) : cell) <> (a, h).
Proof. intros N E. inversion E. congruence. Qed.

Lemma opp_typed_noopp (x : oid) (f : fid) : f_opp (fd m f) = None -> opp_typed m x f.
Proof. intros H g E. congruence. Qed.

Lemma covered3_exec s c c1 s' c2 :
  K m s -> covered3 s c ->
  can_execute m s c = (Ok true, c1) -> execute m s c1 = ((None, s'), c2) ->
  inverts m c2 s s' /\ K m s'.
Proof.
  intros HK [Cv|Cv] HC HE.
  - (* the kinds of C06Proofs.v *)
    destruct c as [x f v p|x f v idx|x f v idx|x f v from to| |]; simpl in Cv; try contradiction.
    + destruct Cv as [P M]. cbn [can_execute] in HC. apply pair_eq_inv in HC. destruct HC as [_ Hc]. subst c1.
      destruct (set_inverts m s x f v p s' c2 P M (K_cell_wt_single s x f HK M) HE) as (I & OC & CW).
      split; [exact I|]. destruct (f_isref (fd m f)) eqn:R.
      * destruct P as [P|[Pc Po]]; [congruence|].
        apply (K_set s s' x f v HK M (fun _ _ => opp_typed_noopp x f Po) (exec_set_state m s x f v p s' c2 HE)).
        intros a h Rh _. rewrite (proj1 OC). apply upd_other. apply cell_neq_feat. exact (nonref_neq h f Rh R).
      * exact (K_only_cell_attr s s' x f _ HK R OC CW).
    + destruct (add_inverts m s x f v idx c1 s' c2 Cv (K_cell_wt_attr s x f HK Cv) HC HE) as (i' & _ & I & OC & CW).
      split; [exact I | exact (K_only_cell_attr s s' x f _ HK (proj2 Cv) OC CW)].
    + destruct (remove_inverts m s x f v idx c1 s' c2 Cv (K_cell_wt_attr s x f HK Cv) HC HE) as (i & w & l2 & _ & I & OC & CW).
      split; [exact I | exact (K_only_cell_attr s s' x f _ HK (proj2 Cv) OC CW)].
    + destruct Cv as [A Hx].
      destruct (move_inverts m s x f v from to c1 s' c2 A (K_cell_wt_attr s x f HK A) Hx HC HE)
        as (fr & w & to' & l2 & _ & I & OC & CW).
      split; [exact I | exact (K_only_cell_attr s s' x f _ HK (proj2 A) OC CW)].
  - (* containment *)
    destruct c as [x f v p|x f v idx|x f v idx|x f v from to| |]; try contradiction.
    + destruct Cv as (Hc & M & Hcond). pose proof (wf_cont_ref m W f Hc) as R.
      cbn [can_execute] in HC. apply pair_eq_inv in HC. destruct HC as [_ Hc1]. subst c1.
      assert (Hu : forall y, v = VObj y -> unowned m s y) by (intros y Ey; exact (proj1 (Hcond y Ey))).
      assert (Hot : forall y, v = VObj y -> opp_typed m x f) by (intros y Ey; exact (proj2 (Hcond y Ey))).
      destruct (f_opp (fd m f)) as [g|] eqn:Ho.
      * destruct (set_ce_undo_redo s f g x v p s' c2 HK Hc Ho M Hu HE) as (I & VS & _).
        split; [exact I|]. apply (K_set s s' x f v HK M Hot (exec_set_state m s x f v p s' c2 HE)).
        intros a h Rh _. rewrite VS. unfold SetV. cbv zeta.
        pose proof (ce_pair_of_wf m f g W Hc Ho) as CP.
        assert (N1 : forall b : oid, ((b, g) : cell) <> (a, h)).
        { intros b. apply cell_neq_feat. exact (nonref_neq h g Rh (ce_ref_g m f g CP)). }
        assert (N2 : ((x, f) : cell) <> (a, h)) by (apply cell_neq_feat; exact (nonref_neq h f Rh R)).
        destruct (obj_of v); destruct (obj_of (single s (x, f))); rewrite ?(upd_other _ (_, g) (a, h)) by apply N1;
          apply upd_other; exact N2.
      * assert (CP : cont_plain m f) by (split; [exact R | split; assumption]).
        destruct (set_cont_inverts m s x f v p s' c2 CP M (K_cell_wt_single s x f HK M) Hu) as (I & VS & _); [|exact HE|].
        { intros q Eq. apply (child_facts_plain s x f q (proj1 HK) Hc). rewrite Eq. left. reflexivity. }
        split; [exact I|]. apply (K_set s s' x f v HK M Hot (exec_set_state m s x f v p s' c2 HE)).
        intros a h Rh _. rewrite VS. apply upd_other. apply cell_neq_feat. exact (nonref_neq h f Rh R).
    + destruct Cv as (y & -> & Hc & M & Hu & Hot). pose proof (wf_cont_ref m W f Hc) as R.
      destruct (exec_add_state m s x f _ idx c1 s' c2 HC HE) as (pos & Es).
      destruct (f_opp (fd m f)) as [g|] eqn:Ho.
      * destruct (add_ce_undo_redo s f g x y idx c1 s' c2 HK Hc Ho M Hu HC HE) as (i' & _ & I & (VS & _)).
        split; [exact I|]. apply (K_add s s' x f pos _ HK M Hot Es).
        pose proof (ce_pair_of_wf m f g W Hc Ho) as CP.
        intros a h Rh _. rewrite VS.
        rewrite upd_other by (apply cell_neq_feat; exact (nonref_neq h f Rh R)).
        apply upd_other. apply cell_neq_feat. exact (nonref_neq h g Rh (ce_ref_g m f g CP)).
      * assert (CP : cont_plain m f) by (split; [exact R | split; assumption]).
        destruct (add_cont_inverts m s x f y idx c1 s' c2 CP M Hu HC HE) as (i' & _ & I & (VS & _)).
        split; [exact I|]. apply (K_add s s' x f pos _ HK M Hot Es).
        intros a h Rh _. rewrite VS. apply upd_other. apply cell_neq_feat. exact (nonref_neq h f Rh R).
    + destruct Cv as (Hc & M). pose proof (wf_cont_ref m W f Hc) as R.
      destruct (exec_remove_state m s x f v idx c1 s' c2 HC HE) as (i0 & Es).
      destruct (f_opp (fd m f)) as [g|] eqn:Ho.
      * destruct (remove_ce_undo_redo s f g x v idx c1 s' c2 HK Hc Ho M HC HE) as (i & y & l2 & _ & I & (VS & _)).
        split; [exact I|]. apply (K_pop s s' x f i0 HK M Es).
        pose proof (ce_pair_of_wf m f g W Hc Ho) as CP.
        intros a h Rh _. rewrite VS.
        rewrite upd_other by (apply cell_neq_feat; exact (nonref_neq h f Rh R)).
        apply upd_other. apply cell_neq_feat. exact (nonref_neq h g Rh (ce_ref_g m f g CP)).
      * assert (CP : cont_plain m f) by (split; [exact R | split; assumption]).
        pose proof HK as (HW & HT & _).
        assert (Hobj : forall w, In w (vals s (x, f)) -> exists y, w = VObj y) by (intros w; apply many_ref_objs; assumption).
        destruct (remove_cont_inverts m s x f v idx c1 s' c2 CP M) as (i & y & l2 & _ & I & (VS & _)); try assumption.
        { unfold cell_wt. rewrite M. split; [intros w Hw; exact (check_elem_of_typed s x f w HT M Hw)|].
          intros _. apply nodupv_of_objs; [exact Hobj|]. apply (proj2 (wf_shape m s HW x f)). right. exact Hc. }
        { intros w Hw. destruct (Hobj w Hw) as (y & ->). exists y. split; [reflexivity|].
          exact (child_facts_plain s x f y HW Hc Hw). }
        split; [exact I|]. apply (K_pop s s' x f i0 HK M Es).
        intros a h Rh _. rewrite VS. apply upd_other. apply cell_neq_feat. exact (nonref_neq h f Rh R).
Qed.

(* a covered primitive command that raises leaves the model as it was *)
Lemma covered3_raise s c c1 e s' c2 :
  K m s -> covered3 s c ->
  can_execute m s c = (Ok true, c1) -> execute m s c1 = ((Some e, s'), c2) -> s' = s.
Proof.
  intros HK Cv HC HE.
  destruct c as [x f v p|x f v idx|x f v idx|x f v from to| |].
  - cbn [can_execute] in HC. apply pair_eq_inv in HC. destruct HC as [_ Hc]. subst c1.
    cbn [execute] in HE. apply pair_eq_inv in HE. destruct HE as [H1 _]. eapply set_full_raise; exact H1.
  - cbn [can_execute] in HC. destruct (negb (base_can m x f)); [discriminate|].
    destruct (negb (f_many (fd m f))); [discriminate|].
    apply pair_eq_inv in HC. destruct HC as [_ Hc]. subst c1. cbn [execute] in HE.
    destruct idx as [i|]; apply pair_eq_inv in HE; destruct HE as [H1 _]; eapply coll_add_raise; exact H1.
  - cbn [can_execute] in HC. destruct (negb (base_can m x f)); [discriminate|].
    destruct (negb (f_many (fd m f))); [discriminate|].
    assert (EX : exists v1 idx1, c1 = CRemove x f v1 idx1).
    { destruct idx as [i0|].
      - destruct (py_get i0 (vals s (x, f))); apply pair_eq_inv in HC; destruct HC as [_ Hc]; subst c1; eauto.
      - apply pair_eq_inv in HC; destruct HC as [_ Hc]; subst c1; eauto. }
    destruct EX as (v1 & idx1 & Hc). subst c1. cbn [execute] in HE.
    match type of HE with (match ?ri with _ => _ end) = _ => destruct ri as [i|e0] end.
    + destruct (coll_pop_full m s (x, f) i) as [[[e1|] s1] w] eqn:EP;
        apply pair_eq_inv in HE; destruct HE as [H1 _]; [|discriminate].
      inversion H1; subst. eapply coll_pop_raise; exact EP.
    + apply pair_eq_inv in HE. destruct HE as [H1 _]. inversion H1. reflexivity.
  - destruct Cv as [Cv|[]]. simpl in Cv. destruct Cv as [A Hx].
    assert (Wt : forall w, In w (vals s (x, f)) -> check_elem m f w = true).
    { pose proof (K_cell_wt_attr s x f HK A) as CW. unfold cell_wt in CW. rewrite (proj1 A) in CW. exact (proj1 CW). }
    destruct A as [M R].
    cbn [can_execute] in HC.
    destruct (negb (base_can m x f)); [discriminate|]. rewrite M in HC. cbn [negb] in HC.
    assert (EX : exists v1 fr0, c1 = CMove x f v1 fr0 to).
    { destruct (is_none v).
      - destruct from as [i0|]; [|apply pair_eq_inv in HC; destruct HC; discriminate].
        destruct (py_get i0 (vals s (x, f))); apply pair_eq_inv in HC; destruct HC as [_ Hc]; subst c1; eauto.
      - destruct from as [i0|].
        + apply pair_eq_inv in HC; destruct HC as [_ Hc]; subst c1; eauto.
        + destruct (index_of veqb v (vals s (x, f))); apply pair_eq_inv in HC; destruct HC as [_ Hc]; subst c1; eauto. }
    destruct EX as (v1 & fr0 & Hc). subst c1. cbn [execute] in HE. unfold do_move in HE.
    match type of HE with (match coll_pop_full m s (x, f) ?z with _ => _ end) = _ => set (fr := z) in * end.
    destruct (coll_pop_full m s (x, f) fr) as [[[e1|] s1] w] eqn:EP.
    + apply pair_eq_inv in HE. destruct HE as [H1 _]. inversion H1; subst. eapply coll_pop_raise; exact EP.
    + exfalso. destruct (coll_pop_attr_inv m s x f fr s1 w R EP) as (w' & l1 & Pp & Ew). subst w.
      apply pair_eq_inv in HE. destruct HE as [H1 _].
      assert (Hin : In w' (vals s (x, f))).
      { unfold py_pop in Pp. destruct (norm_index (zlen (vals s (x, f))) fr) as [k|]; [|discriminate].
        destruct (nth_error (vals s (x, f)) (Z.to_nat k)) as [y|] eqn:N; [|discriminate].
        inversion Pp; subst. eapply nth_error_In; exact N. }
      match type of H1 with coll_add_full _ _ _ ?pos _ = _ =>
        destruct (coll_add_attr_ok m s1 x f pos w' R (Wt w' Hin)) as (s2 & E2 & _) end.
      rewrite E2 in H1. discriminate.
  - destruct Cv as [[]|[]].
  - destruct Cv as [[]|[]].
Qed.

Lemma covered3_raise_obs s c c1 e s' c2 :
  K m s -> covered3 s c ->
  can_execute m s c = (Ok true, c1) -> execute m s c1 = ((Some e, s'), c2) -> obs_eq s' s.
Proof. intros A B C D. rewrite (covered3_raise s c c1 e s' c2 A B C D). apply obs_eq_refl. Qed.

(* ---------- the covered commands: covered3 closed under Compound ---------- *)
Definition covered4 : state -> cmd -> Prop := okC m covered3.

Lemma covered4_exec s c c1 s' c2 :
  K m s -> covered4 s c -> can_execute m s c = (Ok true, c1) -> execute m s c1 = ((None, s'), c2) ->
  inverts m c2 s s' /\ K m s'.
Proof. exact (okC_exec m (K m) covered3 covered3_exec covered3_raise_obs s c c1 s' c2). Qed.

Lemma covered4_raise s c c1 e s' c2 :
  K m s -> covered4 s c -> can_execute m s c = (Ok true, c1) -> execute m s c1 = ((Some e, s'), c2) -> obs_eq s' s.
Proof. exact (okC_raise m (K m) covered3 covered3_exec covered3_raise_obs s c c1 e s' c2). Qed.

(* ---------- the word-level theorems: containment, container ends, compounds ---------- *)
Theorem cont_invariant_of_words s0 w :
  K m s0 -> run_ok m covered4 (s0, [], []) w ->
  ginv m (K m) (abs (st_run m (s0, empty_stack) w)).
Proof. exact (g2_invariant_of_words m (K m) covered4 (K_obs_eq m) covered4_exec covered4_raise s0 w). Qed.

Theorem cont_k_undo_k_redo s0 w k :
  K m s0 -> run_ok m covered4 (s0, [], []) w ->
  let ms := st_run m (s0, empty_stack) w in
  (k <= length (done_of (snd ms)))%nat ->
  let ms' := st_run m ms (repeat SUndo k ++ repeat SRedo k) in
  obs_eq (fst ms') (fst ms) /\ snd ms' = snd ms.
Proof. exact (g2_k_undo_k_redo_stack m (K m) covered4 (K_obs_eq m) covered4_exec covered4_raise s0 w k). Qed.

End Lift.

(* ---------- compounds over the reference kinds of Proofs/C06Refs.v (metamodels without containment) ---------- *)
Section RefsCompound.
Variable m : mm.
Hypothesis Hnc : no_containment m.
Hypothesis Hwf : wf_opp m.
Hypothesis Hrt : ref_typed m.

Definition covered2C : state -> cmd -> Prop := okC m (covered2 m).

Lemma covered2_raise_obs s c c1 e s' c2 :
  J m s -> covered2 m s c ->
  can_execute m s c = (Ok true, c1) -> execute m s c1 = ((Some e, s'), c2) -> obs_eq s' s.
Proof. intros A B C D. rewrite (covered2_raise m s c c1 e s' c2 A B C D). apply obs_eq_refl. Qed.

Theorem refsC_invariant_of_words s0 w :
  J m s0 -> run_ok m covered2C (s0, [], []) w ->
  ginv m (J m) (abs (st_run m (s0, empty_stack) w)).
Proof.
  apply (g2_invariant_of_words m (J m) covered2C (J_obs_eq m)).
  - exact (okC_exec m (J m) (covered2 m) (covered2_exec m Hnc Hwf Hrt) covered2_raise_obs).
  - exact (okC_raise m (J m) (covered2 m) (covered2_exec m Hnc Hwf Hrt) covered2_raise_obs).
Qed.

Theorem refsC_k_undo_k_redo s0 w k :
  J m s0 -> run_ok m covered2C (s0, [], []) w ->
  let ms := st_run m (s0, empty_stack) w in
  (k <= length (done_of (snd ms)))%nat ->
  let ms' := st_run m ms (repeat SUndo k ++ repeat SRedo k) in
  obs_eq (fst ms') (fst ms) /\ snd ms' = snd ms.
Proof.
  apply (g2_k_undo_k_redo_stack m (J m) covered2C (J_obs_eq m)).
  - exact (okC_exec m (J m) (covered2 m) (covered2_exec m Hnc Hwf Hrt) covered2_raise_obs).
  - exact (okC_raise m (J m) (covered2 m) (covered2_exec m Hnc Hwf Hrt) covered2_raise_obs).
Qed.
End RefsCompound.

(* ====================================================================== *)
(* Non-vacuity on SymLink's metamodel (kids <-> parent, pet, twin <-> twinof) *)
(* ====================================================================== *)
Lemma ex_link_premises :
  wf_mm ex_mm_link /\ ref_typed ex_mm_link /\ K ex_mm_link (init_state ex_mm_link).
Proof.
  destruct ex_mm_link_wf as [W D]. split; [exact W|]. split; [|split; [|split]].
  - intros f. fcase f; intros H; try discriminate; eexists; reflexivity.
  - exact (WF_init ex_mm_link W D).
  - apply typed_init. intros f. fcase f; intros; reflexivity.
  - intros x f R M _. exfalso. revert R M. fcase f; intros; discriminate.
Qed.

Lemma opp_typed_link_0 : opp_typed ex_mm_link 0 0 /\ opp_typed ex_mm_link 1 0 /\ opp_typed ex_mm_link 2 3 /\
                         opp_typed ex_mm_link 0 2.
Proof. repeat split; intros g H; inversion H; reflexivity. Qed.

(* 0.pet = 3; 0.pet = None; 0.kids.append(2); 2.twin = 3;
   Compound(Remove(0.kids, 2), Add(1.kids, 2)) - the move of a child as EMF expresses it -; undo; undo; redo *)
Definition ex_cont_word : list sop :=
  [SExec (CSet 0 2 (VObj 3) VNone);
   SExec (CSet 0 2 VNone VNone);
   SExec (CAdd 0 0 (VObj 2) None);
   SExec (CSet 2 3 (VObj 3) VNone);
   SExec (CCompound [CRemove 0 0 (VObj 2) None; CAdd 1 0 (VObj 2) None]);
   SUndo; SUndo; SRedo].

Ltac unown := split; vm_compute; [reflexivity | exact I].

Lemma ex_cont_word_ok :
  run_ok ex_mm_link (covered4 ex_mm_link) (init_state ex_mm_link, [], []) ex_cont_word.
Proof.
  destruct opp_typed_link_0 as (T00 & T10 & T23 & T02).
  unfold ex_cont_word. cbn [run_ok gop_ok fst].
  split. { right. split; [reflexivity|]. split; [reflexivity|]. intros y E. inversion E; subst y. split; [unown | exact T02]. }
  split. { right. split; [reflexivity|]. split; [reflexivity|]. intros y E. discriminate. }
  split. { right. exists 2. split; [reflexivity|]. split; [reflexivity|]. split; [reflexivity|]. split; [unown | exact T00]. }
  split. { right. split; [reflexivity|]. split; [reflexivity|]. intros y E. inversion E; subst y. split; [unown | exact T23]. }
  split.
  { split; [|vm_compute; intros _; reflexivity].
    split; [right; split; reflexivity|]. split; [vm_compute; reflexivity|]. intros _.
    split; [right; exists 2; split; [reflexivity|]; split; [reflexivity|]; split; [reflexivity|]; split; [unown | exact T10]|].
    split; [vm_compute; reflexivity|]. intros _. exact I. }
  repeat split.
Qed.

Example ex_cont_word_result :
  let ms := st_run ex_mm_link (init_state ex_mm_link, empty_stack) ex_cont_word in
  vals (fst ms) (0, 0) = [VObj 2] /\ vals (fst ms) (1, 0) = [] /\ vals (fst ms) (2, 1) = [VObj 0] /\
  cont (fst ms) 2 = Some (0, 0) /\ cont (fst ms) 3 = Some (2, 3) /\ vals (fst ms) (3, 4) = [VObj 2] /\
  sidx (snd ms) = 3%Z /\ zlen (items (snd ms)) = 5%Z /\
  let ms1 := st_run ex_mm_link ms [SRedo] in
  vals (fst ms1) (0, 0) = [] /\ vals (fst ms1) (1, 0) = [VObj 2] /\ vals (fst ms1) (2, 1) = [VObj 1] /\
  cont (fst ms1) 2 = Some (1, 0) /\
  let ms2 := st_run ex_mm_link ms1 (repeat SUndo 5 ++ repeat SRedo 5) in
  vals (fst ms2) (1, 0) = [VObj 2] /\ cont (fst ms2) 2 = Some (1, 0) /\ cont (fst ms2) 3 = Some (2, 3) /\
  sidx (snd ms2) = 4%Z.
Proof. vm_compute. repeat split; reflexivity. Qed.

(* ====================================================================== *)
(* 1b. What the model's Compound.can_execute / can_undo ask                *)
(* ====================================================================== *)
Section CompoundAsks.
Variable m : mm.

(* can_execute: every member is asked in the state BEFORE the first member runs (and records there what
   its can_execute records); the compound is accepted iff every member is *)
Theorem compound_can_execute_spec s cs c1 :
  can_execute m s (CCompound cs) = (Ok true, c1) <->
  (c1 = CCompound (map (prep m s) cs) /\ Forall (fun c => fst (can_execute m s c) = Ok true) cs).
Proof.
  rewrite can_execute_compound. split.
  - destruct (ccane m s cs) as [b l1] eqn:E. intros H. inversion H; subst b c1.
    split; [f_equal; exact (ccane_ok m s cs l1 E)|].
    clear H. revert l1 E. induction cs as [|c r IH]; intros l1 E; [constructor|].
    rewrite ccane_cons in E. destruct (can_execute m s c) as [[[|]|e] c'] eqn:Ec; try (inversion E; fail).
    destruct (ccane m s r) as [b r'] eqn:Er. inversion E; subst b l1.
    constructor; [rewrite Ec; reflexivity | exact (IH r' eq_refl)].
  - intros [-> HF]. assert (E : ccane m s cs = (Ok true, map (prep m s) cs)); [|rewrite E; reflexivity].
    induction HF as [|c r Hc _ IH]; [reflexivity|].
    rewrite ccane_cons. unfold prep at 1. cbn [map]. destruct (can_execute m s c) as [b c'] eqn:Ec.
    cbn [fst] in Hc. subst b. rewrite IH. reflexivity.
Qed.

(* can_undo: every member is asked on the state the WHOLE compound left *)
Theorem compound_can_undo_spec t cs :
  can_undo m t (CCompound cs) = Ok true <-> Forall (fun c => can_undo m t c = Ok true) cs.
Proof.
  rewrite can_undo_compound. induction cs as [|c r IH]; [split; [constructor | reflexivity]|].
  rewrite ccanu_cons. split.
  - destruct (can_undo m t c) as [[|]|e] eqn:Ec; intros H; try discriminate.
    constructor; [exact Ec | apply IH; exact H].
  - intros H. inversion H as [|? ? Hc Hr]; subst. rewrite Hc. apply IH. exact Hr.
Qed.

End CompoundAsks.

(* the can_undo premise of compound_inverts cannot be dropped (F-C06-compound-can-undo): on C06Proofs' ex_mm,
   ns = [1], Compound(Add(ns, 7), Remove(ns, 7)): every member is covered and accepted in the state it meets,
   the compound executes - and Add.can_undo, asked on the final state [1], answers False: CommandStack.undo
   returns without undoing and leaves the compound on top *)
Example compound_can_undo_needed_refuted :
  let s0 := fold_left (next ex_mm) [OAppend 0 1 (VInt 1)] (init_state ex_mm) in
  let c := CCompound [CAdd 0 1 (VInt 7) None; CRemove 0 1 (VInt 7) None] in
  okM ex_mm (covered3 ex_mm) s0 s0 [CAdd 0 1 (VInt 7) None; CRemove 0 1 (VInt 7) None] /\
  ~ cu_end ex_mm s0 c /\
  (let ms := st_run ex_mm (s0, empty_stack) [SExec c] in
   sidx (snd ms) = 0%Z /\ vals (fst ms) (0, 1) = [VInt 1] /\
   fst (st_step ex_mm ms SUndo) = None /\ sidx (snd (snd (st_step ex_mm ms SUndo))) = 0%Z).
Proof.
  cbv zeta. split; [|split].
  - split; [left; split; reflexivity|]. split; [vm_compute; reflexivity|]. intros _.
    split; [left; split; reflexivity|]. split; [vm_compute; reflexivity|]. intros _. exact I.
  - intros H. unfold cu_end in H. vm_compute in H. specialize (H eq_refl). discriminate.
  - vm_compute. repeat split; reflexivity.
Qed.

(* ====================================================================== *)
(* 3. Delete                                                               *)
(* ====================================================================== *)
(* 3a. whatever is deleted (recursive, cross-referenced, ...) and whatever the snapshot holds, execute /
   redo and undo of a Delete keep the global well-formedness WF: undo is a sequence of ordinary setter,
   extend and insert calls *)
Section DeleteWF.
Variable m : mm.
Hypothesis W : wf_mm m.

Lemma WF_seq o (g : state -> outcome) :
  WF m (snd o) -> (forall s, WF m s -> WF m (snd (g s))) -> WF m (snd (seq_outcome o g)).
Proof. destruct o as [[e|] s]; cbn [seq_outcome snd]; intros H Hg; [exact H | apply Hg; exact H]. Qed.

Lemma WF_restore_refs_one (e : oid) l : forall s, WF m s -> WF m (snd (restore_refs_one m e l s)).
Proof.
  induction l as [|[f content] r IH]; intros s H; cbn [restore_refs_one]; [exact H|].
  apply WF_seq; [|exact IH]. destruct (f_many (fd m f)) eqn:M.
  - apply (WF_extend m W); assumption.
  - apply (WF_set_full m W); assumption.
Qed.

Lemma WF_restore_refs l : forall s, WF m s -> WF m (snd (restore_refs m l s)).
Proof.
  induction l as [|[e rl] r IH]; intros s H; cbn [restore_refs]; [exact H|].
  apply WF_seq; [apply WF_restore_refs_one; exact H | exact IH].
Qed.

Lemma WF_restore_invs_one (e : oid) l : forall s, WF m s -> WF m (snd (restore_invs_one m e l s)).
Proof.
  induction l as [|[i [a h]] r IH]; intros s H; cbn [restore_invs_one]; [exact H|].
  apply WF_seq; [|exact IH]. cbn [snd]. destruct (f_many (fd m h)) eqn:M.
  - apply (WF_coll_add_full m W); assumption.
  - apply (WF_set_full m W); assumption.
Qed.

Lemma WF_restore_invs l : forall s, WF m s -> WF m (snd (restore_invs m l s)).
Proof.
  induction l as [|[e il] r IH]; intros s H; cbn [restore_invs]; [exact H|].
  apply WF_seq; [apply WF_restore_invs_one; exact H | exact IH].
Qed.

Theorem delete_keeps_WF s (x : oid) r i :
  WF m s ->
  WF m (snd (fst (execute m s (CDelete x r i)))) /\ WF m (snd (fst (redo m s (CDelete x r i)))) /\
  WF m (snd (fst (undo m s (CDelete x r i)))).
Proof.
  intros H. assert (D : WF m (snd (fst (do_delete m s x)))).
  { unfold do_delete. destruct (snap_invs m s (delete_elements m s x)); cbn [fst snd]; [|exact H].
    apply (OwnAll.WF_delete_obj m W). exact H. }
  split; [exact D|]. split; [exact D|]. cbn [undo fst].
  apply WF_seq; [apply WF_restore_refs; exact H | apply WF_restore_invs].
Qed.

End DeleteWF.

(* 3b. Delete of a leaf child: kernel closed forms *)
Section LeafKernel.
Variable m : mm.
Variables f g : fid.
Hypothesis HP : ce_pair m f g.

(* what p.f holds once x has left it *)
Definition lessx (x : oid) (l : list value) : list value :=
  if f_many (fd m f) then raw_remove (VObj x) l else [VNone].
(* ... and once x has come back through the setter of its container end *)
Definition plusx (x : oid) (l : list value) : list value :=
  if f_many (fd m f) then l ++ [VObj x] else [VObj x].

Lemma check_single_none h : check_single m h VNone = true.
Proof. reflexivity. Qed.

(* x.g = None: x leaves p.f, its container pointer is cleared *)
Lemma unset_container_end t (x p : oid) :
  vals t (x, g) = [VObj p] -> In (VObj x) (vals t (p, f)) ->
  (f_many (fd m f) = false -> vals t (p, f) = [VObj x]) ->
  exists t', set_full m t (x, g) VNone = (None, t') /\
             cc2 t t' p f (lessx x (vals t (p, f))) x g [VNone] None.
Proof.
  intros Hxg Hin Hsing. unfold set_full. rewrite check_single_none, (ce_ref_g m f g HP). cbn [negb obj_of].
  assert (Sg : single t (x, g) = VObj p) by (unfold single; rewrite Hxg; reflexivity).
  rewrite Sg. cbn [obj_of]. rewrite (uc_g m f g HP), (ce_opp_g m f g HP).
  assert (Nc : ((p, f) : cell) <> (x, g)) by exact (ce_cells m f g p x HP).
  assert (Nc' : ((x, g) : cell) <> (p, f)) by (intros E; exact (Nc (eq_sym E))).
  unfold lessx. destruct (f_many (fd m f)) eqn:M.
  - unfold coll_remove_raw.
    assert (Vp : vals (set_store m t (x, g) VNone) (p, f) = vals t (p, f)).
    { cbn [vals set_store set_isset notify push_log set_vals]. apply upd_other. exact Nc'. }
    rewrite Vp. rewrite (proj2 (vmem_obj x _) Hin). unfold uc_clear. cbn [snd]. rewrite (ce_cont_f m f g HP).
    eexists. split; [reflexivity|].
    repeat split; intros; cbn [vals cont eres rcont set_isset notify push_log set_vals set_store set_cont]; try reflexivity.
    rewrite (upd_other _ (x, g) (p, f)) by exact Nc'. reflexivity.
  - destruct (cell_eqb_spec (p, f) (x, g)) as [E|_]; [contradiction|].
    unfold set_none_raw. cbn [snd]. rewrite (ce_ref_f m f g HP).
    assert (Sp : single (set_store m t (x, g) VNone) (p, f) = VObj x).
    { unfold single. cbn [vals set_store set_isset notify push_log set_vals].
      rewrite upd_other by exact Nc'. rewrite (Hsing eq_refl). reflexivity. }
    rewrite Sp. cbn [obj_of]. unfold uc_clear. rewrite (ce_cont_f m f g HP).
    eexists. split; [reflexivity|].
    repeat split; intros; cbn [vals cont eres rcont set_isset notify push_log set_vals set_store set_cont]; reflexivity.
Qed.

(* x.g = p for an unowned x with an empty container end: x is appended to p.f (stored in the free slot p.f) *)
Lemma set_container_end t (x p : oid) :
  vals t (x, g) = [VNone] -> unowned m t x -> check_single m g (VObj p) = true ->
  (f_many (fd m f) = false -> vals t (p, f) = [VNone]) ->
  (f_many (fd m f) = true -> f_unique (fd m f) = true -> ~ In (VObj x) (vals t (p, f))) ->
  exists t', set_full m t (x, g) (VObj p) = (None, t') /\
             cc2 t t' p f (plusx x (vals t (p, f))) x g [VObj p] (Some (p, f)).
Proof.
  intros Hxg Hu Ck Hfree Habs. unfold set_full. rewrite Ck, (ce_ref_g m f g HP). cbn [negb obj_of].
  assert (Sg : single t (x, g) = VNone) by (unfold single; rewrite Hxg; reflexivity).
  rewrite Sg. cbn [obj_of]. rewrite (uc_g m f g HP), (ce_opp_g m f g HP).
  assert (Nc' : ((x, g) : cell) <> (p, f)) by (intros E; exact (ce_cells m f g p x HP (eq_sym E))).
  set (t1 := set_store m t (x, g) (VObj p)).
  assert (Hu1 : unowned m t1 x) by (apply (unowned_frame m t t1 x); try reflexivity; exact Hu).
  assert (Vp : vals t1 (p, f) = vals t (p, f)).
  { unfold t1. cbn [vals set_store set_isset notify push_log set_vals]. apply upd_other. exact Nc'. }
  unfold plusx. destruct (f_many (fd m f)) eqn:M.
  - unfold coll_append_raw. cbn [fst snd].
    rewrite (update_container_unowned m t1 p f x (ce_cont_f m f g HP) Hu1).
    change (vals (set_cont t1 x (Some (p, f))) (p, f)) with (vals t1 (p, f)). rewrite Vp.
    assert (Ra : raw_append (f_unique (fd m f)) (VObj x) (vals t (p, f)) = vals t (p, f) ++ [VObj x]).
    { apply raw_append_absent. intros U. apply vmem_obj_false. exact (Habs eq_refl U). }
    rewrite Ra. eexists. split; [reflexivity|].
    repeat split; intros; unfold t1; cbn [vals cont eres rcont set_isset notify push_log set_vals set_store set_cont]; reflexivity.
  - assert (Sp : single t1 (p, f) = VNone) by (unfold single; rewrite Vp, (Hfree eq_refl); reflexivity).
    rewrite Sp. cbn [obj_of]. unfold set_obj_raw. cbn [fst snd]. rewrite (ce_ref_f m f g HP), Sp. cbn [obj_of].
    assert (Hu2 : unowned m (set_store m t1 (p, f) (VObj x)) x).
    { apply (unowned_frame m t1 _ x); try reflexivity; exact Hu1. }
    rewrite (update_container_unowned m _ p f x (ce_cont_f m f g HP) Hu2).
    eexists. split; [reflexivity|].
    repeat split; intros; unfold t1; cbn [vals cont eres rcont set_isset notify push_log set_vals set_store set_cont]; reflexivity.
Qed.

End LeafKernel.

(* steps of delete() and of Delete.undo on a reference slot of x that holds nothing: no observable effect *)
Section EmptySteps.
Variable m : mm.

Definition empty_cell (t : state) (x : oid) (h : fid) : Prop :=
  vals t (x, h) = if f_many (fd m h) then [] else [VNone].

Lemma empty_cell_obs t t' x h : obs_eq t' t -> empty_cell t x h -> empty_cell t' x h.
Proof. intros (A & _) H. unfold empty_cell. rewrite A. exact H. Qed.

Lemma obs_set_store t k v : vals t k = [v] -> obs_eq (set_store m t k v) t.
Proof.
  intros H. repeat split; intros; try reflexivity.
  cbn [vals set_store set_isset notify push_log set_vals]. unfold upd.
  destruct (cell_eqb_spec k k0) as [<-|N]; [symmetry; exact H | reflexivity].
Qed.

Lemma set_full_none_noop t (x : oid) (h : fid) :
  vals t (x, h) = [VNone] -> exists t', set_full m t (x, h) VNone = (None, t') /\ obs_eq t' t.
Proof.
  intros H. assert (Sg : single t (x, h) = VNone) by (unfold single; rewrite H; reflexivity).
  unfold set_full. rewrite check_single_none, Sg. cbn [negb obj_of].
  destruct (f_isref (fd m h)); cbn [negb].
  - assert (U : update_container m (set_store m t (x, h) VNone) x h None None = set_store m t (x, h) VNone).
    { unfold update_container. destruct (f_cont (fd m h)); reflexivity. }
    rewrite U. destruct (f_opp (fd m h)); eexists; (split; [reflexivity | apply obs_set_store; exact H]).
  - eexists. split; [reflexivity | apply obs_set_store; exact H].
Qed.

Lemma extend_nil_noop t (x : oid) (h : fid) :
  exists t', coll_extend_full m t (x, h) [] = (None, t') /\ obs_eq t' t.
Proof.
  unfold coll_extend_full. cbn [forallb negb fold_left].
  eexists. split; [reflexivity|]. destruct (f_unique (fd m h)).
  - repeat split; intros; reflexivity.
  - repeat split; intros; try reflexivity.
    cbn [vals set_isset notify push_log set_vals]. unfold upd.
    destruct (cell_eqb_spec (x, h) k) as [<-|N]; [apply app_nil_r | reflexivity].
Qed.

Lemma delete_step_own_empty t (x : oid) (h : fid) :
  empty_cell t x h -> obs_eq (delete_step m x t (x, h)) t.
Proof.
  unfold empty_cell, delete_step. intros H. destruct (f_many (fd m h)).
  - rewrite Nat.eqb_refl. unfold coll_clear_full. rewrite H. apply obs_eq_refl.
  - rewrite Nat.eqb_refl, orb_true_r. destruct (set_full_none_noop t x h H) as (t' & E & O). rewrite E. exact O.
Qed.

Lemma fold_own_empty (x : oid) L : forall t,
  (forall h, In h L -> empty_cell t x h) ->
  obs_eq (fold_left (delete_step m x) (map (fun h => (x, h)) L) t) t.
Proof.
  induction L as [|a L IH]; intros t H; [apply obs_eq_refl|]. cbn [map fold_left].
  pose proof (delete_step_own_empty t x a (H a (or_introl eq_refl))) as O1.
  eapply obs_eq_trans; [|exact O1]. apply IH.
  intros h Hh. apply (empty_cell_obs t _ x h O1). apply H. right. exact Hh.
Qed.

(* the first loop of Delete.undo on the snapshots of empty slots *)
Lemma restore_own_empty (x : oid) (V : cell -> list value) L : forall t,
  (forall h, In h L -> V (x, h) = if f_many (fd m h) then [] else [VNone]) ->
  (forall h, In h L -> empty_cell t x h) ->
  exists t', restore_refs_one m x (map (fun h => (h, V (x, h))) L) t = (None, t') /\ obs_eq t' t.
Proof.
  induction L as [|a L IH]; intros t HV H; [exists t; split; [reflexivity | apply obs_eq_refl]|].
  cbn [map restore_refs_one]. rewrite (HV a (or_introl eq_refl)).
  pose proof (H a (or_introl eq_refl)) as Ha. unfold empty_cell in Ha.
  assert (S1 : exists t1, (if f_many (fd m a)
                           then coll_extend_full m t (x, a) (if f_many (fd m a) then [] else [VNone])
                           else set_full m t (x, a) (KernelIO.hdv (if f_many (fd m a) then [] else [VNone]))) = (None, t1) /\
                          obs_eq t1 t).
  { destruct (f_many (fd m a)); [apply extend_nil_noop | apply set_full_none_noop; exact Ha]. }
  destruct S1 as (t1 & E1 & O1). rewrite E1. cbn [seq_outcome].
  destruct (IH t1) as (t' & E' & O').
  - intros h Hh. apply HV. right. exact Hh.
  - intros h Hh. apply (empty_cell_obs t t1 x h O1). apply H. right. exact Hh.
  - exists t'. split; [exact E' | eapply obs_eq_trans; eauto].
Qed.

End EmptySteps.
