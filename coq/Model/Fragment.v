(* URI fragments of model objects and their resolution, on the kernel state:
   EObject.eURIFragment (ecore.py:304-317) and Resource.resolve /
   extract_rootnum_and_frag / _navigate_from (resource.py) at the level of
   path segments ('/@name.index', '/@name', the '/<n>' root prefix of
   multi-root resources).  Feature names are identifiers, so the rendering of
   segments as text is injective; the text itself is compared with the
   implementation by the harness.  No proofs here. *)
From Coq Require Import ZArith List Bool Arith.
From PyecoreV Require Import Lib.PyBase Lib.PyList Model.Coll Model.Kernel Model.KernelIO.
Import ListNotations.
Open Scope nat_scope.

Inductive seg : Type := SMany (f : fid) (i : nat) | SOne (f : fid).

(* root object and the segments below it; None = the index lookup raised *)
Fixpoint frag_segs (fuel : nat) (m : mm) (s : state) (o : oid) : option (oid * list seg) :=
  match fuel with
  | O => None
  | S fu =>
    match cont s o with
    | None => Some (o, [])
    | Some (p, f) =>
      match frag_segs fu m s p with
      | None => None
      | Some (r, segs) =>
        if f_many (fd m f) then
          match index_of veqb (VObj o) (vals s (p, f)) with
          | Some i => Some (r, segs ++ [SMany f i])
          | None => None
          end
        else Some (r, segs ++ [SOne f])
      end
    end
  end.

(* '/' for a single-root (or no) resource, '/<n>' otherwise *)
Definition root_prefix (s : state) (res : option rid) (root : oid) : option (option nat) :=
  match res with
  | None => Some None
  | Some r =>
    if length (rcont s r) =? 1 then Some None
    else match index_of Nat.eqb root (rcont s r) with
         | Some i => Some (Some i)
         | None => None
         end
  end.

Fixpoint navigate (s : state) (o : oid) (segs : list seg) : option oid :=
  match segs with
  | [] => Some o
  | SMany f i :: rest =>
    match nth_error (vals s (o, f)) i with
    | Some (VObj c) => navigate s c rest
    | _ => None
    end
  | SOne f :: rest =>
    match single s (o, f) with
    | VObj c => navigate s c rest
    | _ => None
    end
  end.

(* Resource.resolve: pick the root by number (0 when absent), then navigate *)
Definition resolve (s : state) (r : rid) (rootnum : option nat) (segs : list seg) : option oid :=
  match nth_error (rcont s r) (match rootnum with Some n => n | None => 0 end) with
  | Some root => navigate s root segs
  | None => None
  end.

(* ---- codec: history, then per object: fragment and what it resolves to ---- *)
Definition enc_seg (g : seg) : list Z :=
  match g with SMany f i => [nz f; nz i] | SOne f => [nz f; -1]%Z end.

Definition enc_frag (m : mm) (s : state) (o : oid) : list Z :=
  match eresource_of m s o with
  | None => [0%Z]
  | Some r =>
    match frag_segs (S (length (ocls m))) m s o with
    | None => [2%Z]
    | Some (root, segs) =>
      match root_prefix s (Some r) root with
      | None => [2%Z]
      | Some pre =>
        [1%Z; match pre with Some n => nz n | None => (-1)%Z end; nz (length segs)]
        ++ flat_map enc_seg segs
        ++ [match resolve s r pre segs with Some x => nz x | None => NONE end]
      end
    end
  end.

Definition run_frag (t : list Z) : list Z :=
  let '(m, rest) := dec_mm t in
  let s := fold_left (next m) (dec_ops (length rest) rest) (init_state m) in
  flat_map (enc_frag m s) (seqn (length (ocls m))).
