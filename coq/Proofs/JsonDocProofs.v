(* C09, whole documents: decode_jdoc mm (encode_jdoc mm sd F) = Some (map forget F) for every
   well-formed forest (Model/JsonDoc.v).  Layers:
     1. values: dec_val inverts enc_val on the names of well-typed values (JsonVal's
        json_value_roundtrip, int_of_str_of_Z);
     2. entries: what `d[name] = value` wrote under a key is what `d.items()` hands back for it;
     3. phase 1 of the reader rebuilds classes, nesting, attribute values and keeps the JSON values of
        the references;
     4. phase 2 resolves every {"$ref": fragment} to the target it was written from (XmiDocProofs:
        resolve (render p) = p on trees, path_ok_frag);
     5. whole documents: one root / an array of roots. *)
From Coq Require Import ZArith List Bool Lia Arith.
From PyecoreV Require Import Model.XmiAttr Model.Text Model.JsonVal Model.XmiDoc Model.JsonDoc
  Proofs.XmiAttrProofs Proofs.TextFacts Proofs.JsonValProofs Proofs.XmiDocProofs.
Import ListNotations.
Open Scope Z_scope.

(* ================================================================ generic lists *)
Lemma gather_app {A B} (f : A -> option (list B)) (a b : list A) (xs ys : list B) :
  gather f a = Some xs -> gather f b = Some ys -> gather f (a ++ b) = Some (xs ++ ys).
Proof.
  revert xs. induction a as [|x r IH]; simpl; intros xs Ha Hb.
  - inversion Ha; subst. exact Hb.
  - destruct (f x) as [zs|]; [|discriminate].
    destruct (gather f r) as [ws|]; [|discriminate]. inversion Ha; subst.
    rewrite (IH ws eq_refl Hb), app_assoc. reflexivity.
Qed.

Lemma gather_skip {A B} (f : A -> option (list B)) (l : list A) :
  Forall (fun x => f x = Some []) l -> gather f l = Some [].
Proof.
  induction 1 as [|x r Hx _ IH]; simpl; [reflexivity|]. rewrite Hx, IH. reflexivity.
Qed.

Lemma gather_flat_map {A B C} (f : B -> option (list C)) (g : A -> list B) (h : A -> list C) (l : list A) :
  Forall (fun x => gather f (g x) = Some (h x)) l -> gather f (flat_map g l) = Some (flat_map h l).
Proof.
  induction 1 as [|x r Hx _ IH]; simpl; [reflexivity|]. exact (gather_app f _ _ _ _ Hx IH).
Qed.

Lemma flat_map_ext_in {A B} (g h : A -> list B) (l : list A) :
  (forall x, In x l -> g x = h x) -> flat_map g l = flat_map h l.
Proof.
  induction l as [|x r IH]; simpl; intros H; [reflexivity|].
  rewrite (H x (or_introl eq_refl)), IH; [reflexivity|]. intros y Hy. apply H. right. exact Hy.
Qed.

Lemma map_flat_map {A B C} (g : B -> C) (h : A -> list B) (l : list A) :
  map g (flat_map h l) = flat_map (fun x => map g (h x)) l.
Proof. induction l as [|x r IH]; simpl; [reflexivity|]. rewrite map_app, IH. reflexivity. Qed.

Lemma flat_map_map {A B C} (g : A -> B) (h : B -> list C) (l : list A) :
  flat_map h (map g l) = flat_map (fun x => h (g x)) l.
Proof. induction l as [|x r IH]; simpl; [reflexivity|]. rewrite IH. reflexivity. Qed.

Lemma map_ext_in' {A B} (g h : A -> B) (l : list A) : (forall x, In x l -> g x = h x) -> map g l = map h l.
Proof. intros H. apply map_ext_in. exact H. Qed.

Lemma NoDup_nodup_z (l : list Z) : NoDup l -> nodup_z l = true.
Proof.
  induction 1 as [|x r Hx _ IH]; simpl; [reflexivity|]. rewrite IH, andb_true_r. apply negb_true_iff.
  destruct (existsb (Z.eqb x) r) eqn:E; [|reflexivity]. exfalso. apply existsb_exists in E.
  destruct E as (y & Hy & He). apply Z.eqb_eq in He. subst y. exact (Hx Hy).
Qed.

Lemma filter_nil_neg {A} (p : A -> bool) (l : list A) : filter p l = [] -> filter (fun x => negb (p x)) l = l.
Proof.
  induction l as [|x r IH]; simpl; intros H; [reflexivity|].
  destruct (p x); [discriminate|]. simpl. rewrite (IH H). reflexivity.
Qed.

Lemma traverse_zip {V} (f : feat -> option (Z * V)) (sl : list (Z * V)) (L : list feat) :
  map fst sl = map f_id L ->
  (forall a d, In a sl -> In d L -> fst a = f_id d -> f d = Some a) ->
  traverse f L = Some sl.
Proof.
  revert L. induction sl as [|a r IH]; intros [|d L'] Hk HG; simpl in Hk; try discriminate; [reflexivity|].
  inversion Hk as [[H1 H2]]. cbn [traverse].
  rewrite (HG a d (or_introl eq_refl) (or_introl eq_refl) H1).
  rewrite (IH L' H2); [reflexivity|].
  intros a' d' Ha Hd. apply HG; right; assumption.
Qed.

(* ================================================================ 1. values *)
Lemma text_of_pyv_typed t (p : pyv str) w : text_of_pyv t p = Some w -> well_typed t p.
Proof. destruct p, t; simpl; intros H; try discriminate; exact I. Qed.

Theorem val_roundtrip t v : canon t v = true -> dec_val t (enc_val t v) = Some v.
Proof.
  unfold canon, dec_val, enc_val. intros H.
  destruct (text_of_pyv t (pyv_of_text t v)) as [w|] eqn:E; [|discriminate].
  apply ostr_eqb_eq in H. subst w.
  rewrite (json_value_roundtrip str (fun s : str => s) (fun s : str => Some s) text_instance_roundtrip
             t _ (text_of_pyv_typed _ _ _ E)).
  exact E.
Qed.

Lemma vals_roundtrip t vs : forallb (canon t) vs = true ->
  traverse (dec_val t) (map (enc_val t) vs) = Some vs.
Proof.
  intros H. rewrite forallb_forall in H. rewrite <- (map_id vs) at 2. apply traverse_map.
  apply Forall_forall. intros v Hv. exact (val_roundtrip t v (H v Hv)).
Qed.

(* the premise is not empty: str(z) names the int z, 'true' / 'false' the booleans, any text a string / an object *)
Lemma canon_int z : canon TInt (Some (str_of_Z z)) = true.
Proof. unfold canon. cbn [pyv_of_text]. rewrite int_of_str_of_Z. cbn [text_of_pyv ostr_eqb]. apply str_eqb_refl. Qed.
Lemma canon_float z : canon TFloat (Some (str_of_Z z)) = true.
Proof. unfold canon. cbn [pyv_of_text]. rewrite int_of_str_of_Z. cbn [text_of_pyv ostr_eqb]. apply str_eqb_refl. Qed.
Lemma canon_bool (b : bool) : canon TBool (Some (if b then str_true else str_false)) = true.
Proof. destruct b; reflexivity. Qed.
Lemma canon_str s : canon TStr (Some s) = true.
Proof. unfold canon. cbn. apply str_eqb_refl. Qed.
Lemma canon_other s : canon TOther (Some s) = true.
Proof. unfold canon. cbn. apply str_eqb_refl. Qed.
Lemma canon_none t : canon t None = true.
Proof. destruct t; reflexivity. Qed.
