#!/bin/bash
# usage: tools_seedtest.sh <PID> <worktree> <seeddir> [extra check args]
# applies the seeded patch IN THE WORKTREE, confirms demo (exit 1 with, exit 0 without), runs the check against the worktree
PID=$1; WT=$2; SD=$3; shift 3
cd "$WT" || exit 9
git checkout -q -- pyecore 2>/dev/null
cp "$SD/demo.py" "$WT/_demo_tmp.py"
/venv/bin/python _demo_tmp.py >/dev/null 2>&1; clean=$?
git apply "$SD/patch.diff" || { echo "PATCH DOES NOT APPLY"; exit 8; }
/venv/bin/python _demo_tmp.py >/dev/null 2>&1; mutated=$?
tests=$(/venv/bin/python -m pytest -q -p no:cacheprovider -x 2>&1 | tail -1)
cd /verif
out=$(VERIF_REPO="$WT" ./check "$PID" --no-build "$@" 2>&1 | tail -3)
cd "$WT"; git checkout -q -- pyecore; rm -f _demo_tmp.py
echo "demo clean=$clean mutated=$mutated | tests: $tests"
echo "$out" | cut -c1-220
