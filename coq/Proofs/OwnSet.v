(* Ownership part of the well-formedness for x.f = v (EValue._set) on a
   single-valued feature: plain features, containments, container ends. *)
From Coq Require Import ZArith List Bool Arith Lia.
From PyecoreV Require Import Lib.PyBase Lib.PyList Model.Kernel Proofs.PyListFacts Proofs.KernelFacts Proofs.C01Proofs Proofs.C01Full Proofs.C02Proofs Proofs.WFBase Proofs.WFRemove Proofs.SymLink Proofs.OwnPrim.
Import ListNotations.
Open Scope nat_scope.

(* child z, owned by nobody (or already by (P, F)), moves into the containment slot (P, F);
   a single-valued slot loses its previous occupant *)
Lemma own_okc_move m V C V' C' (P : oid) (F : fid) (z : oid) :
  own_okc m V C -> f_cont (fd m F) = true -> (C z = None \/ C z = Some (P, F)) ->
  (forall b, In (VObj b) (V' (P, F)) <-> (f_many (fd m F) = true /\ In (VObj b) (V (P, F))) \/ b = z) ->
  (forall (p : oid) (h : fid) b, f_cont (fd m h) = true -> (p, h) <> (P, F) ->
     (In (VObj b) (V' (p, h)) <-> In (VObj b) (V (p, h)))) ->
  (forall c, C' c = if z =? c then Some (P, F)
                    else if f_many (fd m F) then C c
                    else match C c with
                         | Some k => if cell_eqb k (P, F) then None else Some k
                         | None => None end) ->
  own_okc m V' C'.
Proof.
  intros H HF Hz HPF Hoth HC c p h. rewrite HC.
  destruct (Nat.eqb_spec z c) as [E|N].
  - subst c. split.
    + intros E. inversion E; subst p h. split; [exact HF|]. apply HPF. right; reflexivity.
    + intros [Hh Hin]. destruct (cell_eqb_spec (p, h) (P, F)) as [E|Np]; [rewrite E; reflexivity|].
      exfalso. apply (Hoth p h z Hh Np) in Hin.
      assert (Hz' : C z = Some (p, h)) by (apply H; split; assumption).
      destruct Hz as [Hz|Hz]; rewrite Hz in Hz'; [discriminate | inversion Hz'; subst; apply Np; reflexivity].
  - assert (G : forall k, C c = k ->
              (k = Some (p, h) <-> f_cont (fd m h) = true /\ In (VObj c) (V (p, h)))).
    { intros k <-. apply H. }
    destruct (f_many (fd m F)) eqn:HmF.
    + rewrite (H c p h). split; intros [Hh Hin]; (split; [exact Hh|]).
      * destruct (cell_eqb_spec (p, h) (P, F)) as [E|Np].
        -- inversion E; subst p h. apply HPF. left; split; [reflexivity | exact Hin].
        -- apply (Hoth p h c Hh Np). exact Hin.
      * destruct (cell_eqb_spec (p, h) (P, F)) as [E|Np].
        -- inversion E; subst p h. apply HPF in Hin. destruct Hin as [[_ Hin]|Hin]; [exact Hin | congruence].
        -- apply (Hoth p h c Hh Np). exact Hin.
    + assert (HnPF : forall b, In (VObj b) (V' (P, F)) -> b = z).
      { intros b Hb. apply HPF in Hb. destruct Hb as [[Hb _]|Hb]; [discriminate | exact Hb]. }
      destruct (C c) as [k|] eqn:Ek.
      * destruct (cell_eqb_spec k (P, F)) as [E|Nk].
        -- subst k. split; [discriminate|]. intros [Hh Hin]. exfalso.
           destruct (cell_eqb_spec (p, h) (P, F)) as [E|Np].
           ++ inversion E; subst p h. apply N. symmetry. apply HnPF. exact Hin.
           ++ apply (Hoth p h c Hh Np) in Hin. assert (Ec : C c = Some (p, h)) by (apply H; split; assumption).
              rewrite Ek in Ec. inversion Ec; subst. apply Np; reflexivity.
        -- split.
           ++ intros E. inversion E; subst k. destruct (proj1 (H c p h) Ek) as [Hh Hin]. split; [exact Hh|].
              apply (Hoth p h c Hh Nk). exact Hin.
           ++ intros [Hh Hin]. destruct (cell_eqb_spec (p, h) (P, F)) as [E|Np].
              ** inversion E; subst p h. exfalso. apply N. symmetry. apply HnPF. exact Hin.
              ** apply (Hoth p h c Hh Np) in Hin. rewrite <- Ek. apply H. split; assumption.
      * split; [discriminate|]. intros [Hh Hin]. exfalso.
        destruct (cell_eqb_spec (p, h) (P, F)) as [E|Np].
        -- inversion E; subst p h. apply N. symmetry. apply HnPF. exact Hin.
        -- apply (Hoth p h c Hh Np) in Hin. assert (Ec : C c = Some (p, h)) by (apply H; split; assumption).
           rewrite Ek in Ec. discriminate.
Qed.

(* ---------- fields of the phases of x.f = v ---------- *)
Lemma vals_set_none_raw_any m s k : vals (set_none_raw m s k) = upd (vals s) k [VNone].
Proof. unfold set_none_raw. destruct (f_isref (fd m (snd k))); rewrite ?vals_uc_clear; reflexivity. Qed.

Lemma vals_set_obj_raw_nc m s k x :
  f_cont (fd m (snd k)) = false -> vals (set_obj_raw m s k x) = upd (vals s) k [VObj x].
Proof.
  intros Hc. unfold set_obj_raw. destruct (f_isref (fd m (snd k))); [|reflexivity].
  rewrite (uc_noncont m _ (fst k) (snd k) (Some x) _ Hc). reflexivity.
Qed.

Lemma vals_coll_append_raw_nc m s k x :
  f_cont (fd m (snd k)) = false ->
  vals (coll_append_raw m s k x) = upd (vals s) k (raw_append (f_unique (fd m (snd k))) (VObj x) (vals s k)).
Proof. intros Hc. unfold coll_append_raw. rewrite (uc_noncont m s (fst k) (snd k) (Some x) None Hc). reflexivity. Qed.

Lemma sf_noopp_fields s2 x f v pv :
  vals (sf_noopp s2 x f v pv) = vals s2 /\ cont (sf_noopp s2 x f v pv) = cont s2 /\ rframe s2 (sf_noopp s2 x f v pv).
Proof.
  unfold sf_noopp.
  destruct (obj_of v); destruct (obj_of pv); rewrite ?vals_inv_add, ?cont_inv_add_any;
    (split; [reflexivity | split; [reflexivity|]]);
    try (eapply rframe_trans; [|apply rframe_inv_add]); split; reflexivity.
Qed.

Definition relV (m : mm) (V : cell -> list value) (x : oid) (f g : fid) (v pv : value) : cell -> list value :=
  match obj_of pv with
  | Some q =>
    if (match obj_of v with Some y => y =? q | None => false end) then V
    else if f_many (fd m g) then
      (if vmem (VObj x) (V (q, g)) then upd V (q, g) (raw_remove (VObj x) (V (q, g))) else V)
    else if cell_eqb (q, g) (x, f) then V else upd V (q, g) [VNone]
  | None => V
  end.

Definition relC (m : mm) (V : cell -> list value) (C : oid -> option cell) (x : oid) (f g : fid) (v pv : value)
  : oid -> option cell :=
  match obj_of pv with
  | Some q =>
    if (match obj_of v with Some y => y =? q | None => false end) then C
    else if f_many (fd m g) then
      (if vmem (VObj x) (V (q, g)) then (if f_cont (fd m g) then updn C x None else C) else C)
    else if cell_eqb (q, g) (x, f) then C
    else if f_cont (fd m g) then cont_clear C (obj_of (hdv (V (q, g)))) else C
  | None => C
  end.

Lemma sf_release_fields m s2 x f g v pv :
  f_isref (fd m g) = true ->
  vals (sf_release m s2 x f g v pv) = relV m (vals s2) x f g v pv /\
  cont (sf_release m s2 x f g v pv) = relC m (vals s2) (cont s2) x f g v pv /\
  rframe s2 (sf_release m s2 x f g v pv).
Proof.
  intros Hgr. unfold sf_release, relV, relC.
  destruct (obj_of pv) as [q|]; [|split; [reflexivity | split; [reflexivity | apply rframe_refl]]].
  destruct (match obj_of v with Some y => y =? q | None => false end);
    [split; [reflexivity | split; [reflexivity | apply rframe_refl]]|].
  destruct (f_many (fd m g)).
  - destruct (coll_remove_raw_fields m s2 (q, g) x) as [A [B _]]. cbn [snd] in B.
    split; [exact A | split; [exact B | apply rframe_coll_remove_raw]].
  - destruct (cell_eqb (q, g) (x, f)); [split; [reflexivity | split; [reflexivity | apply rframe_refl]]|].
    destruct (set_none_raw_fields m s2 (q, g) Hgr) as [A [B _]]. cbn [snd] in B.
    split; [exact A | split; [exact B | apply rframe_set_none_raw]].
Qed.

Definition lnkV4 (V : cell -> list value) (x : oid) (f g : fid) (y : oid) : cell -> list value :=
  match obj_of (hdv (V (y, g))) with
  | Some c => if c =? x then V else upd V (c, f) [VNone]
  | None => V
  end.

Definition lnkV (m : mm) (V : cell -> list value) (x : oid) (f g : fid) (y : oid) : cell -> list value :=
  if f_many (fd m g) then upd V (y, g) (raw_append (f_unique (fd m g)) (VObj x) (V (y, g)))
  else upd (lnkV4 V x f g y) (y, g) [VObj x].

Definition lnkC (m : mm) (V : cell -> list value) (C : oid -> option cell) (x : oid) (f g : fid) (y : oid)
  : oid -> option cell :=
  if f_many (fd m g) then C
  else match obj_of (hdv (V (y, g))) with
       | Some c => if c =? x then C
                   else if f_cont (fd m f) then cont_clear C (obj_of (hdv (V (c, f)))) else C
       | None => C
       end.

(* the back-reference phase when the opposite g is not a containment *)
Lemma sf_link_fields_nc m s3 x f g y :
  f_cont (fd m g) = false -> f_isref (fd m f) = true ->
  vals (sf_link m s3 x f g y) = lnkV m (vals s3) x f g y /\
  cont (sf_link m s3 x f g y) = lnkC m (vals s3) (cont s3) x f g y /\
  rframe s3 (sf_link m s3 x f g y).
Proof.
  intros Hgc Hfr. unfold sf_link, lnkV, lnkC, lnkV4.
  destruct (f_many (fd m g)).
  - rewrite (vals_coll_append_raw_nc m s3 (y, g) x Hgc).
    destruct (nc_coll_append_raw m s3 (y, g) x Hgc) as [A B]. split; [reflexivity | split; assumption].
  - cbv zeta. rewrite (vals_set_obj_raw_nc m _ (y, g) x Hgc).
    match goal with |- context [set_obj_raw m ?S4 (y, g) x] => set (s4 := S4) end.
    destruct (nc_set_obj_raw m s4 (y, g) x Hgc) as [A B]. rewrite A.
    change (single s3 (y, g)) with (hdv (vals s3 (y, g))) in *.
    unfold s4 in *. clear s4.
    destruct (obj_of (hdv (vals s3 (y, g)))) as [c|]; [|split; [reflexivity | split; [reflexivity | exact B]]].
    destruct (c =? x); [split; [reflexivity | split; [reflexivity | exact B]]|].
    destruct (set_none_raw_fields m s3 (c, f) Hfr) as [A1 [B1 _]]. cbn [snd] in B1.
    split; [rewrite A1; reflexivity|]. split; [exact B1|].
    eapply rframe_trans; [apply rframe_set_none_raw | exact B].
Qed.

Section SetPlain.
Variable m : mm.
Hypothesis W : wf_mm m.

Lemma relC_nc V C x f g v pv : f_cont (fd m g) = false -> relC m V C x f g v pv = C.
Proof.
  intros Hg. unfold relC. rewrite Hg. destruct (obj_of pv) as [q|]; [|reflexivity].
  destruct (match obj_of v with Some y => y =? q | None => false end); [reflexivity|].
  destruct (f_many (fd m g)); [destruct (vmem (VObj x) (V (q, g))); reflexivity|].
  destruct (cell_eqb (q, g) (x, f)); reflexivity.
Qed.

Lemma relV_other V x f g v pv (p : oid) (h : fid) : h <> g -> relV m V x f g v pv (p, h) = V (p, h).
Proof.
  intros N. unfold relV. destruct (obj_of pv) as [q|]; [|reflexivity].
  destruct (match obj_of v with Some y => y =? q | None => false end); [reflexivity|].
  assert (Nc : (q, g) <> (p, h)) by (intros E; inversion E; congruence).
  destruct (f_many (fd m g)).
  - destruct (vmem (VObj x) (V (q, g))); [apply upd_other; exact Nc | reflexivity].
  - destruct (cell_eqb (q, g) (x, f)); [reflexivity | apply upd_other; exact Nc].
Qed.

Lemma lnkV_other V x f g y (p : oid) (h : fid) : h <> f -> h <> g -> lnkV m V x f g y (p, h) = V (p, h).
Proof.
  intros Nf Ng. unfold lnkV, lnkV4.
  destruct (f_many (fd m g)); rewrite upd_other by (intros E; inversion E; congruence); [reflexivity|].
  destruct (obj_of (hdv (V (y, g)))) as [c|]; [|reflexivity]. destruct (c =? x); [reflexivity|].
  apply upd_other. intros E; inversion E; congruence.
Qed.

(* neither the feature nor its opposite is a containment: back-pointers and roots stay,
   only f- and g-cells are written *)
Lemma set_full_plain_fields s x f v :
  f_cont (fd m f) = false -> (forall g, f_opp (fd m f) = Some g -> f_cont (fd m g) = false) ->
  cont (snd (set_full m s (x, f) v)) = cont s /\ rframe s (snd (set_full m s (x, f) v)) /\
  (forall (p : oid) (h : fid), h <> f -> (forall g, f_opp (fd m f) = Some g -> h <> g) ->
     vals (snd (set_full m s (x, f) v)) (p, h) = vals s (p, h)).
Proof.
  intros Hc Hg.
  destruct (check_single m f v) eqn:Hchk.
  2:{ rewrite (set_full_rejected m s x f v Hchk). split; [reflexivity | split; [apply rframe_refl | reflexivity]]. }
  destruct (f_isref (fd m f)) eqn:Hr.
  2:{ rewrite (set_full_attr m s x f v Hchk Hr). split; [reflexivity | split; [split; reflexivity|]].
      intros p h Nf _. cbn [vals set_store notify push_log set_isset set_vals].
      apply upd_other. intros E; inversion E; congruence. }
  rewrite (set_full_eq m s x f v Hchk Hr). rewrite (uc_noncont m _ _ _ _ _ Hc).
  set (s1 := set_store m s (x, f) v).
  assert (H1 : forall (p : oid) (h : fid), h <> f -> vals s1 (p, h) = vals s (p, h)).
  { intros p h N. unfold s1. cbn [vals set_store notify push_log set_isset set_vals].
    apply upd_other. intros E; inversion E; congruence. }
  unfold sf_tail. destruct (f_opp (fd m f)) as [g|] eqn:Eg.
  - specialize (Hg g eq_refl). pose proof (wf_opp_ref m W g f (wf_opp_inv m W f g Eg)) as Hgr.
    destruct (sf_release_fields m s1 x f g v (single s (x, f)) Hgr) as [RV [RC RR]].
    rewrite (relC_nc _ _ x f g v _ Hg) in RC.
    destruct (obj_of v) as [y|].
    + destruct (sf_link_fields_nc m (sf_release m s1 x f g v (single s (x, f))) x f g y Hg Hr) as [LV [LC LR]].
      unfold lnkC in LC. rewrite Hc in LC. split; [|split].
      * rewrite LC, RC. destruct (f_many (fd m g)); [reflexivity|].
        destruct (obj_of (hdv (vals (sf_release m s1 x f g v (single s (x, f))) (y, g)))) as [c|]; [|reflexivity].
        destruct (c =? x); reflexivity.
      * eapply rframe_trans; [|exact LR]. eapply rframe_trans; [|exact RR]. split; reflexivity.
      * intros p h Nf Ng. specialize (Ng g eq_refl). rewrite LV, lnkV_other, RV, relV_other by assumption. apply H1; exact Nf.
    + split; [exact RC | split; [eapply rframe_trans; [|exact RR]; split; reflexivity|]].
      intros p h Nf Ng. specialize (Ng g eq_refl). rewrite RV, relV_other by assumption. apply H1; exact Nf.
  - destruct (sf_noopp_fields s1 x f v (single s (x, f))) as [A [B C]].
    split; [exact B | split; [eapply rframe_trans; [|exact C]; split; reflexivity|]].
    intros p h Nf _. rewrite A. apply H1; exact Nf.
Qed.

Theorem WF_set_full_plain s x f v :
  WF m s -> f_many (fd m f) = false ->
  f_cont (fd m f) = false -> (forall g, f_opp (fd m f) = Some g -> f_cont (fd m g) = false) ->
  WF m (snd (set_full m s (x, f) v)).
Proof.
  intros H Hs Hc Hg.
  destruct (set_full_plain_fields s x f v Hc Hg) as [HC [HR HV]].
  assert (Hcells : forall (p : oid) (h : fid), f_cont (fd m h) = true -> vals (snd (set_full m s (x, f) v)) (p, h) = vals s (p, h)).
  { intros p h Hh. apply HV; [congruence|]. intros g Eg. specialize (Hg g Eg). congruence. }
  constructor.
  - apply (sym_set_full_gen m W); assumption.
  - pose proof (shape_set_full_wf m W s x f v H Hs) as Hshape.
    intros a h. destruct (Hshape a h) as [S1 S2]. split; [exact S1|]. intros Ho.
    destruct (f_opp (fd m h)) as [g'|] eqn:Eh; [apply S2; congruence|].
    destruct Ho as [Ho|Hh]; [congruence|].
    rewrite (Hcells a h Hh). apply (proj2 (wf_shape m s H a h)). right; exact Hh.
  - apply own_ok_c. apply (own_okc_frame m (vals s) (cont s)); [exact (wf_own m s H) | exact Hcells |].
    intros c. rewrite HC. reflexivity.
  - apply (res_ok_frame s); [exact HR | exact (wf_res m s H)].
  - intros c r Hin. destruct HR as [R1 _]. rewrite R1 in Hin. rewrite HC. exact (wf_roots m s H c r Hin).
Qed.

End SetPlain.

(* ---------- storing a value that is not an object = unsetting, up to the own cell ---------- *)
Section SetNonObj.
Variable m : mm.
Hypothesis W : wf_mm m.

Lemma relV_swap Vs x f g v pv :
  f_many (fd m f) = false -> obj_of v = None ->
  forall k, relV m (upd Vs (x, f) [v]) x f g v pv k =
            upd (relV m (upd Vs (x, f) [VNone]) x f g VNone pv) (x, f) [v] k.
Proof.
  intros Hs Hv k. unfold relV. rewrite Hv. cbn [obj_of].
  assert (E0 : upd Vs (x, f) [v] k = upd (upd Vs (x, f) [VNone]) (x, f) [v] k) by (rewrite upd_upd; reflexivity).
  destruct (obj_of pv) as [q|]; [|exact E0].
  destruct (f_many (fd m g)) eqn:Hg.
  - assert (N : (x, f) <> (q, g)) by (intros E; inversion E; congruence).
    rewrite !(upd_other Vs (x, f) (q, g)) by exact N.
    destruct (vmem (VObj x) (Vs (q, g))); [|exact E0].
    unfold upd. destruct (cell_eqb_spec (q, g) k), (cell_eqb_spec (x, f) k); try reflexivity; congruence.
  - destruct (cell_eqb_spec (q, g) (x, f)) as [E|N]; [exact E0|].
    unfold upd. destruct (cell_eqb_spec (q, g) k), (cell_eqb_spec (x, f) k); try reflexivity; congruence.
Qed.

Lemma relC_swap Vs C x f g v pv :
  f_many (fd m f) = false -> obj_of v = None ->
  relC m (upd Vs (x, f) [v]) C x f g v pv = relC m (upd Vs (x, f) [VNone]) C x f g VNone pv.
Proof.
  intros Hs Hv. unfold relC. rewrite Hv. cbn [obj_of].
  destruct (obj_of pv) as [q|]; [|reflexivity].
  destruct (f_many (fd m g)) eqn:Hg.
  - assert (N : (x, f) <> (q, g)) by (intros E; inversion E; congruence).
    rewrite !(upd_other Vs (x, f) (q, g)) by exact N. reflexivity.
  - destruct (cell_eqb_spec (q, g) (x, f)) as [E|N]; [reflexivity|].
    rewrite !(upd_other Vs (x, f) (q, g)) by (intros E; apply N; symmetry; exact E). reflexivity.
Qed.

(* fields of x.f = v for a reference f and a value v that is not an object *)
Lemma set_full_nonobj_fields s x f v :
  f_isref (fd m f) = true -> check_single m f v = true -> obj_of v = None ->
  let C2 := if f_cont (fd m f) then cont_clear (cont s) (obj_of (single s (x, f))) else cont s in
  (forall k, vals (snd (set_full m s (x, f) v)) k =
     match f_opp (fd m f) with
     | Some g => relV m (upd (vals s) (x, f) [v]) x f g v (single s (x, f)) k
     | None => upd (vals s) (x, f) [v] k end) /\
  cont (snd (set_full m s (x, f) v)) =
     match f_opp (fd m f) with
     | Some g => relC m (upd (vals s) (x, f) [v]) C2 x f g v (single s (x, f))
     | None => C2 end /\
  rframe s (snd (set_full m s (x, f) v)).
Proof.
  intros Hr Hchk Hv. cbv zeta. rewrite (set_full_eq m s x f v Hchk Hr). rewrite Hv.
  set (s2 := update_container m (set_store m s (x, f) v) x f None (obj_of (single s (x, f)))).
  assert (H2 : vals s2 = upd (vals s) (x, f) [v] /\
               cont s2 = (if f_cont (fd m f) then cont_clear (cont s) (obj_of (single s (x, f))) else cont s) /\
               rframe s s2).
  { unfold s2, update_container. destruct (f_cont (fd m f)); cbn [negb].
    - destruct (obj_of (single s (x, f))); (split; [reflexivity | split; [reflexivity | split; reflexivity]]).
    - split; [reflexivity | split; [reflexivity | split; reflexivity]]. }
  destruct H2 as [A [B R]]. unfold sf_tail. rewrite Hv.
  destruct (f_opp (fd m f)) as [g|] eqn:Eg.
  - pose proof (wf_opp_ref m W g f (wf_opp_inv m W f g Eg)) as Hgr.
    destruct (sf_release_fields m s2 x f g v (single s (x, f)) Hgr) as [RV [RC RR]].
    rewrite A in RV, RC. rewrite B in RC.
    split; [intros k; rewrite RV; reflexivity | split; [exact RC | eapply rframe_trans; eassumption]].
  - destruct (sf_noopp_fields s2 x f v (single s (x, f))) as [A1 [B1 R1]].
    split; [intros k; rewrite A1, A; reflexivity | split; [rewrite B1; exact B | eapply rframe_trans; eassumption]].
Qed.

Theorem WF_set_full_nonobj s x f v :
  WF m s -> f_many (fd m f) = false -> f_isref (fd m f) = true -> check_single m f v = true -> obj_of v = None ->
  WF m (snd (set_full m s (x, f) v)).
Proof.
  intros H Hs Hr Hchk Hv.
  pose proof (WF_set_none_full m W s x f H Hs Hr) as H0.
  rewrite <- set_full_none_is_set_none_full in H0.
  destruct (set_full_nonobj_fields s x f v Hr Hchk Hv) as [V1 [C1 R1]].
  destruct (set_full_nonobj_fields s x f VNone Hr eq_refl eq_refl) as [V0 [C0 R0]].
  set (s' := snd (set_full m s (x, f) v)) in *. set (s0 := snd (set_full m s (x, f) VNone)) in *.
  assert (EV : forall k, vals s' k = upd (vals s0) (x, f) [v] k).
  { intros k. rewrite V1. destruct (f_opp (fd m f)) as [g|].
    - rewrite (relV_swap (vals s) x f g v _ Hs Hv k). apply upd_ext. intros k0. rewrite V0. reflexivity.
    - rewrite <- (upd_upd (vals s) (x, f) [VNone] [v] k). apply upd_ext. intros k0. rewrite V0. reflexivity. }
  assert (E0 : vals s0 (x, f) = [VNone]).
  { rewrite V0. destruct (f_opp (fd m f)) as [g|]; [|apply upd_same].
    rewrite (relV_swap (vals s) x f g VNone _ Hs eq_refl (x, f)). apply upd_same. }
  apply (WF_objs_ext m s0 s'); [| | | | | exact H0].
  - intros k. rewrite EV. destruct (cell_eqb_spec (x, f) k) as [E|N].
    + subst k. rewrite upd_same, E0. destruct v; try discriminate; reflexivity.
    + rewrite upd_other by exact N. reflexivity.
  - intros a h Hh. rewrite EV. destruct (cell_eqb_spec (x, f) (a, h)) as [E|N].
    + rewrite <- E, upd_same. eexists; reflexivity.
    + rewrite upd_other by exact N. exact (proj1 (wf_shape m s0 H0 a h) Hh).
  - intros c. rewrite C1, C0. destruct (f_opp (fd m f)) as [g|]; [|reflexivity].
    rewrite (relC_swap (vals s) _ x f g v _ Hs Hv). reflexivity.
  - intros c. destruct R1 as [_ R1], R0 as [_ R0]. rewrite R1, R0. reflexivity.
  - intros r. destruct R1 as [R1 _], R0 as [R0 _]. rewrite R1, R0. reflexivity.
Qed.

End SetNonObj.

(* ---------- small transport lemmas across the own store ---------- *)
Lemma root_of_ext n s s' o : (forall c, cont s' c = cont s c) -> root_of n s' o = root_of n s o.
Proof.
  intros E. revert o. induction n as [|n IH]; intros o; [reflexivity|]. cbn [root_of]. rewrite E.
  destruct (cont s o) as [[p h]|]; [apply IH | reflexivity].
Qed.

Lemma sa_of_set_store m s k v y :
  rcont (sa_of m (set_store m s k v) y) = rcont (sa_of m s y) /\
  eres (sa_of m (set_store m s k v) y) = eres (sa_of m s y).
Proof.
  unfold sa_of.
  assert (E : eresource_of m (set_store m s k v) y = eresource_of m s y).
  { unfold eresource_of. rewrite (root_of_ext _ s (set_store m s k v) y) by reflexivity. reflexivity. }
  rewrite E. destruct (eresource_of m s y) as [r|]; [|split; reflexivity].
  change (rcont (set_store m s k v) r) with (rcont s r).
  destruct (nmem y (rcont s r)); split; reflexivity.
Qed.

Lemma slot_ok_set_store m s x f y v : slot_ok m s x f y -> slot_ok m (set_store m s (x, f) v) x f y.
Proof.
  intros H p pf Ec N. change (cont (set_store m s (x, f) v)) with (cont s) in Ec.
  change (vals (set_store m s (x, f) v)) with (upd (vals s) (x, f) [v]).
  rewrite upd_other by (intros E; apply N; symmetry; exact E). exact (H p pf Ec N).
Qed.

(* ---------- x.f = y for a single-valued containment f ---------- *)
Section SetCont.
Variable m : mm.
Hypothesis W : wf_mm m.

Lemma relV_at_y V x f g y pv : relV m V x f g (VObj y) pv (y, g) = V (y, g).
Proof.
  unfold relV. cbn [obj_of]. destruct (obj_of pv) as [q|]; [|reflexivity].
  destruct (Nat.eqb_spec y q) as [E|N]; [reflexivity|].
  assert (Nc : (q, g) <> (y, g)) by (intros E; inversion E; congruence).
  destruct (f_many (fd m g)).
  - destruct (vmem (VObj x) (V (q, g))); [apply upd_other; exact Nc | reflexivity].
  - destruct (cell_eqb (q, g) (x, f)); [reflexivity | apply upd_other; exact Nc].
Qed.

Lemma set_full_cont_fields s x f y :
  WF m s -> f_cont (fd m f) = true -> f_many (fd m f) = false -> check_single m f (VObj y) = true ->
  let s' := snd (set_full m s (x, f) (VObj y)) in
  let s_pre := pre_unlink m s x f y in
  (forall (p : oid) (h : fid), f_cont (fd m h) = true -> vals s' (p, h) = upd (vals s_pre) (x, f) [VObj y] (p, h)) /\
  (forall c, cont s' c = if y =? c then Some (x, f)
                         else match obj_of (single s (x, f)) with
                              | Some q => if q =? c then None else cont s c
                              | None => cont s c end) /\
  rcont s' = rcont (sa_of m s y) /\ eres s' = eres (sa_of m s y).
Proof.
  intros H Hc Hs Hchk. cbv zeta. pose proof (wf_cont_ref m W f Hc) as Hr.
  rewrite (set_full_eq m s x f (VObj y) Hchk Hr). cbn [obj_of].
  set (s1 := set_store m s (x, f) (VObj y)).
  set (s2 := update_container m s1 x f (Some y) (obj_of (single s (x, f)))).
  set (s_pre := pre_unlink m s x f y).
  pose proof (pre_unlink_WF m W s x f y H) as Hpre. fold s_pre in Hpre.
  pose proof (WF_slot_ok m s x f y H) as Hslot.
  pose proof (slot_ok_set_store m s x f y (VObj y) Hslot) as Hslot1. fold s1 in Hslot1.
  assert (HF : forall p pf, cont s y = Some (p, pf) -> (p, pf) <> (x, f) ->
             (x, f) <> (p, pf) /\ (forall h, f_opp (fd m pf) = Some h -> (x, f) <> (y, h))).
  { intros p pf Ec N. split; [intros E; apply N; symmetry; exact E|].
    intros h Eh E. inversion E; subst h.
    pose proof (wf_opp_inv m W pf f Eh) as Hfp.
    destruct (wf_container_end m W f pf Hfp Hc) as [_ B].
    destruct (WF_child_slot m s y p pf H Ec) as [A _]. congruence. }
  assert (HV2 : forall k, vals s2 k = upd (vals s_pre) (x, f) [VObj y] k).
  { intros k. unfold s2. rewrite (uc_vals m W s1 x f y _ Hc Hslot1 k). unfold s1.
    rewrite (proj1 (ucV_store m s x f y (x, f) (VObj y) HF) k). apply upd_ext. intros k0.
    symmetry. apply (pre_unlink_vals m W s x f y H). }
  assert (HC2 : forall c, cont s2 c = if y =? c then Some (x, f)
                         else match obj_of (single s (x, f)) with
                              | Some q => if q =? c then None else cont s c
                              | None => cont s c end).
  { intros c. unfold s2. rewrite (cont_update_container m W s1 x f y _ Hc Hslot1 c). reflexivity. }
  assert (HR2 : rcont s2 = rcont (sa_of m s y) /\ eres s2 = eres (sa_of m s y)).
  { destruct (res_update_container m s1 x f y (obj_of (single s (x, f))) Hc) as [A B]. fold s2 in A, B.
    destruct (sa_of_set_store m s (x, f) (VObj y) y) as [A1 B1]. fold s1 in A1, B1. split; congruence. }
  unfold sf_tail. destruct (f_opp (fd m f)) as [g|] eqn:Eg.
  2:{ destruct (sf_noopp_fields s2 x f (VObj y) (single s (x, f))) as [A [B [R1 R2]]]. rewrite A, B, R1, R2.
      split; [intros p h _; apply HV2 | split; [exact HC2 | exact HR2]]. }
  cbn [obj_of].
  destruct (wf_container_end m W f g Eg Hc) as [Hgs Hgc].
  pose proof (wf_opp_ref m W g f (wf_opp_inv m W f g Eg)) as Hgr.
  assert (Nfg : f <> g) by (intros E; subst; congruence).
  destruct (sf_release_fields m s2 x f g (VObj y) (single s (x, f)) Hgr) as [RV [RC [RR1 RR2]]].
  rewrite (relC_nc m _ _ x f g _ _ Hgc) in RC.
  set (s3 := sf_release m s2 x f g (VObj y) (single s (x, f))) in *.
  destruct (sf_link_fields_nc m s3 x f g y Hgc Hr) as [LV [LC [LR1 LR2]]].
  (* the current g-partner of y can only be x *)
  assert (Hdead : forall c, obj_of (hdv (vals s3 (y, g))) = Some c -> c = x).
  { intros c Ec0. apply obj_of_Some' in Ec0. rewrite RV, relV_at_y, HV2 in Ec0.
    rewrite upd_other in Ec0 by (intros E; inversion E; congruence).
    assert (Hy : In (VObj y) (vals s_pre (c, f))).
    { apply (wf_sym m _ Hpre g f (wf_opp_inv m W f g Eg) y c). unfold R.
      destruct (proj1 (wf_shape m _ Hpre y g) Hgs) as [w Hw]. rewrite Hw in *. cbn [hdv] in Ec0. left; exact Ec0. }
    assert (Hcy : cont s_pre y = Some (c, f)) by (apply (wf_own m _ Hpre); split; assumption).
    destruct (pre_unlink_cont_self m W s x f y Hslot) as [E|[E _]]; fold s_pre in E; rewrite E in Hcy;
      [discriminate | inversion Hcy; reflexivity]. }
  split; [|split; [|split; [rewrite LR1, RR1; exact (proj1 HR2) | rewrite LR2, RR2; exact (proj2 HR2)]]].
  - intros p h Hh. rewrite LV. unfold lnkV. rewrite Hgs. rewrite upd_other by (intros E; inversion E; congruence).
    unfold lnkV4. destruct (obj_of (hdv (vals s3 (y, g)))) as [c|] eqn:Ec0.
    + rewrite (Hdead c eq_refl), Nat.eqb_refl. rewrite RV, relV_other by congruence. apply HV2.
    + rewrite RV, relV_other by congruence. apply HV2.
  - intros c. rewrite LC. unfold lnkC. rewrite Hgs.
    destruct (obj_of (hdv (vals s3 (y, g)))) as [c0|] eqn:Ec0.
    + rewrite (Hdead c0 eq_refl), Nat.eqb_refl. rewrite RC. apply HC2.
    + rewrite RC. apply HC2.
Qed.

End SetCont.

Section SetContWF.
Variable m : mm.
Hypothesis W : wf_mm m.

(* who sits in a single-valued containment slot, read from the back-pointers *)
Lemma cont_single_slot s x f c :
  WF m s -> f_cont (fd m f) = true -> f_many (fd m f) = false ->
  (cont s c = Some (x, f) <-> obj_of (single s (x, f)) = Some c).
Proof.
  intros H Hc Hs. rewrite (wf_own m s H c x f). rewrite (WF_single_slot m s x f H Hs). split.
  - intros [_ [E|[]]]. rewrite E. reflexivity.
  - intros E. apply obj_of_Some' in E. split; [exact Hc | left; exact E].
Qed.

Theorem WF_set_full_cont s x f y :
  WF m s -> f_cont (fd m f) = true -> f_many (fd m f) = false -> check_single m f (VObj y) = true ->
  WF m (snd (set_full m s (x, f) (VObj y))).
Proof.
  intros H Hc Hs Hchk.
  destruct (set_full_cont_fields m W s x f y H Hc Hs Hchk) as [HV [HC [HR HE]]].
  pose proof (sym_set_full_gen m W s x f (VObj y) H Hs) as Hsym.
  pose proof (shape_set_full_wf m W s x f (VObj y) H Hs) as Hshape.
  pose proof (res_ok_set_full m s (x, f) (VObj y) (wf_res m s H)) as Hres.
  set (s' := snd (set_full m s (x, f) (VObj y))) in *.
  pose proof (pre_unlink_WF m W s x f y H) as Hpre.
  set (s_pre := pre_unlink m s x f y) in *.
  pose proof (WF_slot_ok m s x f y H) as Hslot.
  constructor; [exact Hsym | | | exact Hres | ].
  - intros a h. destruct (Hshape a h) as [S1 S2]. split; [exact S1|]. intros Ho.
    destruct (f_opp (fd m h)) as [g'|] eqn:Eh; [apply S2; congruence|].
    destruct Ho as [Ho|Hh]; [congruence|]. rewrite (HV a h Hh).
    destruct (cell_eqb_spec (x, f) (a, h)) as [E|N].
    + rewrite <- E, upd_same. apply nodup_single.
    + rewrite upd_other by exact N. apply (proj2 (wf_shape m _ Hpre a h)). right; exact Hh.
  - apply own_ok_c.
    apply (own_okc_move m (vals s_pre) (cont s_pre) (vals s') (cont s') x f y (wf_own m _ Hpre) Hc).
    + destruct (pre_unlink_cont_self m W s x f y Hslot) as [E|[E _]]; [left | right]; exact E.
    + intros b. rewrite (HV x f Hc), upd_same, Hs. split.
      * intros [E|[]]. right. inversion E; reflexivity.
      * intros [[C _]|E]; [discriminate | left; subst; reflexivity].
    + intros p h b Hh N. rewrite (HV p h Hh). rewrite upd_other by (intros E; apply N; symmetry; exact E). tauto.
    + intros c. rewrite HC, Hs. destruct (Nat.eqb_spec y c) as [E|N]; [reflexivity|].
      unfold s_pre. rewrite (pre_unlink_cont_other m W s x f y c Hslot) by congruence.
      pose proof (cont_single_slot s x f c H Hc Hs) as Hq.
      destruct (obj_of (single s (x, f))) as [q|].
      * destruct (Nat.eqb_spec q c) as [Eq|Nq].
        -- subst q. rewrite (proj2 Hq eq_refl), cell_eqb_refl. reflexivity.
        -- destruct (cont s c) as [k|] eqn:Ek; [|reflexivity].
           destruct (cell_eqb_spec k (x, f)) as [E|Nk]; [|reflexivity].
           subst k. pose proof (proj1 Hq eq_refl) as C. inversion C. congruence.
      * destruct (cont s c) as [k|] eqn:Ek; [|reflexivity].
        destruct (cell_eqb_spec k (x, f)) as [E|Nk]; [|reflexivity].
        subst k. pose proof (proj1 Hq eq_refl) as C. discriminate.
  - intros c r Hin. rewrite HR in Hin.
    assert (Ny : c <> y).
    { intros ->. exact (sa_not_root m s y r (wf_res m s H) (wf_roots m s H) Hin). }
    apply (sa_roots_sub m s y c r (wf_res m s H)) in Hin. rewrite HC.
    pose proof (wf_roots m s H c r Hin) as Hn.
    destruct (Nat.eqb_spec y c); [congruence|].
    destruct (obj_of (single s (x, f))) as [q|]; [destruct (q =? c); [reflexivity | exact Hn] | exact Hn].
Qed.

End SetContWF.

(* ---------- raw additions to a CONTAINMENT cell (the nested re-parenting) ---------- *)
Section RawCont.
Variable m : mm.
Hypothesis W : wf_mm m.

Lemma coll_append_raw_cont_fields t (a : oid) (h : fid) x :
  f_cont (fd m h) = true -> slot_ok m t a h x ->
  (forall k, vals (coll_append_raw m t (a, h) x) k =
     upd (ucV m t a h x) (a, h) (raw_append (f_unique (fd m h)) (VObj x) (ucV m t a h x (a, h))) k) /\
  (forall c, cont (coll_append_raw m t (a, h) x) c = if x =? c then Some (a, h) else cont t c) /\
  rcont (coll_append_raw m t (a, h) x) = rcont (sa_of m t x) /\
  eres (coll_append_raw m t (a, h) x) = eres (sa_of m t x).
Proof.
  intros Hc Hslot. unfold coll_append_raw. cbn [fst snd].
  set (u := update_container m t a h (Some x) None).
  cbn [vals cont rcont eres set_isset notify push_log set_vals].
  pose proof (uc_vals m W t a h x None Hc Hslot) as UV. fold u in UV.
  split; [|split].
  - intros k. rewrite (UV (a, h)). apply upd_ext. exact UV.
  - intros c. unfold u. rewrite (cont_update_container m W t a h x None Hc Hslot c). reflexivity.
  - exact (res_update_container m t a h x None Hc).
Qed.

Lemma set_obj_raw_cont_fields t (a : oid) (h : fid) x :
  f_cont (fd m h) = true -> f_isref (fd m h) = true -> slot_ok m t a h x ->
  (forall k, vals (set_obj_raw m t (a, h) x) k = ucV m (set_store m t (a, h) (VObj x)) a h x k) /\
  (forall c, cont (set_obj_raw m t (a, h) x) c =
     if x =? c then Some (a, h)
     else match obj_of (single t (a, h)) with
          | Some q => if q =? c then None else cont t c
          | None => cont t c end) /\
  rcont (set_obj_raw m t (a, h) x) = rcont (sa_of m t x) /\
  eres (set_obj_raw m t (a, h) x) = eres (sa_of m t x).
Proof.
  intros Hc Hr Hslot. unfold set_obj_raw. cbn [fst snd]. rewrite Hr.
  pose proof (slot_ok_set_store m t a h x (VObj x) Hslot) as Hslot1.
  split; [|split].
  - intros k. apply (uc_vals m W); assumption.
  - intros c. rewrite (cont_update_container m W _ a h x _ Hc Hslot1 c). reflexivity.
  - destruct (res_update_container m (set_store m t (a, h) (VObj x)) a h x (obj_of (single t (a, h))) Hc) as [A B].
    destruct (sa_of_set_store m t (a, h) (VObj x) x) as [A1 B1]. split; congruence.
Qed.

(* a write outside the footprint of the pending unlink commutes with it *)
Lemma ucV_upd t t' x0 f0 y0 kx L :
  cont t' y0 = cont t y0 -> (forall k, vals t' k = upd (vals t) kx L k) ->
  (forall p pf, cont t y0 = Some (p, pf) -> (p, pf) <> (x0, f0) ->
     kx <> (p, pf) /\ (forall h, f_opp (fd m pf) = Some h -> kx <> (y0, h))) ->
  forall k, ucV m t' x0 f0 y0 k = upd (ucV m t x0 f0 y0) kx L k.
Proof.
  intros EC EV HF k. unfold ucV. rewrite EC.
  destruct (cont t y0) as [[p pf]|] eqn:Ec; [|apply EV].
  destruct (negb ((p =? x0) && (pf =? f0))) eqn:Eg; [|apply EV].
  assert (N : (p, pf) <> (x0, f0)) by (intros E; inversion E; subst; rewrite !Nat.eqb_refl in Eg; discriminate).
  destruct (HF p pf eq_refl N) as [F1 F2].
  rewrite (RUv_ext m (vals t') (upd (vals t) kx L) (p, pf) y0 EV k). apply RUv_upd; assumption.
Qed.

End RawCont.

(* ---------- x.f = y where f is the container end of the containment g ---------- *)
Section SetCE.
Variable m : mm.
Hypothesis W : wf_mm m.

Definition ce_s3 (s : state) (x : oid) (f g : fid) (y : oid) : state :=
  sf_release m (set_store m s (x, f) (VObj y)) x f g (VObj y) (single s (x, f)).

(* x had another container q: the release phase takes x out of (q, g) *)
Lemma ce_rel_some s x f g y q :
  WF m s -> f_opp (fd m f) = Some g -> f_cont (fd m g) = true ->
  obj_of (single s (x, f)) = Some q -> q <> y ->
  vals (ce_s3 s x f g y) =
    upd (upd (vals s) (x, f) [VObj y]) (q, g)
        (if f_many (fd m g) then raw_remove (VObj x) (vals s (q, g)) else [VNone]) /\
  cont (ce_s3 s x f g y) = updn (cont s) x None /\
  cont s x = Some (q, g) /\ In (VObj x) (vals s (q, g)) /\
  (f_many (fd m g) = false -> vals s (q, g) = [VObj x]).
Proof.
  intros H Efg Hcg Eq Nq.
  pose proof (wf_opp_inv m W f g Efg) as Hgf.
  destruct (wf_container_end m W g f Hgf Hcg) as [Hsf Hcf].
  pose proof (wf_opp_ref m W g f Hgf) as Hgr.
  assert (Nfg : f <> g) by (intros E; subst; congruence).
  destruct (ce_partner m s x f g q H Efg Hsf Hcg Eq) as [Hin Hcx].
  assert (Hone : f_many (fd m g) = false -> vals s (q, g) = [VObj x]).
  { intros Hg. destruct (proj1 (wf_shape m s H q g) Hg) as [w Hw]. rewrite Hw in *.
    destruct Hin as [E|[]]. subst w. reflexivity. }
  destruct (sf_release_fields m (set_store m s (x, f) (VObj y)) x f g (VObj y) (single s (x, f)) Hgr) as [RV [RC _]].
  fold (ce_s3 s x f g y) in RV, RC.
  change (vals (set_store m s (x, f) (VObj y))) with (upd (vals s) (x, f) [VObj y]) in RV, RC.
  change (cont (set_store m s (x, f) (VObj y))) with (cont s) in RC.
  assert (E1 : upd (vals s) (x, f) [VObj y] (q, g) = vals s (q, g))
    by (apply upd_other; intros E; inversion E; congruence).
  unfold relV in RV. unfold relC in RC. rewrite Eq in RV, RC. cbn [obj_of] in RV, RC.
  destruct (Nat.eqb_spec y q) as [E|_]; [congruence|]. rewrite E1 in RV, RC. rewrite Hcg in RC.
  split; [|split; [|split; [exact Hcx | split; [exact Hin | exact Hone]]]].
  - rewrite RV. destruct (f_many (fd m g)).
    + apply vmem_obj in Hin. rewrite Hin. reflexivity.
    + destruct (cell_eqb_spec (q, g) (x, f)) as [E|_]; [inversion E; congruence | reflexivity].
  - rewrite RC. destruct (f_many (fd m g)) eqn:Hg.
    + apply vmem_obj in Hin. rewrite Hin. reflexivity.
    + destruct (cell_eqb_spec (q, g) (x, f)) as [E|_]; [inversion E; congruence|].
      rewrite (Hone eq_refl). reflexivity.
Qed.

(* otherwise the release phase does nothing *)
Lemma ce_rel_none s x f g y :
  f_opp (fd m f) = Some g -> f_cont (fd m g) = true ->
  (obj_of (single s (x, f)) = Some y \/ obj_of (single s (x, f)) = None) ->
  vals (ce_s3 s x f g y) = upd (vals s) (x, f) [VObj y] /\ cont (ce_s3 s x f g y) = cont s.
Proof.
  intros Efg Hcg Eq.
  pose proof (wf_opp_ref m W g f (wf_opp_inv m W f g Efg)) as Hgr.
  destruct (sf_release_fields m (set_store m s (x, f) (VObj y)) x f g (VObj y) (single s (x, f)) Hgr) as [RV [RC _]].
  fold (ce_s3 s x f g y) in RV, RC. rewrite RV, RC. unfold relV, relC.
  destruct Eq as [Eq|Eq]; rewrite Eq; cbn [obj_of]; rewrite ?Nat.eqb_refl; split; reflexivity.
Qed.

End SetCE.

Section SetCE2.
Variable m : mm.
Hypothesis W : wf_mm m.

(* after the release phase: the pending unlink of x computes the store of the state
   in which x has left its container, except on the own cell *)
Lemma ce_mid s x f g y :
  WF m s -> f_opp (fd m f) = Some g -> f_cont (fd m g) = true ->
  (forall k, k <> (x, f) -> ucV m (ce_s3 m s x f g y) y g x k = vals (pre_unlink m s y g x) k) /\
  (forall c, c <> x -> cont (ce_s3 m s x f g y) c = cont s c) /\
  (forall c, cont s c = None -> cont (ce_s3 m s x f g y) c = None) /\
  slot_ok m (ce_s3 m s x f g y) y g x /\
  vals (ce_s3 m s x f g y) (y, g) = vals s (y, g).
Proof.
  intros H Efg Hcg.
  pose proof (wf_opp_inv m W f g Efg) as Hgf.
  destruct (wf_container_end m W g f Hgf Hcg) as [Hsf Hcf].
  assert (Nfg : f <> g) by (intros E; subst; congruence).
  assert (Nyg : (x, f) <> (y, g)) by (intros E; inversion E; congruence).
  set (s3 := ce_s3 m s x f g y).
  destruct (obj_of (single s (x, f))) as [q|] eqn:Eq; [destruct (Nat.eq_dec q y) as [Eqy|Nq]|].
  - (* the partner is y already *)
    subst q. destruct (ce_rel_none m W s x f g y Efg Hcg (or_introl Eq)) as [RV RC]. fold s3 in RV, RC.
    destruct (ce_partner m s x f g y H Efg Hsf Hcg Eq) as [_ Hcx].
    split; [|split; [|split; [|split]]].
    + intros k Nk. rewrite (pre_unlink_vals m W s y g x H k). unfold ucV. rewrite RC, Hcx, !Nat.eqb_refl. cbn [andb negb].
      rewrite RV. apply upd_other. intros E; apply Nk; symmetry; exact E.
    + intros c _. rewrite RC. reflexivity.
    + intros c Hn. rewrite RC. exact Hn.
    + intros p pf Ec N. rewrite RC, Hcx in Ec. inversion Ec; subst. exfalso; apply N; reflexivity.
    + rewrite RV. apply upd_other. exact Nyg.
  - (* another partner q: x is taken out of (q, g) by the release *)
    destruct (ce_rel_some m W s x f g y q H Efg Hcg Eq Nq) as [RV [RC [Hcx [Hin Hone]]]]. fold s3 in RV, RC.
    split; [|split; [|split; [|split]]].
    + intros k Nk. rewrite (pre_unlink_vals m W s y g x H k). unfold ucV. rewrite RC, Hcx.
      unfold updn at 1. rewrite Nat.eqb_refl.
      destruct (Nat.eqb_spec q y) as [E|_]; [congruence|]. cbn [andb negb].
      unfold RUv. cbn [snd]. rewrite Hgf. cbv zeta. rewrite RV.
      unfold upd. destruct (cell_eqb_spec (q, g) k); [reflexivity|].
      destruct (cell_eqb_spec (x, f) k); [exfalso; apply Nk; congruence | reflexivity].
    + intros c Nc. rewrite RC. unfold updn. destruct (Nat.eqb_spec x c); [congruence | reflexivity].
    + intros c Hn. rewrite RC. unfold updn. destruct (x =? c); [reflexivity | exact Hn].
    + intros p pf Ec N. rewrite RC in Ec. unfold updn in Ec. rewrite Nat.eqb_refl in Ec. discriminate.
    + rewrite RV. rewrite upd_other by (intros E; inversion E; congruence). apply upd_other. exact Nyg.
  - (* no partner: x may sit in a containment slot of another feature *)
    destruct (ce_rel_none m W s x f g y Efg Hcg (or_intror Eq)) as [RV RC]. fold s3 in RV, RC.
    assert (HP : forall p pf, cont s x = Some (p, pf) ->
               f_cont (fd m pf) = true /\ In (VObj x) (vals s (p, pf)) /\
               (f_many (fd m pf) = false -> vals s (p, pf) = [VObj x]) /\ pf <> g).
    { intros p pf Ec. destruct (WF_child_slot m s x p pf H Ec) as [A [B C]].
      split; [exact A|]. split; [exact B|]. split; [exact C|].
      intros E. subst pf. apply (wf_sym m s H g f Hgf p x) in B. unfold R in B.
      rewrite (WF_single_slot m s x f H Hsf) in B. destruct B as [B|[]]. rewrite B in Eq. discriminate. }
    assert (HU : forall k, ucV m s3 y g x k = upd (ucV m s y g x) (x, f) [VObj y] k).
    { apply (ucV_upd m s s3 y g x (x, f) [VObj y]); [rewrite RC; reflexivity | intros k; rewrite RV; reflexivity|].
      intros p pf Ec _. destruct (HP p pf Ec) as [A [_ [_ D]]]. split; [intros E; inversion E; congruence|].
      intros h Eh E. inversion E; subst h. pose proof (wf_opp_inv m W pf f Eh). congruence. }
    split; [|split; [|split; [|split]]].
    + intros k Nk. rewrite HU. rewrite upd_other by (intros E; apply Nk; symmetry; exact E).
      symmetry. apply (pre_unlink_vals m W s y g x H).
    + intros c _. rewrite RC. reflexivity.
    + intros c Hn. rewrite RC. exact Hn.
    + intros p pf Ec N. rewrite RC in Ec. destruct (HP p pf Ec) as [A [B [C D]]].
      rewrite RV. rewrite upd_other by (intros E; inversion E; congruence).
      split; [exact A | split; [exact B | exact C]].
    + rewrite RV. apply upd_other. exact Nyg.
Qed.

End SetCE2.

Section SetCE3.
Variable m : mm.
Hypothesis W : wf_mm m.

(* the eviction of y's previous g-child c writes the container-end cell (c, f) only *)
Lemma ce_s4 t x f g y :
  f_cont (fd m f) = false -> f_isref (fd m f) = true -> f <> g -> slot_ok m t y g x ->
  let s4 := match obj_of (single t (y, g)) with
            | Some c => if c =? x then t else set_none_raw m t (c, f)
            | None => t end in
  cont s4 = cont t /\ rframe t s4 /\ slot_ok m s4 y g x /\ vals s4 (y, g) = vals t (y, g) /\
  (forall (p : oid) (h : fid), h <> f -> ucV m s4 y g x (p, h) = ucV m t y g x (p, h)).
Proof.
  intros Hcf Hrf Nfg Hslot. cbv zeta.
  assert (Triv : cont t = cont t /\ rframe t t /\ slot_ok m t y g x /\ vals t (y, g) = vals t (y, g) /\
                 (forall (p : oid) (h : fid), h <> f -> ucV m t y g x (p, h) = ucV m t y g x (p, h))).
  { split; [reflexivity | split; [apply rframe_refl | split; [exact Hslot | split; reflexivity]]]. }
  destruct (obj_of (single t (y, g))) as [c|]; [|exact Triv].
  destruct (Nat.eqb_spec c x) as [Ex|Nx]; [exact Triv|]. clear Triv.
  pose proof (vals_set_none_raw_any m t (c, f)) as A.
  pose proof (nc_set_none_raw m t (c, f) Hcf) as B.
  split; [exact B|]. split; [apply rframe_set_none_raw|].
  assert (Hslot4 : slot_ok m (set_none_raw m t (c, f)) y g x).
  { intros p pf Ec N. rewrite B in Ec. destruct (Hslot p pf Ec N) as [H1 [H2 H3]].
    rewrite A. rewrite upd_other by (intros E; inversion E; congruence).
    split; [exact H1 | split; [exact H2 | exact H3]]. }
  split; [exact Hslot4|]. split.
  - rewrite A. apply upd_other. intros E; inversion E; congruence.
  - intros p h Nh.
    rewrite (ucV_upd m t (set_none_raw m t (c, f)) y g x (c, f) [VNone]).
    + apply upd_other. intros E; inversion E; congruence.
    + rewrite B. reflexivity.
    + intros k. rewrite A. reflexivity.
    + intros p0 pf Ec N. destruct (Hslot p0 pf Ec N) as [H1 _].
      split; [intros E; inversion E; congruence | intros h0 _ E; inversion E; congruence].
Qed.

End SetCE3.

Section SetCE4.
Variable m : mm.
Hypothesis W : wf_mm m.

Lemma set_full_ce_fields s x f g y :
  WF m s -> f_opp (fd m f) = Some g -> f_cont (fd m g) = true -> check_single m f (VObj y) = true ->
  let s' := snd (set_full m s (x, f) (VObj y)) in
  let s_a := pre_unlink m s y g x in
  (forall (p : oid) (h : fid), f_cont (fd m h) = true ->
     vals s' (p, h) = upd (vals s_a) (y, g)
                          (if f_many (fd m g) then raw_append true (VObj x) (vals s_a (y, g)) else [VObj x]) (p, h)) /\
  (forall c, cont s' c = if x =? c then Some (y, g)
                         else if f_many (fd m g) then cont s c
                         else match obj_of (single s (y, g)) with
                              | Some c0 => if c0 =? c then None else cont s c
                              | None => cont s c end) /\
  (forall c r, In c (rcont s' r) -> In c (rcont s r) /\ c <> x).
Proof.
  intros H Efg Hcg Hchk. cbv zeta.
  pose proof (wf_opp_inv m W f g Efg) as Hgf.
  destruct (wf_container_end m W g f Hgf Hcg) as [Hsf Hcf].
  pose proof (wf_opp_ref m W f g Efg) as Hrf. pose proof (wf_opp_ref m W g f Hgf) as Hgr.
  assert (Nfg : f <> g) by (intros E; subst; congruence).
  rewrite (set_full_eq m s x f (VObj y) Hchk Hrf). cbn [obj_of]. rewrite (uc_noncont m _ _ _ _ _ Hcf).
  unfold sf_tail. rewrite Efg. cbn [obj_of]. fold (ce_s3 m s x f g y).
  destruct (ce_mid m W s x f g y H Efg Hcg) as [M1 [M2 [M2' [M3 M5]]]].
  assert (RR : rframe s (ce_s3 m s x f g y)).
  { unfold ce_s3. destruct (sf_release_fields m (set_store m s (x, f) (VObj y)) x f g (VObj y) (single s (x, f)) Hgr) as [_ [_ RR]].
    eapply rframe_trans; [|exact RR]. split; reflexivity. }
  set (s3 := ce_s3 m s x f g y) in *. set (s_a := pre_unlink m s y g x) in *.
  assert (Hcell : forall (p : oid) (h : fid), f_cont (fd m h) = true -> ucV m s3 y g x (p, h) = vals s_a (p, h)).
  { intros p h Hh. apply M1. intros E; inversion E; congruence. }
  (* roots of a state that frames s3 and keeps its back-pointers *)
  assert (Roots : forall t, rframe s3 t -> cont t = cont s3 ->
            forall c r, In c (rcont (sa_of m t x) r) -> In c (rcont s r) /\ c <> x).
  { intros t Rt Ct c r Hin.
    assert (Rst : rframe s t) by (eapply rframe_trans; eassumption).
    assert (Hres : res_ok t) by (apply (res_ok_frame s); [exact Rst | exact (wf_res m s H)]).
    assert (Hroots : roots_free t).
    { intros c1 r1 Hc1. destruct Rst as [R1 _]. rewrite R1 in Hc1. rewrite Ct. apply M2'. exact (wf_roots m s H c1 r1 Hc1). }
    split.
    - apply (sa_roots_sub m t x c r Hres) in Hin. destruct Rst as [R1 _]. rewrite R1 in Hin. exact Hin.
    - intros ->. exact (sa_not_root m t x r Hres Hroots Hin). }
  unfold sf_link. destruct (f_many (fd m g)) eqn:Hmg.
  - destruct (coll_append_raw_cont_fields m W s3 y g x Hcg M3) as [AV [AC [AR _]]].
    rewrite (wf_many_unique m W g Hmg (or_intror Hcg)) in AV.
    split; [|split].
    + intros p h Hh. rewrite AV. rewrite (Hcell y g Hcg). unfold upd.
      destruct (cell_eqb (y, g) (p, h)); [reflexivity | apply Hcell; exact Hh].
    + intros c. rewrite AC. destruct (Nat.eqb_spec x c) as [E|N]; [reflexivity | apply M2; congruence].
    + intros c r Hin. rewrite AR in Hin. exact (Roots s3 (rframe_refl s3) eq_refl c r Hin).
  - cbv zeta. destruct (ce_s4 m s3 x f g y Hcf Hrf Nfg M3) as [C4 [R4 [Slot4 [V4 U4]]]]. cbv zeta in C4, R4, Slot4, V4, U4.
    set (s4 := match obj_of (single s3 (y, g)) with
               | Some c => if c =? x then s3 else set_none_raw m s3 (c, f)
               | None => s3 end) in *.
    destruct (set_obj_raw_cont_fields m W s4 y g x Hcg Hgr Slot4) as [BV [BC [BR _]]].
    assert (HU5 : forall k, ucV m (set_store m s4 (y, g) (VObj x)) y g x k = upd (ucV m s4 y g x) (y, g) [VObj x] k).
    { apply (ucV_upd m s4 (set_store m s4 (y, g) (VObj x)) y g x (y, g) [VObj x]); [reflexivity | reflexivity|].
      intros p pf Ec N. destruct (Slot4 p pf Ec N) as [A _]. split; [intros E; apply N; symmetry; exact E|].
      intros h Eh E. inversion E; subst h. pose proof (wf_opp_inv m W pf g Eh). congruence. }
    split; [|split].
    + intros p h Hh. rewrite BV, HU5. unfold upd.
      destruct (cell_eqb (y, g) (p, h)); [reflexivity|].
      rewrite U4 by congruence. apply Hcell; exact Hh.
    + intros c. rewrite BC. unfold single. rewrite V4, M5, C4.
      destruct (Nat.eqb_spec x c) as [E|N]; [reflexivity|].
      fold (single s (y, g)). destruct (obj_of (single s (y, g))) as [c0|]; [|apply M2; congruence].
      destruct (c0 =? c); [reflexivity | apply M2; congruence].
    + intros c r Hin. rewrite BR in Hin. exact (Roots s4 R4 C4 c r Hin).
Qed.

End SetCE4.

Section SetCEWF.
Variable m : mm.
Hypothesis W : wf_mm m.

Lemma evict_eq s (P : oid) (F : fid) c :
  WF m s -> f_cont (fd m F) = true -> f_many (fd m F) = false ->
  match obj_of (single s (P, F)) with
  | Some q => if q =? c then None else cont s c
  | None => cont s c end =
  match cont s c with
  | Some k => if cell_eqb k (P, F) then None else Some k
  | None => None end.
Proof.
  intros H Hc Hs. pose proof (cont_single_slot m s P F c H Hc Hs) as Hq.
  destruct (obj_of (single s (P, F))) as [q|].
  - destruct (Nat.eqb_spec q c) as [Eq|Nq].
    + subst q. rewrite (proj2 Hq eq_refl), cell_eqb_refl. reflexivity.
    + destruct (cont s c) as [k|] eqn:Ek; [|reflexivity].
      destruct (cell_eqb_spec k (P, F)) as [E|Nk]; [|reflexivity].
      subst k. pose proof (proj1 Hq eq_refl) as C. inversion C. congruence.
  - destruct (cont s c) as [k|] eqn:Ek; [|reflexivity].
    destruct (cell_eqb_spec k (P, F)) as [E|Nk]; [|reflexivity].
    subst k. pose proof (proj1 Hq eq_refl) as C. discriminate.
Qed.

Theorem WF_set_full_ce s x f g y :
  WF m s -> f_opp (fd m f) = Some g -> f_cont (fd m g) = true -> check_single m f (VObj y) = true ->
  WF m (snd (set_full m s (x, f) (VObj y))).
Proof.
  intros H Efg Hcg Hchk.
  pose proof (wf_opp_inv m W f g Efg) as Hgf.
  destruct (wf_container_end m W g f Hgf Hcg) as [Hsf Hcf].
  destruct (set_full_ce_fields m W s x f g y H Efg Hcg Hchk) as [HV [HC HRt]].
  pose proof (sym_set_full_gen m W s x f (VObj y) H Hsf) as Hsym.
  pose proof (shape_set_full_wf m W s x f (VObj y) H Hsf) as Hshape.
  pose proof (res_ok_set_full m s (x, f) (VObj y) (wf_res m s H)) as Hres.
  set (s' := snd (set_full m s (x, f) (VObj y))) in *.
  pose proof (pre_unlink_WF m W s y g x H) as Hpre.
  set (s_a := pre_unlink m s y g x) in *.
  pose proof (WF_slot_ok m s y g x H) as Hslot.
  constructor; [exact Hsym | | | exact Hres | ].
  - intros a h. destruct (Hshape a h) as [S1 S2]. split; [exact S1|]. intros Ho.
    destruct (f_opp (fd m h)) as [g'|] eqn:Eh; [apply S2; congruence|].
    destruct Ho as [Ho|Hh]; [congruence|]. rewrite (HV a h Hh).
    rewrite upd_other by (intros E; inversion E; congruence).
    apply (proj2 (wf_shape m _ Hpre a h)). right; exact Hh.
  - apply own_ok_c.
    apply (own_okc_move m (vals s_a) (cont s_a) (vals s') (cont s') y g x (wf_own m _ Hpre) Hcg).
    + destruct (pre_unlink_cont_self m W s y g x Hslot) as [E|[E _]]; [left | right]; exact E.
    + intros b. rewrite (HV y g Hcg), upd_same. destruct (f_many (fd m g)).
      * rewrite raw_append_obj_In. intuition.
      * split; [intros [E|[]]; right; inversion E; reflexivity | intros [[C _]|E]; [discriminate | left; subst; reflexivity]].
    + intros p h b Hh N. rewrite (HV p h Hh). rewrite upd_other by (intros E; apply N; symmetry; exact E). tauto.
    + intros c. rewrite HC. destruct (Nat.eqb_spec x c) as [E|N]; [reflexivity|].
      unfold s_a. rewrite (pre_unlink_cont_other m W s y g x c Hslot) by congruence.
      destruct (f_many (fd m g)) eqn:Hmg; [reflexivity|]. apply evict_eq; assumption.
  - intros c r Hin. destruct (HRt c r Hin) as [Hin' Nx]. rewrite HC.
    pose proof (wf_roots m s H c r Hin') as Hn.
    destruct (Nat.eqb_spec x c); [congruence|]. destruct (f_many (fd m g)); [exact Hn|].
    destruct (obj_of (single s (y, g))) as [c0|]; [destruct (c0 =? c); [reflexivity | exact Hn] | exact Hn].
Qed.

(* x.f = v on a single-valued feature, every case *)
Theorem WF_set_full s x f v :
  WF m s -> f_many (fd m f) = false -> WF m (snd (set_full m s (x, f) v)).
Proof.
  intros H Hs.
  destruct (check_single m f v) eqn:Hchk; [|rewrite (set_full_rejected m s x f v Hchk); exact H].
  destruct (f_cont (fd m f)) eqn:Hc.
  - destruct (obj_of v) as [y|] eqn:Ev.
    + apply obj_of_Some' in Ev. subst v. apply WF_set_full_cont; assumption.
    + apply (WF_set_full_nonobj m W); try assumption. apply (wf_cont_ref m W f Hc).
  - destruct (f_opp (fd m f)) as [g|] eqn:Eg.
    + destruct (f_cont (fd m g)) eqn:Hcg.
      * destruct (obj_of v) as [y|] eqn:Ev.
        -- apply obj_of_Some' in Ev. subst v. apply (WF_set_full_ce s x f g y); assumption.
        -- apply (WF_set_full_nonobj m W); try assumption. apply (wf_opp_ref m W f g Eg).
      * apply (WF_set_full_plain m W); try assumption. intros g' Eg'. congruence.
    + apply (WF_set_full_plain m W); try assumption. intros g' Eg'. congruence.
Qed.

End SetCEWF.
