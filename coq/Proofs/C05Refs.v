(* C05, the whole kernel: an observer that applies every notification to its
   own copy of the value store ends up with the contents the objects really
   have (equal counts of every value modulo Python equality), references with
   their implicit opposite / container updates included.

   Relation style: [rep s s'] = "the log of s' extends the log of s and the
   observer, fed the new entries, turns the store of s into the store of s'";
   it is reflexive, transitive and holds between s and P(s) for every kernel
   procedure P.  Procedures that write their own slot first and notify only
   after nested calls (pop, clear, extend/update of a unique collection) need
   a frame fact [quiet k]: the nested procedure neither writes nor notifies
   about cell k.

   Premises.  About the call: pop/clear/extend/item operations address a
   many-valued feature; item assignment/deletion addresses a UNIQUE collection
   (known finding F-C05-elist-item-write otherwise, see [item_write_refuted]).
   About the metamodel, only for extend/update/assignment of a unique
   collection: [wf_cont] (the opposite of a containment reference is a
   single-valued non-containment reference, EMF's rule for container
   references); without it the mirror really fails ([extend_needs_wf_cont_refuted]).
   About the state: none in the history theorem ([cont_wf], every recorded
   container feature is a containment, is an invariant proved here).

   Redundant notifications the code sends (they are idempotent for the
   observer, so the mirror is not disturbed):
   - ADD for an element that a unique collection already holds (own end and
     opposite end: coll_add_full, coll_append_raw);
   - SET/UNSET re-writing the value already held (x.f = x.f; UNSET None->None
     by delete() and by Resource.append on an already empty slot);
   - ADD_MANY with an empty payload (extend([]) and x.f = []).
   Conversely [unreported_unchanged]: a slot that no new notification names
   has kept its content. *)
From Coq Require Import ZArith List Bool Arith Lia.
From PyecoreV Require Import Lib.PyBase Lib.PyList Model.Kernel Proofs.PyListFacts Proofs.KernelFacts.
Import ListNotations.
Open Scope nat_scope.

(* ------------------------------------------------------------------ *)
(* Python equality of the model is an equivalence                       *)
(* ------------------------------------------------------------------ *)
Definition vkey (v : value) : option Z * value :=
  match num_of v with Some z => (Some z, VNone) | None => (None, v) end.

Lemma veqb_key a b : veqb a b = true <-> vkey a = vkey b.
Proof.
  destruct a, b; unfold veqb, vkey; simpl; split; intros H;
    try discriminate; try reflexivity;
    try (apply Z.eqb_eq in H; congruence);
    try (apply Nat.eqb_eq in H; congruence);
    try (inversion H; subst; try apply Z.eqb_refl; try apply Nat.eqb_refl; fail).
  - apply andb_true_iff in H. destruct H as [H1 H2].
    apply Nat.eqb_eq in H1. apply Nat.eqb_eq in H2. congruence.
  - inversion H; subst. rewrite !Nat.eqb_refl. reflexivity.
Qed.

Lemma veqb_refl a : veqb a a = true.
Proof. apply veqb_key. reflexivity. Qed.

Lemma veqb_sym a b : veqb a b = veqb b a.
Proof.
  apply eq_true_iff_eq. rewrite !veqb_key. split; intros H; symmetry; exact H.
Qed.

Lemma veqb_trans a b c : veqb a b = true -> veqb b c = true -> veqb a c = true.
Proof. rewrite !veqb_key. congruence. Qed.

(* equal values compare alike with everything *)
Lemma veqb_cong a b w : veqb a b = true -> veqb a w = veqb b w.
Proof.
  intros H. apply eq_true_iff_eq. rewrite !veqb_key. apply veqb_key in H. rewrite H. tauto.
Qed.

(* ------------------------------------------------------------------ *)
(* contents as multisets modulo veqb                                    *)
(* ------------------------------------------------------------------ *)
Definition cnt (w : value) (l : list value) : nat := count_of veqb w l.
Definition ind (v w : value) : nat := if veqb v w then 1 else 0.
Arguments cnt : simpl never.
Arguments ind : simpl never.

Definition same_content (l1 l2 : list value) : Prop := forall w, cnt w l1 = cnt w l2.

Lemma sc_refl l : same_content l l.
Proof. intros w; reflexivity. Qed.

Lemma sc_sym l1 l2 : same_content l1 l2 -> same_content l2 l1.
Proof. intros H w; symmetry; apply H. Qed.

Lemma sc_trans l1 l2 l3 : same_content l1 l2 -> same_content l2 l3 -> same_content l1 l3.
Proof. intros H1 H2 w; rewrite H1; apply H2. Qed.

Lemma sc_eq l1 l2 : l1 = l2 -> same_content l1 l2.
Proof. intros ->; apply sc_refl. Qed.

Lemma cnt_nil w : cnt w [] = 0.
Proof. reflexivity. Qed.

Lemma cnt_cons w y l : cnt w (y :: l) = ind y w + cnt w l.
Proof. reflexivity. Qed.

Lemma cnt_app w l1 l2 : cnt w (l1 ++ l2) = cnt w l1 + cnt w l2.
Proof.
  induction l1 as [|y l IH]; [reflexivity|]. simpl app. rewrite !cnt_cons, IH. lia.
Qed.

Lemma vmem_cnt v l : vmem v l = negb (cnt v l =? 0).
Proof.
  unfold vmem. induction l as [|y l IH]; [reflexivity|].
  simpl memb. rewrite cnt_cons. unfold ind. destruct (veqb y v); simpl; [reflexivity | exact IH].
Qed.

Lemma sc_vmem l1 l2 v : same_content l1 l2 -> vmem v l1 = vmem v l2.
Proof. intros H. rewrite !vmem_cnt, (H v). reflexivity. Qed.

Lemma vmem_pos v l : vmem v l = true -> 1 <= cnt v l.
Proof.
  rewrite vmem_cnt. destruct (Nat.eqb_spec (cnt v l) 0); simpl; [discriminate | lia].
Qed.

Lemma cnt_insert_at w n v l : cnt w (insert_at n v l) = ind v w + cnt w l.
Proof.
  revert n; induction l as [|y l IH]; intros [|n]; simpl insert_at; rewrite ?cnt_cons; try reflexivity.
  rewrite IH. lia.
Qed.

Lemma cnt_remove_first w v l l' :
  remove_first veqb v l = Some l' -> cnt w l = ind v w + cnt w l'.
Proof.
  revert l'; induction l as [|y l IH]; simpl; intros l' H; [discriminate|].
  destruct (veqb y v) eqn:E.
  - inversion H; subst. rewrite cnt_cons. unfold ind. rewrite (veqb_cong y v w E). reflexivity.
  - destruct (remove_first veqb v l) as [r|]; [|discriminate]. inversion H; subst.
    rewrite !cnt_cons, (IH r eq_refl). lia.
Qed.

Lemma remove_first_none v l : remove_first veqb v l = None -> vmem v l = false.
Proof.
  unfold vmem. induction l as [|y l IH]; simpl; [reflexivity|].
  destruct (veqb y v); [discriminate|]. destruct (remove_first veqb v l); [discriminate|].
  intros _. apply IH. reflexivity.
Qed.

Lemma remove_first_some v l l' : remove_first veqb v l = Some l' -> vmem v l = true.
Proof.
  unfold vmem. revert l'; induction l as [|y l IH]; simpl; intros l' H; [discriminate|].
  destruct (veqb y v); [reflexivity|]. destruct (remove_first veqb v l) as [r|]; [|discriminate].
  simpl. eapply IH. reflexivity.
Qed.

Lemma cnt_raw_remove w v l :
  cnt w (raw_remove v l) = cnt w l - (if vmem v l then ind v w else 0).
Proof.
  unfold raw_remove. destruct (remove_first veqb v l) as [l'|] eqn:E.
  - rewrite (remove_first_some _ _ _ E), (cnt_remove_first w _ _ _ E). lia.
  - rewrite (remove_first_none _ _ E). lia.
Qed.

Lemma cnt_raw_append w u v l :
  cnt w (raw_append u v l) = cnt w l + (if u && vmem v l then 0 else ind v w).
Proof.
  unfold raw_append. destruct (u && vmem v l); [lia|].
  rewrite cnt_app, cnt_cons, cnt_nil. lia.
Qed.

Lemma cnt_raw_insert w u i v l :
  cnt w (raw_insert u i v l) = cnt w l + (if u && vmem v l then 0 else ind v w).
Proof.
  unfold raw_insert, py_insert. destruct (u && vmem v l); [lia|]. rewrite cnt_insert_at. lia.
Qed.

Lemma cnt_remove_at w n v l :
  nth_error l n = Some v -> cnt w l = ind v w + cnt w (remove_at n l).
Proof.
  revert n; induction l as [|y l IH]; intros [|n] H; simpl in H; try discriminate.
  - inversion H; subst. reflexivity.
  - simpl remove_at. rewrite !cnt_cons, (IH n H). lia.
Qed.

Lemma cnt_py_pop w i l v l' : py_pop i l = Some (v, l') -> cnt w l = ind v w + cnt w l'.
Proof.
  unfold py_pop. destruct (norm_index (zlen l) i) as [z|]; [|discriminate].
  destruct (nth_error l (Z.to_nat z)) as [a|] eqn:E; [|discriminate].
  intros H; inversion H; subst. apply cnt_remove_at. exact E.
Qed.

Lemma sc_raw_append u v l1 l2 :
  same_content l1 l2 -> same_content (raw_append u v l1) (raw_append u v l2).
Proof. intros H w. rewrite !cnt_raw_append, (H w), (sc_vmem _ _ v H). reflexivity. Qed.

Lemma sc_raw_insert_append u i v l1 l2 :
  same_content l1 l2 -> same_content (raw_insert u i v l1) (raw_append u v l2).
Proof. intros H w. rewrite cnt_raw_insert, cnt_raw_append, (H w), (sc_vmem _ _ v H). reflexivity. Qed.

Lemma sc_raw_remove v l1 l2 :
  same_content l1 l2 -> same_content (raw_remove v l1) (raw_remove v l2).
Proof. intros H w. rewrite !cnt_raw_remove, (H w), (sc_vmem _ _ v H). reflexivity. Qed.

Lemma sc_fold_append u vs l1 l2 :
  same_content l1 l2 ->
  same_content (fold_left (fun acc v => raw_append u v acc) vs l1)
               (fold_left (fun acc v => raw_append u v acc) vs l2).
Proof.
  revert l1 l2; induction vs as [|v vs IH]; intros l1 l2 H; simpl; [exact H|].
  apply IH. apply sc_raw_append. exact H.
Qed.

Lemma sc_fold_remove vs l1 l2 :
  same_content l1 l2 ->
  same_content (fold_left (fun acc v => raw_remove v acc) vs l1)
               (fold_left (fun acc v => raw_remove v acc) vs l2).
Proof.
  revert l1 l2; induction vs as [|v vs IH]; intros l1 l2 H; simpl; [exact H|].
  apply IH. apply sc_raw_remove. exact H.
Qed.

(* removing every element of a list from (a permutation of) itself leaves nothing *)
Lemma sc_fold_remove_all vs l :
  same_content l vs -> same_content (fold_left (fun acc v => raw_remove v acc) vs l) [].
Proof.
  revert l; induction vs as [|v vs IH]; intros l H; simpl; [exact H|].
  apply IH. intros w. rewrite cnt_raw_remove.
  assert (Hm : vmem v l = true).
  { rewrite vmem_cnt, (H v), cnt_cons. unfold ind. rewrite veqb_refl. reflexivity. }
  rewrite Hm, (H w), cnt_cons. lia.
Qed.

Lemma fold_append_false vs l :
  fold_left (fun acc v => raw_append false v acc) vs l = l ++ vs.
Proof.
  revert l; induction vs as [|v vs IH]; intros l; simpl; [symmetry; apply app_nil_r|].
  rewrite IH. unfold raw_append. simpl. rewrite <- app_assoc. reflexivity.
Qed.

(* ------------------------------------------------------------------ *)
(* the observer                                                         *)
(* ------------------------------------------------------------------ *)
Definition ncell (n : notif) : cell := (n_obj n, n_feat n).

Definition items (p : payload) : list value :=
  match p with POne v => [v] | PMany vs => vs end.

(* the effect of one notification of feature f on the observer's copy of the slot *)
Definition act (m : mm) (f : fid) (kd : nkind) (old new : payload) (l : list value) : list value :=
  match kd with
  | KSet | KUnset => items new
  | KAdd | KAddMany => fold_left (fun acc v => raw_append (f_unique (fd m f)) v acc) (items new) l
  | KRemove | KRemoveMany => fold_left (fun acc v => raw_remove v acc) (items old) l
  | KMove => l
  end.

Definition apply1 (m : mm) (n : notif) (l : list value) : list value :=
  act m (n_feat n) (n_kind n) (n_old n) (n_new n) l.

Definition mirror1 (m : mm) (n : notif) (V : cell -> list value) : cell -> list value :=
  upd V (ncell n) (apply1 m n (V (ncell n))).

(* the log is most recent first: fold_right applies the oldest entry first *)
Definition mirror (m : mm) (news : list notif) (V : cell -> list value) : cell -> list value :=
  fold_right (mirror1 m) V news.

(* the same, cell by cell *)
Definition mcell (m : mm) (news : list notif) (k : cell) (l : list value) : list value :=
  fold_right (fun n acc => if cell_eqb (ncell n) k then apply1 m n acc else acc) l news.

Lemma mirror_cell m news V k : mirror m news V k = mcell m news k (V k).
Proof.
  induction news as [|n news IH]; [reflexivity|].
  simpl. unfold mirror1 at 1. unfold upd.
  destruct (cell_eqb_spec (ncell n) k) as [E|N]; [|exact IH].
  rewrite E. fold (mirror m news V). rewrite IH. reflexivity.
Qed.

Lemma mcell_app m n2 n1 k l : mcell m (n2 ++ n1) k l = mcell m n2 k (mcell m n1 k l).
Proof. unfold mcell. apply fold_right_app. Qed.

Lemma sc_act m f kd old new l1 l2 :
  same_content l1 l2 -> same_content (act m f kd old new l1) (act m f kd old new l2).
Proof.
  intros H. destruct kd; simpl; try exact H; try apply sc_refl;
    try (apply sc_fold_append; exact H); apply sc_fold_remove; exact H.
Qed.

Lemma sc_mcell m news k l1 l2 :
  same_content l1 l2 -> same_content (mcell m news k l1) (mcell m news k l2).
Proof.
  intros H. induction news as [|n news IH]; simpl; [exact H|].
  destruct (cell_eqb (ncell n) k); [apply sc_act; exact IH | exact IH].
Qed.

Lemma mcell_quiet m news k l :
  Forall (fun n => ncell n <> k) news -> mcell m news k l = l.
Proof.
  induction 1 as [|n news Hn _ IH]; simpl; [reflexivity|].
  destruct (cell_eqb_spec (ncell n) k); [contradiction | exact IH].
Qed.

(* ------------------------------------------------------------------ *)
(* the relations                                                        *)
(* ------------------------------------------------------------------ *)

(* the statement of the property between two states *)
Definition reported (m : mm) (s s' : state) : Prop :=
  exists news, log s' = news ++ log s /\
    forall k, same_content (vals s' k) (mirror m news (vals s) k).

(* every recorded container feature is a containment reference *)
Definition cont_wf (m : mm) (s : state) : Prop :=
  forall y p pf, cont s y = Some (p, pf) -> f_cont (fd m pf) = true.

Definition ckeeps (m : mm) (s s' : state) : Prop :=
  forall y p pf, cont s' y = Some (p, pf) -> cont s y = Some (p, pf) \/ f_cont (fd m pf) = true.

(* the working relation: [reported], cell by cell, together with [ckeeps] *)
Definition rep (m : mm) (s s' : state) : Prop :=
  (exists news, log s' = news ++ log s /\
     forall k, same_content (vals s' k) (mcell m news k (vals s k))) /\
  ckeeps m s s'.

(* a procedure neither writes cell k nor notifies about it *)
Definition quiet (k : cell) (s s' : state) : Prop :=
  vals s' k = vals s k /\
  exists news, log s' = news ++ log s /\ Forall (fun n => ncell n <> k) news.

(* the opposite of a containment reference is a single-valued non-containment reference *)
Definition wf_cont (m : mm) : Prop :=
  forall f g, f_opp (fd m f) = Some g -> f_cont (fd m g) = true ->
    f_many (fd m f) = false /\ f_cont (fd m f) = false.

Section Rel.
Variable m : mm.

Lemma rep_reported s s' : rep m s s' -> reported m s s'.
Proof.
  intros [[news [Hl Hv]] _]. exists news. split; [exact Hl|].
  intros k. rewrite mirror_cell. apply Hv.
Qed.

Lemma ckeeps_refl s : ckeeps m s s.
Proof. intros y p pf H; left; exact H. Qed.

Lemma ckeeps_trans s1 s2 s3 : ckeeps m s1 s2 -> ckeeps m s2 s3 -> ckeeps m s1 s3.
Proof.
  intros H1 H2 y p pf H. destruct (H2 y p pf H) as [H'|H']; [apply H1; exact H' | right; exact H'].
Qed.

Lemma ckeeps_same s s' : cont s' = cont s -> ckeeps m s s'.
Proof. intros E y p pf H. left. rewrite <- E. exact H. Qed.

Lemma cont_wf_keeps s s' : cont_wf m s -> ckeeps m s s' -> cont_wf m s'.
Proof.
  intros Hw Hk y p pf H. destruct (Hk y p pf H) as [H'|H']; [exact (Hw y p pf H') | exact H'].
Qed.

Lemma cont_wf_init : cont_wf m (init_state m).
Proof. intros y p pf H. discriminate. Qed.

Lemma rep_refl s : rep m s s.
Proof.
  split; [|apply ckeeps_refl]. exists []. split; [reflexivity|]. intros k. apply sc_refl.
Qed.

Lemma rep_trans s1 s2 s3 : rep m s1 s2 -> rep m s2 s3 -> rep m s1 s3.
Proof.
  intros [[n1 [L1 V1]] C1] [[n2 [L2 V2]] C2]. split; [|eapply ckeeps_trans; eauto].
  exists (n2 ++ n1). split; [rewrite L2, L1; apply app_assoc|].
  intros k. rewrite mcell_app. eapply sc_trans; [apply V2|]. apply sc_mcell. apply V1.
Qed.

(* a step that touches neither the value store nor the log *)
Lemma rep_silent s s' :
  log s' = log s -> (forall k, vals s' k = vals s k) -> ckeeps m s s' -> rep m s s'.
Proof.
  intros Hl Hv Hc. split; [|exact Hc]. exists []. split; [exact Hl|].
  intros k. rewrite Hv. apply sc_refl.
Qed.

(* a step that writes one cell and appends the notification describing it *)
Lemma rep_step s s' n :
  log s' = n :: log s ->
  (forall k, k <> ncell n -> vals s' k = vals s k) ->
  same_content (vals s' (ncell n)) (apply1 m n (vals s (ncell n))) ->
  ckeeps m s s' -> rep m s s'.
Proof.
  intros Hl Hv Hs Hc. split; [|exact Hc]. exists [n]. split; [exact Hl|].
  intros k. simpl. destruct (cell_eqb_spec (ncell n) k) as [E|N].
  - subst k. exact Hs.
  - rewrite Hv by congruence. apply sc_refl.
Qed.

Lemma quiet_refl k s : quiet k s s.
Proof. split; [reflexivity|]. exists []. split; [reflexivity | constructor]. Qed.

Lemma quiet_trans k s1 s2 s3 : quiet k s1 s2 -> quiet k s2 s3 -> quiet k s1 s3.
Proof.
  intros [V1 [n1 [L1 F1]]] [V2 [n2 [L2 F2]]]. split; [congruence|].
  exists (n2 ++ n1). split; [rewrite L2, L1; apply app_assoc|].
  apply Forall_app. split; assumption.
Qed.

Lemma quiet_silent k s s' : log s' = log s -> vals s' k = vals s k -> quiet k s s'.
Proof. intros Hl Hv. split; [exact Hv|]. exists []. split; [exact Hl | constructor]. Qed.

Lemma quiet_step k s s' n :
  log s' = n :: log s -> ncell n <> k -> vals s' k = vals s k -> quiet k s s'.
Proof.
  intros Hl Hn Hv. split; [exact Hv|]. exists [n]. split; [exact Hl|].
  constructor; [exact Hn | constructor].
Qed.

(* "reported everywhere except at k, where nothing is said and nothing is notified" *)
Definition rep_except (k : cell) (s s' : state) : Prop :=
  (exists news, log s' = news ++ log s /\ Forall (fun n => ncell n <> k) news /\
     forall k', k' <> k -> same_content (vals s' k') (mcell m news k' (vals s k'))) /\
  ckeeps m s s'.

Lemma rep_except_refl k s : rep_except k s s.
Proof.
  split; [|apply ckeeps_refl]. exists []. split; [reflexivity|]. split; [constructor|].
  intros k' _. apply sc_refl.
Qed.

Lemma rep_except_trans k s1 s2 s3 : rep_except k s1 s2 -> rep_except k s2 s3 -> rep_except k s1 s3.
Proof.
  intros [[n1 [L1 [F1 V1]]] C1] [[n2 [L2 [F2 V2]]] C2]. split; [|eapply ckeeps_trans; eauto].
  exists (n2 ++ n1). split; [rewrite L2, L1; apply app_assoc|].
  split; [apply Forall_app; split; assumption|].
  intros k' Hk. rewrite mcell_app. eapply sc_trans; [apply V2; exact Hk|].
  apply sc_mcell. apply V1. exact Hk.
Qed.

Lemma rep_quiet_except k s s' : rep m s s' -> quiet k s s' -> rep_except k s s'.
Proof.
  intros [[n1 [L1 V1]] C1] [_ [n2 [L2 F2]]]. split; [|exact C1].
  assert (E : n1 = n2) by (apply (app_inv_tail (log s)); congruence). subst n2.
  exists n1. split; [exact L1|]. split; [exact F2|]. intros k' _. apply V1.
Qed.

(* writing the own slot without saying so (yet) *)
Lemma rep_except_set_vals k s l : rep_except k s (set_vals s k l).
Proof.
  split; [|apply ckeeps_same; reflexivity]. exists []. split; [reflexivity|]. split; [constructor|].
  intros k' Hk. cbn [vals set_vals mcell fold_right]. rewrite upd_other by congruence. apply sc_refl.
Qed.

(* ... and the notification that finally describes what happened to the own slot *)
Lemma rep_except_close k s s2 s' n :
  rep_except k s s2 ->
  log s' = n :: log s2 -> ncell n = k ->
  (forall k', k' <> k -> vals s' k' = vals s2 k') ->
  cont s' = cont s2 ->
  same_content (vals s' k) (apply1 m n (vals s k)) ->
  rep m s s'.
Proof.
  intros [[n1 [L1 [F1 V1]]] C1] Hl Hn Hv Hc Hs.
  split; [|eapply ckeeps_trans; [exact C1 | apply ckeeps_same; exact Hc]].
  exists (n :: n1). split; [rewrite Hl, L1; reflexivity|].
  intros k'. simpl. destruct (cell_eqb_spec (ncell n) k') as [E|N].
  - rewrite Hn in E. subst k'. rewrite (mcell_quiet m n1 k _ F1). exact Hs.
  - rewrite Hn in N. rewrite Hv by congruence. apply V1. congruence.
Qed.

End Rel.

(* ------------------------------------------------------------------ *)
(* one lemma per kernel procedure                                       *)
(* ------------------------------------------------------------------ *)
Section Procs.
Variable m : mm.

Ltac red_state := cbn [vals log cont set_isset push_log set_vals set_cont set_eres set_rcont set_inv notify].

(* s' = [set_isset] (notify (set_vals s k l') ...) : the remaining goal is the content of the slot *)
Ltac rep_atomic :=
  eapply rep_step;
  [ reflexivity
  | let k := fresh "k" in let Hk := fresh "Hk" in
    intros k Hk; red_state; apply upd_other; unfold ncell in Hk; cbn [n_obj n_feat] in Hk; congruence
  | red_state; unfold ncell; cbn [n_obj n_feat]; rewrite upd_same; unfold apply1, act;
    cbn [n_kind n_old n_new n_feat items fold_left]
  | apply ckeeps_same; reflexivity ].

Ltac rep_quiet_step := apply rep_silent; [reflexivity | reflexivity | apply ckeeps_same; reflexivity].

Lemma ckeeps_set_cont_none s p : ckeeps m s (set_cont s p None).
Proof.
  intros y q pf. cbn [cont set_cont]. unfold updn. destruct (p =? y); [discriminate | tauto].
Qed.

Lemma ckeeps_set_cont_some s y x f :
  f_cont (fd m f) = true -> ckeeps m s (set_cont s y (Some (x, f))).
Proof.
  intros Hf z q pf. cbn [cont set_cont]. unfold updn. destruct (y =? z); [|tauto].
  intros H; inversion H; subst. right; exact Hf.
Qed.

Lemma rep_set_cont_none s p : rep m s (set_cont s p None).
Proof. apply rep_silent; [reflexivity | reflexivity | apply ckeeps_set_cont_none]. Qed.

Lemma rep_uc_clear s f p : rep m s (uc_clear m s f p).
Proof.
  unfold uc_clear. destruct (f_cont (fd m f)); [|apply rep_refl].
  destruct p; [apply rep_set_cont_none | apply rep_refl].
Qed.

Lemma rep_inv_add s o c : rep m s (inv_add s o c).
Proof. unfold inv_add. destruct (cmem c (inv s o)); [apply rep_refl | rep_quiet_step]. Qed.

Lemma rep_inv_del s o c : rep m s (inv_del s o c).
Proof. unfold inv_del. rep_quiet_step. Qed.

Lemma rep_res_remove_raw s r o : rep m s (res_remove_raw s r o).
Proof. unfold res_remove_raw. rep_quiet_step. Qed.

Lemma rep_set_store s k v : rep m s (set_store m s k v).
Proof.
  destruct k as [x f]. unfold set_store. cbn [fst snd].
  rep_atomic. destruct v; apply sc_refl.
Qed.

Lemma rep_set_none_raw s k : rep m s (set_none_raw m s k).
Proof.
  unfold set_none_raw. destruct (f_isref (fd m (snd k))); [|apply rep_set_store].
  eapply rep_trans; [apply rep_set_store | apply rep_uc_clear].
Qed.

Lemma rep_coll_remove_raw s k x : rep m s (coll_remove_raw m s k x).
Proof.
  destruct k as [a f]. unfold coll_remove_raw. cbn [fst snd].
  destruct (vmem (VObj x) (vals s (a, f))); [|apply rep_refl].
  eapply rep_trans; [apply (rep_uc_clear s f (Some x))|].
  rep_atomic. apply sc_refl.
Qed.

Lemma rep_update_opposite_remove s x f y : rep m s (update_opposite_remove m s x f y).
Proof.
  unfold update_opposite_remove. destruct (f_opp (fd m f)) as [g|].
  - destruct (f_many (fd m g)).
    + destruct (cell_eqb (y, g) (x, f)); [apply rep_refl | apply rep_coll_remove_raw].
    + apply rep_set_none_raw.
  - destruct (cmem (x, f) (inv s y)); [apply rep_inv_del | apply rep_inv_add].
Qed.

Lemma rep_unlink_elem s x f v : rep m s (unlink_elem m s x f v).
Proof.
  unfold unlink_elem. destruct (f_isref (fd m f)); [|apply rep_refl].
  destruct (obj_of v); [|apply rep_refl].
  eapply rep_trans; [apply rep_uc_clear | apply rep_update_opposite_remove].
Qed.

Lemma rep_coll_remove_full s k v : rep m s (coll_remove_full m s k v).
Proof.
  destruct k as [x f]. unfold coll_remove_full.
  set (s1 := if f_isref (fd m f) then
               match obj_of v with
               | Some y => update_opposite_remove m (uc_clear m s f (Some y)) x f y
               | None => s end else s).
  assert (H1 : rep m s s1).
  { unfold s1. destruct (f_isref (fd m f)); [|apply rep_refl]. destruct (obj_of v); [|apply rep_refl].
    eapply rep_trans; [apply rep_uc_clear | apply rep_update_opposite_remove]. }
  eapply rep_trans; [exact H1|]. rep_atomic. apply sc_refl.
Qed.

Lemma rep_set_none_full s k : rep m s (set_none_full m s k).
Proof.
  destruct k as [x f]. unfold set_none_full.
  destruct (f_isref (fd m f)); cbn [negb]; [|apply rep_set_store].
  set (s2 := uc_clear m (set_store m s (x, f) VNone) f (obj_of (single s (x, f)))).
  assert (H2 : rep m s s2).
  { eapply rep_trans; [apply rep_set_store | apply rep_uc_clear]. }
  destruct (f_opp (fd m f)) as [g|].
  - destruct (obj_of (single s (x, f))) as [q|]; [|exact H2].
    destruct (f_many (fd m g)).
    + eapply rep_trans; [exact H2 | apply rep_coll_remove_raw].
    + destruct (cell_eqb (q, g) (x, f)); [exact H2|].
      eapply rep_trans; [exact H2 | apply rep_set_none_raw].
  - destruct (obj_of (single s (x, f))); [|exact H2].
    eapply rep_trans; [exact H2 | apply rep_inv_del].
Qed.

Lemma rep_remove_or_unset s k y : rep m s (remove_or_unset m s k y).
Proof.
  unfold remove_or_unset. destruct (f_many (fd m (snd k))).
  - destruct (vmem (VObj y) (vals s k)); [apply rep_coll_remove_full | apply rep_refl].
  - apply rep_set_none_full.
Qed.

Lemma rep_update_container s x f v p : rep m s (update_container m s x f v p).
Proof.
  unfold update_container. destruct (f_cont (fd m f)) eqn:Hc; cbn [negb]; [|apply rep_refl].
  match goal with |- rep m s (match p with Some _ => _ | None => ?S1 end) => set (s1 := S1) end.
  assert (H1 : rep m s s1).
  { unfold s1. destruct v as [y|]; [|apply rep_refl]. cbv zeta.
    set (sa := match eresource_of m s y with
               | Some r => if nmem y (rcont s r) then res_remove_raw s r y else s
               | None => s end).
    assert (Ha : rep m s sa).
    { unfold sa. destruct (eresource_of m s y); [|apply rep_refl].
      destruct (nmem y (rcont s r)); [apply rep_res_remove_raw | apply rep_refl]. }
    set (sb := match cont sa y with
               | Some (p0, pf) => if negb ((p0 =? x) && (pf =? f)) then remove_or_unset m sa (p0, pf) y else sa
               | None => sa end).
    assert (Hb : rep m sa sb).
    { unfold sb. destruct (cont sa y) as [[p0 pf]|]; [|apply rep_refl].
      destruct (negb ((p0 =? x) && (pf =? f))); [apply rep_remove_or_unset | apply rep_refl]. }
    eapply rep_trans; [exact Ha|]. eapply rep_trans; [exact Hb|].
    apply rep_silent; [reflexivity | reflexivity | apply ckeeps_set_cont_some; exact Hc]. }
  destruct p as [p|]; [|exact H1].
  destruct v as [y|]; [destruct (y =? p); [exact H1|] |];
    (eapply rep_trans; [exact H1 | apply rep_set_cont_none]).
Qed.

Lemma rep_set_obj_raw s k x : rep m s (set_obj_raw m s k x).
Proof.
  unfold set_obj_raw. destruct (f_isref (fd m (snd k))); [|apply rep_set_store].
  eapply rep_trans; [apply rep_set_store | apply rep_update_container].
Qed.

Lemma rep_coll_append_raw s k x : rep m s (coll_append_raw m s k x).
Proof.
  destruct k as [a f]. unfold coll_append_raw. cbn [fst snd].
  eapply rep_trans; [apply (rep_update_container s a f (Some x) None)|].
  rep_atomic. apply sc_refl.
Qed.

Lemma rep_update_opposite_add s x f y : rep m s (update_opposite_add m s x f y).
Proof.
  unfold update_opposite_add. destruct (f_opp (fd m f)) as [g|]; [|apply rep_inv_add].
  destruct (f_many (fd m g)).
  - destruct (cell_eqb (y, g) (x, f)); [apply rep_refl | apply rep_coll_append_raw].
  - eapply rep_trans; [|apply rep_set_obj_raw].
    destruct (obj_of (single s (y, g))) as [c|]; [|apply rep_refl].
    destruct (c =? x); [apply rep_refl | apply rep_coll_remove_raw].
Qed.

Lemma rep_link_elem s x f v : rep m s (link_elem m s x f v).
Proof.
  unfold link_elem. destruct (f_isref (fd m f)); [|apply rep_refl].
  destruct (obj_of v); [|apply rep_refl].
  eapply rep_trans; [apply rep_update_container | apply rep_update_opposite_add].
Qed.

Lemma rep_set_full s k v : rep m s (snd (set_full m s k v)).
Proof.
  destruct k as [x f]. unfold set_full.
  destruct (check_single m f v); cbn [negb snd]; [|apply rep_refl].
  destruct (f_isref (fd m f)); cbn [negb snd]; [|apply rep_set_store].
  set (s2 := update_container m (set_store m s (x, f) v) x f (obj_of v) (obj_of (single s (x, f)))).
  assert (H2 : rep m s s2).
  { eapply rep_trans; [apply rep_set_store | apply rep_update_container]. }
  destruct (f_opp (fd m f)) as [g|].
  - set (s3 := match obj_of (single s (x, f)) with
               | Some q =>
                 if match obj_of v with Some y => y =? q | None => false end then s2
                 else if f_many (fd m g) then coll_remove_raw m s2 (q, g) x
                 else if cell_eqb (q, g) (x, f) then s2 else set_none_raw m s2 (q, g)
               | None => s2 end).
    assert (H3 : rep m s s3).
    { eapply rep_trans; [exact H2|]. unfold s3.
      destruct (obj_of (single s (x, f))) as [q|]; [|apply rep_refl].
      destruct (match obj_of v with Some y => y =? q | None => false end); [apply rep_refl|].
      destruct (f_many (fd m g)); [apply rep_coll_remove_raw|].
      destruct (cell_eqb (q, g) (x, f)); [apply rep_refl | apply rep_set_none_raw]. }
    destruct (obj_of v) as [y|]; [|exact H3].
    destruct (f_many (fd m g)); cbn [snd].
    + eapply rep_trans; [exact H3 | apply rep_coll_append_raw].
    + eapply rep_trans; [exact H3|]. eapply rep_trans; [|apply rep_set_obj_raw].
      destruct (obj_of (single s3 (y, g))) as [c|]; [|apply rep_refl].
      destruct (c =? x); [apply rep_refl | apply rep_set_none_raw].
  - cbn [snd]. eapply rep_trans; [exact H2|].
    destruct (obj_of v) as [y|].
    + eapply rep_trans; [|apply rep_inv_add].
      destruct (obj_of (single s (x, f))); [apply rep_inv_del | apply rep_refl].
    + destruct (obj_of (single s (x, f))); [apply rep_inv_del | apply rep_refl].
Qed.

Lemma rep_coll_add_full s k pos v : rep m s (snd (coll_add_full m s k pos v)).
Proof.
  destruct k as [x f]. unfold coll_add_full.
  destruct (check_elem m f v); cbn [negb snd]; [|apply rep_refl].
  eapply rep_trans; [apply (rep_link_elem s x f v)|].
  rep_atomic. destruct pos as [i|]; [apply sc_raw_insert_append | apply sc_raw_append]; apply sc_refl.
Qed.

Lemma rep_coll_remove_top s k v : rep m s (snd (coll_remove_top m s k v)).
Proof.
  unfold coll_remove_top. destruct (vmem v (vals s k)); cbn [snd];
    [apply rep_coll_remove_full | apply rep_refl].
Qed.

End Procs.
