(* C03: no feature ever holds a value of the wrong type — invariant over the
   whole kernel model (every procedure, nested opposite/container updates
   included), plus reject/accept facts for the single-value operations. *)
From Coq Require Import ZArith List Bool Arith Lia.
From PyecoreV Require Import Lib.PyBase Lib.PyList Model.Kernel Proofs.PyListFacts Proofs.KernelFacts.
Import ListNotations.
Open Scope nat_scope.

(* what a slot of feature f may hold: the type check of EValue (None allowed)
   or of ECollection (None refused by references) *)
Definition okv (m : mm) (f : fid) (v : value) : bool :=
  if f_many (fd m f) then check_elem m f v else check_single m f v.

Definition typed (m : mm) (s : state) : Prop :=
  forall k v, In v (vals s k) -> okv m (snd k) v = true.

(* the owner of a bidirectional reference conforms to the type of the other end *)
Definition opp_typed (m : mm) (x : oid) (f : fid) : Prop :=
  forall g, f_opp (fd m f) = Some g -> okv m g (VObj x) = true.

Section Typed.
Variable m : mm.

Lemma okv_none_single f : f_many (fd m f) = false -> okv m f VNone = true.
Proof. intros H. unfold okv. rewrite H. reflexivity. Qed.

Lemma typed_set_vals s k l :
  typed m s -> (forall v, In v l -> okv m (snd k) v = true) -> typed m (set_vals s k l).
Proof.
  intros Ht Hl k' v. cbn [vals set_vals]. unfold upd.
  destruct (cell_eqb_spec k k') as [E|N]; [subst k'; apply Hl | apply Ht].
Qed.

Lemma In_raw_remove (w v : value) l : In v (raw_remove w l) -> In v l.
Proof.
  unfold raw_remove. destruct (remove_first veqb w l) as [l'|] eqn:E; [|tauto].
  revert l' E. induction l as [|y ys IH]; simpl; intros l' E; [discriminate|].
  destruct (veqb y w).
  - inversion E; subst. tauto.
  - destruct (remove_first veqb w ys) as [r|]; [|discriminate]. inversion E; subst.
    simpl. intros [H|H]; [tauto | right; eapply IH; eauto].
Qed.

Lemma In_raw_append u (w v : value) l : In v (raw_append u w l) -> In v l \/ v = w.
Proof.
  unfold raw_append. destruct (u && vmem w l); [tauto|]. rewrite in_app_iff. simpl.
  intros [H|[H|[]]]; [tauto | right; congruence].
Qed.

Lemma In_py_insert {A} i (w v : A) l : In v (py_insert i w l) -> v = w \/ In v l.
Proof. unfold py_insert. apply insert_at_In. Qed.

Lemma In_raw_insert u i (w v : value) l : In v (raw_insert u i w l) -> In v l \/ v = w.
Proof.
  unfold raw_insert. destruct (u && vmem w l); [tauto|]. intros H. apply In_py_insert in H. tauto.
Qed.

Lemma In_set_at {A} n (w v : A) l : In v (set_at n w l) -> v = w \/ In v l.
Proof.
  revert n; induction l as [|y ys IH]; intros n; simpl; [tauto|].
  destruct n as [|n]; simpl.
  - intros [H|H]; [left; congruence | tauto].
  - intros [H|H]; [tauto | destruct (IH _ H); tauto].
Qed.

Lemma In_py_pop {A} i (l l' : list A) x v : py_pop i l = Some (x, l') -> In v l' -> In v l.
Proof.
  unfold py_pop. destruct (norm_index (zlen l) i); [|discriminate].
  destruct (nth_error l (Z.to_nat z)); [|discriminate]. intros H; inversion H; subst.
  apply remove_at_In.
Qed.

Lemma py_pop_In {A} i (l l' : list A) x : py_pop i l = Some (x, l') -> In x l.
Proof.
  unfold py_pop. destruct (norm_index (zlen l) i); [|discriminate].
  destruct (nth_error l (Z.to_nat z)) eqn:E; [|discriminate]. intros H; inversion H; subst.
  eapply nth_error_In; eauto.
Qed.

(* setters that do not touch the value store *)
Lemma typed_ext s s' : (forall k, vals s' k = vals s k) -> typed m s -> typed m s'.
Proof. intros E H k v. rewrite E. apply H. Qed.

Lemma typed_uc_clear s f p : typed m s -> typed m (uc_clear m s f p).
Proof.
  intros H. unfold uc_clear. destruct (f_cont (fd m f)); [|exact H]. destruct p; exact H.
Qed.

Lemma typed_inv_add s o c : typed m s -> typed m (inv_add s o c).
Proof. intros H. unfold inv_add. destruct (cmem c (inv s o)); exact H. Qed.

Lemma typed_set_store s k v :
  typed m s -> okv m (snd k) v = true -> typed m (set_store m s k v).
Proof.
  intros H Hv. unfold set_store.
  apply (typed_ext (set_vals s k [v])); [reflexivity|].
  apply typed_set_vals; [exact H|]. intros w [E|[]]; subst; exact Hv.
Qed.

Lemma typed_set_none_raw s k :
  typed m s -> f_many (fd m (snd k)) = false -> typed m (set_none_raw m s k).
Proof.
  intros H Hs. unfold set_none_raw.
  assert (Ht : typed m (set_store m s k VNone)) by (apply typed_set_store; [exact H | apply okv_none_single; exact Hs]).
  destruct (f_isref (fd m (snd k))); [apply typed_uc_clear|]; exact Ht.
Qed.

Lemma typed_coll_remove_raw s k x : typed m s -> typed m (coll_remove_raw m s k x).
Proof.
  intros H. unfold coll_remove_raw. destruct (vmem (VObj x) (vals s k)); [|exact H].
  apply (typed_ext (set_vals (uc_clear m s (snd k) (Some x)) k
                             (raw_remove (VObj x) (vals (uc_clear m s (snd k) (Some x)) k)))); [reflexivity|].
  apply typed_set_vals; [apply typed_uc_clear; exact H|].
  intros v Hv. apply In_raw_remove in Hv. exact (typed_uc_clear s (snd k) (Some x) H k v Hv).
Qed.

(* single-valuedness of the cell a raw None is written to is what the code tests *)
Lemma typed_update_opposite_remove s x f y :
  typed m s -> typed m (update_opposite_remove m s x f y).
Proof.
  intros H. unfold update_opposite_remove. destruct (f_opp (fd m f)) as [g|].
  - destruct (f_many (fd m g)) eqn:Hg.
    + destruct (cell_eqb (y, g) (x, f)); [exact H | apply typed_coll_remove_raw; exact H].
    + apply typed_set_none_raw; [exact H | exact Hg].
  - destruct (cmem (x, f) (inv s y)); [exact H | apply typed_inv_add; exact H].
Qed.

Lemma typed_coll_remove_full s k v : typed m s -> typed m (coll_remove_full m s k v).
Proof.
  intros H. destruct k as [x f]. unfold coll_remove_full.
  set (s1 := if f_isref (fd m f) then
               match obj_of v with
               | Some y => update_opposite_remove m (uc_clear m s f (Some y)) x f y
               | None => s end else s).
  assert (H1 : typed m s1).
  { unfold s1. destruct (f_isref (fd m f)); [|exact H]. destruct (obj_of v); [|exact H].
    apply typed_update_opposite_remove. apply typed_uc_clear. exact H. }
  apply (typed_ext (set_vals s1 (x, f) (raw_remove v (vals s1 (x, f))))); [reflexivity|].
  apply typed_set_vals; [exact H1|]. intros w Hw. apply In_raw_remove in Hw. exact (H1 (x, f) w Hw).
Qed.

Lemma typed_set_none_full s k :
  typed m s -> f_many (fd m (snd k)) = false -> typed m (set_none_full m s k).
Proof.
  intros H Hs. destruct k as [x f]. unfold set_none_full. cbn [snd] in Hs.
  assert (H1 : typed m (set_store m s (x, f) VNone)).
  { apply typed_set_store; [exact H | apply okv_none_single; exact Hs]. }
  destruct (f_isref (fd m f)); cbn [negb]; [|exact H1].
  set (s2 := uc_clear m (set_store m s (x, f) VNone) f (obj_of (single s (x, f)))).
  assert (H2 : typed m s2) by (apply typed_uc_clear; exact H1).
  destruct (f_opp (fd m f)) as [g|].
  - destruct (obj_of (single s (x, f))) as [q|]; [|exact H2].
    destruct (f_many (fd m g)) eqn:Hg.
    + apply typed_coll_remove_raw; exact H2.
    + destruct (cell_eqb (q, g) (x, f)); [exact H2 | apply typed_set_none_raw; [exact H2 | exact Hg]].
  - destruct (obj_of (single s (x, f))); exact H2.
Qed.

Lemma typed_remove_or_unset s k y : typed m s -> typed m (remove_or_unset m s k y).
Proof.
  intros H. unfold remove_or_unset. destruct (f_many (fd m (snd k))) eqn:Hk.
  - destruct (vmem (VObj y) (vals s k)); [apply typed_coll_remove_full|]; exact H.
  - apply typed_set_none_full; assumption.
Qed.

Lemma typed_update_container s x f v p : typed m s -> typed m (update_container m s x f v p).
Proof.
  intros H. unfold update_container. destruct (f_cont (fd m f)); cbn [negb]; [|exact H].
  assert (H1 : typed m match v with
    | Some y =>
      let sa := match eresource_of m s y with
                | Some r => if nmem y (rcont s r) then res_remove_raw s r y else s
                | None => s end in
      let sb := match cont sa y with
                | Some (p0, pf) => if negb ((p0 =? x) && (pf =? f)) then remove_or_unset m sa (p0, pf) y else sa
                | None => sa end in
      set_cont sb y (Some (x, f))
    | None => s end).
  { destruct v as [y|]; [|exact H]. cbv zeta.
    set (sa := match eresource_of m s y with
               | Some r => if nmem y (rcont s r) then res_remove_raw s r y else s
               | None => s end).
    assert (Ha : typed m sa).
    { unfold sa. destruct (eresource_of m s y); [|exact H]. destruct (nmem y (rcont s r)); exact H. }
    destruct (cont sa y) as [[p0 pf]|]; [|exact Ha].
    destruct (negb ((p0 =? x) && (pf =? f))); [|exact Ha].
    apply (typed_ext (remove_or_unset m sa (p0, pf) y)); [reflexivity|].
    apply typed_remove_or_unset; exact Ha. }
  destruct p as [p|]; [|exact H1]. destruct v as [y|]; [destruct (y =? p)|]; exact H1.
Qed.

Lemma typed_set_obj_raw s k x :
  typed m s -> okv m (snd k) (VObj x) = true -> typed m (set_obj_raw m s k x).
Proof.
  intros H Hx. unfold set_obj_raw.
  assert (H1 : typed m (set_store m s k (VObj x))) by (apply typed_set_store; assumption).
  destruct (f_isref (fd m (snd k))); [apply typed_update_container|]; exact H1.
Qed.

Lemma typed_coll_append_raw s k x :
  typed m s -> okv m (snd k) (VObj x) = true -> typed m (coll_append_raw m s k x).
Proof.
  intros H Hx. unfold coll_append_raw.
  set (s1 := update_container m s (fst k) (snd k) (Some x) None).
  assert (H1 : typed m s1) by (apply typed_update_container; exact H).
  apply (typed_ext (set_vals s1 k (raw_append (f_unique (fd m (snd k))) (VObj x) (vals s1 k)))); [reflexivity|].
  apply typed_set_vals; [exact H1|]. intros v Hv. apply In_raw_append in Hv.
  destruct Hv as [Hv|Hv]; [exact (H1 k v Hv) | subst v; exact Hx].
Qed.

Lemma typed_update_opposite_add s x f y :
  typed m s -> opp_typed m x f -> typed m (update_opposite_add m s x f y).
Proof.
  intros H Ho. unfold update_opposite_add. destruct (f_opp (fd m f)) as [g|] eqn:Eg.
  - pose proof (Ho g Eg) as Hx. destruct (f_many (fd m g)).
    + destruct (cell_eqb (y, g) (x, f)); [exact H | apply typed_coll_append_raw; assumption].
    + apply typed_set_obj_raw; [|exact Hx].
      destruct (obj_of (single s (y, g))) as [c|]; [|exact H].
      destruct (c =? x); [exact H | apply typed_coll_remove_raw; exact H].
  - apply typed_inv_add; exact H.
Qed.

Lemma typed_inv_del s o c : typed m s -> typed m (inv_del s o c).
Proof. intros H. exact H. Qed.

Lemma typed_set_full s x f v :
  typed m s -> f_many (fd m f) = false ->
  (forall y, v = VObj y -> opp_typed m x f) ->
  typed m (snd (set_full m s (x, f) v)).
Proof.
  intros H Hs Ho. unfold set_full.
  destruct (check_single m f v) eqn:Ec; cbn [negb]; [|exact H].
  assert (Hv : okv m f v = true) by (unfold okv; rewrite Hs; exact Ec).
  assert (H1 : typed m (set_store m s (x, f) v)) by (apply typed_set_store; [exact H | exact Hv]).
  destruct (f_isref (fd m f)); cbn [negb]; [|exact H1].
  set (s2 := update_container m (set_store m s (x, f) v) x f (obj_of v) (obj_of (single s (x, f)))).
  assert (H2 : typed m s2) by (apply typed_update_container; exact H1).
  destruct (f_opp (fd m f)) as [g|] eqn:Eg.
  - set (s3 := match obj_of (single s (x, f)) with
               | Some q =>
                 if match obj_of v with Some y => y =? q | None => false end then s2
                 else if f_many (fd m g) then coll_remove_raw m s2 (q, g) x
                 else if cell_eqb (q, g) (x, f) then s2 else set_none_raw m s2 (q, g)
               | None => s2 end).
    assert (H3 : typed m s3).
    { unfold s3. destruct (obj_of (single s (x, f))) as [q|]; [|exact H2].
      destruct (match obj_of v with Some y => y =? q | None => false end); [exact H2|].
      destruct (f_many (fd m g)) eqn:Hg; [apply typed_coll_remove_raw; exact H2|].
      destruct (cell_eqb (q, g) (x, f)); [exact H2 | apply typed_set_none_raw; assumption]. }
    destruct (obj_of v) as [y|] eqn:Ev; [|exact H3].
    apply obj_of_Some' in Ev. pose proof (Ho y Ev g Eg) as Hx.
    destruct (f_many (fd m g)) eqn:Hg; cbn [snd].
    + apply typed_coll_append_raw; assumption.
    + apply typed_set_obj_raw; [|exact Hx].
      destruct (obj_of (single s3 (y, g))) as [c|]; [|exact H3].
      destruct (c =? x); [exact H3 | apply typed_set_none_raw; [exact H3 | exact Hs]].
  - cbn [snd]. destruct (obj_of v) as [y|].
    + apply typed_inv_add. destruct (obj_of (single s (x, f))); exact H2.
    + destruct (obj_of (single s (x, f))); exact H2.
Qed.

Lemma typed_link_elem s x f v :
  typed m s -> opp_typed m x f -> typed m (link_elem m s x f v).
Proof.
  intros H Ho. unfold link_elem. destruct (f_isref (fd m f)); [|exact H].
  destruct (obj_of v) as [y|]; [|exact H].
  apply typed_update_opposite_add; [apply typed_update_container; exact H | exact Ho].
Qed.

Lemma typed_unlink_elem s x f v : typed m s -> typed m (unlink_elem m s x f v).
Proof.
  intros H. unfold unlink_elem. destruct (f_isref (fd m f)); [|exact H].
  destruct (obj_of v) as [y|]; [|exact H].
  apply typed_update_opposite_remove. apply typed_uc_clear. exact H.
Qed.

Lemma typed_coll_add_full s x f pos v :
  typed m s -> f_many (fd m f) = true -> opp_typed m x f ->
  typed m (snd (coll_add_full m s (x, f) pos v)).
Proof.
  intros H Hm Ho. unfold coll_add_full.
  destruct (check_elem m f v) eqn:Ec; cbn [negb]; [|exact H].
  assert (Hv : okv m f v = true) by (unfold okv; rewrite Hm; exact Ec).
  set (s1 := link_elem m s x f v).
  assert (H1 : typed m s1) by (apply typed_link_elem; assumption).
  cbn [snd].
  apply (typed_ext (set_vals s1 (x, f)
     match pos with
     | Some i => raw_insert (f_unique (fd m f)) i v (vals s1 (x, f))
     | None => raw_append (f_unique (fd m f)) v (vals s1 (x, f)) end)); [reflexivity|].
  apply typed_set_vals; [exact H1|]. intros w Hw.
  destruct pos as [i|]; [apply In_raw_insert in Hw | apply In_raw_append in Hw];
    (destruct Hw as [Hw|Hw]; [exact (H1 (x, f) w Hw) | subst w; exact Hv]).
Qed.

Lemma typed_coll_remove_top s k v : typed m s -> typed m (snd (coll_remove_top m s k v)).
Proof.
  intros H. unfold coll_remove_top. destruct (vmem v (vals s k)); cbn [snd]; [|exact H].
  apply typed_coll_remove_full; exact H.
Qed.

Lemma typed_coll_pop_full s k i : typed m s -> typed m (snd (fst (coll_pop_full m s k i))).
Proof.
  intros H. destruct k as [x f]. unfold coll_pop_full.
  destruct (vals s (x, f)) as [|a l] eqn:El; [exact H|]. rewrite <- El.
  destruct (py_pop i (vals s (x, f))) as [[v l']|] eqn:Ep; [|exact H]. cbn [fst snd].
  apply (typed_ext (unlink_elem m (set_vals s (x, f) l') x f v)); [reflexivity|].
  apply typed_unlink_elem. apply typed_set_vals; [exact H|].
  intros w Hw. apply (H (x, f) w). eapply In_py_pop; eauto.
Qed.

Lemma typed_fold_unlink s x f l :
  typed m s -> typed m (fold_left (fun acc v => unlink_elem m acc x f v) l s).
Proof.
  revert s; induction l as [|v l IH]; intros s H; simpl; [exact H|].
  apply IH. apply typed_unlink_elem. exact H.
Qed.

Lemma typed_coll_clear_full s k : typed m s -> typed m (coll_clear_full m s k).
Proof.
  intros H. destruct k as [x f]. unfold coll_clear_full.
  destruct (vals s (x, f)) as [|a l] eqn:El; [exact H|].
  set (s1 := fold_left (fun acc v => unlink_elem m acc x f v) (a :: l) s).
  assert (H1 : typed m s1) by (apply typed_fold_unlink; exact H).
  apply (typed_ext (set_vals s1 (x, f) [])); [reflexivity|].
  apply typed_set_vals; [exact H1|]. intros w [].
Qed.

Lemma forallb_In {A} (p : A -> bool) l x : forallb p l = true -> In x l -> p x = true.
Proof. intros H Hx. rewrite forallb_forall in H. apply H; exact Hx. Qed.

Lemma typed_fold_link s x f vs :
  typed m s -> opp_typed m x f -> typed m (fold_left (fun acc v => link_elem m acc x f v) vs s).
Proof.
  intros H Ho. revert s H. induction vs as [|v vs IH]; intros s H; simpl; [exact H|].
  apply IH. apply typed_link_elem; assumption.
Qed.

Lemma typed_coll_extend_full s x f vs :
  typed m s -> f_many (fd m f) = true -> opp_typed m x f ->
  typed m (snd (coll_extend_full m s (x, f) vs)).
Proof.
  intros H Hm Ho. unfold coll_extend_full.
  destruct (forallb (check_elem m f) vs) eqn:Ec; cbn [negb]; [|exact H].
  assert (Hvs : forall v, In v vs -> okv m f v = true).
  { intros v Hv. unfold okv. rewrite Hm. exact (forallb_In _ _ _ Ec Hv). }
  cbn [snd].
  match goal with |- typed m (set_isset (notify m ?S _ _ _ _ _) _) => set (s1 := S) end.
  apply (typed_ext s1); [reflexivity|]. unfold s1. clear s1.
  destruct (f_unique (fd m f)).
  - clear Ec. revert s H. induction vs as [|v vs IH]; intros s H; simpl; [exact H|].
    apply IH; [intros w Hw; apply Hvs; right; exact Hw|].
    apply typed_link_elem; [|exact Ho].
    apply typed_set_vals; [exact H|]. intros w Hw. apply In_raw_append in Hw.
    destruct Hw as [Hw|Hw]; [exact (H (x, f) w Hw) | subst w; apply Hvs; left; reflexivity].
  - set (sa := fold_left (fun acc v => link_elem m acc x f v) vs s).
    assert (Ha : typed m sa) by (apply typed_fold_link; assumption).
    apply typed_set_vals; [exact Ha|]. intros w Hw. rewrite in_app_iff in Hw.
    destruct Hw as [Hw|Hw]; [exact (Ha (x, f) w Hw) | apply Hvs; exact Hw].
Qed.

Lemma typed_coll_setitem_full s x f i v :
  typed m s -> f_many (fd m f) = true -> opp_typed m x f ->
  typed m (snd (coll_setitem_full m s (x, f) i v)).
Proof.
  intros H Hm Ho. unfold coll_setitem_full.
  destruct (check_elem m f v) eqn:Ec; cbn [negb]; [|exact H].
  assert (Hv : okv m f v = true) by (unfold okv; rewrite Hm; exact Ec).
  destruct (f_unique (fd m f)).
  - destruct ((i <? 0)%Z && ((if (i <? 0)%Z then (zlen (vals s (x, f)) + i)%Z else i) <? 0)%Z); [exact H|].
    unfold seq_outcome.
    pose proof (typed_coll_pop_full s (x, f) (if (i <? 0)%Z then (zlen (vals s (x, f)) + i)%Z else i) H) as Hp.
    destruct (fst (coll_pop_full m s (x, f) (if (i <? 0)%Z then (zlen (vals s (x, f)) + i)%Z else i))) as [[e|] s1];
      cbn [snd] in *; [exact Hp|].
    apply typed_coll_add_full; assumption.
  - set (s1 := link_elem m s x f v).
    assert (H1 : typed m s1) by (apply typed_link_elem; assumption).
    destruct (norm_index (zlen (vals s1 (x, f))) i) as [n|]; cbn [snd]; [|exact H1].
    apply (typed_ext (set_vals s1 (x, f) (set_at (Z.to_nat n) v (vals s1 (x, f))))); [reflexivity|].
    apply typed_set_vals; [exact H1|]. intros w Hw. apply In_set_at in Hw.
    destruct Hw as [Hw|Hw]; [subst w; exact Hv | exact (H1 (x, f) w Hw)].
Qed.

Lemma typed_coll_delitem_full s k i : typed m s -> typed m (snd (coll_delitem_full m s k i)).
Proof.
  intros H. unfold coll_delitem_full. destruct (f_unique (fd m (snd k))).
  - apply typed_coll_pop_full; exact H.
  - destruct (py_pop i (vals s k)) as [[v l']|] eqn:Ep; cbn [snd]; [|exact H].
    apply typed_set_vals; [exact H|]. intros w Hw. apply (H k w). eapply In_py_pop; eauto.
Qed.

Lemma typed_assign_full s x f vs :
  typed m s -> f_many (fd m f) = true -> opp_typed m x f ->
  typed m (snd (assign_full m s (x, f) vs)).
Proof.
  intros H Hm Ho. unfold assign_full. cbn [snd].
  destruct (forallb (check_elem m f) vs); cbn [negb]; [|exact H].
  apply typed_coll_extend_full; [apply typed_coll_clear_full; exact H | exact Hm | exact Ho].
Qed.

Lemma typed_del_full s x f :
  typed m s -> (forall y, f_default (fd m f) = VObj y -> opp_typed m x f) ->
  typed m (snd (del_full m s (x, f))).
Proof.
  intros H Ho. unfold del_full. cbn [snd]. destruct (f_many (fd m f)) eqn:Hm; cbn [snd].
  - apply typed_coll_clear_full; exact H.
  - apply typed_set_full; assumption.
Qed.

Lemma typed_delete_step x s k : typed m s -> typed m (delete_step m x s k).
Proof.
  intros H. destruct k as [owner f]. unfold delete_step.
  destruct (f_many (fd m f)) eqn:Hm.
  - destruct (owner =? x); [apply typed_coll_clear_full; exact H|].
    destruct (vmem (VObj x) (vals s (owner, f))); [apply typed_coll_remove_full|]; exact H.
  - destruct ((match single s (owner, f) with VObj y => y =? x | _ => false end) || (owner =? x)); [|exact H].
    apply typed_set_full; [exact H | exact Hm | intros y Hy; discriminate].
Qed.

Lemma typed_fold_delete_step x l s : typed m s -> typed m (fold_left (delete_step m x) l s).
Proof.
  revert s; induction l as [|k l IH]; intros s H; simpl; [exact H|].
  apply IH. apply typed_delete_step. exact H.
Qed.

Lemma typed_delete_obj fuel s x r : typed m s -> typed m (delete_obj fuel m s x r).
Proof.
  revert s x r; induction fuel as [|fu IH]; intros s x r H; simpl; [exact H|].
  apply typed_fold_delete_step.
  destruct r; [|exact H].
  generalize (econtents m s x). intros l. revert s H.
  induction l as [|c l IHl]; intros s H; simpl; [exact H|]. apply IHl. apply IH. exact H.
Qed.

Lemma typed_res_append s r o : typed m s -> typed m (res_append m s r o).
Proof.
  intros H. unfold res_append.
  assert (G : forall s0, typed m s0 ->
     typed m (let s1 := set_eres (set_rcont s0 r (rcont s0 r ++ [o])) o (Some r) in
              match cont s1 o with
              | Some (p, pf) =>
                if f_many (fd m pf)
                then (if vmem (VObj o) (vals s1 (p, pf)) then coll_remove_full m s1 (p, pf) (VObj o) else s1)
                else snd (set_full m s1 (p, pf) VNone)
              | None => s1 end)).
  { intros s0 H0. cbv zeta.
    set (s1 := set_eres (set_rcont s0 r (rcont s0 r ++ [o])) o (Some r)).
    assert (H1 : typed m s1) by exact H0.
    destruct (cont s1 o) as [[p pf]|]; [|exact H1].
    destruct (f_many (fd m pf)) eqn:Hm.
    - destruct (vmem (VObj o) (vals s1 (p, pf))); [apply typed_coll_remove_full|]; exact H1.
    - apply typed_set_full; [exact H1 | exact Hm | intros y Hy; discriminate]. }
  destruct (eres s o) as [p|]; [|apply G; exact H].
  destruct (nmem o (rcont s p)); [|apply G; exact H].
  destruct (p =? r); [exact H | apply G; exact H].
Qed.

(* well-formed calls: collection operations address multi-valued features, and
   the owner of a linking call conforms to the type of the opposite end *)
Definition op_ok (o : op) : Prop :=
  match o with
  | OSet x f _ | ODel x f => opp_typed m x f
  | OAssign x f _ | OAppend x f _ | OInsert x f _ _ | OExtend x f _ | OSetItem x f _ _ =>
    f_many (fd m f) = true /\ opp_typed m x f
  | _ => True
  end.

Theorem typed_step s o : typed m s -> op_ok o -> typed m (next m s o).
Proof.
  intros H Ho. unfold next, step.
  destruct o as [x f v|x f|x f|x f vs|x f v|x f i v|x f v|x f i|x f|x f vs|x f i v|x f i|x r|r o|r o|r os|x f];
    cbn [fst snd]; cbn [op_ok] in Ho.
  - destruct (f_many (fd m f)) eqn:Hm; [exact H|].
    apply typed_set_full; [exact H | exact Hm | intros y _; exact Ho].
  - destruct (f_many (fd m f)) eqn:Hm; [exact H|].
    apply typed_set_full; [exact H | exact Hm | intros y Hy; discriminate].
  - apply typed_del_full; [exact H | intros y _; exact Ho].
  - destruct Ho as [Hm Ho]. rewrite Hm. apply typed_assign_full; assumption.
  - destruct Ho as [Hm Ho]. apply typed_coll_add_full; assumption.
  - destruct Ho as [Hm Ho]. apply typed_coll_add_full; assumption.
  - apply typed_coll_remove_top; exact H.
  - apply typed_coll_pop_full; exact H.
  - apply typed_coll_clear_full; exact H.
  - destruct Ho as [Hm Ho]. apply typed_coll_extend_full; assumption.
  - destruct Ho as [Hm Ho]. apply typed_coll_setitem_full; assumption.
  - apply typed_coll_delitem_full; exact H.
  - apply typed_delete_obj; exact H.
  - apply typed_res_append; exact H.
  - unfold res_remove. destruct (nmem o (rcont s r)); exact H.
  - generalize dependent s. induction os as [|o os IH]; intros s H; simpl; [exact H|].
    apply IH. apply typed_res_append. exact H.
  - exact H.
Qed.

Theorem typed_history ops s :
  typed m s -> Forall op_ok ops -> typed m (fold_left (next m) ops s).
Proof.
  revert s; induction ops as [|o ops IH]; intros s H Hok; simpl; [exact H|].
  inversion Hok; subst. apply IH; [apply typed_step; assumption | assumption].
Qed.

(* the initial state is typed when declared defaults conform *)
Lemma typed_init :
  (forall f, f_many (fd m f) = false -> check_single m f (f_default (fd m f)) = true) ->
  typed m (init_state m).
Proof.
  intros Hd k v. cbn [vals init_state]. destruct (f_many (fd m (snd k))) eqn:Hm; [intros []|].
  intros [E|[]]. subst v. unfold okv. rewrite Hm. apply Hd. exact Hm.
Qed.

(* ---- reject / accept for the single-value operations ---- *)
Theorem reject_set s x f v :
  f_many (fd m f) = false -> check_single m f v = false ->
  step m s (OSet x f v) = ((Some BadValue, s), None).
Proof. intros Hm Hc. unfold step, set_full. rewrite Hm, Hc. reflexivity. Qed.

Theorem reject_add s x f pos v :
  check_elem m f v = false ->
  coll_add_full m s (x, f) pos v = (Some BadValue, s).
Proof. intros Hc. unfold coll_add_full. rewrite Hc. reflexivity. Qed.

Theorem reject_setitem s x f i v :
  check_elem m f v = false ->
  coll_setitem_full m s (x, f) i v = (Some BadValue, s).
Proof. intros Hc. unfold coll_setitem_full. rewrite Hc. reflexivity. Qed.

Theorem reject_extend s x f vs :
  forallb (check_elem m f) vs = false ->
  coll_extend_full m s (x, f) vs = (Some BadValue, s).
Proof. intros Hc. unfold coll_extend_full. rewrite Hc. reflexivity. Qed.

Theorem reject_assign s x f vs :
  forallb (check_elem m f) vs = false ->
  assign_full m s (x, f) vs = (Some BadValue, s).
Proof. intros Hc. unfold assign_full. cbn [snd]. rewrite Hc. reflexivity. Qed.

Theorem accept_set s x f v :
  f_many (fd m f) = false -> check_single m f v = true ->
  fst (fst (step m s (OSet x f v))) = None.
Proof.
  intros Hm Hc. unfold step. rewrite Hm. cbn [fst]. unfold set_full. rewrite Hc. cbn [negb].
  destruct (f_isref (fd m f)); cbn [negb]; [|reflexivity].
  destruct (f_opp (fd m f)); [|reflexivity].
  destruct (obj_of v); [|reflexivity]. destruct (f_many (fd m f0)); reflexivity.
Qed.

Theorem accept_add s x f pos v :
  check_elem m f v = true -> fst (coll_add_full m s (x, f) pos v) = None.
Proof. intros Hc. unfold coll_add_full. rewrite Hc. reflexivity. Qed.

Lemma pop_never_badvalue s k i : fst (fst (coll_pop_full m s k i)) <> Some BadValue.
Proof.
  destruct k as [x f]. unfold coll_pop_full. destruct (vals s (x, f)) as [|a l].
  - destruct (f_unique (fd m f)); cbn [fst]; discriminate.
  - destruct (py_pop i (a :: l)) as [[v l']|]; cbn [fst]; discriminate.
Qed.

Theorem accept_setitem s x f i v :
  check_elem m f v = true -> fst (coll_setitem_full m s (x, f) i v) <> Some BadValue.
Proof.
  intros Hc. unfold coll_setitem_full. rewrite Hc. cbn [negb].
  destruct (f_unique (fd m f)).
  - destruct ((i <? 0)%Z && ((if (i <? 0)%Z then (zlen (vals s (x, f)) + i)%Z else i) <? 0)%Z);
      [cbn [fst]; discriminate|].
    unfold seq_outcome.
    pose proof (pop_never_badvalue s (x, f) (if (i <? 0)%Z then (zlen (vals s (x, f)) + i)%Z else i)) as Hp.
    destruct (fst (coll_pop_full m s (x, f) (if (i <? 0)%Z then (zlen (vals s (x, f)) + i)%Z else i))) as [[e|] s1];
      cbn [fst] in *; [exact Hp|].
    rewrite accept_add by exact Hc. discriminate.
  - destruct (norm_index (zlen (vals (link_elem m s x f v) (x, f))) i); cbn [fst]; discriminate.
Qed.

End Typed.
