(* C13 — static and dynamic definitions of a metamodel are interchangeable.

   FIRST HALF, "the same reflective description" (Model/StaticDecl.v,
   Proofs/StaticDeclProofs.v): one abstract description (classes, abstract
   flag, supertypes in order, ordered feature declarations with bounds,
   ordered/unique/containment, opposite, default literal, operations; the data
   types bound in the module) is (a) rendered as Python class statements in the
   MetaEClass or the @EMetaclass style and executed -- class body evaluation
   into a dict namespace, MetaEClass.__init__ / EMetaclass ->
   register_classifier -> Core._promote statement by statement, @abstract, then
   the module-level `C.f.eType = T` and `C.f.eOpposite = D.g` assignments --
   and (b) built through the dynamic API (EClass(...), eSuperTypes.append,
   eStructuralFeatures.append(EAttribute(...)), eOpposite, eOperations).
   `C13_static_and_dynamic_descriptions_coincide`: for EVERY well-formed
   description (boolean wf_descr: distinct class names, supertypes declared
   earlier and distinct, feature/operation names distinct within a class, not
   starting with two underscores and not one of the three names _promote itself
   assigns, attribute types bound, reference types declared, opposites
   declared symmetrically, required parameters first) both executions succeed
   and the description read back from either (names, flags, supertypes in
   order, features IN ORDER, opposite as (class, name), resolved default,
   operations without the receiver) is exactly the canonical description.
   Negative half, for ANY class body: `C13_class_takes_exactly` (the features of
   the promoted class are the feature-valued namespace entries, in namespace
   order, nothing else) and `C13_reserved_key_never_promoted`; methods: C20's
   C20_reflection_exactly.  The two `_refuted` examples are the two known
   findings (a feature called __x is reflected as _A__x by the static style; a
   feature called eClass / dyn_inst / _staticEClass is silently dropped by it):
   wf_descr excludes exactly those names.
   Not modelled: Python's C3 acceptance of the bases (assumed), MRO walk of
   `C.f` (own namespace only), aliasing of one feature object in two bodies,
   data types and classes in one scope, method creation by eOperations.append
   (C20); every run of harness/props/c13.py compares the model with the real
   static module (both styles) and the real dynamic construction.

   SECOND HALF, behaviour: the kernel model (Model/Kernel.v) takes the
   metamodel as a VALUE; two renderings of one description are interchangeable
   as soon as each of them corresponds to the kernel run; that is the
   (deliberately simple) theorem `C13_two_renderings_of_one_description_agree`,
   and the substance is the pair of correspondences established on every run of
   harness/props/c13.py -- dynamic rendering vs model, generated static module
   (MetaEClass and @EMetaclass) vs the SAME model run -- plus the direct
   comparison of the traces and the cross-loading of saved documents on the
   implementation.  PARTIAL in that half only. *)
From Coq Require Import ZArith List Bool Arith.
From Coq Require Import String.
From PyecoreV Require Import Lib.PyBase Lib.PyList Model.Coll Model.Kernel Model.KernelIO.
From PyecoreV Require Import Model.Operations Model.StaticDecl Proofs.StaticDeclProofs.
Import ListNotations.

(* an implementation, seen through the harness, maps a token-encoded case to a token-encoded trace *)
Definition refines_kernel (impl : list Z -> list Z) : Prop :=
  forall t, impl t = run_kernel t.

Theorem C13_two_renderings_of_one_description_agree :
  forall dyn stat, refines_kernel dyn -> refines_kernel stat -> forall t, dyn t = stat t.
Proof. intros dyn stat H1 H2 t. rewrite H1, H2. reflexivity. Qed.
Print Assumptions C13_two_renderings_of_one_description_agree.

(* the kernel's behaviour depends on the description only: same tokens, same trace — and the trace
   is a total function (the run always terminates with an answer) *)
Theorem C13_kernel_is_a_function_of_the_description :
  forall t1 t2, t1 = t2 -> run_kernel t1 = run_kernel t2.
Proof. intros t1 t2 ->. reflexivity. Qed.
Print Assumptions C13_kernel_is_a_function_of_the_description.

(* ---------- first half: the same reflective description ---------- *)

(* both constructions succeed and give back exactly the description, in both static styles *)
Theorem C13_static_and_dynamic_descriptions_coincide :
  forall D deco, wf_descr D = true ->
    exists ws wd, promote (render_static deco D) = Some ws /\ build_dynamic D = Some wd /\
                  describe ws = canonical D /\ describe wd = canonical D.
Proof. exact static_dynamic_canonical. Qed.
Print Assumptions C13_static_and_dynamic_descriptions_coincide.

Theorem C13_descriptions_equal :
  forall D deco, wf_descr D = true ->
    option_map describe (promote (render_static deco D)) = option_map describe (build_dynamic D)
    /\ option_map describe (build_dynamic D) = Some (canonical D).
Proof. exact static_dynamic_coincide. Qed.
Print Assumptions C13_descriptions_equal.

(* whatever the class body: the promoted class owns the feature-valued entries of its namespace, in
   namespace order, and reflects the rest through Operations.promote_ns -- nothing else shows up *)
Theorem C13_class_takes_exactly :
  forall T c s s', exec_class T c s = Some s' ->
    exists d row e, eval_body T (py_name c) (List.length (s_py s)) (py_body c) nil nil = Some (d, row) /\
      w_ecl (s_world s') = w_ecl (s_world s) ++ (e :: nil) /\
      e_feats e = feat_locs (overwrite_reserved d) /\
      e_ops e = promote_ns (ns_members (overwrite_reserved d)).
Proof. exact class_takes_exactly. Qed.
Print Assumptions C13_class_takes_exactly.

Theorem C13_reserved_key_never_promoted :
  forall T cn i b d row k l,
    eval_body T cn i b nil nil = Some (d, row) -> In (k, VFeat l) (overwrite_reserved d) -> ~ In k reserved.
Proof. exact reserved_key_never_promoted. Qed.
Print Assumptions C13_reserved_key_never_promoted.

(* non-vacuity: a diamond under an abstract class, a containment with its opposite, a many-valued
   attribute with a default, an attribute taking its type's default, operations *)
Definition s13 := of_string.
Definition exD : descr :=
  mkD (mkT (s13 "EInt") (Some 7%Z) :: mkT (s13 "EString") None :: nil)
      (mkC (s13 "A") true nil
           (mkF (s13 "ns") false (s13 "EInt") 0 (-1) true false false None (Some 9%Z)
            :: mkF (s13 "kids") true (s13 "B") 0 (-1) true true true (Some (s13 "B", s13 "parent")) None
            :: mkF (s13 "count") false (s13 "EInt") 0 1 true true false None None :: nil)
           ((s13 "scale", (s13 "k", true) :: (s13 "unit", false) :: nil) :: nil)
       :: mkC (s13 "B") false nil
              (mkF (s13 "parent") true (s13 "A") 0 1 true true false (Some (s13 "A", s13 "kids")) None :: nil) nil
       :: mkC (s13 "L") false (s13 "A" :: nil) nil nil
       :: mkC (s13 "R") false (s13 "A" :: nil)
              (mkF (s13 "n") false (s13 "EInt") 1 1 true true false None None :: nil) nil
       :: mkC (s13 "Both") false (s13 "L" :: s13 "R" :: nil) nil ((s13 "ping", nil) :: nil) :: nil).

Example C13_description_nonvacuous :
  wf_descr exD = true
  /\ option_map describe (promote (render_static false exD)) = Some (canonical exD)
  /\ option_map describe (promote (render_static true exD)) = Some (canonical exD)
  /\ option_map describe (build_dynamic exD) = Some (canonical exD)
  /\ List.length (canonical exD) = 5%nat
  /\ option_map (fun c => map fd_default (cd_feats c)) (nth_error (canonical exD) 0)
     = Some (Some 9%Z :: None :: Some 7%Z :: nil).
Proof. vm_compute. repeat split; reflexivity. Qed.

(* the two known findings: names wf_descr excludes, and why *)
Definition one_attr (n : name) : descr :=
  mkD (mkT (s13 "EString") None :: nil)
      (mkC (s13 "A") false nil (mkF n false (s13 "EString") 0 1 true true false None None :: nil) nil :: nil).

Example C13_private_feature_name_refuted :
  option_map (map (fun c => map fd_name (cd_feats c))) (option_map describe (promote (render_static false (one_attr (s13 "__x")))))
    = Some ((s13 "_A__x" :: nil) :: nil)
  /\ option_map (map (fun c => map fd_name (cd_feats c))) (option_map describe (build_dynamic (one_attr (s13 "__x"))))
    = Some ((s13 "__x" :: nil) :: nil).
Proof. vm_compute. split; reflexivity. Qed.

Example C13_reserved_feature_name_refuted :
  option_map (map (fun c => map fd_name (cd_feats c))) (option_map describe (promote (render_static true (one_attr (s13 "eClass")))))
    = Some (nil :: nil)
  /\ option_map (map (fun c => map fd_name (cd_feats c))) (option_map describe (build_dynamic (one_attr (s13 "eClass"))))
    = Some ((s13 "eClass" :: nil) :: nil).
Proof. vm_compute. split; reflexivity. Qed.
