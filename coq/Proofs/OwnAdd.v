(* Ownership part of the well-formedness, linking direction for collections:
   the four components (values, back-pointers, root lists, _eresource) after
   link_elem on an arbitrary state, and WF after ECollection.insert/append/add. *)
From Coq Require Import ZArith List Bool Arith Lia.
From PyecoreV Require Import Lib.PyBase Lib.PyList Model.Kernel Proofs.PyListFacts Proofs.KernelFacts Proofs.C01Proofs Proofs.C01Full Proofs.C02Proofs Proofs.WFBase Proofs.WFRemove Proofs.SymLink Proofs.OwnPrim.
Import ListNotations.
Open Scope nat_scope.

Lemma Lval_ext m V V' x f v :
  (forall k, V k = V' k) -> forall k, Lval m V x f v k = Lval m V' x f v k.
Proof.
  intros E k. unfold Lval. destruct (f_isref (fd m f)); [|apply E].
  destruct (obj_of v) as [y|]; [|apply E].
  destruct (f_opp (fd m f)) as [g|]; [|apply E].
  destruct (f_many (fd m g)).
  - destruct (cell_eqb (y, g) (x, f)); [apply E|]. rewrite (E (y, g)). apply upd_ext. exact E.
  - cbv zeta. rewrite (E (y, g)). apply upd_ext. intros k0.
    destruct (obj_of (hdv (V' (y, g)))) as [c|]; [|apply E].
    destruct (c =? x); [apply E|]. rewrite (E (c, f)).
    destruct (vmem (VObj y) (V' (c, f))); [apply upd_ext; exact E | apply E].
Qed.

Section Link.
Variable m : mm.
Hypothesis W : wf_mm m.
Let m0 := erase m.

(* the store the opposite update starts from *)
Definition linkV (t : state) (x : oid) (f : fid) (y : oid) : cell -> list value :=
  if f_cont (fd m f) then ucV m t x f y else vals t.

Lemma link_vals t x f y :
  f_isref (fd m f) = true -> f_many (fd m f) = true ->
  (f_cont (fd m f) = true -> slot_ok m t x f y) ->
  forall k, vals (link_elem m t x f (VObj y)) k = Lval m0 (linkV t x f y) x f (VObj y) k.
Proof.
  intros Hr Hm Hown k. unfold link_elem. rewrite Hr. cbn [obj_of].
  set (u := update_container m t x f (Some y) None).
  assert (Hg : forall g, f_opp (fd m f) = Some g -> f_cont (fd m g) = false).
  { intros g Eg. exact (many_opp_not_cont m f g W Eg Hm). }
  rewrite (sim_update_opposite_add m u u x f y Hg (veq_refl u) k).
  assert (E2 : update_opposite_add (erase m) u x f y = link_elem (erase m) u x f (VObj y)).
  { unfold link_elem. er. rewrite Hr. cbn [obj_of]. rewrite (uc_erase m). reflexivity. }
  rewrite E2. rewrite (vals_link (erase m) (erase_no_containment m)).
  apply Lval_ext. intros k0. unfold linkV, u. destruct (f_cont (fd m f)) eqn:Hc.
  - apply (uc_vals m W); [exact Hc | apply Hown; reflexivity].
  - rewrite (uc_noncont m _ _ _ _ _ Hc). reflexivity.
Qed.

(* root lists and _eresource after link_elem *)
Lemma link_res t x f y :
  f_isref (fd m f) = true -> f_many (fd m f) = true ->
  rframe (if f_cont (fd m f) then sa_of m t y else t) (link_elem m t x f (VObj y)).
Proof.
  intros Hr Hm. unfold link_elem. rewrite Hr. cbn [obj_of].
  set (u := update_container m t x f (Some y) None).
  assert (Hu : rframe (if f_cont (fd m f) then sa_of m t y else t) u).
  { unfold u. destruct (f_cont (fd m f)) eqn:Hc.
    - destruct (res_update_container m t x f y None Hc) as [A B]. split; assumption.
    - rewrite (uc_noncont m _ _ _ _ _ Hc). apply rframe_refl. }
  eapply rframe_trans; [exact Hu|]. unfold update_opposite_add.
  destruct (f_opp (fd m f)) as [g|] eqn:Eg; [|apply rframe_inv_add].
  pose proof (many_opp_not_cont m f g W Eg Hm) as Hgc.
  destruct (f_many (fd m g)).
  - destruct (cell_eqb (y, g) (x, f)); [apply rframe_refl|].
    exact (proj2 (nc_coll_append_raw m u (y, g) x Hgc)).
  - eapply rframe_trans; [|exact (proj2 (nc_set_obj_raw m _ (y, g) x Hgc))].
    destruct (obj_of (single u (y, g))) as [c|]; [|apply rframe_refl].
    destruct (c =? x); [apply rframe_refl | apply rframe_coll_remove_raw].
Qed.

(* the branch of the opposite update that would detach the new child again is never taken *)
Definition no_steal (t : state) (x : oid) (f : fid) (y : oid) : Prop :=
  forall g c0, f_cont (fd m f) = true -> f_opp (fd m f) = Some g ->
    hdv (linkV t x f y (y, g)) = VObj c0 -> c0 <> x -> ~ In (VObj y) (linkV t x f y (c0, f)).

Lemma link_cont t x f y :
  f_isref (fd m f) = true -> f_many (fd m f) = true ->
  (f_cont (fd m f) = true -> slot_ok m t x f y) -> no_steal t x f y ->
  forall c, cont (link_elem m t x f (VObj y)) c =
            if f_cont (fd m f) then (if y =? c then Some (x, f) else cont t c) else cont t c.
Proof.
  intros Hr Hm Hown Hdead c. unfold link_elem. rewrite Hr. cbn [obj_of].
  set (u := update_container m t x f (Some y) None).
  assert (Hu : cont u c = if f_cont (fd m f) then (if y =? c then Some (x, f) else cont t c) else cont t c).
  { unfold u. destruct (f_cont (fd m f)) eqn:Hc.
    - apply (cont_update_container m W); [exact Hc | apply Hown; reflexivity].
    - rewrite (uc_noncont m _ _ _ _ _ Hc). reflexivity. }
  assert (HuV : forall k, vals u k = linkV t x f y k).
  { intros k. unfold linkV, u. destruct (f_cont (fd m f)) eqn:Hc.
    - apply (uc_vals m W); [exact Hc | apply Hown; reflexivity].
    - rewrite (uc_noncont m _ _ _ _ _ Hc). reflexivity. }
  rewrite <- Hu. clear Hu.
  assert (E : cont (update_opposite_add m u x f y) = cont u); [|rewrite E; reflexivity].
  unfold update_opposite_add.
  destruct (f_opp (fd m f)) as [g|] eqn:Eg; [|apply cont_inv_add_any].
  pose proof (many_opp_not_cont m f g W Eg Hm) as Hgc.
  destruct (f_many (fd m g)).
  - destruct (cell_eqb (y, g) (x, f)); [reflexivity|].
    exact (proj1 (nc_coll_append_raw m u (y, g) x Hgc)).
  - rewrite (proj1 (nc_set_obj_raw m _ (y, g) x Hgc)).
    destruct (obj_of (single u (y, g))) as [c0|] eqn:Ec0; [|reflexivity].
    destruct (Nat.eqb_spec c0 x) as [Ex|Nx]; [reflexivity|].
    destruct (coll_remove_raw_fields m u (c0, f) y) as [_ [B _]]. rewrite B. cbn [snd].
    destruct (f_cont (fd m f)) eqn:Hc; [|destruct (vmem (VObj y) (vals u (c0, f))); reflexivity].
    apply obj_of_Some' in Ec0. unfold single in Ec0. fold (hdv (vals u (y, g))) in Ec0. rewrite HuV in Ec0.
    pose proof (Hdead g c0 Hc Eg Ec0 Nx) as Hn. rewrite <- HuV in Hn. apply vmem_obj_false in Hn. rewrite Hn.
    reflexivity.
Qed.

End Link.

Lemma Lval_other m V x f y (a : oid) (h : fid) :
  h <> f -> (forall g, f_opp (fd m f) = Some g -> h <> g) -> Lval m V x f (VObj y) (a, h) = V (a, h).
Proof.
  intros Nf Ng. unfold Lval. destruct (f_isref (fd m f)); [|reflexivity]. cbn [obj_of].
  destruct (f_opp (fd m f)) as [g|]; [|reflexivity]. specialize (Ng g eq_refl).
  destruct (f_many (fd m g)).
  - destruct (cell_eqb (y, g) (x, f)); [reflexivity|]. apply upd_other. intros E; inversion E; congruence.
  - cbv zeta. rewrite upd_other by (intros E; inversion E; congruence).
    destruct (obj_of (hdv (V (y, g)))) as [c|]; [|reflexivity]. destruct (c =? x); [reflexivity|].
    destruct (vmem (VObj y) (V (c, f))); [|reflexivity]. apply upd_other. intros E; inversion E; congruence.
Qed.

Lemma add_fields m s x f pos v :
  check_elem m f v = true ->
  (forall k, vals (snd (coll_add_full m s (x, f) pos v)) k =
     upd (vals (link_elem m s x f v)) (x, f)
         (match pos with
          | Some i => raw_insert (f_unique (fd m f)) i v (vals (link_elem m s x f v) (x, f))
          | None => raw_append (f_unique (fd m f)) v (vals (link_elem m s x f v) (x, f)) end) k) /\
  cont (snd (coll_add_full m s (x, f) pos v)) = cont (link_elem m s x f v) /\
  rcont (snd (coll_add_full m s (x, f) pos v)) = rcont (link_elem m s x f v) /\
  eres (snd (coll_add_full m s (x, f) pos v)) = eres (link_elem m s x f v).
Proof. intros Hc. unfold coll_add_full. rewrite Hc. cbn [negb snd]. repeat split; reflexivity. Qed.

Lemma link_elem_id m s x f v :
  f_isref (fd m f) = false \/ obj_of v = None -> link_elem m s x f v = s.
Proof.
  intros [H|H]; unfold link_elem; rewrite H; [reflexivity|]. destruct (f_isref (fd m f)); reflexivity.
Qed.

Section AddWF.
Variable m : mm.
Hypothesis W : wf_mm m.

Lemma linkV_pre s x f y :
  WF m s -> f_cont (fd m f) = true -> forall k, linkV m s x f y k = vals (pre_unlink m s x f y) k.
Proof. intros H Hc k. unfold linkV. rewrite Hc. symmetry. apply (pre_unlink_vals m W s x f y H). Qed.

Lemma no_steal_WF s x f y : WF m s -> no_steal m s x f y.
Proof.
  intros H g c0 Hc Eg _ Nx Hin. rewrite (linkV_pre s x f y H Hc) in Hin.
  pose proof (pre_unlink_WF m W s x f y H) as Hpre.
  assert (Hcy : cont (pre_unlink m s x f y) y = Some (c0, f)) by (apply (wf_own m _ Hpre); split; assumption).
  destruct (pre_unlink_cont_self m W s x f y (WF_slot_ok m s x f y H)) as [E|[E _]];
    rewrite E in Hcy; [discriminate | inversion Hcy; congruence].
Qed.

Lemma ucV_own t x f y :
  slot_ok m t x f y -> f_many (fd m f) = true -> ucV m t x f y (x, f) = vals t (x, f).
Proof.
  intros Hown Hm. unfold ucV. destruct (cont t y) as [[p pf]|] eqn:Ec; [|reflexivity].
  destruct (negb ((p =? x) && (pf =? f))) eqn:Eg; [|reflexivity].
  assert (N : (p, pf) <> (x, f)) by (intros E; inversion E; subst; rewrite !Nat.eqb_refl in Eg; discriminate).
  destruct (Hown p pf Ec N) as [H1 _].
  apply RUv_other; [intros E; apply N; symmetry; exact E|]. cbn [snd].
  intros h Eh E. inversion E; subst h.
  destruct (wf_container_end m W pf f Eh H1) as [A _]. congruence.
Qed.

Lemma linkV_own t x f y :
  (f_cont (fd m f) = true -> slot_ok m t x f y) -> f_many (fd m f) = true -> linkV m t x f y (x, f) = vals t (x, f).
Proof.
  intros Hown Hm. unfold linkV. destruct (f_cont (fd m f)); [|reflexivity]. apply ucV_own; [apply Hown; reflexivity | exact Hm].
Qed.

(* containment cells other than the target are left alone by the opposite update *)
Lemma Lval_cont_cells t x f y :
  f_cont (fd m f) = true -> f_many (fd m f) = true -> no_steal m t x f y ->
  forall (p : oid) (h : fid), f_cont (fd m h) = true -> (p, h) <> (x, f) ->
    Lval (erase m) (linkV m t x f y) x f (VObj y) (p, h) = linkV m t x f y (p, h).
Proof.
  intros Hc Hm Hdead p h Hh N. unfold Lval. er. destruct (f_isref (fd m f)); [|reflexivity]. cbn [obj_of].
  destruct (f_opp (fd m f)) as [g|] eqn:Eg; [|reflexivity].
  destruct (wf_container_end m W f g Eg Hc) as [Hgs Hgc]. er. rewrite Hgs. cbv zeta.
  rewrite upd_other by (intros E; inversion E; congruence).
  destruct (obj_of (hdv (linkV m t x f y (y, g)))) as [c0|] eqn:Ec0; [|reflexivity].
  destruct (Nat.eqb_spec c0 x) as [Ex|Nx]; [reflexivity|].
  destruct (vmem (VObj y) (linkV m t x f y (c0, f))) eqn:Ev; [|reflexivity].
  exfalso. apply vmem_obj in Ev. apply obj_of_Some' in Ec0. exact (Hdead g c0 Hc Eg Ec0 Nx Ev).
Qed.

End AddWF.

Section AddMain.
Variable m : mm.
Hypothesis W : wf_mm m.

Lemma res_ok_sa_of s y : res_ok s -> res_ok (sa_of m s y).
Proof.
  intros H. unfold sa_of. destruct (eresource_of m s y) as [r|]; [|exact H].
  destruct (nmem y (rcont s r)) eqn:E; [|exact H]. apply res_ok_remove_raw; [exact H | apply nmem_In; exact E].
Qed.

(* an element that is not an object, or an attribute: only the own cell changes *)
Lemma WF_add_plain s x f pos v :
  WF m s -> f_many (fd m f) = true -> check_elem m f v = true ->
  f_isref (fd m f) = false \/ obj_of v = None ->
  WF m (snd (coll_add_full m s (x, f) pos v)).
Proof.
  intros H Hm Hchk Hid. destruct (add_fields m s x f pos v Hchk) as [HV [HC [HR HE]]].
  rewrite (link_elem_id m s x f v Hid) in HV, HC, HR, HE.
  apply (WF_cell_write m W s _ x f H Hm).
  - intros k N. rewrite HV. apply upd_other. intros E; apply N; symmetry; exact E.
  - intros c; rewrite HC; reflexivity.
  - intros c; rewrite HE; reflexivity.
  - intros r; rewrite HR; reflexivity.
  - intros Ho. rewrite HV, upd_same.
    assert (Hv : obj_of v = None).
    { destruct Hid as [Hr|Hv]; [|exact Hv]. exfalso. destruct Ho as [Ho|Ho].
      - destruct (f_opp (fd m f)) as [g|] eqn:Eg; [|congruence]. rewrite (wf_opp_ref m W f g Eg) in Hr. discriminate.
      - rewrite (wf_cont_ref m W f Ho) in Hr. discriminate. }
    destruct pos; [apply raw_insert_objs_nonobj | apply raw_append_objs_nonobj]; exact Hv.
Qed.

(* an object enters a reference collection *)
Lemma WF_add_obj s x f pos y :
  WF m s -> f_many (fd m f) = true -> check_elem m f (VObj y) = true -> f_isref (fd m f) = true ->
  WF m (snd (coll_add_full m s (x, f) pos (VObj y))).
Proof.
  intros H Hm Hchk Hr.
  pose proof (sym_coll_add_full_gen m W s x f pos (VObj y) H Hm) as Hsym.
  pose proof (shape_coll_add_full_wf m W s x f pos (VObj y) H Hm) as Hshape.
  pose proof (res_ok_coll_add_full m s (x, f) pos (VObj y) (wf_res m s H)) as Hres.
  destruct (add_fields m s x f pos (VObj y) Hchk) as [HV [HC [HR HE]]].
  set (s' := snd (coll_add_full m s (x, f) pos (VObj y))) in *.
  pose proof (WF_slot_ok m s x f y H) as Hslot.
  pose proof (no_steal_WF m W s x f y H) as Hdead.
  pose proof (link_vals m W s x f y Hr Hm (fun _ => Hslot)) as LV.
  pose proof (link_cont m W s x f y Hr Hm (fun _ => Hslot) Hdead) as LC.
  pose proof (link_res m W s x f y Hr Hm) as LR.
  assert (Hown1 : vals (link_elem m s x f (VObj y)) (x, f) = vals s (x, f)).
  { rewrite LV. rewrite Lval_own by (er; exact Hm). apply (linkV_own m W); [intros _; exact Hslot | exact Hm]. }
  rewrite Hown1 in HV.
  destruct (f_cont (fd m f)) eqn:Hc.
  - (* containment: the child is attached to (x, f) from the pre-unlinked state *)
    rewrite (wf_many_unique m W f Hm (or_intror Hc)) in HV.
    pose proof (pre_unlink_WF m W s x f y H) as Hpre.
    set (s_pre := pre_unlink m s x f y) in *.
    assert (Hpx : vals s_pre (x, f) = vals s (x, f)).
    { unfold s_pre. rewrite <- (linkV_pre m W s x f y H Hc). apply (linkV_own m W); [intros _; exact Hslot | exact Hm]. }
    assert (Hcells : forall (p : oid) (h : fid), f_cont (fd m h) = true -> (p, h) <> (x, f) -> vals s' (p, h) = vals s_pre (p, h)).
    { intros p h Hh N. rewrite HV. rewrite upd_other by (intros E; apply N; symmetry; exact E).
      rewrite LV. rewrite (Lval_cont_cells m W s x f y Hc Hm Hdead p h Hh N). apply (linkV_pre m W s x f y H Hc). }
    constructor; [exact Hsym | | | exact Hres | ].
    + intros a h. destruct (Hshape a h) as [S1 S2]. split; [exact S1|]. intros Ho.
      destruct (f_opp (fd m h)) as [g'|] eqn:Eh; [apply S2; congruence|].
      destruct Ho as [Ho|Hh]; [congruence|].
      destruct (cell_eqb_spec (a, h) (x, f)) as [E|N].
      * inversion E; subst a h. rewrite HV, upd_same.
        destruct pos; [apply nodup_raw_insert | apply nodup_raw_append];
          apply (proj2 (wf_shape m s H x f)); right; exact Hc.
      * rewrite (Hcells a h Hh N). apply (proj2 (wf_shape m _ Hpre a h)). right; exact Hh.
    + apply own_ok_c.
      apply (own_okc_attach m (vals s_pre) (cont s_pre) (vals s') (cont s') x f y (wf_own m _ Hpre) Hc).
      * destruct (pre_unlink_cont_self m W s x f y Hslot) as [E|[E _]]; [left | right]; exact E.
      * intros b. rewrite HV, upd_same, Hpx.
        destruct pos; [rewrite In_raw_insert_obj | rewrite raw_append_obj_In]; tauto.
      * intros p h b Hh N. rewrite (Hcells p h Hh N). tauto.
      * intros c. rewrite HC, LC. destruct (Nat.eqb_spec y c) as [E|N]; [reflexivity|].
        symmetry. apply (pre_unlink_cont_other m W); [exact Hslot | congruence].
    + intros c r Hin. rewrite HR in Hin. destruct LR as [LR1 _]. rewrite LR1 in Hin.
      assert (Ny : c <> y).
      { intros ->. exact (sa_not_root m s y r (wf_res m s H) (wf_roots m s H) Hin). }
      apply (sa_roots_sub m s y c r (wf_res m s H)) in Hin. rewrite HC, LC.
      destruct (Nat.eqb_spec y c); [congruence|]. exact (wf_roots m s H c r Hin).
  - (* no containment on either side *)
    assert (Hcells : forall (p : oid) (h : fid), f_cont (fd m h) = true -> vals s' (p, h) = vals s (p, h)).
    { intros p h Hh. rewrite HV. rewrite upd_other by (intros E; inversion E; congruence).
      rewrite LV. unfold linkV. rewrite Hc. apply Lval_other; [congruence|].
      intros g Eg. rewrite fd_erase in Eg. cbn [erase_fd f_opp] in Eg.
      pose proof (many_opp_not_cont m f g W Eg Hm). congruence. }
    constructor; [exact Hsym | | | exact Hres | ].
    + intros a h. destruct (Hshape a h) as [S1 S2]. split; [exact S1|]. intros Ho.
      destruct (f_opp (fd m h)) as [g'|] eqn:Eh; [apply S2; congruence|].
      destruct Ho as [Ho|Hh]; [congruence|].
      rewrite (Hcells a h Hh). apply (proj2 (wf_shape m s H a h)). right; exact Hh.
    + apply own_ok_c. apply (own_okc_frame m (vals s) (cont s)); [exact (wf_own m s H) | exact Hcells |].
      intros c. rewrite HC, LC. reflexivity.
    + intros c r Hin. rewrite HR in Hin. destruct LR as [LR1 _]. rewrite LR1 in Hin.
      rewrite HC, LC. exact (wf_roots m s H c r Hin).
Qed.

Theorem WF_coll_add_full s x f pos v :
  WF m s -> f_many (fd m f) = true -> WF m (snd (coll_add_full m s (x, f) pos v)).
Proof.
  intros H Hm. destruct (check_elem m f v) eqn:Hchk.
  2:{ unfold coll_add_full. rewrite Hchk. exact H. }
  destruct (f_isref (fd m f)) eqn:Hr; [|apply WF_add_plain; [exact H | exact Hm | exact Hchk | left; exact Hr]].
  destruct (obj_of v) as [y|] eqn:Ev; [|apply WF_add_plain; [exact H | exact Hm | exact Hchk | right; exact Ev]].
  apply obj_of_Some' in Ev. subst v. apply WF_add_obj; assumption.
Qed.

End AddMain.
