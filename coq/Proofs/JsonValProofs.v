(* Value round trip of the JSON attribute mapping (Model/JsonVal.v). *)
From Coq Require Import ZArith List Bool.
From PyecoreV Require Import Model.XmiAttr Model.JsonVal.
Import ListNotations.
Open Scope Z_scope.

Lemma XmiAttrProofs_str_eqb_eq a : forall b, str_eqb a b = true -> a = b.
Proof.
  induction a as [|x a IH]; intros [|y b] H; simpl in H; try discriminate; [reflexivity|].
  apply andb_true_iff in H. destruct H as [H1 H2]. apply Z.eqb_eq in H1. subst.
  rewrite (IH b H2). reflexivity.
Qed.

Section RoundTrip.
  Variable O : Type.
  Variable to_string : O -> str.
  Variable from_string : str -> option O.
  (* the C17 statement for the non-native data types: from_string (to_string v) = v *)
  Hypothesis conv_roundtrip : forall o, from_string (to_string o) = Some o.

  Theorem json_value_roundtrip t (v : pyv O) :
    well_typed t v -> from_json from_string t (to_json to_string t v) = v.
  Proof.
    destruct v, t; simpl; intros H; try contradiction; try reflexivity.
    rewrite conv_roundtrip. reflexivity.
  Qed.

  Theorem json_values_roundtrip t (vs : list (pyv O)) :
    Forall (well_typed t) vs ->
    map (from_json from_string t) (map (to_json to_string t) vs) = vs.
  Proof.
    induction 1 as [|v vs Hv _ IH]; simpl; [reflexivity|].
    rewrite (json_value_roundtrip t v Hv), IH. reflexivity.
  Qed.

  (* values keep their JSON-native type: number / boolean / string, and only None becomes null *)
  Theorem json_native_kind t (v : pyv O) :
    well_typed t v -> v <> PNone ->
    kind_of (to_json to_string t v) = kind_of_tag t.
  Proof.
    destruct v, t; simpl; intros H N; try contradiction; try reflexivity; congruence.
  Qed.

  Theorem json_null_iff_none t (v : pyv O) :
    well_typed t v -> (to_json to_string t v = JNull <-> v = PNone).
  Proof.
    destruct v, t; simpl; intros H; try contradiction; split; intros E;
      try reflexivity; try discriminate.
  Qed.
  (* the entry of a single-valued attribute, with the "leave out the default" decision *)
  Variable veq : pyv O -> pyv O -> bool.
  Hypothesis veq_eq : forall a b, veq a b = true -> a = b.      (* == on one type's values is identity here *)

  Theorem json_entry_roundtrip sd t (dflt v : pyv O) :
    well_typed t v ->
    read_entry from_string t dflt (write_entry to_string veq sd t dflt v) = v.
  Proof.
    intros H. unfold write_entry. destruct (negb sd && veq v dflt) eqn:E; simpl.
    - apply andb_true_iff in E. destruct E as [_ E]. symmetry. exact (veq_eq _ _ E).
    - exact (json_value_roundtrip t v H).
  Qed.

  (* with SERIALIZE_DEFAULT_VALUES nothing is left out *)
  Theorem json_entry_serialize_default t (dflt v : pyv O) :
    write_entry to_string veq true t dflt v = Some (to_json to_string t v).
  Proof. reflexivity. Qed.
End RoundTrip.

Lemma veq_text_eq : forall a b, veq_text a b = true -> a = b.
Proof.
  intros [|x|x|x|x|x|] [|y|y|y|y|y|]; simpl; intros Heq; try discriminate; try reflexivity.
  - apply Z.eqb_eq in Heq. congruence.
  - apply Z.eqb_eq in Heq. congruence.
  - apply Bool.eqb_prop in Heq. congruence.
  - rewrite (XmiAttrProofs_str_eqb_eq _ _ Heq). reflexivity.
  - rewrite (XmiAttrProofs_str_eqb_eq _ _ Heq). reflexivity.
Qed.

(* writer testing against another default than the reader's: the value is lost
   (shape of the seeded regression value == attr.default_value) *)
Example json_entry_two_defaults_lose_the_value :
  read_entry (fun s : str => Some s) TInt (PInt 3)
    (write_entry (fun s : str => s) veq_text false TInt (PInt 0) (PInt 0)) = PInt 3.
Proof. vm_compute. reflexivity. Qed.

(* the extracted instance (an object is named by its canonical text) meets the hypothesis *)
Lemma text_instance_roundtrip : forall o : str, (fun s : str => Some s) ((fun s : str => s) o) = Some o.
Proof. reflexivity. Qed.
