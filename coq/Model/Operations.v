(* Operations of a metaclass as Python callables.
   Mirrors ecore.py: EOperation.normalized_name / to_code, EParameter.to_code
   (437-462), EClass.__create_fun (897-904: compile_restricted + exec), and the
   reflection loop of Core._promote (96-112).  Python's `def` statement is
   modelled as "parameter list -> function object (argspec) or SyntaxError /
   NameError"; the source text is kept as data (a header = name + parameter
   pieces), names are lists of code points.  No proofs here. *)
From Coq Require Import String Ascii ZArith Bool List.
From PyecoreV Require Import Lib.PyBase Lib.PyList.
Import ListNotations.
Open Scope Z_scope.

Definition name := list Z.

Fixpoint name_eqb (a b : name) : bool :=
  match a, b with
  | [], [] => true
  | x :: a', y :: b' => (x =? y) && name_eqb a' b'
  | _, _ => false
  end.

Definition of_string (s : string) : name :=
  map (fun a => Z.of_nat (nat_of_ascii a)) (list_ascii_of_string s).

Definition nmem (n : name) (l : list name) : bool := existsb (name_eqb n) l.

(* keyword.kwlist of CPython 3.12 (soft keywords are not keywords) *)
Definition keywords : list name :=
  map of_string
    ["False"; "None"; "True"; "and"; "as"; "assert"; "async"; "await"; "break";
     "class"; "continue"; "def"; "del"; "elif"; "else"; "except"; "finally";
     "for"; "from"; "global"; "if"; "import"; "in"; "is"; "lambda"; "nonlocal";
     "not"; "or"; "pass"; "raise"; "return"; "try"; "while"; "with"; "yield"]%string.

Definition is_keyword (n : name) : bool := nmem n keywords.

Definition UNDERSCORE : Z := 95.
Definition SELF : name := of_string "self".

(* EOperation.normalized_name *)
Definition normalized_name (n : name) : name :=
  if is_keyword n then n ++ [UNDERSCORE] else n.

(* ---------- declarations ---------- *)

(* the default value of a parameter's type, as far as its rendering matters:
   a value the generated function really gets as default (the token is
   interned by the harness: None, ints, floats, booleans, strings, {}, and
   since /repo fix 3896d2a enumeration literals too: pyecore writes a
   placeholder in the source and installs the value on the compiled
   function), or DEnum: a default PASTED as text that is not an expression
   (repr of an enumeration literal, `name=value`) -- what pyecore did for
   enumerations before that fix; the harness no longer produces it *)
Inductive dval : Type :=
| DLit (t : Z)
| DEnum (t : Z).

Record param : Type := mkParam {
  p_name : name;
  p_required : bool;
  p_default : dval
}.

(* ---------- the generated `def` header as data ---------- *)

Inductive dtext : Type :=
| TLit (t : Z)       (* text of a literal: evaluates to the value it was rendered from *)
| TBare (t : Z).     (* text that is not an expression: the def statement does not compile *)

Record pcode : Type := mkPcode {
  pc_name : name;
  pc_default : option dtext       (* None: `name` ; Some d: `name=d` *)
}.

Definition signature := list pcode.

(* EParameter.to_code *)
Definition param_to_code (p : param) : pcode :=
  if p_required p then mkPcode (p_name p) None
  else mkPcode (p_name p)
               (Some (match p_default p with DLit t => TLit t | DEnum t => TBare t end)).

Definition self_code : pcode := mkPcode SELF None.

Definition is_self_code (c : pcode) : bool :=
  name_eqb (pc_name c) SELF && match pc_default c with None => true | Some _ => false end.

(* the parameter list of EOperation.to_code: `self` is put first unless the
   first rendered piece already is the text "self" *)
Definition sig_of (ps : list param) : signature :=
  let cs := map param_to_code ps in
  match cs with
  | c :: _ => if is_self_code c then cs else self_code :: cs
  | [] => [self_code]
  end.

Record header : Type := mkHeader { h_name : name; h_params : signature }.

Definition to_code (opname : name) (ps : list param) : header :=
  mkHeader (normalized_name opname) (sig_of ps).

(* ---------- Python's def (through RestrictedPython) ---------- *)

Inductive deferr : Type := SyntaxErr.

Definition is_alpha_ (c : Z) : bool :=
  ((65 <=? c) && (c <=? 90)) || ((97 <=? c) && (c <=? 122)) || (c =? 95).
Definition is_alnum_ (c : Z) : bool := is_alpha_ c || ((48 <=? c) && (c <=? 57)).

(* ASCII identifiers (non-ASCII names are outside the model) *)
Definition is_identifier (n : name) : bool :=
  match n with
  | [] => false
  | c :: rest => is_alpha_ c && forallb is_alnum_ rest
  end.

Fixpoint ends_with (suffix n : name) : bool :=
  name_eqb suffix n || match n with [] => false | _ :: n' => ends_with suffix n' end.

(* RestrictedPython transformer.check_name *)
Definition restricted_name (n : name) : bool :=
  match n with
  | c :: _ :: _ => (c =? UNDERSCORE)
  | _ => false
  end
  || ends_with (of_string "__roles__") n
  || nmem n (map of_string ["print"; "printed"; "builtins"; "breakpoint"]%string).

Definition bad_name (n : name) : bool :=
  negb (is_identifier n) || is_keyword n || restricted_name n.

Fixpoint has_dup (l : list name) : bool :=
  match l with
  | [] => false
  | x :: xs => nmem x xs || has_dup xs
  end.

(* "parameter without a default follows parameter with a default" *)
Fixpoint req_after_opt (seen_opt : bool) (cs : signature) : bool :=
  match cs with
  | [] => false
  | c :: rest =>
    match pc_default c with
    | None => seen_opt || req_after_opt seen_opt rest
    | Some _ => req_after_opt true rest
    end
  end.

Definition is_bare (c : pcode) : bool :=
  match pc_default c with Some (TBare _) => true | _ => false end.

(* what a function object remembers of its header (inspect.getfullargspec) *)
Record argspec : Type := mkSpec {
  a_args : list name;
  a_defaults : list dtext      (* of the last |a_defaults| arguments *)
}.

Fixpoint defaults_of (cs : signature) : list dtext :=
  match cs with
  | [] => []
  | c :: rest => match pc_default c with
                 | Some d => d :: defaults_of rest
                 | None => defaults_of rest
                 end
  end.

(* compile_restricted + exec of the header *)
Definition py_def (h : header) : deferr + argspec :=
  let names := map pc_name (h_params h) in
  if bad_name (h_name h) || existsb bad_name names || has_dup names
     || req_after_opt false (h_params h) || existsb is_bare (h_params h)
  then inl SyntaxErr
  else inr (mkSpec names (defaults_of (h_params h))).

(* declarations the property quantifies over: required parameters first *)
Fixpoint well_ordered (seen_opt : bool) (ps : list param) : bool :=
  match ps with
  | [] => true
  | p :: rest =>
    if p_required p then negb seen_opt && well_ordered seen_opt rest
    else well_ordered true rest
  end.

(* inspect.signature of the bound method: the first argument is consumed *)
Definition nreq (s : argspec) : nat := (length (a_args s) - length (a_defaults s))%nat.

Fixpoint sig_view (i : nat) (nr : nat) (args : list name) (defs : list dtext)
  : list (name * option dtext) :=
  match args with
  | [] => []
  | a :: rest =>
    if Nat.ltb i nr then (a, None) :: sig_view (S i) nr rest defs
    else match defs with
         | d :: ds => (a, Some d) :: sig_view (S i) nr rest ds
         | [] => (a, None) :: sig_view (S i) nr rest []
         end
  end.

Definition full_signature (s : argspec) : list (name * option dtext) :=
  sig_view O (nreq s) (a_args s) (a_defaults s).

Definition bound_signature (s : argspec) : list (name * option dtext) :=
  tl (full_signature s).

(* calling the bound method with n positional arguments: does the binding succeed? *)
Definition accepts (s : argspec) (n : nat) : bool :=
  Nat.leb (nreq s - 1) n && Nat.leb n (length (a_args s) - 1).

(* ---------- Core._promote: reflection of a static class body ---------- *)

Inductive member : Type :=
| MFunc (spec : argspec)     (* a plain function written with def *)
| MStatic                    (* staticmethod / classmethod object: not a function *)
| MOther.                    (* any other value *)

(* a def statement of a class body: source name, member *)
Definition body := list (name * member).

Definition starts_dunder (n : name) : bool :=
  match n with a :: b :: _ => (a =? UNDERSCORE) && (b =? UNDERSCORE) | _ => false end.

Fixpoint strip_underscores (n : name) : name :=
  match n with
  | c :: rest => if c =? UNDERSCORE then strip_underscores rest else n
  | [] => []
  end.

(* private name mangling of the compiler: __x (not ending in __) inside
   class C is stored as _C__x; no mangling when C is all underscores *)
Definition mangle (cls n : name) : name :=
  if starts_dunder n && negb (ends_with [UNDERSCORE; UNDERSCORE] n)
  then match strip_underscores cls with
       | [] => n
       | c => UNDERSCORE :: c ++ n
       end
  else n.

(* the class namespace: key, function __name__, member *)
Definition namespace_of (cls : name) (b : body) : list (name * name * member) :=
  map (fun d => (mangle cls (fst d), fst d, snd d)) b.

Definition NONE_DEFAULT : Z := 0.   (* token of the literal None *)

(* parameters of the reflected operation: all of args, the first
   len(args) - len(defaults) required, typed ENativeType (default None) *)
Fixpoint reflect_params (i nr : nat) (args : list name) : list param :=
  match args with
  | [] => []
  | a :: rest => mkParam a (Nat.ltb i nr) (DLit NONE_DEFAULT) :: reflect_params (S i) nr rest
  end.

Definition promote_spec (s : argspec) : list param := reflect_params O (nreq s) (a_args s).

(* the loop of _promote over rcls.__dict__.items(), functions only.
   The key filter is the one of the repaired code: a function is skipped when
   its namespace key or its own name starts with two underscores. *)
Fixpoint promote_ns (ns : list (name * name * member)) : list (name * list param) :=
  match ns with
  | [] => []
  | (k, fname, m) :: rest =>
    match m with
    | MFunc s =>
      if starts_dunder k || starts_dunder fname then promote_ns rest
      else match a_args s with
           | a0 :: _ => if name_eqb a0 SELF then (fname, promote_spec s) :: promote_ns rest
                        else promote_ns rest
           | [] => promote_ns rest
           end
    | _ => promote_ns rest
    end
  end.

Definition promote (cls : name) (b : body) : list (name * list param) :=
  promote_ns (namespace_of cls b).

(* ---------- token codec ---------- *)

Fixpoint take {A} (n : nat) (l : list A) : list A :=
  match n, l with S n', x :: xs => x :: take n' xs | _, _ => [] end.
Fixpoint drop {A} (n : nat) (l : list A) : list A :=
  match n, l with S n', _ :: xs => drop n' xs | _, _ => l end.

(* a name: len c1..cn *)
Definition dec_name (t : list Z) : name * list Z :=
  match t with
  | n :: rest => (take (Z.to_nat n) rest, drop (Z.to_nat n) rest)
  | [] => ([], [])
  end.

Definition enc_name (n : name) : list Z := Z.of_nat (length n) :: n.

(* a parameter: name required dkind dtok *)
Definition dec_param (t : list Z) : param * list Z :=
  let '(n, r) := dec_name t in
  match r with
  | rq :: dk :: dt :: rest =>
    (mkParam n (rq =? 1) (if dk =? 1 then DEnum dt else DLit dt), rest)
  | _ => (mkParam n true (DLit 0), [])
  end.

Fixpoint dec_params (k : nat) (t : list Z) : list param * list Z :=
  match k with
  | O => ([], t)
  | S k' => let '(p, r) := dec_param t in
            let '(ps, r') := dec_params k' r in (p :: ps, r')
  end.

Definition enc_dtext (d : option dtext) : list Z :=
  match d with
  | None => [0; 0]
  | Some (TLit t) => [1; t]
  | Some (TBare t) => [2; t]
  end.

Definition enc_view (v : list (name * option dtext)) : list Z :=
  Z.of_nat (length v) :: flat_map (fun x => enc_name (fst x) ++ enc_dtext (snd x)) v.

Definition enc_params (ps : list param) : list Z :=
  Z.of_nat (length ps)
  :: flat_map (fun p => enc_name (p_name p) ++ [if p_required p then 1 else 0]) ps.

(* sig: opname nparams params.. ->
     normalised name ; 0 + bound signature + reflected parameters of the generated function
                     | 1 (SyntaxError) *)
Definition run_sig (t : list Z) : list Z :=
  let '(n, r) := dec_name t in
  match r with
  | k :: r' =>
    let '(ps, _) := dec_params (Z.to_nat k) r' in
    let h := to_code n ps in
    enc_name (h_name h) ++
    match py_def h with
    | inl SyntaxErr => [1]
    | inr s => [0] ++ enc_view (bound_signature s) ++ enc_params (promote_spec s)
    end
  | [] => []
  end.

(* a member: kind (0 function, 1 static/classmethod, 2 other); a function is
   followed by nargs, ndefaults, the argument names *)
Fixpoint dec_names (k : nat) (t : list Z) : list name * list Z :=
  match k with
  | O => ([], t)
  | S k' => let '(n, r) := dec_name t in
            let '(ns, r') := dec_names k' r in (n :: ns, r')
  end.

Fixpoint dec_body (k : nat) (t : list Z) : body :=
  match k with
  | O => []
  | S k' =>
    let '(n, r) := dec_name t in
    match r with
    | 0 :: na :: nd :: r' =>
      let '(args, r'') := dec_names (Z.to_nat na) r' in
      (n, MFunc (mkSpec args (repeat (TLit 0) (Z.to_nat nd)))) :: dec_body k' r''
    | 1 :: r' => (n, MStatic) :: dec_body k' r'
    | _ :: r' => (n, MOther) :: dec_body k' r'
    | [] => []
    end
  end.

(* promote: class name ; nmembers ; members.. -> noperations ; (name ; params)* *)
Definition run_promote (t : list Z) : list Z :=
  let '(cn, r) := dec_name t in
  match r with
  | k :: r' =>
    let ops := promote cn (dec_body (Z.to_nat k) r') in
    Z.of_nat (length ops) :: flat_map (fun o => enc_name (fst o) ++ enc_params (snd o)) ops
  | [] => []
  end.

(* iskw: a name -> 1/0 ; the normalised name *)
Definition run_iskw (t : list Z) : list Z :=
  let '(n, _) := dec_name t in
  (if is_keyword n then 1 else 0) :: enc_name (normalized_name n).
