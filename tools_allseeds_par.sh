#!/bin/bash
# usage: tools_allseeds_par.sh [jobs]  -- as tools_allseeds.sh, one scratch worktree per property (outside /repo and /verif,
# removed afterwards), <jobs> properties at a time (default 6); writes /verif/seeded/STATUS.md
J=${1:-6}
HEAD=$(git -C /repo log --format=%h -1)
TMP=$(mktemp -d /tmp/allseeds_out.XXXX)
one() {
  pid=$1; TMP=$2; WT=/tmp/allseeds_wt_$pid
  git -C /repo worktree remove --force $WT 2>/dev/null
  git -C /repo worktree add -q --detach $WT main || exit 9
  for d in $(ls -d /verif/seeded/${pid}_*/ | sort -V); do
    n=$(basename $d)
    [ -f $d/patch.diff ] || continue
    cd $WT; git checkout -q -- . ; git clean -fdq
    cp $d/demo.py $WT/_demo_tmp.py
    /venv/bin/python _demo_tmp.py >/dev/null 2>&1; clean=$?
    if git apply $d/patch.diff 2>/dev/null; then ap=yes; else ap=no; fi
    if [ $ap = yes ]; then
      /venv/bin/python _demo_tmp.py >/dev/null 2>&1; mut=$?
      tests=$(/venv/bin/python -m pytest -q -p no:cacheprovider -x 2>&1 | tail -1 | cut -c1-40)
      res=$(cd /verif && VERIF_REPO=$WT ./check $pid --no-build 2>&1 | tail -1 | sed 's/.*-> //')
    else mut=-; tests=-; res=-; fi
    echo "| $n | $ap | $clean/$mut | $tests | $res |" >> $TMP/$pid.md
  done
  cd /; git -C /repo worktree remove --force $WT
}
export -f one
printf "%s\n" ${PIDS:-C01 C02 C03 C04 C05 C06 C07 C08 C09 C10 C11 C12 C13 C14 C15 C16 C17 C18 C19 C20} | xargs -P $J -I{} bash -c "one {} $TMP"
OUT=/verif/seeded/STATUS.md
# properties not re-run (PIDS given): keep their rows from the previous STATUS.md
for p in C01 C02 C03 C04 C05 C06 C07 C08 C09 C10 C11 C12 C13 C14 C15 C16 C17 C18 C19 C20; do
  [ -f $TMP/$p.md ] || grep "^| ${p}_" $OUT > $TMP/$p.md 2>/dev/null
done
NOTE=$(grep "not detected by design" $OUT)
echo "# seeded changes against /repo HEAD $HEAD ($(date -u +%F))" > $OUT; echo >> $OUT
echo "| seed | patch applies | demo clean/mutated | suite | check |" >> $OUT; echo "|---|---|---|---|---|" >> $OUT
for p in C01 C02 C03 C04 C05 C06 C07 C08 C09 C10 C11 C12 C13 C14 C15 C16 C17 C18 C19 C20; do cat $TMP/$p.md >> $OUT 2>/dev/null; done
rm -rf $TMP
echo >> $OUT; echo "$NOTE" >> $OUT
grep -c "| FAIL |" $OUT; grep -v "| FAIL |" $OUT | tail -n +5
