(* EProxy (pyecore/ecore.py) as a small state machine, Python's `==`/hash/`is`
   on plain objects and proxies, and ordered_set.OrderedSet (items + map dict)
   holding such values.
     EProxy.force_resolve / __getattribute__ / __setattr__ : resolve once through
        resource.resolve_object(path), then delegate to _wrapped
     EProxy.__hash__ : hash(_wrapped) when resolved, object.__hash__(self) otherwise
     EProxy.__eq__   : force_resolve(); _wrapped == other   (EObject has no __eq__:
        identity; against another proxy Python falls back to the reflected call)
     OrderedSet.add / __contains__ / index : through the dict `map`
   Plain objects are numbered (oid) and hash to their number; proxies are numbered
   (pid) in a disjoint range and, unresolved, hash to their own number.
   Not modelled: _inverse_rels merging, delete(), __call__/__instancecheck__.
   No proofs here. *)
From Coq Require Import ZArith List Bool.
From PyecoreV Require Import Lib.PyBase Lib.PyDict.
Import ListNotations.
Open Scope Z_scope.

Inductive value : Type := VObj (o : Z) | VProxy (p : Z).
Inductive pstate : Type := Unresolved (path : Z) | Resolved (t : Z).

Record heap : Type := {
  pstates : list (Z * pstate);    (* proxy -> state *)
  world : list (Z * Z);           (* proxy path -> object: what resource.resolve_object yields; absent = raises *)
  attrs : list (Z * Z)            (* object -> value of its one attribute *)
}.

Fixpoint assoc {A} (k : Z) (l : list (Z * A)) : option A :=
  match l with
  | [] => None
  | (k', v) :: r => if k' =? k then Some v else assoc k r
  end.

Fixpoint assoc_set {A} (k : Z) (v : A) (l : list (Z * A)) : list (Z * A) :=
  match l with
  | [] => [(k, v)]
  | (k', v') :: r => if k' =? k then (k, v) :: r else (k', v') :: assoc_set k v r
  end.

Definition state_of (h : heap) (p : Z) : pstate :=
  match assoc p (pstates h) with Some s => s | None => Unresolved (-1) end.

Definition set_state (h : heap) (p : Z) (s : pstate) : heap :=
  {| pstates := assoc_set p s (pstates h); world := world h; attrs := attrs h |}.

(* EProxy.force_resolve: TypeErr stands for whatever resolve_object raises *)
Definition force_resolve (h : heap) (p : Z) : res (Z * heap) :=
  match state_of h p with
  | Resolved t => Ok (t, h)
  | Unresolved path =>
    match assoc path (world h) with
    | Some t => Ok (t, set_state h p (Resolved t))
    | None => Err TypeErr
    end
  end.

(* hash(v): never resolves *)
Definition py_hash (h : heap) (v : value) : Z :=
  match v with
  | VObj o => o
  | VProxy p => match state_of h p with Resolved t => t | Unresolved _ => p end
  end.

(* `a is b` *)
Definition py_is (a b : value) : bool :=
  match a, b with
  | VObj x, VObj y => x =? y
  | VProxy p, VProxy q => p =? q
  | _, _ => false
  end.

(* `a == b`: the heap reached is returned even when the comparison raises
   (a proxy resolved on the way stays resolved) *)
Definition py_eq (h : heap) (a b : value) : res bool * heap :=
  match a, b with
  | VObj x, VObj y => (Ok (x =? y), h)
  | VProxy p, VObj y =>
    match force_resolve h p with Ok (t, h1) => (Ok (t =? y), h1) | Err e => (Err e, h) end
  | VObj x, VProxy q =>      (* object.__eq__ gives NotImplemented: reflected q.__eq__(x) *)
    match force_resolve h q with Ok (t, h1) => (Ok (t =? x), h1) | Err e => (Err e, h) end
  | VProxy p, VProxy q =>    (* p resolves, t == q is NotImplemented on the left, reflected q.__eq__(t) *)
    match force_resolve h p with
    | Ok (t, h1) => match force_resolve h1 q with Ok (t', h2) => (Ok (t' =? t), h2) | Err e => (Err e, h1) end
    | Err e => (Err e, h)
    end
  end.

(* v.attr / v.attr = z *)
Definition target_of (h : heap) (v : value) : res (Z * heap) :=
  match v with
  | VObj o => Ok (o, h)
  | VProxy p => force_resolve h p
  end.

Definition py_getattr (h : heap) (v : value) : res (Z * heap) :=
  match target_of h v with
  | Ok (t, h1) => match assoc t (attrs h1) with Some z => Ok (z, h1) | None => Err AttrErr end
  | Err e => Err e
  end.

Definition py_setattr (h : heap) (v : value) (z : Z) : res heap :=
  match target_of h v with
  | Ok (t, h1) => Ok {| pstates := pstates h1; world := world h1; attrs := assoc_set t z (attrs h1) |}
  | Err e => Err e
  end.

(* ---- OrderedSet of values: items (iteration order) and the dict map: key -> index ---- *)
Record pset : Type := { p_items : list value; p_map : list (entry value Z) }.
Definition pset_empty : pset := {| p_items := []; p_map := [] |}.

(* `==` inside a dict lookup; an exception raised by __eq__ propagates out of the lookup:
   kept as a flag in the threaded state *)
Definition lstate : Type := (heap * option exn)%type.
Definition eq_in_lookup (s : lstate) (a b : value) : bool * lstate :=
  match snd s with
  | Some _ => (false, s)
  | None => match py_eq (fst s) a b with
            | (Ok r, h') => (r, (h', None))
            | (Err e, h') => (false, (h', Some e))
            end
  end.

Definition map_find (h : heap) (k : value) (m : list (entry value Z)) : res (option Z) * heap :=
  match d_find py_is eq_in_lookup (h, None) (py_hash h k) k m with
  | (_, (h', Some e)) => (Err e, h')
  | (Some e, (h', None)) => (Ok (Some (e_val e)), h')
  | (None, (h', None)) => (Ok None, h')
  end.

(* OrderedSet.add *)
Definition ps_add (h : heap) (k : value) (s : pset) : res pset * heap :=
  match map_find h k (p_map s) with
  | (Err e, h') => (Err e, h')
  | (Ok (Some _), h') => (Ok s, h')
  | (Ok None, h') =>
    (Ok {| p_items := p_items s ++ [k];
           p_map := d_insert_new (py_hash h k) k (Z.of_nat (length (p_items s))) (p_map s) |}, h')
  end.

(* key in s *)
Definition ps_contains (h : heap) (k : value) (s : pset) : res bool * heap :=
  match map_find h k (p_map s) with
  | (Err e, h') => (Err e, h')
  | (Ok (Some _), h') => (Ok true, h')
  | (Ok None, h') => (Ok false, h')
  end.

(* s.index(key): KeyError when absent *)
Definition ps_index (h : heap) (k : value) (s : pset) : res Z * heap :=
  match map_find h k (p_map s) with
  | (Err e, h') => (Err e, h')
  | (Ok (Some i), h') => (Ok i, h')
  | (Ok None, h') => (Err KeyErr, h')
  end.

(* what iteration + `==` finds: any(x == k for x in s) *)
Fixpoint any_eq (h : heap) (k : value) (l : list value) : res bool * heap :=
  match l with
  | [] => (Ok false, h)
  | x :: r => match py_eq h x k with
              | (Err e, h') => (Err e, h')
              | (Ok true, h') => (Ok true, h')
              | (Ok false, h') => any_eq h' k r
              end
  end.
