(* Boolean deciders for the premises of the kernel theorems (metamodel well-formedness, operation
   fitness), so that the harness can report, for every generated case, whether it lies inside the
   domain the theorems quantify over.  Reflection lemmas: Proofs/PremisesProofs.v.  No proofs here. *)
From Coq Require Import ZArith List Bool Arith.
From PyecoreV Require Import Lib.PyBase Lib.PyList Model.Kernel Model.KernelIO.
Import ListNotations.
Open Scope nat_scope.

Definition all_fids (m : mm) (P : fid -> bool) : bool := forallb P (seq 0 (length (feats m))).

Definition is_none_value (v : value) : bool := match v with VNone => true | _ => false end.

Definition wf_mm_at (m : mm) (f : fid) : bool :=
  let d := fd m f in
  match f_opp d with
  | Some g =>
      (g <? length (feats m)) &&
      (match f_opp (fd m g) with Some f' => f' =? f | None => false end) &&
      f_isref d &&
      implb (f_cont d) (negb (f_many (fd m g)) && negb (f_cont (fd m g))) &&
      implb (f_many d) (f_unique d)
  | None => implb (f_many d && f_cont d) (f_unique d)
  end && implb (f_cont d) (f_isref d).

Definition wf_mmb (m : mm) : bool := all_fids m (wf_mm_at m).

Definition ref_defaults_noneb (m : mm) : bool :=
  all_fids m (fun f => implb (f_isref (fd m f) && negb (f_many (fd m f))) (is_none_value (f_default (fd m f)))).

Definition ftype_is_class (t : ftype) (c : cid) : bool :=
  match t with TClass c' => c' =? c | _ => false end.

Definition wf_typedb (m : mm) : bool :=
  all_fids m (fun f => match f_opp (fd m f) with
                       | Some g => (g <? length (feats m)) && f_isref (fd m g) &&
                                   ftype_is_class (f_type (fd m f)) (f_owner (fd m g))
                       | None => true end).

Definition no_containmentb (m : mm) : bool := all_fids m (fun f => negb (f_cont (fd m f))).

Definition op_manyb (m : mm) (o : op) : bool :=
  match o with
  | OAppend x f _ | OInsert x f _ _ | ORemove x f _ | OPop x f _ | OClear x f
  | OExtend x f _ | OSetItem x f _ _ | ODelItem x f _ => f_many (fd m f)
  | _ => true
  end.

Definition declared_cellb (m : mm) (x : oid) (f : fid) : bool :=
  implb (f_isref (fd m f)) (applicable m x f).

Definition op_applb (m : mm) (o : op) : bool :=
  match o with
  | OSet x f _ | OUnset x f | ODel x f | OAssign x f _ | OAppend x f _ | OInsert x f _ _
  | OExtend x f _ | OSetItem x f _ _ => declared_cellb m x f
  | _ => true
  end.

Definition b2z (b : bool) : Z := if b then 1%Z else 0%Z.

(* tokens: the same case encoding as run_kernel; answer: the five flags *)
Definition run_premises (t : list Z) : list Z :=
  let '(m, rest) := dec_mm t in
  let ops := dec_ops (length rest) rest in
  [b2z (wf_mmb m); b2z (ref_defaults_noneb m); b2z (wf_typedb m); b2z (no_containmentb m);
   b2z (forallb (op_manyb m) ops); b2z (forallb (op_applb m) ops)].
