(* Bulk move of contained children: b.items.extend(a.items) / += / update where the argument is
   the LIVE collection of another object.  For the model this is OExtend x f (vals s (y, f)): the
   snapshot of y's slot taken before the call.  For a unique many-valued containment f, from a
   WF state: the receiver's slot is the old list extended by the snapshot, the source slot ends
   empty, every moved child names (x, f) as its container, no other container pointer changes.
   EAbstractSet.update runs, per element v: own cell := raw_append v; then the reference part
   link_elem, whose _update_container takes v out of its previous container's slot (here: the
   source y) and whose opposite update sets the container end.  On vals/cont one round equals
   one ECollection.append (OwnColl.link_set_vals), for which Proofs/SymLink.v, OwnPrim.v and
   OwnAdd.v give closed forms; the fold is an induction over the snapshot with the invariant
   "the not-yet-moved suffix is what (y,f) holds, the moved prefix is at the end of (x,f)".
   No acyclicity premise is needed for these equations (WF alone determines them). *)
From Coq Require Import ZArith List Bool Arith Lia.
From PyecoreV Require Import Lib.PyBase Lib.PyList Model.Kernel Proofs.PyListFacts Proofs.KernelFacts
  Proofs.C01Proofs Proofs.C01Full Proofs.C02Proofs Proofs.WFBase Proofs.SymLink Proofs.OwnPrim
  Proofs.OwnAdd Proofs.OwnColl Proofs.OwnAll.
Import ListNotations.
Local Open Scope nat_scope.

Section Round.
Variable m : mm.
Hypothesis W : wf_mm m.
Variable f : fid.
Hypothesis Hc : f_cont (fd m f) = true.
Hypothesis Hm : f_many (fd m f) = true.
Hypothesis Hu : f_unique (fd m f) = true.

(* one round of the unique extend for element VObj c *)
Definition round (s : state) (x c : oid) : state :=
  link_elem m (set_vals s (x, f) (raw_append true (VObj c) (vals s (x, f)))) x f (VObj c).

Lemma Hr : f_isref (fd m f) = true.
Proof. exact (wf_cont_ref m W f Hc). Qed.

(* the value store after linking c under (x,f), on containment cells other than (x,f) *)
Lemma link_cont_cell s (x c p : oid) (h : fid) :
  WF m s -> f_cont (fd m h) = true -> (p, h) <> (x, f) ->
  vals (link_elem m s x f (VObj c)) (p, h) = ucV m s x f c (p, h).
Proof.
  intros H Hh N. pose proof (WF_slot_ok m s x f c H) as Hslot.
  rewrite (link_vals m W s x f c Hr Hm (fun _ => Hslot)).
  rewrite (Lval_cont_cells m W s x f c Hc Hm (no_steal_WF m W s x f c H) p h Hh N).
  unfold linkV. rewrite Hc. reflexivity.
Qed.

Lemma round_fields s (x c : oid) :
  WF m s ->
  vals (round s x c) (x, f) = raw_append true (VObj c) (vals s (x, f)) /\
  (forall (p : oid) (h : fid), f_cont (fd m h) = true -> (p, h) <> (x, f) ->
     vals (round s x c) (p, h) = ucV m s x f c (p, h)) /\
  (forall c', cont (round s x c) c' = if c =? c' then Some (x, f) else cont s c').
Proof.
  intros H. unfold round.
  destruct (link_set_vals m W s x f (VObj c) (raw_append true (VObj c) (vals s (x, f))) H Hm) as [LV [LC _]].
  split; [rewrite LV; apply upd_same|]. split.
  - intros p h Hh N. rewrite LV. rewrite upd_other by (intros E; apply N; symmetry; exact E).
    apply link_cont_cell; assumption.
  - intros c'. rewrite LC.
    rewrite (link_cont m W s x f c Hr Hm (fun _ => WF_slot_ok m s x f c H) (no_steal_WF m W s x f c H) c').
    rewrite Hc. reflexivity.
Qed.
End Round.

Section Fold.
Variable m : mm.
Hypothesis W : wf_mm m.
Variable f : fid.
Hypothesis Hc : f_cont (fd m f) = true.
Hypothesis Hm : f_many (fd m f) = true.
Hypothesis Hu : f_unique (fd m f) = true.

Lemma ucV_source s (x y c : oid) :
  cont s c = Some (y, f) -> y <> x -> ucV m s x f c (y, f) = raw_remove (VObj c) (vals s (y, f)).
Proof.
  intros Ec N. unfold ucV. rewrite Ec.
  destruct (Nat.eqb_spec y x) as [E|_]; [congruence|]. cbn [andb negb].
  unfold RUv. cbn [snd]. cbv zeta. rewrite upd_same, Hm. reflexivity.
Qed.

Lemma ucV_elsewhere s (x y c p : oid) (h : fid) :
  cont s c = Some (y, f) -> f_cont (fd m h) = true -> (p, h) <> (y, f) -> ucV m s x f c (p, h) = vals s (p, h).
Proof.
  intros Ec Hh N. unfold ucV. rewrite Ec.
  destruct (negb ((y =? x) && (f =? f))); [|reflexivity].
  apply RUv_other; [exact N|]. cbn [snd]. intros g Eg E. inversion E; subst.
  destruct (wf_container_end m W f g Eg Hc) as [_ B]. congruence.
Qed.

(* the unique branch of coll_extend_full *)
Definition rounds (x : oid) (vs : list value) (s : state) : state :=
  fold_left (fun acc v => link_elem m (set_vals acc (x, f) (raw_append true v (vals acc (x, f)))) x f v) vs s.

(* moving the children listed in `rest` = the current content of (y,f), one after the other *)
Lemma rounds_move (x y : oid) : x <> y ->
  forall (rest : list value) (t : state),
    WF m t -> vals t (y, f) = rest ->
    (forall v, In v rest -> exists c : oid, v = VObj c) ->
    (forall v, In v rest -> check_elem m f v = true) ->
    let t' := rounds x rest t in
    WF m t' /\
    vals t' (x, f) = vals t (x, f) ++ rest /\
    vals t' (y, f) = [] /\
    (forall c : oid, cont t' c = if vmem (VObj c) rest then Some (x, f) else cont t c) /\
    (forall (p : oid) (h : fid), f_cont (fd m h) = true -> (p, h) <> (x, f) -> (p, h) <> (y, f) ->
       vals t' (p, h) = vals t (p, h)).
Proof.
  intros Nxy rest. induction rest as [|v rest IH]; intros t H Ey Hobj Hchk; cbv zeta.
  - cbn [rounds fold_left]. split; [exact H|]. split; [rewrite app_nil_r; reflexivity|].
    split; [exact Ey|]. split; [intros c; reflexivity | intros; reflexivity].
  - destruct (Hobj v (or_introl eq_refl)) as [c Ev]. subst v.
    assert (Ec : cont t c = Some (y, f)).
    { apply (wf_own m t H). split; [exact Hc|]. rewrite Ey. left. reflexivity. }
    assert (Nin : ~ In (VObj c) (vals t (x, f))).
    { intros Hin. assert (E : cont t c = Some (x, f)) by (apply (wf_own m t H); split; assumption). congruence. }
    cbn [rounds fold_left]. fold (round m f t x c). fold (rounds x rest (round m f t x c)).
    destruct (round_fields m W f Hc Hm t x c H) as [R1 [R2 R3]].
    assert (H1 : WF m (round m f t x c)).
    { apply (WF_extend_step m W); try assumption. apply Hchk. left. reflexivity. }
    assert (E1 : vals (round m f t x c) (y, f) = rest).
    { rewrite R2 by (try exact Hc; intros E; inversion E; congruence).
      rewrite (ucV_source t x y c Ec (fun E => Nxy (eq_sym E))), Ey. apply raw_remove_head. }
    destruct (IH (round m f t x c) H1 E1 (fun v Hv => Hobj v (or_intror Hv)) (fun v Hv => Hchk v (or_intror Hv)))
      as [A1 [A2 [A3 [A4 A5]]]].
    split; [exact A1|]. split; [|split; [exact A3|split]].
    + rewrite A2, R1. unfold raw_append. apply vmem_obj_false in Nin. rewrite Nin. cbn [andb].
      rewrite <- app_assoc. reflexivity.
    + intros c'. rewrite A4, R3. cbn [vmem memb]. fold (vmem (VObj c') rest).
      assert (Ev : veqb (VObj c) (VObj c') = (c =? c')) by reflexivity.
      rewrite Ev. destruct (c =? c'); cbn [orb]; [destruct (vmem (VObj c') rest); reflexivity | reflexivity].
    + intros p h Hh N1 N2. rewrite (A5 p h Hh N1 N2), (R2 p h Hh N1). apply (ucV_elsewhere t x y c p h Ec Hh N2).
Qed.
End Fold.

Section Self.
Variable m : mm.
Hypothesis W : wf_mm m.
Variable f : fid.
Hypothesis Hc : f_cont (fd m f) = true.
Hypothesis Hm : f_many (fd m f) = true.
Hypothesis Hu : f_unique (fd m f) = true.

(* re-adding children the receiver already holds changes no containment slot and no container pointer *)
Lemma rounds_self (x : oid) : forall (l : list value) (t : state),
  WF m t ->
  (forall v, In v l -> (exists c : oid, v = VObj c) /\ In v (vals t (x, f))) ->
  (forall v, In v l -> check_elem m f v = true) ->
  let t' := rounds m f x l t in
  WF m t' /\
  (forall c : oid, cont t' c = cont t c) /\
  (forall (p : oid) (h : fid), f_cont (fd m h) = true -> vals t' (p, h) = vals t (p, h)).
Proof.
  induction l as [|v l IH]; intros t H Hin Hchk; cbv zeta.
  - cbn [rounds fold_left]. split; [exact H|]. split; intros; reflexivity.
  - destruct (Hin v (or_introl eq_refl)) as [[c Ev] Hv]. subst v.
    assert (Ec : cont t c = Some (x, f)) by (apply (wf_own m t H); split; assumption).
    cbn [rounds fold_left]. fold (round m f t x c). fold (rounds m f x l (round m f t x c)).
    destruct (round_fields m W f Hc Hm t x c H) as [R1 [R2 R3]].
    assert (H1 : WF m (round m f t x c)).
    { apply (WF_extend_step m W); try assumption. apply Hchk. left. reflexivity. }
    assert (S1 : vals (round m f t x c) (x, f) = vals t (x, f)).
    { rewrite R1. unfold raw_append. apply vmem_obj in Hv. rewrite Hv. reflexivity. }
    assert (S2 : forall p h, f_cont (fd m h) = true -> vals (round m f t x c) (p, h) = vals t (p, h)).
    { intros p h Hh. destruct (cell_eqb_spec (p, h) (x, f)) as [E|N]; [rewrite E; exact S1|].
      rewrite (R2 p h Hh N). exact (ucV_elsewhere m W f Hc t x x c p h Ec Hh N). }
    destruct (IH (round m f t x c) H1) as [A1 [A2 A3]].
    + intros v Hvl. destruct (Hin v (or_intror Hvl)) as [B1 B2]. split; [exact B1 | rewrite S1; exact B2].
    + intros v Hvl. apply Hchk. right. exact Hvl.
    + split; [exact A1|]. split.
      * intros c'. rewrite A2, R3. destruct (Nat.eqb_spec c c') as [E|_]; [subst c'; symmetry; exact Ec | reflexivity].
      * intros p h Hh. rewrite (A3 p h Hh). apply S2. exact Hh.
Qed.
End Self.

(* ---------- the operation ---------- *)
Section Op.
Variable m : mm.
Hypothesis W : wf_mm m.
Variable f : fid.
Hypothesis Hc : f_cont (fd m f) = true.
Hypothesis Hm : f_many (fd m f) = true.
Hypothesis Hu : f_unique (fd m f) = true.

Lemma extend_is_rounds s (x : oid) vs :
  forallb (check_elem m f) vs = true ->
  (forall k, vals (next m s (OExtend x f vs)) k = vals (rounds m f x vs s) k) /\
  (forall c, cont (next m s (OExtend x f vs)) c = cont (rounds m f x vs s) c) /\
  (WF m (rounds m f x vs s) -> WF m (next m s (OExtend x f vs))).
Proof.
  intros Hk. unfold next, step. cbn [fst snd]. unfold coll_extend_full. rewrite Hk, Hu. cbn [negb snd].
  split; [intros k; reflexivity|]. split; [intros c; reflexivity|].
  apply WF_ext; intros; reflexivity.
Qed.

(* (T1) x.f.extend(y.f) for x <> y: the children of y move to the end of x's list *)
Theorem bulk_move s (x y : oid) :
  WF m s -> x <> y ->
  (forall v, In v (vals s (y, f)) -> exists c : oid, v = VObj c) ->
  forallb (check_elem m f) (vals s (y, f)) = true ->
  let s' := next m s (OExtend x f (vals s (y, f))) in
  WF m s' /\
  vals s' (x, f) = vals s (x, f) ++ vals s (y, f) /\
  vals s' (y, f) = [] /\
  (forall c : oid, In (VObj c) (vals s (y, f)) -> cont s' c = Some (x, f)) /\
  (forall c : oid, ~ In (VObj c) (vals s (y, f)) -> cont s' c = cont s c) /\
  (forall (p : oid) (h : fid), f_cont (fd m h) = true -> (p, h) <> (x, f) -> (p, h) <> (y, f) ->
     vals s' (p, h) = vals s (p, h)).
Proof.
  intros H Nxy Hobj Hk. cbv zeta.
  destruct (extend_is_rounds s x (vals s (y, f)) Hk) as [EV [EC EW]].
  assert (Hk' : forall v, In v (vals s (y, f)) -> check_elem m f v = true).
  { intros v Hv. rewrite forallb_forall in Hk. apply Hk. exact Hv. }
  destruct (rounds_move m W f Hc Hm Hu x y Nxy (vals s (y, f)) s H eq_refl Hobj Hk') as [A1 [A2 [A3 [A4 A5]]]].
  split; [apply EW; exact A1|]. split; [rewrite EV; exact A2|]. split; [rewrite EV; exact A3|].
  split; [|split].
  - intros c Hin. rewrite EC, A4. apply vmem_obj in Hin. rewrite Hin. reflexivity.
  - intros c Hn. rewrite EC, A4. apply vmem_obj_false in Hn. rewrite Hn. reflexivity.
  - intros p h Hh N1 N2. rewrite EV. apply A5; assumption.
Qed.

(* (T2) the aliasing case x.f.extend(x.f): nothing moves *)
Theorem bulk_self s (x : oid) :
  WF m s ->
  (forall v, In v (vals s (x, f)) -> exists c : oid, v = VObj c) ->
  forallb (check_elem m f) (vals s (x, f)) = true ->
  let s' := next m s (OExtend x f (vals s (x, f))) in
  WF m s' /\ vals s' (x, f) = vals s (x, f) /\
  (forall c : oid, cont s' c = cont s c) /\
  (forall (p : oid) (h : fid), f_cont (fd m h) = true -> vals s' (p, h) = vals s (p, h)).
Proof.
  intros H Hobj Hk. cbv zeta.
  destruct (extend_is_rounds s x (vals s (x, f)) Hk) as [EV [EC EW]].
  assert (Hk' : forall v, In v (vals s (x, f)) -> check_elem m f v = true).
  { intros v Hv. rewrite forallb_forall in Hk. apply Hk. exact Hv. }
  destruct (rounds_self m W f Hc Hm Hu x (vals s (x, f)) s H (fun v Hv => conj (Hobj v Hv) Hv) Hk') as [A1 [A2 A3]].
  split; [apply EW; exact A1|]. split; [rewrite EV; apply A3; exact Hc|].
  split; [intros c; rewrite EC; apply A2 | intros p h Hh; rewrite EV; apply A3; exact Hh].
Qed.
End Op.

Print Assumptions bulk_move.
Print Assumptions bulk_self.

(* ---------- (T3) two A's holding 2 and 1 children ---------- *)
(* class 0 "A": kids (0, containment to B, unique many, opposite parent); class 1 "B": parent (1) *)
Definition ex_mm_bulk : mm :=
  {| feats := [ {| f_owner := 0; f_isref := true; f_many := true; f_unique := true; f_cont := true;
                   f_opp := Some 1; f_type := TClass 1; f_default := VNone |};
                {| f_owner := 1; f_isref := true; f_many := false; f_unique := true; f_cont := false;
                   f_opp := Some 0; f_type := TClass 0; f_default := VNone |} ];
     conf := [(0, 0); (1, 1)]; ocls := [0; 0; 1; 1; 1]; enames := []; nres := 1 |}.

Definition ex_bulk_ops : list op := [OAppend 0 0 (VObj 2); OAppend 0 0 (VObj 3); OAppend 1 0 (VObj 4)].

Ltac bcase f := destruct f as [|[|f]]; [| |destruct f]; cbn.

Lemma ex_mm_bulk_wf : wf_mm ex_mm_bulk /\ ref_defaults_none ex_mm_bulk.
Proof.
  split; [constructor|].
  - intros f g. bcase f; intros H; inversion H; reflexivity.
  - intros f g. bcase f; intros H; try reflexivity; discriminate.
  - intros f. bcase f; intros H; try reflexivity; discriminate.
  - intros f. bcase f; intros H _; try reflexivity; discriminate.
  - intros f g. bcase f; intros H H2; try discriminate; inversion H; subst g; split; reflexivity.
  - intros f. bcase f; intros H H2; try reflexivity; discriminate.
Qed.

Example bulk_move_witness :
  let m := ex_mm_bulk in
  let s := fold_left (next m) ex_bulk_ops (init_state m) in
  let s' := next m s (OExtend 1 0 (vals s (0, 0))) in
  let s'' := next m s (OExtend 0 0 (vals s (0, 0))) in
  WF m s /\
  (vals s (0, 0), vals s (1, 0), map (cont s) [2; 3; 4]) =
    ([VObj 2; VObj 3], [VObj 4], [Some (0, 0); Some (0, 0); Some (1, 0)]) /\
  (* by the theorem *)
  (WF m s' /\ vals s' (1, 0) = vals s (1, 0) ++ vals s (0, 0) /\ vals s' (0, 0) = []) /\
  (* by computation: b.kids += a.kids *)
  (vals s' (0, 0), vals s' (1, 0), map (cont s') [2; 3; 4], map (fun c => vals s' (c, 1)) [2; 3; 4]) =
    ([], [VObj 4; VObj 2; VObj 3], [Some (1, 0); Some (1, 0); Some (1, 0)], [[VObj 1]; [VObj 1]; [VObj 1]]) /\
  (* a.kids += a.kids *)
  (vals s'' (0, 0), vals s'' (1, 0), map (cont s'') [2; 3; 4]) =
    ([VObj 2; VObj 3], [VObj 4], [Some (0, 0); Some (0, 0); Some (1, 0)]).
Proof.
  cbv zeta. destruct ex_mm_bulk_wf as [W D].
  assert (H : WF ex_mm_bulk (fold_left (next ex_mm_bulk) ex_bulk_ops (init_state ex_mm_bulk))).
  { apply (WF_history ex_mm_bulk W D). repeat constructor. }
  split; [exact H|]. split; [vm_compute; reflexivity|]. split.
  - destruct (bulk_move ex_mm_bulk W 0 eq_refl eq_refl eq_refl _ 1 0 H) as [A [B [C _]]].
    + discriminate.
    + vm_compute. intros v [E|[E|[]]]; subst v; eexists; reflexivity.
    + vm_compute. reflexivity.
    + split; [exact A | split; [exact B | exact C]].
  - split; vm_compute; reflexivity.
Qed.
