(* C15, the multi-valued half, on the kernel model (Model/Kernel.v): a multi-valued attribute that was never
   written reads as the empty collection and is not set; reads are free; del restores the empty collection; every
   write through one object's collection (also the empty ones: c.extend([]), x.f = []) changes that object's
   slot only, and the empty writes mark the feature as set while leaving it empty. *)
From Coq Require Import ZArith List Bool Arith Lia.
From PyecoreV Require Import Lib.PyBase Lib.PyList Model.Kernel Proofs.PyListFacts Proofs.KernelFacts Proofs.C05Proofs.
Import ListNotations.
Local Open Scope nat_scope.

Lemma many_never_written m x f :
  f_many (fd m f) = true -> vals (init_state m) (x, f) = [] /\ isset (init_state m) (x, f) = false.
Proof. intros H. cbn. rewrite H. split; reflexivity. Qed.

Lemma read_is_free m s x f : next m s (ORead x f) = s /\ fst (step m s (ORead x f)) = (None, s).
Proof. split; reflexivity. Qed.

Section Attr.
Variable m : mm.
Variable f : fid.
Hypothesis Hattr : f_isref (fd m f) = false.
Hypothesis Hmany : f_many (fd m f) = true.

Lemma clear_slot s x :
  vals (coll_clear_full m s (x, f)) (x, f) = [] /\
  (forall k, k <> (x, f) -> vals (coll_clear_full m s (x, f)) k = vals s k) /\
  (forall k, isset (coll_clear_full m s (x, f)) k = isset s k).
Proof.
  pose proof (attr_clear m f Hattr s x) as H. cbv zeta in H.
  unfold coll_clear_full in *. destruct (vals s (x, f)) as [|a l] eqn:El.
  - split; [exact El|]. split; intros; reflexivity.
  - rewrite (fold_unlink_attr m f Hattr). cbn [vals isset notify push_log set_vals].
    split; [apply upd_same|]. split; [intros k Hk; apply upd_other; congruence | intros; reflexivity].
Qed.

Lemma del_restores_empty s x :
  fst (fst (step m s (ODel x f))) = None /\
  vals (next m s (ODel x f)) (x, f) = [] /\
  (forall k, k <> (x, f) -> vals (next m s (ODel x f)) k = vals s k).
Proof.
  unfold next, step, del_full. cbn [snd]. rewrite Hmany. cbn [fst snd].
  destruct (clear_slot s x) as [H1 [H2 _]]. split; [reflexivity|]. split; assumption.
Qed.

Lemma extend_private s x vs :
  forall k, k <> (x, f) -> vals (snd (coll_extend_full m s (x, f) vs)) k = vals s k.
Proof.
  intros k Hk. destruct (forallb (check_elem m f) vs) eqn:Hc.
  - destruct (attr_extend m f Hattr s x vs Hc) as [_ [H _]]. exact (H k Hk).
  - unfold coll_extend_full. rewrite Hc. reflexivity.
Qed.

Lemma empty_extend_marks_set s x :
  let s' := next m s (OExtend x f []) in
  vals s' (x, f) = vals s (x, f) /\ isset s' (x, f) = true /\ fst (fst (step m s (OExtend x f []))) = None.
Proof.
  unfold next, step, coll_extend_full. cbn [forallb negb fst snd fold_left].
  destruct (f_unique (fd m f)); cbn [vals isset set_isset notify push_log set_vals].
  - split; [reflexivity|]. split; [apply upd_same|reflexivity].
  - rewrite app_nil_r. split; [apply upd_same|]. split; [apply upd_same|reflexivity].
Qed.

Lemma empty_assign_marks_set s x :
  let s' := next m s (OAssign x f []) in
  vals s' (x, f) = [] /\ isset s' (x, f) = true /\
  (forall k, k <> (x, f) -> vals s' k = vals s k).
Proof.
  unfold next, step. rewrite Hmany. unfold assign_full. cbn [forallb negb fst snd].
  destruct (clear_slot s x) as [H1 [H2 H3]].
  set (s1 := coll_clear_full m s (x, f)) in *.
  unfold coll_extend_full. cbn [forallb negb fst snd fold_left].
  destruct (f_unique (fd m f)); cbn [vals isset set_isset notify push_log set_vals].
  - split; [exact H1|]. split; [apply upd_same|exact H2].
  - rewrite app_nil_r. split; [rewrite upd_same; exact H1|]. split; [apply upd_same|].
    intros k Hk. rewrite upd_other by congruence. exact (H2 k Hk).
Qed.

Lemma assign_private s x vs :
  forall k, k <> (x, f) -> vals (next m s (OAssign x f vs)) k = vals s k.
Proof.
  intros k Hk. unfold next, step. rewrite Hmany. unfold assign_full. cbn [fst snd].
  destruct (forallb (check_elem m f) vs) eqn:Hc; cbn [negb fst snd]; [|reflexivity].
  rewrite (extend_private _ x vs k Hk). destruct (clear_slot s x) as [_ [H2 _]]. exact (H2 k Hk).
Qed.

Lemma add_private s x pos v :
  forall k, k <> (x, f) -> vals (snd (coll_add_full m s (x, f) pos v)) k = vals s k.
Proof.
  intros k Hk. destruct (check_elem m f v) eqn:Hc.
  - destruct (attr_add m f Hattr s x pos v Hc) as [H _]. cbv zeta in H. rewrite H. apply upd_other. congruence.
  - unfold coll_add_full. rewrite Hc. reflexivity.
Qed.

Lemma remove_private s x v :
  forall k, k <> (x, f) -> vals (snd (coll_remove_top m s (x, f) v)) k = vals s k.
Proof.
  intros k Hk. destruct (vmem v (vals s (x, f))) eqn:Hm.
  - destruct (attr_remove m f Hattr s x v Hm) as [H _]. cbv zeta in H. rewrite H. apply upd_other. congruence.
  - unfold coll_remove_top. rewrite Hm. reflexivity.
Qed.

(* every collection call on x.f leaves every other slot (other objects, other features) as it was *)
Theorem many_attr_calls_private s x k :
  k <> (x, f) ->
  (forall v, vals (next m s (OAppend x f v)) k = vals s k) /\
  (forall i v, vals (next m s (OInsert x f i v)) k = vals s k) /\
  (forall v, vals (next m s (ORemove x f v)) k = vals s k) /\
  (forall vs, vals (next m s (OExtend x f vs)) k = vals s k) /\
  (forall vs, vals (next m s (OAssign x f vs)) k = vals s k) /\
  vals (next m s (OClear x f)) k = vals s k /\
  vals (next m s (ODel x f)) k = vals s k.
Proof.
  intros Hk. unfold next, step. cbn [fst snd].
  split; [intros v; apply add_private; exact Hk|].
  split; [intros i v; apply add_private; exact Hk|].
  split; [intros v; apply remove_private; exact Hk|].
  split; [intros vs; apply extend_private; exact Hk|].
  split; [intros vs; apply (assign_private s x vs k Hk)|].
  destruct (clear_slot s x) as [_ [H2 _]].
  split; [exact (H2 k Hk)|].
  destruct (del_restores_empty s x) as [_ [_ H]]. exact (H k Hk).
Qed.

End Attr.
