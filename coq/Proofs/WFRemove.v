(* WF is preserved by the removal units: ECollection.remove and EValue._set(None)
   (with their opposite and container updates), for every multiplicity, with or
   without containment. *)
From Coq Require Import ZArith List Bool Arith Lia.
From PyecoreV Require Import Lib.PyBase Lib.PyList Model.Kernel Proofs.PyListFacts Proofs.KernelFacts
     Proofs.C01Proofs Proofs.C02Proofs Proofs.WFBase.
Import ListNotations.
Open Scope nat_scope.

(* component-level ownership predicate *)
Definition own_okc (m : mm) (V : cell -> list value) (C : oid -> option cell) : Prop :=
  forall c p f, C c = Some (p, f) <-> (f_cont (fd m f) = true /\ In (VObj c) (V (p, f))).

Lemma own_ok_c m s : own_ok m s <-> own_okc m (vals s) (cont s).
Proof. reflexivity. Qed.

(* nothing about containment changed *)
Lemma own_okc_frame m V C V' C' :
  own_okc m V C -> (forall p f, f_cont (fd m f) = true -> V' (p, f) = V (p, f)) -> (forall c, C' c = C c) ->
  own_okc m V' C'.
Proof.
  intros H HV HC c p f. rewrite HC. rewrite (H c p f). split; intros [Hc Hin]; (split; [exact Hc|]).
  - rewrite HV by exact Hc. exact Hin.
  - rewrite <- HV by exact Hc. exact Hin.
Qed.

(* child y leaves the containment slot (x, f) and loses its container *)
Lemma own_okc_detach m V C V' C' x f y :
  own_okc m V C -> f_cont (fd m f) = true -> In (VObj y) (V (x, f)) ->
  (forall b, In (VObj b) (V' (x, f)) <-> In (VObj b) (V (x, f)) /\ b <> y) ->
  (forall p h, f_cont (fd m h) = true -> (p, h) <> (x, f) -> V' (p, h) = V (p, h)) ->
  (forall c, C' c = if y =? c then None else C c) ->
  own_okc m V' C'.
Proof.
  intros H Hc Hin Hrm Hother HC c p h. rewrite HC.
  assert (Hy : C y = Some (x, f)) by (apply H; split; assumption).
  destruct (Nat.eqb_spec y c) as [E|N].
  - subst c. split; [discriminate|]. intros [Hch Hy'].
    destruct (cell_eqb_spec (p, h) (x, f)) as [E|N].
    + inversion E; subst. apply Hrm in Hy'. destruct Hy' as [_ Hy']. congruence.
    + rewrite (Hother p h Hch N) in Hy'.
      assert (C y = Some (p, h)) by (apply H; split; assumption). congruence.
  - rewrite (H c p h). split; intros [Hch Hc']; (split; [exact Hch|]).
    + destruct (cell_eqb_spec (p, h) (x, f)) as [E|N'].
      * inversion E; subst. apply Hrm. split; [exact Hc' | congruence].
      * rewrite (Hother p h Hch N'). exact Hc'.
    + destruct (cell_eqb_spec (p, h) (x, f)) as [E|N'].
      * inversion E; subst. apply Hrm in Hc'. tauto.
      * rewrite <- (Hother p h Hch N'). exact Hc'.
Qed.

Lemma In_raw_remove_local (w v : value) l : In v (raw_remove w l) -> In v l.
Proof.
  unfold raw_remove. destruct (remove_first veqb w l) as [l'|] eqn:E; [|tauto].
  revert l' E. induction l as [|y ys IH]; simpl; intros l' E; [discriminate|].
  destruct (veqb y w).
  - inversion E; subst. tauto.
  - destruct (remove_first veqb w ys) as [r|]; [|discriminate]. inversion E; subst.
    simpl. intros [H|H]; [tauto | right; eapply IH; eauto].
Qed.

Section RemoveUnits.
Variable m : mm.
Hypothesis W : wf_mm m.

Lemma cont_coll_remove_full s x f y :
  f_many (fd m f) = true -> f_isref (fd m f) = true ->
  cont (coll_remove_full m s (x, f) (VObj y)) = if f_cont (fd m f) then updn (cont s) y None else cont s.
Proof.
  intros Hm Hr. unfold coll_remove_full. rewrite Hr. cbn [obj_of]. cbn [cont notify push_log set_vals].
  destruct (uc_clear_fields m s f (Some y)) as [_ [_ [_ D]]]. unfold cont_clear in D.
  unfold update_opposite_remove. destruct (f_opp (fd m f)) as [g|] eqn:Eg.
  - pose proof (many_opp_not_cont m f g W Eg Hm) as Hgc.
    destruct (f_many (fd m g)).
    + destruct (cell_eqb (y, g) (x, f)); [exact D|].
      destruct (coll_remove_raw_fields m (uc_clear m s f (Some y)) (y, g) x) as [_ [B _]]. rewrite B. cbn [snd].
      rewrite Hgc. destruct (vmem (VObj x) (vals (uc_clear m s f (Some y)) (y, g))); exact D.
    + pose proof (wf_opp_inv m W f g Eg) as Hgf. pose proof (wf_opp_ref m W g f Hgf) as Hgr.
      destruct (set_none_raw_fields m (uc_clear m s f (Some y)) (y, g) Hgr) as [_ [B _]]. rewrite B. cbn [snd].
      rewrite Hgc. exact D.
  - destruct (cmem (x, f) (inv (uc_clear m s f (Some y)) y)).
    + exact D.
    + unfold inv_add. destruct (cmem (x, f) (inv (uc_clear m s f (Some y)) y)); exact D.
Qed.


(* the value store after x.f.remove(y), whatever is a containment *)
Lemma vals_coll_remove_full s x f g y :
  f_opp (fd m f) = Some g -> f_isref (fd m f) = true ->
  vals (coll_remove_full m s (x, f) (VObj y)) =
    let V1 :=
      if f_many (fd m g) then
        (if cell_eqb (y, g) (x, f) then vals s
         else if vmem (VObj x) (vals s (y, g)) then upd (vals s) (y, g) (raw_remove (VObj x) (vals s (y, g)))
         else vals s)
      else upd (vals s) (y, g) [VNone] in
    upd V1 (x, f) (raw_remove (VObj y) (V1 (x, f))).
Proof.
  intros Hfg Hr. rewrite ev_coll_remove_full.
  rewrite (remove_vals (erase m) (erase_no_containment m) s x f g y).
  - rewrite fd_erase. reflexivity.
  - rewrite fd_erase. exact Hfg.
  - rewrite fd_erase. exact Hr.
Qed.

Lemma vals_coll_remove_full_noopp s x f y :
  f_opp (fd m f) = None -> f_isref (fd m f) = true ->
  vals (coll_remove_full m s (x, f) (VObj y)) = upd (vals s) (x, f) (raw_remove (VObj y) (vals s (x, f))).
Proof.
  intros Hfg Hr. unfold coll_remove_full. rewrite Hr. cbn [obj_of vals notify push_log set_vals].
  unfold update_opposite_remove. rewrite Hfg.
  assert (E : vals (if cmem (x, f) (inv (uc_clear m s f (Some y)) y)
                    then inv_del (uc_clear m s f (Some y)) y (x, f)
                    else inv_add (uc_clear m s f (Some y)) y (x, f)) = vals s).
  { destruct (cmem (x, f) (inv (uc_clear m s f (Some y)) y)); [|rewrite vals_inv_add];
      cbn [vals inv_del set_inv]; apply vals_uc_clear. }
  rewrite E. reflexivity.
Qed.

(* cells of a feature without opposite play no part in symmetry *)
Lemma sym_frame_noopp s s' f :
  sym m s -> f_opp (fd m f) = None ->
  (forall a h, h <> f -> vals s' (a, h) = vals s (a, h)) -> sym m s'.
Proof.
  intros Hs Hf Hv f' g' Hfg' a b.
  assert (N1 : f' <> f) by (intros ->; congruence).
  assert (N2 : g' <> f).
  { intros ->. pose proof (wf_opp_inv m W f' f Hfg') as H. congruence. }
  unfold R. rewrite (Hv a f' N1), (Hv b g' N2). exact (Hs f' g' Hfg' a b).
Qed.

(* the symmetry part, through the containment-free twin metamodel *)
Lemma sym_coll_remove_full s x f g y :
  sym m s -> shape m s -> f_opp (fd m f) = Some g -> f_many (fd m f) = true -> In (VObj y) (vals s (x, f)) ->
  sym m (coll_remove_full m s (x, f) (VObj y)).
Proof.
  intros Hsym Hsh Hfg Hm Hin.
  apply (sym_ext m (coll_remove_full (erase m) s (x, f) (VObj y))).
  - intros k. rewrite ev_coll_remove_full. reflexivity.
  - apply erase_sym.
    apply (remove_preserves_sym (erase m) (erase_no_containment m) (erase_wf_opp m (wf_mm_wf_opp m W)) s x f g y).
    + apply erase_sym; exact Hsym.
    + apply erase_shape; exact Hsh.
    + rewrite fd_erase; exact Hfg.
    + rewrite fd_erase; exact Hm.
    + exact Hin.
Qed.

Lemma raw_remove_single_nodup v l : nodup_objs l -> nodup_objs (raw_remove v l).
Proof.
  unfold nodup_objs, raw_remove. destruct (remove_first veqb v l) as [l'|] eqn:E; [|tauto].
  revert l' E. induction l as [|w ws IH]; simpl; intros l' E ND; [discriminate|].
  destruct (veqb w v).
  - inversion E; subst. destruct w; simpl in ND; try exact ND. inversion ND; assumption.
  - destruct (remove_first veqb v ws) as [r|] eqn:Er; [|discriminate]. inversion E; subst.
    assert (ND' : NoDup (objs_of ws)) by (destruct w; simpl in ND; try exact ND; inversion ND; assumption).
    specialize (IH r eq_refl ND').
    destruct w; simpl; try exact IH. simpl in ND. inversion ND as [|? ? Hn ?]; subst.
    constructor; [|exact IH]. intros Ho. apply Hn. apply objs_of_In. apply objs_of_In in Ho.
    apply (In_raw_remove_local v (VObj o) ws). unfold raw_remove. rewrite Er. exact Ho.
Qed.

Theorem WF_coll_remove_full s x f y :
  WF m s -> f_many (fd m f) = true -> f_isref (fd m f) = true -> In (VObj y) (vals s (x, f)) ->
  WF m (coll_remove_full m s (x, f) (VObj y)).
Proof.
  intros [Hsym Hsh Hown Hres Hroots] Hm Hr Hin.
  set (s' := coll_remove_full m s (x, f) (VObj y)).
  pose proof (cont_coll_remove_full s x f y Hm Hr) as HC. fold s' in HC.
  pose proof (rframe_coll_remove_full m s (x, f) (VObj y)) as Hrf. fold s' in Hrf.
  assert (Hres' : res_ok s') by (apply (res_ok_frame s); assumption).
  assert (Hroots' : roots_free s').
  { intros c r Hc. destruct Hrf as [Hrc _]. rewrite Hrc in Hc. specialize (Hroots c r Hc).
    rewrite HC. destruct (f_cont (fd m f)); [|exact Hroots]. unfold updn. destruct (y =? c); [reflexivity | exact Hroots]. }
  destruct (f_opp (fd m f)) as [g|] eqn:Eg.
  - (* bidirectional *)
    pose proof (wf_opp_inv m W f g Eg) as Hgf.
    pose proof (many_opp_not_cont m f g W Eg Hm) as Hgc.
    pose proof (vals_coll_remove_full s x f g y Eg Hr) as HV. fold s' in HV. cbv zeta in HV.
    assert (Hndx : nodup_objs (vals s (x, f))) by (apply (proj2 (Hsh x f)); left; congruence).
    assert (Hyx : In (VObj x) (vals s (y, g))) by (apply (Hsym f g Eg x y); exact Hin).
    (* what the two touched cells hold afterwards, everything else is unchanged *)
    assert (Hother : forall k, k <> (x, f) -> k <> (y, g) -> vals s' k = vals s k).
    { intros k N1 N2. rewrite HV. rewrite upd_other by (intros E; apply N1; symmetry; exact E).
      destruct (f_many (fd m g)).
      - destruct (cell_eqb (y, g) (x, f)); [reflexivity|].
        destruct (vmem (VObj x) (vals s (y, g))); [|reflexivity]. apply upd_other. intros E; apply N2; symmetry; exact E.
      - apply upd_other. intros E; apply N2; symmetry; exact E. }
    assert (Hx' : forall b, In (VObj b) (vals s' (x, f)) <-> In (VObj b) (vals s (x, f)) /\ b <> y).
    { intros b. rewrite HV, upd_same.
      destruct (raw_remove_obj_In y (vals s (x, f)) Hndx Hin) as [Hrm _].
      destruct (f_many (fd m g)) eqn:Hmg.
      - destruct (cell_eqb_spec (y, g) (x, f)) as [E|N]; [apply Hrm|].
        destruct (vmem (VObj x) (vals s (y, g))); [rewrite upd_other by exact N|]; apply Hrm.
      - assert (N : (y, g) <> (x, f)) by (intros E; inversion E; subst; congruence).
        rewrite upd_other by exact N. apply Hrm. }
    constructor.
    + apply (sym_coll_remove_full s x f g y); [exact Hsym | apply shape2_shape; exact Hsh | exact Eg | exact Hm | exact Hin].
    + (* shape *)
      intros a h. destruct (cell_eqb_spec (a, h) (x, f)) as [E1|N1].
      * inversion E1; subst a h. split; [intros Hs; congruence|]. intros _.
        rewrite HV, upd_same. apply raw_remove_single_nodup.
        destruct (f_many (fd m g)) eqn:Hmg.
        -- destruct (cell_eqb_spec (y, g) (x, f)) as [E|N]; [exact Hndx|].
           destruct (vmem (VObj x) (vals s (y, g))); [rewrite upd_other by exact N|]; exact Hndx.
        -- assert (N : (y, g) <> (x, f)) by (intros E; inversion E; subst; congruence).
           rewrite upd_other by exact N. exact Hndx.
      * destruct (cell_eqb_spec (a, h) (y, g)) as [E2|N2].
        -- inversion E2; subst a h. rewrite HV. rewrite upd_other by (intros E; apply N1; symmetry; exact E).
           destruct (f_many (fd m g)) eqn:Hmg.
           ++ split; [intros Hs; congruence|]. intros _.
              assert (Hndy : nodup_objs (vals s (y, g))) by (apply (proj2 (Hsh y g)); left; congruence).
              destruct (cell_eqb (y, g) (x, f)); [exact Hndy|].
              destruct (vmem (VObj x) (vals s (y, g))); [rewrite upd_same; apply raw_remove_single_nodup|]; exact Hndy.
           ++ rewrite upd_same. split; [intros _; eexists; reflexivity|]. intros _. unfold nodup_objs. simpl. constructor.
        -- rewrite (Hother (a, h) N1 N2). exact (Hsh a h).
    + (* ownership *)
      apply own_ok_c. destruct (f_cont (fd m f)) eqn:Ec.
      * apply (own_okc_detach m (vals s) (cont s) (vals s') (cont s') x f y Hown Ec Hin Hx').
        -- intros p h Hch Np. apply Hother; [exact Np|]. intros E; inversion E; subst. congruence.
        -- intros c. rewrite HC. reflexivity.
      * apply (own_okc_frame m (vals s) (cont s)); [exact Hown | |intros c; rewrite HC; reflexivity].
        intros p h Hch. apply Hother; intros E; inversion E; subst; congruence.
    + exact Hres'.
    + exact Hroots'.
  - (* no opposite: only the slot itself changes *)
    pose proof (vals_coll_remove_full_noopp s x f y Eg Hr) as HV. fold s' in HV.
    assert (Hother : forall k, k <> (x, f) -> vals s' k = vals s k).
    { intros k N. rewrite HV. apply upd_other. intros E; apply N; symmetry; exact E. }
    constructor.
    + apply (sym_frame_noopp s s' f Hsym Eg). intros a h Nh. apply Hother. intros E; inversion E; congruence.
    + intros a h. destruct (cell_eqb_spec (a, h) (x, f)) as [E1|N1].
      * inversion E1; subst a h. split; [intros Hs; congruence|]. intros Hoc.
        rewrite HV, upd_same. apply raw_remove_single_nodup. apply (proj2 (Hsh x f)). exact Hoc.
      * rewrite (Hother (a, h) N1). exact (Hsh a h).
    + apply own_ok_c. destruct (f_cont (fd m f)) eqn:Ec.
      * assert (Hndx : nodup_objs (vals s (x, f))) by (apply (proj2 (Hsh x f)); right; exact Ec).
        destruct (raw_remove_obj_In y (vals s (x, f)) Hndx Hin) as [Hrm _].
        apply (own_okc_detach m (vals s) (cont s) (vals s') (cont s') x f y Hown Ec Hin).
        -- intros b. rewrite HV, upd_same. apply Hrm.
        -- intros p h Hch Np. apply Hother. exact Np.
        -- intros c. rewrite HC. reflexivity.
      * apply (own_okc_frame m (vals s) (cont s)); [exact Hown | |intros c; rewrite HC; reflexivity].
        intros p h Hch. apply Hother. intros E; inversion E; subst; congruence.
    + exact Hres'.
    + exact Hroots'.
Qed.

End RemoveUnits.

(* x.f = None through the public path is the unset procedure used for re-parenting *)
Lemma set_full_none_is_set_none_full m s k :
  snd (set_full m s k VNone) = set_none_full m s k.
Proof.
  destruct k as [x f]. unfold set_full, set_none_full. cbn [check_single conforms negb obj_of].
  destruct (f_isref (fd m f)); cbn [negb snd]; [|reflexivity].
  unfold update_container, uc_clear.
  destruct (f_cont (fd m f)); cbn [negb].
  - destruct (f_opp (fd m f)) as [g|]; cbn [snd].
    + destruct (obj_of (single s (x, f))) as [q|]; [|reflexivity].
      destruct (f_many (fd m g)); [reflexivity|]. destruct (cell_eqb (q, g) (x, f)); reflexivity.
    + destruct (obj_of (single s (x, f))); reflexivity.
  - destruct (f_opp (fd m f)) as [g|]; cbn [snd].
    + destruct (obj_of (single s (x, f))) as [q|]; [|reflexivity].
      destruct (f_many (fd m g)); [reflexivity|]. destruct (cell_eqb (q, g) (x, f)); reflexivity.
    + destruct (obj_of (single s (x, f))); reflexivity.
Qed.

Section UnsetUnit.
Variable m : mm.
Hypothesis W : wf_mm m.

Lemma vals_set_none_full s x f g :
  shape m s -> f_opp (fd m f) = Some g -> f_many (fd m f) = false ->
  vals (set_none_full m s (x, f)) =
    let V1 := upd (vals s) (x, f) [VNone] in
    match obj_of (single s (x, f)) with
    | Some q =>
      if f_many (fd m g) then
        (if vmem (VObj x) (V1 (q, g)) then upd V1 (q, g) (raw_remove (VObj x) (V1 (q, g))) else V1)
      else if cell_eqb (q, g) (x, f) then V1 else upd V1 (q, g) [VNone]
    | None => V1
    end.
Proof.
  intros Hsh Hfg Hs. rewrite ev_set_none_full. rewrite <- set_full_none_is_set_none_full.
  rewrite (unset_vals (erase m) (erase_no_containment m) (erase_wf_opp m (wf_mm_wf_opp m W)) s x f g).
  - rewrite fd_erase. reflexivity.
  - apply erase_shape. exact Hsh.
  - rewrite fd_erase. exact Hfg.
  - rewrite fd_erase. exact Hs.
Qed.

Lemma vals_set_none_full_noopp s x f :
  f_opp (fd m f) = None ->
  vals (set_none_full m s (x, f)) = upd (vals s) (x, f) [VNone].
Proof.
  intros Hfg. unfold set_none_full. destruct (f_isref (fd m f)); cbn [negb]; [|reflexivity].
  rewrite Hfg. destruct (obj_of (single s (x, f))); cbn [vals inv_del set_inv]; rewrite vals_uc_clear; reflexivity.
Qed.

(* the container back-pointers after x.f = None *)
Lemma cont_set_none_full s x f :
  f_many (fd m f) = false -> f_isref (fd m f) = true ->
  cont (set_none_full m s (x, f)) =
    let c1 := if f_cont (fd m f) then cont_clear (cont s) (obj_of (single s (x, f))) else cont s in
    match f_opp (fd m f), obj_of (single s (x, f)) with
    | Some g, Some q =>
      if f_many (fd m g) then
        (if vmem (VObj x) (upd (vals s) (x, f) [VNone] (q, g)) && f_cont (fd m g) then updn c1 x None else c1)
      else if cell_eqb (q, g) (x, f) then c1
      else if f_cont (fd m g) then cont_clear c1 (obj_of (hdv (upd (vals s) (x, f) [VNone] (q, g)))) else c1
    | _, _ => c1
    end.
Proof.
  intros Hs Hr. unfold set_none_full. rewrite Hr. cbn [negb].
  set (s1 := set_store m s (x, f) VNone).
  destruct (uc_clear_fields m s1 f (obj_of (single s (x, f)))) as [A [_ [_ D]]].
  change (cont s1) with (cont s) in D. cbv zeta.
  destruct (f_opp (fd m f)) as [g|] eqn:Eg.
  - destruct (obj_of (single s (x, f))) as [q|] eqn:Eq; [|exact D].
    destruct (f_many (fd m g)) eqn:Hmg.
    + destruct (coll_remove_raw_fields m (uc_clear m s1 f (Some q)) (q, g) x) as [_ [B _]]. rewrite B. cbn [snd].
      rewrite A. change (vals s1) with (upd (vals s) (x, f) [VNone]).
      destruct (vmem (VObj x) (upd (vals s) (x, f) [VNone] (q, g))); cbn [andb]; [|exact D].
      destruct (f_cont (fd m g)); [rewrite D; reflexivity | exact D].
    + destruct (cell_eqb (q, g) (x, f)); [exact D|].
      pose proof (wf_opp_inv m W f g Eg) as Hgf. pose proof (wf_opp_ref m W g f Hgf) as Hgr.
      destruct (set_none_raw_fields m (uc_clear m s1 f (Some q)) (q, g) Hgr) as [_ [B _]]. rewrite B. cbn [snd].
      destruct (f_cont (fd m g)); [|exact D]. rewrite D. unfold single. rewrite A.
      change (vals s1) with (upd (vals s) (x, f) [VNone]). reflexivity.
  - destruct (obj_of (single s (x, f))); exact D.
Qed.

End UnsetUnit.

Lemma own_okc_frame_mem m V C V' C' :
  own_okc m V C ->
  (forall p f b, f_cont (fd m f) = true -> (In (VObj b) (V' (p, f)) <-> In (VObj b) (V (p, f)))) ->
  (forall c, C' c = C c) -> own_okc m V' C'.
Proof.
  intros H HV HC c p f. rewrite HC. rewrite (H c p f). split; intros [Hc Hin]; (split; [exact Hc|]).
  - apply HV; assumption.
  - apply HV in Hin; assumption.
Qed.

Section UnsetWF.
Variable m : mm.
Hypothesis W : wf_mm m.

Lemma sym_set_none_full s x f g :
  sym m s -> shape m s -> f_opp (fd m f) = Some g -> f_many (fd m f) = false ->
  sym m (set_none_full m s (x, f)).
Proof.
  intros Hsym Hsh Hfg Hs.
  apply (sym_ext m (snd (set_full (erase m) s (x, f) VNone))).
  - intros k. rewrite ev_set_none_full, set_full_none_is_set_none_full. reflexivity.
  - apply erase_sym.
    apply (unset_preserves_sym (erase m) (erase_no_containment m) (erase_wf_opp m (wf_mm_wf_opp m W)) s x f g).
    + apply erase_sym; exact Hsym.
    + apply erase_shape; exact Hsh.
    + rewrite fd_erase; exact Hfg.
    + rewrite fd_erase; exact Hs.
Qed.

Theorem WF_set_none_full s x f :
  WF m s -> f_many (fd m f) = false -> f_isref (fd m f) = true ->
  WF m (set_none_full m s (x, f)).
Proof.
  intros [Hsym Hsh Hown Hres Hroots] Hs Hr.
  set (s' := set_none_full m s (x, f)).
  pose proof (cont_set_none_full m W s x f Hs Hr) as HC. fold s' in HC. cbv zeta in HC.
  pose proof (rframe_set_none_full m s (x, f)) as Hrf. fold s' in Hrf.
  assert (Hres' : res_ok s') by (apply (res_ok_frame s); assumption).
  destruct (proj1 (Hsh x f) Hs) as [pv Hpv].
  assert (Hsg : single s (x, f) = pv) by (unfold single; rewrite Hpv; reflexivity).
  rewrite Hsg in HC.
  (* containers only disappear *)
  assert (Hmono : forall c, cont s' c = None \/ cont s' c = cont s c).
  { intros c. rewrite HC.
    assert (G : forall (cn : oid -> option cell) o, cn c = None \/ cn c = cont s c ->
                 cont_clear cn o c = None \/ cont_clear cn o c = cont s c).
    { intros cn o H. unfold cont_clear. destruct o as [z|]; [|exact H]. unfold updn. destruct (z =? c); [left; reflexivity | exact H]. }
    assert (H1 : (if f_cont (fd m f) then cont_clear (cont s) (obj_of pv) else cont s) c = None \/
                 (if f_cont (fd m f) then cont_clear (cont s) (obj_of pv) else cont s) c = cont s c).
    { destruct (f_cont (fd m f)); [apply G|]; right; reflexivity. }
    destruct (f_opp (fd m f)) as [g|]; [|exact H1]. destruct (obj_of pv) as [q|]; [|exact H1].
    destruct (f_many (fd m g)).
    - destruct (vmem (VObj x) (upd (vals s) (x, f) [VNone] (q, g)) && f_cont (fd m g)); [|exact H1].
      unfold updn. destruct (x =? c); [left; reflexivity | exact H1].
    - destruct (cell_eqb (q, g) (x, f)); [exact H1|]. destruct (f_cont (fd m g)); [apply G|]; exact H1. }
  assert (Hroots' : roots_free s').
  { intros c r Hc. destruct Hrf as [Hrc _]. rewrite Hrc in Hc. specialize (Hroots c r Hc).
    destruct (Hmono c) as [H|H]; [exact H | congruence]. }
  destruct (f_opp (fd m f)) as [g|] eqn:Eg.
  2:{ (* no opposite *)
    pose proof (vals_set_none_full_noopp m s x f Eg) as HV. fold s' in HV.
    assert (Hother : forall k, k <> (x, f) -> vals s' k = vals s k).
    { intros k N. rewrite HV. apply upd_other. intros E; apply N; symmetry; exact E. }
    constructor; [| | |exact Hres'|exact Hroots'].
    - apply (sym_frame_noopp m W s s' f Hsym Eg). intros a h Nh. apply Hother. intros E; inversion E; congruence.
    - intros a h. destruct (cell_eqb_spec (a, h) (x, f)) as [E1|N1].
      + inversion E1; subst a h. rewrite HV, upd_same. split; [intros _; eexists; reflexivity|].
        intros _. unfold nodup_objs. simpl. constructor.
      + rewrite (Hother (a, h) N1). exact (Hsh a h).
    - apply own_ok_c. destruct (f_cont (fd m f)) eqn:Ec.
      + destruct (obj_of pv) as [q|] eqn:Eq.
        * apply obj_of_Some' in Eq. subst pv.
          apply (own_okc_detach m (vals s) (cont s) (vals s') (cont s') x f q Hown Ec).
          -- rewrite Hpv. left; reflexivity.
          -- intros b. rewrite HV, upd_same, Hpv. simpl. intuition congruence.
          -- intros p h Hch Np. apply Hother. exact Np.
          -- intros c. rewrite HC. reflexivity.
        * apply (own_okc_frame_mem m (vals s) (cont s)); [exact Hown | |intros c; rewrite HC; reflexivity].
          intros p h b Hch. destruct (cell_eqb_spec (p, h) (x, f)) as [E|N].
          -- inversion E; subst p h. rewrite HV, upd_same, Hpv. simpl.
             split; [intros [H|[]]; discriminate | intros [H|[]]; exfalso; exact (obj_of_None_notin pv b Eq H)].
          -- rewrite (Hother (p, h) N). reflexivity.
      + apply (own_okc_frame m (vals s) (cont s)); [exact Hown | |intros c; rewrite HC; destruct (obj_of pv); reflexivity].
        intros p h Hch. apply Hother. intros E; inversion E; subst; congruence. }
  (* bidirectional *)
  pose proof (wf_opp_inv m W f g Eg) as Hgf.
  pose proof (vals_set_none_full m W s x f g (shape2_shape m s Hsh) Eg Hs) as HV. fold s' in HV. cbv zeta in HV.
  rewrite Hsg in HV.
  assert (Hsym' : sym m s') by (apply (sym_set_none_full s x f g Hsym (shape2_shape m s Hsh) Eg Hs)).
  destruct (obj_of pv) as [q|] eqn:Eq.
  2:{ (* the slot held no object *)
    assert (Hother : forall k, k <> (x, f) -> vals s' k = vals s k).
    { intros k N. rewrite HV. apply upd_other. intros E; apply N; symmetry; exact E. }
    constructor; [exact Hsym'| | |exact Hres'|exact Hroots'].
    - intros a h. destruct (cell_eqb_spec (a, h) (x, f)) as [E1|N1].
      + inversion E1; subst a h. rewrite HV, upd_same. split; [intros _; eexists; reflexivity|].
        intros _. unfold nodup_objs. simpl. constructor.
      + rewrite (Hother (a, h) N1). exact (Hsh a h).
    - apply own_ok_c.
      apply (own_okc_frame_mem m (vals s) (cont s)); [exact Hown | |].
      + intros p h b Hch. destruct (cell_eqb_spec (p, h) (x, f)) as [E|N].
        * inversion E; subst p h. rewrite HV, upd_same, Hpv. simpl.
          split; [intros [H|[]]; discriminate | intros [H|[]]; exfalso; exact (obj_of_None_notin pv b Eq H)].
        * rewrite (Hother (p, h) N). reflexivity.
      + intros c. rewrite HC. destruct (f_cont (fd m f)); reflexivity. }
  apply obj_of_Some' in Eq. subst pv.
  assert (Hqx : In (VObj x) (vals s (q, g))).
  { apply (Hsym f g Eg x q). unfold R. rewrite Hpv. left; reflexivity. }
  assert (Hxq : In (VObj q) (vals s (x, f))) by (rewrite Hpv; left; reflexivity).
  assert (Hfg_ne : f_cont (fd m f) = true \/ f_cont (fd m g) = true -> (q, g) <> (x, f)).
  { intros Hc E. inversion E; subst.
    destruct Hc as [Hc|Hc]; destruct (wf_container_end m W f f Eg Hc) as [_ H]; congruence. }
  (* the two touched cells *)
  assert (Hx' : vals s' (x, f) = [VNone] \/ (q, g) = (x, f)).
  { destruct (cell_eqb_spec (q, g) (x, f)) as [E|N]; [right; exact E | left].
    rewrite HV. destruct (f_many (fd m g)).
    - destruct (vmem (VObj x) (upd (vals s) (x, f) [VNone] (q, g))); [rewrite upd_other by exact N|]; apply upd_same.
    - rewrite upd_other by exact N. apply upd_same. }
  assert (Hother : forall k, k <> (x, f) -> k <> (q, g) -> vals s' k = vals s k).
  { intros k N1 N2. rewrite HV. destruct (f_many (fd m g)).
    - destruct (vmem (VObj x) (upd (vals s) (x, f) [VNone] (q, g)));
        [rewrite upd_other by (intros E; apply N2; symmetry; exact E)|];
        apply upd_other; intros E; apply N1; symmetry; exact E.
    - destruct (cell_eqb (q, g) (x, f)); [|rewrite upd_other by (intros E; apply N2; symmetry; exact E)];
        apply upd_other; intros E; apply N1; symmetry; exact E. }
  assert (Hq' : (q, g) <> (x, f) ->
     forall b, In (VObj b) (vals s' (q, g)) <-> In (VObj b) (vals s (q, g)) /\ b <> x).
  { intros N b. rewrite HV. rewrite (upd_other _ (x, f) (q, g)) by (intros E; apply N; symmetry; exact E).
    destruct (f_many (fd m g)) eqn:Hmg.
    - pose proof Hqx as Hmem. apply vmem_obj in Hmem. rewrite Hmem. rewrite upd_same.
      assert (Hnd : nodup_objs (vals s (q, g))) by (apply (proj2 (Hsh q g)); left; congruence).
      destruct (raw_remove_obj_In x (vals s (q, g)) Hnd Hqx) as [Hrm _]. apply Hrm.
    - destruct (cell_eqb_spec (q, g) (x, f)) as [E|_]; [contradiction|]. rewrite upd_same.
      destruct (proj1 (Hsh q g) Hmg) as [w Hw]. rewrite Hw in *. destruct Hqx as [Hqx|[]]. subst w.
      simpl. intuition congruence. }
  constructor; [exact Hsym'| | |exact Hres'|exact Hroots'].
  - (* shape *)
    intros a h. destruct (cell_eqb_spec (a, h) (x, f)) as [E1|N1].
    + inversion E1; subst a h. split; [|intros _].
      * intros _. rewrite HV. destruct (f_many (fd m g)) eqn:Hmg.
        -- destruct (vmem (VObj x) (upd (vals s) (x, f) [VNone] (q, g))).
           ++ destruct (cell_eqb_spec (q, g) (x, f)) as [E|N]; [inversion E; subst; congruence|].
              rewrite upd_other by exact N. rewrite upd_same. eexists; reflexivity.
           ++ rewrite upd_same. eexists; reflexivity.
        -- destruct (cell_eqb_spec (q, g) (x, f)) as [E|N]; [|rewrite upd_other by exact N];
             rewrite upd_same; eexists; reflexivity.
      * destruct Hx' as [E|E]; [rewrite E; unfold nodup_objs; simpl; constructor|].
        inversion E; subst q g. rewrite HV, Hs. rewrite cell_eqb_refl, upd_same. unfold nodup_objs. simpl. constructor.
    + destruct (cell_eqb_spec (a, h) (q, g)) as [E2|N2].
      * inversion E2; subst a h. rewrite HV. destruct (f_many (fd m g)) eqn:Hmg.
        -- split; [intros Hc; congruence|]. intros _.
           assert (Hnd : nodup_objs (vals s (q, g))) by (apply (proj2 (Hsh q g)); left; congruence).
           rewrite (upd_other _ (x, f) (q, g)) by (intros E; apply N1; symmetry; exact E).
           destruct (vmem (VObj x) (vals s (q, g))); [rewrite upd_same; apply raw_remove_single_nodup|
             rewrite upd_other by (intros E; apply N1; symmetry; exact E)]; exact Hnd.
        -- destruct (cell_eqb_spec (q, g) (x, f)) as [E|N]; [exfalso; apply N1; exact E|].
           rewrite upd_same. split; [intros _; eexists; reflexivity|]. intros _. unfold nodup_objs. simpl. constructor.
      * rewrite (Hother (a, h) N1 N2). exact (Hsh a h).
  - (* ownership *)
    apply own_ok_c.
    destruct (f_cont (fd m f)) eqn:Ecf.
    + (* f is a containment: its child q is detached *)
      destruct (wf_container_end m W f g Eg Ecf) as [Hsg1 Hgc]. rewrite Hsg1, Hgc in HC.
      assert (Nqg : (q, g) <> (x, f)) by (apply Hfg_ne; left; reflexivity).
      destruct (cell_eqb_spec (q, g) (x, f)) as [E|_]; [contradiction|].
      apply (own_okc_detach m (vals s) (cont s) (vals s') (cont s') x f q Hown Ecf Hxq).
      * intros b. destruct Hx' as [E|E]; [|contradiction]. rewrite E, Hpv. simpl. intuition congruence.
      * intros p h Hch Np. apply Hother; [exact Np|]. intros E; inversion E; subst. congruence.
      * intros c. rewrite HC. reflexivity.
    + destruct (f_cont (fd m g)) eqn:Ecg.
      * (* f is the container end: x leaves the containment slot (q, g) *)
        assert (Nqg : (q, g) <> (x, f)) by (apply Hfg_ne; right; reflexivity).
        apply (own_okc_detach m (vals s) (cont s) (vals s') (cont s') q g x Hown Ecg Hqx (Hq' Nqg)).
        -- intros p h Hch Np. apply Hother; [|exact Np]. intros E; inversion E; subst. congruence.
        -- intros c. rewrite HC. destruct (f_many (fd m g)) eqn:Hmg.
           ++ rewrite (upd_other _ (x, f) (q, g)) by (intros E; apply Nqg; symmetry; exact E).
              pose proof Hqx as Hmem. apply vmem_obj in Hmem. rewrite Hmem. reflexivity.
           ++ destruct (cell_eqb_spec (q, g) (x, f)) as [E|_]; [contradiction|].
              rewrite (upd_other _ (x, f) (q, g)) by (intros E; apply Nqg; symmetry; exact E).
              destruct (proj1 (Hsh q g) Hmg) as [w Hw]. rewrite Hw in *. destruct Hqx as [Hqx|[]]. subst w. reflexivity.
      * (* no containment involved *)
        apply (own_okc_frame m (vals s) (cont s)); [exact Hown | |].
        -- intros p h Hch. apply Hother; intros E; inversion E; subst; congruence.
        -- intros c. rewrite HC. destruct (f_many (fd m g)).
           ++ rewrite andb_false_r. reflexivity.
           ++ destruct (cell_eqb (q, g) (x, f)); reflexivity.
Qed.

End UnsetWF.

(* ---------- pop / del c[i] / clear as sequences of removals ---------- *)
Section PopClear.
Variable m : mm.
Hypothesis W : wf_mm m.

Lemma remove_or_unset_WF s k y :
  WF m s -> f_isref (fd m (snd k)) = true -> WF m (remove_or_unset m s k y).
Proof.
  intros H Hr. destruct k as [x f]. unfold remove_or_unset. cbn [snd] in *.
  destruct (f_many (fd m f)) eqn:Hm.
  - destruct (vmem (VObj y) (vals s (x, f))) eqn:E; [|exact H].
    apply WF_coll_remove_full; [exact W | exact H | exact Hm | exact Hr | apply vmem_obj; exact E].
  - apply WF_set_none_full; assumption.
Qed.

Lemma veqb_refl v : veqb v v = true.
Proof.
  destruct v as [|o|z|z|b|e l|h]; unfold veqb; simpl; rewrite ?Nat.eqb_refl, ?Z.eqb_refl; try reflexivity;
    try (destruct b; reflexivity).
Qed.

(* removing by value what sits at a position of a duplicate-free list *)
Lemma remove_first_at (v : value) l n :
  nth_error l n = Some v ->
  (forall i w, (i < n)%nat -> nth_error l i = Some w -> veqb w v = false) ->
  remove_first veqb v l = Some (remove_at n l).
Proof.
  revert n; induction l as [|w ws IH]; intros n Hn Hbefore; [destruct n; discriminate|].
  destruct n as [|n]; simpl in *.
  - inversion Hn; subst. rewrite veqb_refl. reflexivity.
  - rewrite (Hbefore 0 w ltac:(lia) eq_refl).
    rewrite (IH n Hn); [reflexivity|]. intros i w' Hi Hw'. apply (Hbefore (S i) w'); [lia | exact Hw'].
Qed.

End PopClear.
