"""C10 — a metamodel survives a trip through an .ecore file.

Corners:
  oracle (implementation only): generated metamodels (dynamic API) -> save .ecore -> reload in a fresh ResourceSet:
      structural signatures equal; every concrete class of the reloaded package instantiable (abstract ones refuse);
      an instance document saved against the original loads against the reloaded metamodel into the same canonical dump
      as against the original; the shipped corpus tests/xmi/xmi-tests/*.ecore: load -> save -> load, same signature.
      Scenario families with their own PRNG streams (replayed by common.scenario_replay):
      'resave'  : the live metamodel (the built one, or the one loaded from the first file) is refactored by a random
                  history (rename classifier/feature/package, move classifier/package, new sub-package, insert/remove
                  class, add feature typed by a moved class, reorder, add a root package) and saved again through the
                  SAME resource object (own URI / other file / other directory) 3-4 times; every file reloads into the
                  signature of the live metamodel; failing histories and descriptions are shrunk.
      'enumlit' : enumerations whose literals carry `literal` display strings and values different from their names;
                  name/value/literal survive the trip (('EEnumLiteral','literal') is a signature feature), and instance
                  documents holding such literals (single, many, default value literal) saved against the original load
                  against the reloaded metamodel -- and the other way round -- into the model that was saved.
      'nsprefix': packages (sub-packages, further root packages) that declare the SAME nsPrefix with different nsURIs and
                  hold classes of the same name; instances of the further packages' classes in polymorphic containment
                  slots (xsi:type written) and as roots; documents cross-loaded original->reloaded, original->original
                  copy, reloaded->original, every object's class compared by its qualified package path.  Sub-packages
                  may be NAMED LIKE A CLASSIFIER of their parent (legal Ecore), with references into them ('#//X/Y');
                  the namesake classifier itself is never a reference target there (known finding
                  F-C10-namesake-classifier-referenced, re-observed on three fixed witnesses per run).
                  Correspondence: coq/Model/NameFrag.v (run_namefrag: walk of name-based fragments, sub-packages
                  first) against resource.resolve(eURIFragment()) for every package and classifier of these metamodels.
      'extmm'   : the saved metamodel takes super types, attribute/reference/operation/parameter types and exceptions
                  from ANOTHER metamodel that is in no resource and only registered (ResourceSet or global registry;
                  under its nsURI, an alias key, both, or an nsURI changed after registration); reloaded where that
                  metamodel is known the same way: same signature, targets are the very registered objects.
      'idroot'  : instance documents whose ROOT objects carry ids (iD flag through the .ecore file; string and integer
                  ids; declared by the root class or inherited): inner objects refer to their root, roots of a
                  multi-root document to each other and to themselves; cross-loaded three ways against what was saved.
                  Root and inner classes also carry attributes/references NAMED like local names of XMI/XSI syntax
                  (version, type, id, nil, schemaLocation, idref, uuid, xmi, xsi; string/int, single/many, set/unset).
                  Plain stored attributes flagged volatile / unsettable / changeable=False (never transient/derived)
                  keep their values; many-valued string attributes hold values with tabs, line breaks and other
                  white space (no blank, no empty value); classifiers carry instanceTypeName / instanceClassName
                  (EXTRA_VIEWS, keys marked '+', compared in every signature).
      The structural signature also compares, on both sides, the DERIVED value `many` every typed element reports
      (DERIVED_VIEWS, keys marked '~'), next to the stored bounds.
  correspondence (ties coq/Gen/EcoreMM.v, i.e. the translator's reading of pyecore/ecore.py, to the running library):
      (a) every row of the generated table against the live reflection of pyecore.ecore (names, kinds, types, bounds,
          containment, derived/transient, effective eOpposite),
      (b) the model's prediction `not_written` (extracted: run_ecoremm) against the set of signature features the
          oracle observed to be lost by save/reload,
      (c) Model/EcoreTable.v's `signature_features` against the list `signature` below is built from.
  theorems: coq/Props/C10.v.
The signature is *defined by* SIGNATURE_FEATURES: (metaclass, meta-feature) pairs read through eGet."""
import inspect
import json
import os
import random
import re
import shutil
import tempfile
import time

from harness import common

NS_ECORE = 'http://www.eclipse.org/emf/2002/Ecore'

SIGNATURE_FEATURES = [
    ('EPackage', 'name'), ('EPackage', 'nsURI'), ('EPackage', 'nsPrefix'),
    ('EPackage', 'eClassifiers'), ('EPackage', 'eSubpackages'), ('EPackage', 'eAnnotations'),
    ('EClass', 'name'), ('EClass', 'abstract'), ('EClass', 'eSuperTypes'),
    ('EClass', 'eStructuralFeatures'), ('EClass', 'eOperations'), ('EClass', 'eAnnotations'),
    ('EAttribute', 'name'), ('EAttribute', 'eType'), ('EAttribute', 'lowerBound'), ('EAttribute', 'upperBound'),
    ('EAttribute', 'ordered'), ('EAttribute', 'unique'), ('EAttribute', 'iD'), ('EAttribute', 'derived'),
    ('EAttribute', 'transient'), ('EAttribute', 'changeable'), ('EAttribute', 'volatile'),
    ('EAttribute', 'unsettable'), ('EAttribute', 'defaultValueLiteral'), ('EAttribute', 'eAnnotations'),
    ('EReference', 'name'), ('EReference', 'eType'), ('EReference', 'lowerBound'), ('EReference', 'upperBound'),
    ('EReference', 'ordered'), ('EReference', 'unique'), ('EReference', 'containment'), ('EReference', 'derived'),
    ('EReference', 'transient'), ('EReference', 'changeable'), ('EReference', 'volatile'),
    ('EReference', 'unsettable'), ('EReference', 'eOpposite'), ('EReference', 'eAnnotations'),
    ('EEnum', 'name'), ('EEnum', 'eLiterals'), ('EEnum', 'eAnnotations'),
    ('EEnumLiteral', 'name'), ('EEnumLiteral', 'value'), ('EEnumLiteral', 'literal'),
    ('EDataType', 'name'), ('EDataType', 'instanceClassName'), ('EDataType', 'eAnnotations'),
    ('EOperation', 'name'), ('EOperation', 'eType'), ('EOperation', 'lowerBound'), ('EOperation', 'upperBound'),
    ('EOperation', 'ordered'), ('EOperation', 'unique'), ('EOperation', 'eParameters'), ('EOperation', 'eExceptions'),
    ('EParameter', 'name'), ('EParameter', 'eType'), ('EParameter', 'lowerBound'), ('EParameter', 'upperBound'),
    ('EParameter', 'ordered'), ('EParameter', 'unique'), ('EParameter', 'required'),
    ('EAnnotation', 'source'), ('EAnnotation', 'details'),
]
SIG_BY_CLASS = {}
for _c, _n in SIGNATURE_FEATURES:
    SIG_BY_CLASS.setdefault(_c, []).append(_n)

SIG_BY_CLASS['Resource'] = ['roots']      # pseudo node: the root packages of one .ecore resource, by position

PRIMS = ['EString', 'EInt', 'EBoolean', 'EFloat', 'EDouble', 'EInteger', 'ELong', 'EDate', 'EBigDecimal',
         'EJavaObject', 'EChar', 'EIntegerObject', 'EBooleanObject']
INST_PRIMS = {'EString', 'EInt', 'EBoolean', 'EFloat', 'EDouble', 'EInteger', 'ELong'}


def ecore():
    common.use_repo()
    import pyecore.ecore as E
    return E


# --------------------------------------------------------------------------- structural signature

def qname(o):
    """Qualified name of a named element: nsURI of the root package + '#' + names from the root down."""
    if o is None:
        return None
    try:
        o = o.force_resolve()
    except Exception as e:      # dangling proxy (corpus files pointing outside)
        return 'unresolved:' + str(getattr(o, '_proxy_path', '?'))
    names = []
    cur = o
    for _ in range(50):
        if inspect.ismodule(cur):
            break
        c = cur.eContainer()
        if c is None:
            break
        names.append(str(getattr(cur, 'name', '?')))
        cur = c
    root = getattr(cur, 'nsURI', None)
    if id(cur) in _ROOT_IDX:
        root = f'[root {_ROOT_IDX[id(cur)]}]{root}'       # which root package of the resource: a mix-up is visible
    if not names and not inspect.ismodule(cur) and not isinstance(cur, ecore().EPackage):
        return '?dangling:' + str(getattr(cur, 'name', '?'))
    return f'{root}#' + '/'.join(reversed(names))


_META = {}
_ROOT_IDX = {}       # id(root package) -> position in its resource, while signature_all runs


def meta_feature(metaclass, name):
    k = (metaclass, name)
    if k not in _META:
        E = ecore()
        _META[k] = getattr(E, metaclass).eClass.findEStructuralFeature(name)
    return _META[k]


def element_sig(obj):
    """Signature of one metamodel element = its SIGNATURE_FEATURES values; containments recurse."""
    mc = obj.eClass.name
    out = {'metaclass': mc}
    for n in SIG_BY_CLASS.get(mc, []):
        mf = meta_feature(mc, n)
        v = obj.eGet(n)
        if n == 'details':
            out[n] = [[str(k), (None if x is None else str(x))] for k, x in (v or {}).items()]
        elif mf.is_attribute:
            out[n] = list(v) if mf.many else v
            if not isinstance(out[n], (str, int, float, bool, list, type(None))):
                out[n] = str(out[n])
        elif mf.containment:
            vals = list(v) if mf.many else ([v] if v is not None else [])
            out[n] = [element_sig(x) for x in vals]
        else:
            out[n] = [qname(x) for x in v] if mf.many else qname(v)
    for n in EXTRA_VIEWS.get(mc, []):
        out['+' + n] = obj.eGet(n)
    for n in DERIVED_VIEWS.get(mc, []):
        # what the element REPORTS (cached / derived reflective value), next to the stored bounds it is derived from
        try:
            out['~' + n] = bool(getattr(obj, n))
        except Exception as e:
            out['~' + n] = f'raises {type(e).__name__}'
    return out


# derived reflective values compared on both sides in addition to the stored meta-features ('~' marks them; they are
# not part of SIGNATURE_FEATURES, which lists what has to be WRITTEN): a typed element reports `many` from its upper
# bound, whatever the order in which a loader set the bound and attached the element
DERIVED_VIEWS = {'EAttribute': ['many'], 'EReference': ['many'], 'EOperation': ['many'], 'EParameter': ['many']}


# further STORED string meta-attributes of classifiers compared on both sides ('+' marks them; kept out of
# SIGNATURE_FEATURES, the list tied to coq/Model/EcoreTable.v): the Java-side names a metamodel may carry
EXTRA_VIEWS = {'EClass': ['instanceTypeName', 'instanceClassName'], 'EEnum': ['instanceTypeName'],
               'EDataType': ['instanceTypeName']}


def sig_keys(mc):
    return SIG_BY_CLASS.get(mc, []) + ['+' + n for n in EXTRA_VIEWS.get(mc, [])] \
        + ['~' + n for n in DERIVED_VIEWS.get(mc, [])]


def signature(epackage):
    return element_sig(epackage)


def signature_all(roots):
    """Signature of a whole .ecore resource: its root packages by position; every referenced element is qualified by
    the position and nsURI of the root package that owns it."""
    global _ROOT_IDX
    roots = list(roots)
    _ROOT_IDX = {id(r): i for i, r in enumerate(roots)}
    try:
        return {'metaclass': 'Resource', 'roots': [element_sig(r) for r in roots]}
    finally:
        _ROOT_IDX = {}


LABEL = {
    'roots': 'root-packages',
    'eSubpackages': 'subpackage', 'eAnnotations': 'annotation', 'source': 'annotation', 'details': 'annotation',
    'eSuperTypes': 'supertypes', 'eLiterals': 'enum-literal', 'eParameters': 'operation-parameter',
    'eOperations': 'operation', 'eExceptions': 'operation', 'eStructuralFeatures': 'feature',
    'eClassifiers': 'classifier', 'instanceClassName': 'datatype',
}


def label(metaclass, feat, a=None, b=None):
    if metaclass == 'EParameter':
        return 'operation-parameter'
    if metaclass == 'EOperation' and feat not in ('eParameters',):
        return 'operation'
    if metaclass == 'EEnumLiteral':
        return 'enum-literal'
    if metaclass == 'EEnum' and feat == 'eLiterals' and isinstance(a, list) and isinstance(b, list) \
            and sorted(json.dumps(x, sort_keys=True) for x in a) == sorted(json.dumps(x, sort_keys=True) for x in b):
        return 'enum-default'     # same literals, another first (= default) literal
    if metaclass == 'EAnnotation':
        return 'annotation'
    return LABEL.get(feat, feat)


def sig_diff(a, b, acc=None, path=''):
    """All differences between two element signatures: list of (construct label, (metaclass, feature), path, a, b)."""
    acc = [] if acc is None else acc
    mc = a.get('metaclass')
    if mc != b.get('metaclass'):
        acc.append(('metaclass', (mc, 'metaclass'), path, mc, b.get('metaclass')))
        return acc
    for n in sig_keys(mc):
        va, vb = a.get(n), b.get(n)
        if va == vb:
            continue
        is_children = isinstance(va, list) and isinstance(vb, list) and len(va) == len(vb) \
            and all(isinstance(x, dict) for x in va + vb)
        if is_children and label(mc, n, va, vb) != 'enum-default':
            for i, (x, y) in enumerate(zip(va, vb)):
                sig_diff(x, y, acc, f'{path}/{n}.{i}')
        else:
            acc.append((label(mc, n, va, vb), (mc, n), f'{path}/{n}', _short(va), _short(vb)))
    return acc


def _short(v):
    s = json.dumps(v, sort_keys=True, default=str)
    return s if len(s) < 200 else s[:200] + '...'


# --------------------------------------------------------------------------- metamodel descriptions

IDENT = ['alpha', 'beta', 'gamma', 'delta', 'eps', 'zeta', 'eta', 'theta', 'iota', 'kappa', 'lam', 'mu', 'nu', 'xi',
         'omi', 'pi', 'rho', 'sigma', 'tau', 'ups', 'phi', 'chi', 'psi', 'omega']
STRS = ['v', 'some text', 'a<b & "c"', "it's", 'x=1;y=2', 'café 中', 'http://x/y#z', '', '42', 'A  B']


def gen_annotations(rng, p=0.3):
    out = []
    while rng.random() < p and len(out) < 3:
        det = []
        keys = rng.sample(['documentation', 'k', 'key two', 'x.y', 'body', 'n'], rng.randint(0, 3))
        for k in keys:
            det.append([k, rng.choice(STRS)])
        out.append({'source': rng.choice(['http://www.eclipse.org/emf/2002/GenModel', 'src', 'http://a/b c', 'ann'])
                    + str(len(out)), 'details': det})
    return out


def gen_metamodel(rng, size):
    """A JSON-able description of a metamodel over the constructs C10 lists."""
    uid = [0]

    def fresh(prefix):
        uid[0] += 1
        return f'{prefix}{uid[0]}'

    root = {'name': rng.choice(['pk', 'model', 'lib']), 'nsURI': 'http://verif/c10/' + rng.choice(['a', 'b/c', 'x.y']),
            'nsPrefix': rng.choice(['pk', 'm', 'lib']), 'annotations': gen_annotations(rng, 0.25),
            'classifiers': [], 'subpackages': []}
    packages = [('', root)]           # (path, desc)
    nsub = rng.choice([0, 0, 1, 1, 2]) if size > 1 else 0
    for i in range(nsub):
        parent_path, parent = rng.choice(packages)
        nm = f'sub{i}'
        sp = {'name': nm, 'nsURI': parent['nsURI'] + '/' + nm, 'nsPrefix': nm,
              'annotations': gen_annotations(rng, 0.15), 'classifiers': [], 'subpackages': []}
        parent['subpackages'].append(sp)
        packages.append(((parent_path + '/' if parent_path else '') + nm, sp))

    def place(cdesc):
        path, pk = rng.choice(packages) if rng.random() < 0.5 else packages[0]
        pk['classifiers'].append(cdesc)
        return (path + '/' if path else '') + cdesc['name']

    enums, dtypes, classes = [], [], []      # qualified paths
    for _ in range(rng.randint(0, 2)):
        n = rng.randint(1, 4)
        lits = rng.sample(['RED', 'GREEN', 'BLUE', 'NORTH', 'SOUTH', 'ON', 'OFF', 'LOW'], n)
        vals = list(range(n)) if rng.random() < 0.6 else sorted(rng.sample(range(0, 20), n))
        e = {'kind': 'enum', 'name': fresh('En'), 'literals': [[l, v] for l, v in zip(lits, vals)],
             'default': rng.choice(lits) if rng.random() < 0.4 else None, 'annotations': gen_annotations(rng, 0.1)}
        enums.append((place(e), e))
    for _ in range(rng.randint(0, 2)):
        d = {'kind': 'datatype', 'name': fresh('Dt'),
             'instanceClassName': rng.choice(['java.util.Date', 'java.lang.String', 'int', 'com.acme.Money', None,
                                              'java.lang.Integer', 'boolean']),
             'annotations': gen_annotations(rng, 0.1)}
        dtypes.append((place(d), d))
    ncls = rng.randint(1, max(1, size))
    cdescs = []
    for i in range(ncls):
        c = {'kind': 'class', 'name': fresh('Cl'), 'abstract': rng.random() < 0.25, 'supers': [], 'features': [],
             'operations': [], 'annotations': gen_annotations(rng, 0.2)}
        cdescs.append(c)
        classes.append((place(c), c))
    # supertypes: earlier classes only, listed by decreasing index (keeps Python's C3 linearisation consistent)
    anc = {}
    for i, (path, c) in enumerate(classes):
        k = rng.choice([0, 0, 1, 1, 2, 3]) if i else 0
        cand = list(range(i))
        chosen = sorted(rng.sample(cand, min(k, len(cand))), reverse=True)
        # drop a chosen class that is an ancestor of another chosen one (redundant, and order-sensitive)
        chosen = [j for j in chosen if not any(j in anc[m] for m in chosen if m != j)]
        c['supers'] = [classes[j][0] for j in chosen]
        if rng.random() < 0.08:
            # a supertype taken from Ecore itself (as tests/xmi/xmi-tests/EcoreInheritance.ecore does)
            c['supers'].append(rng.choice(['ecore:EModelElement', 'ecore:ENamedElement']))
        anc[i] = set(chosen).union(*[anc[j] for j in chosen]) if chosen else set()
    # names already used along each hierarchy (features and operations share one name space here)
    used = {i: set() for i in range(ncls)}

    def hierarchy(i):
        """classes whose instances see a name declared in i, and classes i sees"""
        down = [j for j in range(ncls) if i in anc[j]]
        return [i] + list(anc[i]) + down + [a for d in down for a in anc[d]]

    def take_name(i, prefix):
        for _ in range(100):
            n = rng.choice(IDENT) + (str(rng.randint(0, 9)) if rng.random() < 0.3 else '')
            n = prefix + n if prefix else n
            if all(n not in used[j] for j in set(hierarchy(i))):
                used[i].add(n)
                return n
        return fresh('f')

    has_id = set()
    for i, (path, c) in enumerate(classes):
        for _ in range(rng.randint(0, 4)):
            if rng.random() < 0.55:       # attribute
                tk = rng.random()
                if tk < 0.15 and enums:
                    tpath, te = rng.choice(enums)
                    ty = tpath
                    dlit = rng.choice(te['literals'])[0] if rng.random() < 0.4 else None
                elif tk < 0.25 and dtypes:
                    ty, dlit = rng.choice(dtypes)[0], None
                else:
                    p = rng.choice(PRIMS)
                    ty = 'ecore:' + p
                    dlit = None
                    if rng.random() < 0.3:
                        dlit = {'EString': rng.choice(['abc', 'two words', '']), 'EInt': '7', 'EInteger': '-3',
                                'ELong': '12', 'EBoolean': 'true', 'EFloat': '1.5', 'EDouble': '2.25'}.get(p)
                upper = rng.choice([1, 1, 1, -1, -1, 3, 5])
                lower = rng.choice([0, 0, 1] + ([2] if upper == -1 or upper > 1 else []))
                f = {'kind': 'attr', 'name': take_name(i, ''), 'type': ty, 'lower': lower, 'upper': upper,
                     'ordered': rng.random() < 0.8, 'unique': rng.random() < 0.7, 'iD': False,
                     'derived': False, 'transient': False, 'changeable': True, 'volatile': False, 'unsettable': False,
                     'defaultValueLiteral': dlit if upper == 1 else None, 'annotations': gen_annotations(rng, 0.08)}
                if upper == 1 and ty == 'ecore:EString' and rng.random() < 0.3 \
                        and not any(j in has_id for j in set(hierarchy(i))):
                    f['iD'] = True
                    f['defaultValueLiteral'] = None
                    has_id.add(i)
                elif rng.random() < 0.12:
                    f.update(derived=rng.random() < 0.7, transient=rng.random() < 0.7, volatile=rng.random() < 0.7,
                             changeable=rng.random() < 0.5, unsettable=rng.random() < 0.3)
                c['features'].append(f)
            else:                          # reference
                j = rng.randrange(ncls)
                upper = rng.choice([1, 1, -1, -1, 4])
                f = {'kind': 'ref', 'name': take_name(i, ''), 'type': classes[j][0],
                     'lower': rng.choice([0, 0, 1]), 'upper': upper,
                     'ordered': rng.random() < 0.85, 'unique': True if rng.random() < 0.8 else False,
                     'containment': rng.random() < 0.35, 'derived': False, 'transient': False, 'changeable': True,
                     'volatile': False, 'unsettable': False, 'opposite': None, 'annotations': gen_annotations(rng, 0.08)}
                if rng.random() < 0.08:
                    f.update(derived=True, transient=True, volatile=True, changeable=False, containment=False)
                c['features'].append(f)
                r = rng.random()
                if r < 0.45 and not f['derived']:
                    # the other end, declared by the target class and typed by this one
                    g = {'kind': 'ref', 'name': take_name(j, 'r'), 'type': path, 'lower': 0,
                         'upper': 1 if f['containment'] else rng.choice([1, -1, -1]),
                         'ordered': True, 'unique': True, 'containment': False, 'derived': False, 'transient': False,
                         'changeable': True, 'volatile': False, 'unsettable': False,
                         'opposite': path + '/' + f['name'], 'annotations': []}
                    f['unique'] = True
                    f['opposite'] = classes[j][0] + '/' + g['name']
                    classes[j][1]['features'].append(g)
                elif r < 0.5 and j == i and not f['containment'] and not f['derived']:
                    f['unique'] = True
                    f['opposite'] = path + '/' + f['name']        # its own opposite
        for _ in range(rng.choice([0, 0, 1, 2])):
            params = []
            nreq = rng.randint(0, 2)
            for k in range(rng.randint(0, 3)):
                pt = rng.choice(['ecore:EString', 'ecore:EInt', 'ecore:EBoolean'] + [x[0] for x in classes[:3]]
                                + [x[0] for x in enums[:1]])
                pu = rng.choice([1, 1, -1])
                # an optional enum-typed parameter makes EOperation code generation fail (C20's subject): required
                req = k < nreq or pt in [x[0] for x in enums]
                params.append({'name': f'p{k}' + rng.choice(['', 'x', '_v']), 'type': pt, 'required': req,
                               'lower': 1 if req and rng.random() < 0.5 else 0, 'upper': pu,
                               'ordered': rng.random() < 0.9, 'unique': rng.random() < 0.9})
            params.sort(key=lambda p: not p['required'])      # required parameters first (a Python signature)
            c['operations'].append({
                'name': take_name(i, 'op_'),
                'type': rng.choice([None, 'ecore:EString', 'ecore:EInt'] + [x[0] for x in classes[:2]]),
                'lower': 0, 'upper': rng.choice([1, 1, -1]), 'ordered': True, 'unique': True, 'params': params,
                'exceptions': ([rng.choice(classes)[0]] if rng.random() < 0.15 else [])
                + (['ecore:EString'] if rng.random() < 0.05 else []),
            })
    return root


def roots_of(desc):
    return desc['roots'] if 'roots' in desc else [desc]


def _classes_of(d, path=''):
    for c in d['classifiers']:
        if c['kind'] == 'class':
            yield (path + '/' if path else '') + c['name'], c
    for sp in d['subpackages']:
        yield from _classes_of(sp, (path + '/' if path else '') + sp['name'])


def gen_desc(rng, size):
    """One .ecore resource: mostly one root package; a share with 2-3 root packages, some of them TWINS (same
    classifier, feature, enum and sub-package names as the first root, so that the same fragment path exists under
    several roots), with references, opposites and supertypes that cross from one root to another."""
    first = gen_metamodel(rng, size)
    if rng.random() < 0.6:
        return first
    roots = [first]
    for j in range(1, rng.choice([2, 2, 3])):
        if rng.random() < 0.65:
            d = json.loads(json.dumps(first))           # twin: every name is equal
            for _, c in _classes_of(d):
                for f in c['features']:
                    if rng.random() < 0.25:
                        f['ordered'] = not f['ordered']
                    if rng.random() < 0.2 and not f.get('opposite') and not f.get('iD'):
                        f['upper'] = rng.choice([1, -1, 3])
                        f['lower'] = min(f['lower'], 1)
                        if f['upper'] != 1 and f['kind'] == 'attr':
                            f['defaultValueLiteral'] = None
                if rng.random() < 0.4:
                    c['features'].append({
                        'kind': 'attr', 'name': f'only_in_{j}', 'type': 'ecore:EString', 'lower': 0, 'upper': 1,
                        'ordered': True, 'unique': True, 'iD': False, 'derived': False, 'transient': False,
                        'changeable': True, 'volatile': False, 'unsettable': False, 'defaultValueLiteral': None,
                        'annotations': []})
                    break
        else:
            d = gen_metamodel(rng, rng.choice([1, 2, 3, size]))   # names overlap anyway: the counters restart
        roots.append(d)
    for i, d in enumerate(roots):
        d['name'] = f'{d["name"]}_{i}'
        d['nsURI'] = f'{d["nsURI"]}/r{i}'
        d['nsPrefix'] = f'{d["nsPrefix"]}{i}'
        stack = list(d['subpackages'])
        while stack:
            sp = stack.pop()
            sp['nsURI'] = f'{sp["nsURI"]}/r{i}'
            sp['nsPrefix'] = f'{sp["nsPrefix"]}r{i}'
            stack.extend(sp['subpackages'])
    # links across roots: reference, bidirectional reference, supertype
    n = 0
    for j in range(1, len(roots)):
        k = rng.randrange(j)                                    # an earlier root
        here = list(_classes_of(roots[j]))
        there = list(_classes_of(roots[k]))
        if not here or not there:
            continue
        for _ in range(rng.randint(1, 3)):
            n += 1
            (pa, ca), (pb, cb) = rng.choice(here), rng.choice(there)
            f = _ref(f'xr{n}', f'@{k}:{pb}', upper=rng.choice([1, -1]))
            ca['features'].append(f)
            if rng.random() < 0.5:
                g = _ref(f'xb{n}', f'@{j}:{pa}', upper=rng.choice([1, -1]), opposite=f'@{j}:{pa}/xr{n}')
                f['opposite'] = f'@{k}:{pb}/xb{n}'
                cb['features'].append(g)
        if rng.random() < 0.5:
            pb, cb = rng.choice(there)
            # a fresh class (no name can clash with what it inherits) whose supertype lives in another root
            roots[j]['classifiers'].append(_cls(f'Xsub{j}', supers=[f'@{k}:{pb}'], abstract=rng.random() < 0.3))
    return {'roots': roots}


def split_ref(t, ri):
    """'@k:path' names something of root package k, a bare path something of the root package it is written in"""
    if t.startswith('@'):
        k, rest = t[1:].split(':', 1)
        return int(k), rest
    return ri, t


def build(desc):
    """Description -> list of root EPackages through the dynamic API (constructors, collections, setters)."""
    E = ecore()
    table = {}

    def mk_annotations(elem, anns):
        for a in anns or []:
            ann = E.EAnnotation(source=a['source'])
            for k, v in a['details']:
                ann.details[k] = v
            elem.eAnnotations.append(ann)

    def mk_package(d, path, ri):
        p = E.EPackage(d['name'], nsURI=d['nsURI'], nsPrefix=d['nsPrefix'])
        mk_annotations(p, d.get('annotations'))
        # sub-packages first or classifiers first: both are separate containments
        for c in d['classifiers']:
            q = (ri, (path + '/' if path else '') + c['name'])
            if c['kind'] == 'class':
                x = E.EClass(c['name'], abstract=c['abstract'])
            elif c['kind'] == 'enum':
                x = E.EEnum(c['name'])
                for lit in c['literals']:
                    el = E.EEnumLiteral(lit[0], value=lit[1])
                    if len(lit) > 2 and lit[2] is not None:
                        el.literal = lit[2]            # the display string; may differ from the name in any way
                    x.eLiterals.append(el)
                if c.get('default'):
                    x.default_value = c['default']
            else:
                x = E.EDataType(c['name'], instanceClassName=c['instanceClassName'])
            if c.get('instanceTypeName') is not None:
                x.instanceTypeName = c['instanceTypeName']
            if c['kind'] == 'class' and c.get('instanceClassName') is not None:
                x.instanceClassName = c['instanceClassName']
            mk_annotations(x, c.get('annotations'))
            p.eClassifiers.append(x)
            table[q] = x
        for s in d['subpackages']:
            p.eSubpackages.append(mk_package(s, (path + '/' if path else '') + s['name'], ri))
        return p

    rdescs = roots_of(desc)
    roots = [mk_package(d, '', ri) for ri, d in enumerate(rdescs)]

    def ty(t, ri):
        if t is None:
            return None
        if t.startswith('ecore:'):
            x = getattr(E, t[6:])
            return x.eClass if isinstance(x, type) else x
        return table[split_ref(t, ri)]

    def all_classes(d, path):
        for c in d['classifiers']:
            if c['kind'] == 'class':
                yield (path + '/' if path else '') + c['name'], c
        for s in d['subpackages']:
            yield from all_classes(s, (path + '/' if path else '') + s['name'])

    cl = [((ri, q), c) for ri, d in enumerate(rdescs) for q, c in all_classes(d, '')]
    for q, c in cl:
        for s in c['supers']:
            table[q].eSuperTypes.append(ty(s, q[0]))
    feats = {}
    for q, c in cl:
        ri = q[0]
        for f in c['features']:
            common_kw = dict(lower=f['lower'], upper=f['upper'], ordered=f['ordered'], unique=f['unique'],
                             derived=f['derived'], transient=f['transient'], changeable=f['changeable'],
                             volatile=f['volatile'], unsettable=f['unsettable'])
            if f['kind'] == 'attr':
                x = E.EAttribute(f['name'], ty(f['type'], ri), iD=f['iD'],
                                 defaultValueLiteral=f['defaultValueLiteral'], **common_kw)
            else:
                x = E.EReference(f['name'], ty(f['type'], ri), containment=f['containment'], **common_kw)
            mk_annotations(x, f.get('annotations'))
            table[q].eStructuralFeatures.append(x)
            feats[(ri, q[1] + '/' + f['name'])] = (x, f)
    for k, (x, f) in feats.items():
        if f['kind'] == 'ref' and f.get('opposite'):
            x.eOpposite = feats[split_ref(f['opposite'], k[0])][0]
    for q, c in cl:
        ri = q[0]
        for o in c['operations']:
            params = [E.EParameter(p['name'], ty(p['type'], ri), required=p['required'], lower=p['lower'],
                                   upper=p['upper'], ordered=p['ordered'], unique=p['unique'])
                      for p in o['params']]
            op = E.EOperation(o['name'], ty(o['type'], ri), params=params,
                              exceptions=[ty(e, ri) for e in o['exceptions']], lower=o['lower'], upper=o['upper'],
                              ordered=o['ordered'], unique=o['unique'])
            table[q].eOperations.append(op)
    return roots


def all_packages(p):
    """every package below a root package, or below each root package of a list"""
    if isinstance(p, (list, tuple)):
        for r in p:
            yield from all_packages(r)
        return
    yield p
    for s in p.eSubpackages:
        yield from all_packages(s)


def all_eclasses(p):
    E = ecore()
    for pk in all_packages(p):
        for c in pk.eClassifiers:
            if isinstance(c, E.EClass):
                yield c


# --------------------------------------------------------------------------- instances and their canonical dump

def sample_value(E, etype, rng, k):
    n = etype.name
    if isinstance(etype, E.EEnum):
        return rng.choice(list(etype.eLiterals)) if etype.eLiterals else None
    if n == 'EString':
        return rng.choice(['s', 'word', 'x_y', 'Z9']) + str(k)
    if n in ('EInt', 'EInteger', 'ELong'):
        return rng.choice([0, 1, -5, 77, 1000]) + k
    if n == 'EBoolean':
        return rng.random() < 0.5
    if n in ('EFloat', 'EDouble'):
        return rng.choice([0.5, 1.25, -3.0]) + k
    return None


def settable(f):
    return not (f.derived or f.transient or f.volatile or not f.changeable)


def gen_instances(pkg, rng, nper=2):
    """A model over `pkg`: list of root objects (everything reachable is inside)."""
    E = ecore()
    concrete = [c for c in all_eclasses(pkg) if not c.abstract]
    objs = []
    for c in concrete:
        for _ in range(rng.randint(1, nper)):
            objs.append(c())
    if not objs:
        return []
    idc = [0]
    for k, o in enumerate(objs):
        for f in o.eClass.eAllStructuralFeatures():
            if not f.is_attribute or not settable(f):
                continue
            et = f.eType
            if et is None or (not isinstance(et, E.EEnum) and et.name not in INST_PRIMS) \
                    or (not isinstance(et, E.EEnum) and et.ePackage is not E.EString.ePackage):
                continue
            if f.iD:
                idc[0] += 1
                o.eSet(f, f'id{idc[0]}')
                continue
            if rng.random() < 0.4:
                continue
            if f.many:
                n = rng.randint(1, 3) if f.upper < 0 else rng.randint(1, f.upper)
                vals = []
                for i in range(n):
                    v = sample_value(E, et, rng, i)
                    if v is not None and not (f.unique and v in vals):
                        vals.append(v)
                if vals:
                    o.eGet(f).extend(vals)
            else:
                v = sample_value(E, et, rng, k)
                if v is not None:
                    o.eSet(f, v)
    contained = set()
    for i, o in enumerate(objs):
        for f in o.eClass.eAllReferences():
            if not f.containment or not settable(f):
                continue
            cand = [x for x in objs[i + 1:] if id(x) not in contained and isinstance(x, f.eType)]
            rng.shuffle(cand)
            n = rng.randint(0, 2)
            if f.many:
                lim = n if f.upper < 0 else min(n, f.upper)
                for x in cand[:lim]:
                    o.eGet(f).append(x)
                    contained.add(id(x))
            elif cand and n:
                o.eSet(f, cand[0])
                contained.add(id(cand[0]))
    for i, o in enumerate(objs):
        for f in o.eClass.eAllReferences():
            if f.containment or not settable(f) or (f.eOpposite and f.eOpposite.containment):
                continue
            cand = [x for x in objs if isinstance(x, f.eType)]
            if not cand or rng.random() < 0.4:
                continue
            if f.many:
                n = rng.randint(1, 3) if f.upper < 0 else rng.randint(1, f.upper)
                picks = rng.sample(cand, min(n, len(cand)))
                for x in picks:
                    if x not in o.eGet(f):
                        o.eGet(f).append(x)
            else:
                o.eSet(f, rng.choice(cand))
    return [o for o in objs if o.eContainer() is None]


def dump_model(roots):
    """Canonical dump through the public API: class, every non-derived feature's value (defaults included),
    references as positions in the containment forest."""
    E = ecore()
    pos = {}

    def walk(o, path):
        pos[id(o)] = path
        for f in o.eClass.eAllReferences():
            if f.containment and not f.derived:
                v = o.eGet(f)
                vals = list(v) if f.many else ([v] if v is not None else [])
                for i, x in enumerate(vals):
                    walk(x, f'{path}/{f.name}.{i}')
    for i, r in enumerate(roots):
        walk(r, f'/{i}')

    def val(x):
        if isinstance(x, E.EEnumLiteral):
            return 'lit:' + x.name
        if isinstance(x, float):
            return repr(x)
        return x if isinstance(x, (str, int, bool, type(None))) else '<' + type(x).__name__ + '>'

    def d(o):
        out = {'class': qname(o.eClass), 'attrs': {}, 'refs': {}, 'kids': {}}
        for f in sorted(o.eClass.eAllStructuralFeatures(), key=lambda f: f.name):
            if f.derived:
                continue
            v = o.eGet(f)
            if f.is_attribute:
                out['attrs'][f.name] = [val(x) for x in v] if f.many else val(v)
            elif f.containment:
                vals = list(v) if f.many else ([v] if v is not None else [])
                out['kids'][f.name] = [d(x) for x in vals]
            else:
                vals = list(v) if f.many else ([v] if v is not None else [])
                out['refs'][f.name] = [pos.get(id(x.force_resolve()), '?outside') for x in vals]
        return out
    return [d(r) for r in roots]


# --------------------------------------------------------------------------- the oracle on one metamodel

def fresh_rset():
    common.use_repo()
    from pyecore.resources import ResourceSet
    return ResourceSet()


def register(rset, pkg):
    for p in all_packages(pkg):
        if p.nsURI:
            rset.metamodel_registry[p.nsURI] = p


def save_reload(roots, tmp, name='mm.ecore'):
    """all root packages into ONE .ecore resource; reload it in a fresh ResourceSet -> its root packages"""
    from pyecore.resources import URI
    path = os.path.join(tmp, name)
    rs = fresh_rset()
    res = rs.create_resource(URI(path))
    for r in roots:
        res.append(r)
    res.save()
    rs2 = fresh_rset()
    res2 = rs2.get_resource(URI(path))
    return list(res2.contents), path


def _eclass_of(t):
    if isinstance(t, type):
        return t.eClass
    return t.force_resolve()


def check_instantiable(reloaded, rng):
    """-> list of problem strings"""
    E = ecore()
    problems = []
    for c in all_eclasses(reloaded):
        try:
            o = c()
            if c.abstract:
                problems.append(f'abstract class {c.name} was instantiated')
                continue
        except TypeError as e:
            if not c.abstract:
                problems.append(f'concrete class {c.name} refuses instantiation: {e}')
            continue
        except Exception as e:
            problems.append(f'class {c.name}: {type(e).__name__}: {e}')
            continue
        if not isinstance(o, c) or o.eClass is not c:
            problems.append(f'instance of {c.name} does not report its class')
        for f in c.eAllStructuralFeatures():
            try:
                if f.derived:
                    continue
                if f.is_attribute:
                    et = f.eType
                    if et is None or not (isinstance(et.force_resolve(), E.EEnum) or et.name in INST_PRIMS):
                        continue
                    v = sample_value(E, et.force_resolve(), rng, 1)
                    if v is None:
                        continue
                    if f.many:
                        o.eGet(f).append(v)
                        ok = list(o.eGet(f.name)) == [v]
                    else:
                        o.eSet(f, v)
                        ok = o.eGet(f.name) == v and getattr(o, f.name) == v
                elif not _eclass_of(f.eType).abstract:
                    t = _eclass_of(f.eType)()
                    if f.many:
                        o.eGet(f).append(t)
                        ok = list(o.eGet(f.name)) == [t]
                    else:
                        o.eSet(f, t)
                        ok = o.eGet(f.name) is t
                    if f.containment and ok:
                        ok = t.eContainer() is o
                    if f.eOpposite is not None and ok:
                        back = t.eGet(f.eOpposite)
                        ok = (o in back) if f.eOpposite.many else (back is o)
                else:
                    continue
                if not ok:
                    problems.append(f'{c.name}.{f.name}: value set is not the value read')
            except Exception as e:
                problems.append(f'{c.name}.{f.name}: {type(e).__name__}: {e}')
    return problems


def evaluate(desc, inst_seed, tmp, stats=None):
    """Run the whole oracle on one description. -> list of failures
    {'clause','construct','what', 'pairs': [(metaclass, feature)...]}"""
    from pyecore.resources import URI
    fails = []
    orig = build(desc)
    sig0 = signature_all(orig)
    try:
        reloaded, path = save_reload(orig, tmp)
    except Exception as e:
        return [{'clause': 'signature', 'construct': 'save-or-load-raises',
                 'what': f'{type(e).__name__}: {e}', 'pairs': []}]
    sig0b = signature_all(orig)
    if sig0b != sig0:
        fails.append({'clause': 'signature', 'construct': 'save-changes-original',
                      'what': 'saving changed the original metamodel: ' + str(sig_diff(sig0, sig0b)[:2]), 'pairs': []})
    sig1 = signature_all(reloaded)
    diffs = sig_diff(sig0, sig1)
    by_label = {}
    for lab, pair, p, a, b in diffs:
        by_label.setdefault(lab, []).append((pair, p, a, b))
    for lab, items in sorted(by_label.items()):
        pair, p, a, b = items[0]
        fails.append({'clause': 'signature', 'construct': lab,
                      'what': f'{pair[0]}.{pair[1]} at {p}: original {a} / reloaded {b} ({len(items)} place(s))',
                      'pairs': sorted({tuple(x[0]) for x in items})})
    # the construct blamed for behavioural differences: a structural-feature one before operations/annotations
    first_construct = sorted(by_label, key=lambda l: (l in ('operation', 'operation-parameter', 'annotation'), l))[0] \
        if by_label else 'none-in-signature'
    if stats is not None:
        stats['sig_nodes'] = stats.get('sig_nodes', 0) + _count_nodes(sig0)
        _count_nondefault(sig0, stats.setdefault('nondefault', {}))
    # instantiate
    probs = check_instantiable(reloaded, random.Random(inst_seed))
    if probs:
        fails.append({'clause': 'instantiate', 'construct': first_construct, 'what': '; '.join(probs[:3]), 'pairs': []})
    # an instance document saved against the original, loaded against the reloaded metamodel
    try:
        roots = gen_instances(orig, random.Random(inst_seed))
    except Exception as e:
        roots = None
        if stats is not None:
            stats['instance_generation_errors'] = stats.get('instance_generation_errors', 0) + 1
            stats.setdefault('instance_generation_error_samples', []).append(f'{type(e).__name__}: {e}'[:200])
    if roots:
        ipath = os.path.join(tmp, 'inst.xmi')
        rs = fresh_rset()
        register(rs, orig)
        res = rs.create_resource(URI(ipath))
        res.extend(roots)
        want = dump_model(roots)
        try:
            res.save()
            saved = True
        except Exception as e:
            saved = False
            if stats is not None:
                stats['instance_save_errors'] = stats.get('instance_save_errors', 0) + 1
        if saved:
            base = None
            try:
                rs0 = fresh_rset()
                orig2 = build(desc)            # an independent copy of the original metamodel
                register(rs0, orig2)
                base = dump_model(list(rs0.get_resource(URI(ipath)).contents))
            except Exception as e:
                base = ('raises', type(e).__name__)
            try:
                rs1 = fresh_rset()
                register(rs1, reloaded)
                got = dump_model(list(rs1.get_resource(URI(ipath)).contents))
            except Exception as e:
                got = ('raises', type(e).__name__)
            if stats is not None:
                stats['instance_docs'] = stats.get('instance_docs', 0) + 1
                stats['instance_objects'] = stats.get('instance_objects', 0) + _count_objs(want)
                if base != want:
                    # the document does not even reload against its own metamodel: C08's subject, not C10's
                    stats['instance_docs_not_roundtripping_against_original(C08)'] = \
                        stats.get('instance_docs_not_roundtripping_against_original(C08)', 0) + 1
            if got != base:
                fails.append({'clause': 'cross-load', 'construct': first_construct,
                              'what': 'instance document loads differently against the reloaded metamodel: '
                                      + _first_dump_diff(base, got), 'pairs': []})
    return fails


def _count_nodes(s):
    n = 1
    for v in s.values():
        if isinstance(v, list):
            n += sum(_count_nodes(x) for x in v if isinstance(x, dict))
    return n


_DEFAULTS = {'abstract': False, 'lowerBound': 0, 'upperBound': 1, 'ordered': True, 'unique': True, 'iD': False,
             'derived': False, 'transient': False, 'changeable': True, 'volatile': False, 'unsettable': False,
             'containment': False, 'required': False, 'value': 0}


def _count_nondefault(s, acc):
    """how often each (metaclass, feature) carries a non-default value in the generated metamodels"""
    mc = s['metaclass']
    for n in SIG_BY_CLASS.get(mc, []):
        v = s.get(n)
        if v in (None, [], '') or (n in _DEFAULTS and v == _DEFAULTS[n]):
            continue
        k = f'{mc}.{n}'
        if mc != 'Resource':
            acc[k] = acc.get(k, 0) + 1
        if isinstance(v, list):
            for x in v:
                if isinstance(x, dict):
                    _count_nondefault(x, acc)


def _count_objs(d):
    return sum(1 + sum(_count_objs(v) for v in o['kids'].values()) for o in d)


def _first_dump_diff(a, b):
    if not isinstance(a, list) or not isinstance(b, list):
        return f'{_short(a)} vs {_short(b)}'
    if len(a) != len(b):
        return f'{len(a)} vs {len(b)} objects'
    for x, y in zip(a, b):
        if x == y:
            continue
        if x['class'] != y['class']:
            return f'class {x["class"]} vs {y["class"]}'
        for part in ('attrs', 'refs'):
            for k in sorted(set(x[part]) | set(y[part])):
                if x[part].get(k, '<absent>') != y[part].get(k, '<absent>'):
                    return f'{part[:-1]} {k}: {_short(x[part].get(k, "<absent>"))} vs {_short(y[part].get(k, "<absent>"))}'
        for k in sorted(set(x['kids']) | set(y['kids'])):
            if x['kids'].get(k) != y['kids'].get(k):
                return f'{k}: ' + _first_dump_diff(x['kids'].get(k, []), y['kids'].get(k, []))
    return 'equal'


# --------------------------------------------------------------------------- shrinking

def _lists_of(desc):
    """(container list, index) of every removable element of a description"""
    out = []

    def pk(d):
        for key in ('annotations', 'classifiers', 'subpackages'):
            out.extend((d[key], i) for i in range(len(d.get(key, []))))
        for c in d['classifiers']:
            for key in ('features', 'operations', 'annotations', 'supers', 'literals'):
                out.extend((c[key], i) for i in range(len(c.get(key, []))))
            for f in c.get('features', []):
                out.extend((f['annotations'], i) for i in range(len(f.get('annotations', []))))
            for o in c.get('operations', []):
                out.extend((o['params'], i) for i in range(len(o['params'])))
        for s in d['subpackages']:
            pk(s)
    if 'roots' in desc:
        out.extend((desc['roots'], i) for i in range(len(desc['roots'])) if len(desc['roots']) > 1)
    for r in roots_of(desc):
        pk(r)
    return out


def shrink(desc, inst_seed, clause, construct, budget_s=8.0):
    """Greedy one-element deletions that keep a failure with the same (clause, construct)."""
    t0 = time.time()
    cur = json.loads(json.dumps(desc))

    def still_fails(d):
        tmp = tempfile.mkdtemp(prefix='c10s_', dir=scratch())
        try:
            fs = evaluate(d, inst_seed, tmp)
            return any(f['clause'] == clause and f['construct'] == construct for f in fs)
        except Exception:
            return False
        finally:
            shutil.rmtree(tmp, ignore_errors=True)

    progress = True
    while progress and time.time() - t0 < budget_s:
        progress = False
        n = len(_lists_of(cur))
        for k in range(n - 1, -1, -1):
            if time.time() - t0 > budget_s:
                break
            trial = json.loads(json.dumps(cur))
            lists = _lists_of(trial)
            if k >= len(lists):
                continue
            lst, i = lists[k]
            del lst[i]
            if still_fails(trial):
                cur = trial
                progress = True
    return cur


def scratch():
    p = os.path.join(common.BUILD, 'scratch')
    os.makedirs(p, exist_ok=True)
    return p


# --------------------------------------------------------------------------- corpus

def corpus_dir():
    return os.path.join(common.REPO, 'tests', 'xmi', 'xmi-tests')


def corpus_files():
    d = corpus_dir()
    return sorted(f for f in os.listdir(d) if f.endswith('.ecore')) if os.path.isdir(d) else []


def evaluate_corpus(fname, tmp):
    """load -> save next to the copy -> load; compare the signatures of the two loads.
    -> (status, failures)  status in {'ok','unloadable','failed'}"""
    from pyecore.resources import URI
    work = os.path.join(tmp, 'corpus')
    if not os.path.isdir(work):
        shutil.copytree(corpus_dir(), work)
    src = os.path.join(work, fname)
    try:
        rs = fresh_rset()
        res = rs.get_resource(URI(src))
        roots1 = list(res.contents)
        sig1 = [signature(r) for r in roots1]
    except Exception as e:
        return 'unloadable', []
    if 'unresolved:' in json.dumps(sig1):
        # points to resources that need a URI mapper / files the test-suite sets up: outside the claim
        return 'dangling-references', []
    out = os.path.join(work, fname[:-6] + '__resaved.ecore')
    try:
        res.save(output=URI(out))
        rs2 = fresh_rset()
        res2 = rs2.get_resource(URI(out))
        sig2 = [signature(r) for r in res2.contents]
    except Exception as e:
        return 'failed', [{'clause': 'corpus', 'construct': 'save-or-load-raises',
                           'what': f'{fname}: {type(e).__name__}: {e}'[:300], 'pairs': []}]
    fails = []
    if len(sig1) != len(sig2):
        fails.append({'clause': 'corpus', 'construct': 'roots', 'what': f'{fname}: {len(sig1)} vs {len(sig2)} roots',
                      'pairs': []})
    by_label = {}
    for a, b in zip(sig1, sig2):
        for lab, pair, p, x, y in sig_diff(a, b):
            by_label.setdefault(lab, []).append((pair, p, x, y))
    for lab, items in sorted(by_label.items()):
        pair, p, a, b = items[0]
        fails.append({'clause': 'corpus', 'construct': lab,
                      'what': f'{fname}: {pair[0]}.{pair[1]} at {p}: first load {a} / after re-save {b} '
                              f'({len(items)} place(s))', 'pairs': sorted({tuple(x[0]) for x in items})})
    return ('failed' if fails else 'ok'), fails


# --------------------------------------------------------------------------- correspondence with the generated table

def table_vs_reflection(out):
    """Every row of the translator's table against the live reflection of pyecore.ecore."""
    import importlib.util
    E = ecore()
    spec = importlib.util.spec_from_file_location('ecoremm_gen', os.path.join(common.VERIF, 'translator',
                                                                              'ecoremm_gen.py'))
    mod = importlib.util.module_from_spec(spec)
    spec.loader.exec_module(mod)
    t = mod.translate(open(os.path.join(common.REPO, 'pyecore', 'ecore.py')).read())
    rows = 0
    by_key = {(d['owner'], d['pyattr']): d for d in t['features']}
    # table -> implementation
    for d in t['features']:
        rows += 1
        cls = getattr(E, d['owner'], None)
        live = cls.eClass.findEStructuralFeature(d['name']) if cls is not None else None
        own = [f for f in cls.eClass.eStructuralFeatures if f.name == d['name']] if cls is not None else []
        if not own:
            out.diff(f'table row {d["owner"]}.{d["name"]} is not a feature of the live metaclass', {'row': d})
            continue
        f = own[-1]
        opp = f.eOpposite if d['kind'] == 'KRef' else None
        declared = d['opposite']
        if declared is None:
            claim = [k for k, g in by_key.items() if g['opposite'] == (d['owner'], d['pyattr'])]
            declared = claim[0] if claim else None
        want_opp = None
        if declared is not None:
            g = by_key[tuple(declared)]
            want_opp = (g['owner'], g['name'])
        got = {
            'kind': 'KRef' if f.is_reference else 'KAttr', 'type': _tname(f.eType),
            'lower': f.lowerBound, 'upper': f.upperBound, 'ordered': f.ordered, 'unique': f.unique,
            'containment': bool(getattr(f, 'containment', False)), 'derived': f.derived, 'transient': f.transient,
            'volatile': f.volatile, 'unsettable': f.unsettable, 'changeable': f.changeable,
            'iD': bool(getattr(f, 'iD', False)),
            'opp': (opp.eContainingClass.name, opp.name) if opp is not None else None,
            'pyattr_is_descriptor': cls.__dict__.get(d['pyattr']) is f,
        }
        want = {k: d[k] for k in ('kind', 'type', 'lower', 'upper', 'ordered', 'unique', 'containment', 'derived',
                                  'transient', 'volatile', 'unsettable', 'changeable', 'iD')}
        want['opp'] = want_opp
        want['pyattr_is_descriptor'] = True
        if got != want:
            out.diff(f'generated table and live Ecore disagree on {d["owner"]}.{d["name"]}: '
                     f'table {want} live {got}', {'row': d})
    # implementation -> table (nothing missing), class hierarchy
    tcls = dict(t['classes'])
    for cname, bases in t['classes']:
        cls = getattr(E, cname, None)
        if cls is None or not hasattr(cls, 'eClass'):
            continue
        rows += 1
        live_names = sorted(f.name for f in cls.eClass.eStructuralFeatures)
        tab_names = sorted(d['name'] for d in t['features'] if d['owner'] == cname)
        if live_names != tab_names:
            out.diff(f'features of {cname}: table {tab_names} live {live_names}', {'class': cname})
        live_sup = sorted(s.name for s in cls.eClass.eSuperTypes)
        tab_sup = sorted(b for b in bases if b != 'EObject')
        if live_sup != tab_sup:
            out.diff(f'supertypes of {cname}: table {tab_sup} live {live_sup}', {'class': cname})
    return rows, t


def _tname(t):
    if t is None:
        return None
    return t.__name__ if isinstance(t, type) else t.name


def coq_signature_features():
    txt = open(os.path.join(common.COQ, 'Model', 'EcoreTable.v')).read()
    m = re.search(r'Definition signature_features[^:]*:[^=]*:=\s*\[(.*?)\]\.', txt, flags=re.S)
    return [(a, b) for a, b in re.findall(r'\("(\w+)",\s*"(\w+)"\)', m.group(1))] if m else None


# --------------------------------------------------------------------------- edit-and-resave trips
#
# The property is not only about the first save of a freshly built metamodel: a metamodel that lives in a resource is
# edited (renamed, reorganised, extended) and saved again through the SAME resource object, and each of those saves must
# give a file that reloads into a metamodel structurally equal to the live one.  A history is a list of trips
# {'save': where, 'ops': [...]}; the ops of a trip are applied to the live metamodel (elements are addressed by names
# from a root package: [root index, sub-package names..., classifier name]), then the resource is saved (to its own
# URI, to another file, to a file in another directory), reloaded in a fresh ResourceSet and compared.

class _BadHistory(Exception):
    """an op of a (shrunk) history does not apply to the metamodel any more"""


def _res_roots(res):
    return list(res.contents)


def _find_pkg(roots, ppath):
    try:
        p = roots[ppath[0]]
        for n in ppath[1:]:
            p = next(s for s in p.eSubpackages if s.name == n)
        return p
    except (StopIteration, IndexError):
        raise _BadHistory(f'no package {ppath}')


def _find_classifier(roots, cpath):
    p = _find_pkg(roots, cpath[:-1])
    c = next((c for c in p.eClassifiers if c.name == cpath[-1]), None)
    if c is None:
        raise _BadHistory(f'no classifier {cpath}')
    return c


def _find_feature(roots, cpath, fname):
    c = _find_classifier(roots, cpath)
    f = next((f for f in getattr(c, 'eStructuralFeatures', []) if f.name == fname), None)
    if f is None:
        raise _BadHistory(f'no feature {cpath} {fname}')
    return f


def _ppath(roots, p):
    names = []
    while p.eSuperPackage is not None:
        names.append(p.name)
        p = p.eSuperPackage
    ri = next(i for i, r in enumerate(roots) if r is p)
    return [ri] + list(reversed(names))


def _cpath(roots, c):
    return _ppath(roots, c.ePackage) + [c.name]


def _reinsert(coll, x, idx):
    """x to position idx of its own collection (public collection API: remove, insert)"""
    coll.remove(x)
    coll.insert(min(idx, len(coll)), x)


def apply_op(res, op):
    E = ecore()
    roots = _res_roots(res)
    k = op[0]
    if k == 'rename-classifier':
        _find_classifier(roots, op[1]).name = op[2]
    elif k == 'rename-feature':
        _find_feature(roots, op[1], op[2]).name = op[3]
    elif k == 'rename-package':
        _find_pkg(roots, op[1]).name = op[2]
    elif k == 'new-subpackage':
        parent = _find_pkg(roots, op[1])
        parent.eSubpackages.append(E.EPackage(op[2], nsURI=f'{parent.nsURI}/{op[2]}', nsPrefix=op[2]))
    elif k == 'move-classifier':
        c, dest = _find_classifier(roots, op[1]), _find_pkg(roots, op[2])
        if op[3] is None:
            dest.eClassifiers.append(c)
        else:
            dest.eClassifiers.insert(min(op[3], len(dest.eClassifiers)), c)
    elif k == 'move-package':
        p, dest = _find_pkg(roots, op[1]), _find_pkg(roots, op[2])
        if len(op[1]) < 2:
            raise _BadHistory('a root package is not moved')
        dest.eSubpackages.append(p)
    elif k == 'insert-class':
        p = _find_pkg(roots, op[1])
        c = E.EClass(op[3], abstract=bool(op[5]))
        if op[4] is not None:
            c.eSuperTypes.append(_find_classifier(roots, op[4]))
        p.eClassifiers.insert(min(op[2], len(p.eClassifiers)), c)
    elif k == 'remove-classifier':
        c = _find_classifier(roots, op[1])
        c.ePackage.eClassifiers.remove(c)
    elif k == 'add-ref':
        owner, target = _find_classifier(roots, op[1]), _find_classifier(roots, op[3])
        owner.eStructuralFeatures.append(E.EReference(op[2], target, upper=op[4]))
    elif k == 'add-attr':
        owner, t = _find_classifier(roots, op[1]), _find_classifier(roots, op[3])
        owner.eStructuralFeatures.append(E.EAttribute(op[2], t, upper=op[4]))
    elif k == 'reorder-classifier':
        c = _find_classifier(roots, op[1])
        _reinsert(c.ePackage.eClassifiers, c, op[2])
    elif k == 'reorder-feature':
        f = _find_feature(roots, op[1], op[2])
        _reinsert(f.eContainingClass.eStructuralFeatures, f, op[3])
    elif k == 'add-root':
        p = E.EPackage(op[1], nsURI=f'http://verif/c10/{op[1]}', nsPrefix=op[1])
        p.eClassifiers.append(E.EClass(op[2]))
        if op[3] == 'front':
            for r in roots:
                res.remove(r)
            res.append(p)
            for r in roots:
                res.append(r)
        else:
            res.append(p)
    else:
        raise _BadHistory(f'unknown op {op}')


def _referenced_classifiers(roots):
    """ids of the classifiers something else points to (type, supertype, exception) -> how often, from outside itself"""
    E = ecore()
    ref = {}

    def note(owner, t):
        if t is None:
            return
        t = t.eClass if isinstance(t, type) else t
        if t is not owner:
            ref[id(t)] = ref.get(id(t), 0) + 1
    for c in all_eclasses(roots):
        for s in c.eSuperTypes:
            note(c, s)
        for f in c.eStructuralFeatures:
            note(c, f.eType)
        for o in c.eOperations:
            note(c, o.eType)
            for x in o.eExceptions:
                note(c, x)
            for q in o.eParameters:
                note(c, q.eType)
    return ref


class _EditState:
    def __init__(self):
        self.n = 0
        self.moved = []          # live classes whose fragment changed since the first save (moved, renamed)
        self.renamed_features = set()      # ids (the features are kept alive in self.keep)
        self.keep = []

    def fresh(self, prefix):
        self.n += 1
        return f'{prefix}{self.n}'


EDIT_KINDS = ['rename-classifier'] * 4 + ['rename-feature'] * 2 + ['rename-package'] * 2 + ['move-classifier'] * 3 \
    + ['move-to-new-subpackage'] * 3 + ['move-package'] + ['insert-class'] * 3 + ['remove-classifier'] * 2 \
    + ['add-ref'] * 3 + ['add-attr'] + ['reorder-classifier'] * 2 + ['reorder-feature'] + ['add-root']


def gen_edit(rng, res, st):
    """One refactoring step that is legal on the live metamodel (names stay unique: every new name is fresh)
    -> list of ops (mostly one)."""
    E = ecore()
    roots = _res_roots(res)
    pkgs = list(all_packages(roots))
    classifiers = [c for p in pkgs for c in p.eClassifiers]
    classes = [c for c in classifiers if isinstance(c, E.EClass)]
    live_moved = [c for c in st.moved if c.ePackage is not None and c.eResource is res]

    def names_in(p):
        return {c.name for c in p.eClassifiers} | {s.name for s in p.eSubpackages}

    for _ in range(8):
        kind = rng.choice(EDIT_KINDS)
        if kind == 'rename-classifier' and classifiers:
            c = rng.choice(classifiers)
            op = ['rename-classifier', _cpath(roots, c), st.fresh('Rn')]
            if isinstance(c, E.EClass):
                st.moved.append(c)
            return [op]
        if kind == 'rename-feature':
            cand = [c for c in classes if len(c.eStructuralFeatures)]
            if cand:
                c = rng.choice(cand)
                f = rng.choice(list(c.eStructuralFeatures))
                st.renamed_features.add(id(f))
                st.keep.append(f)
                return [['rename-feature', _cpath(roots, c), f.name, st.fresh('rf')]]
        if kind == 'rename-package':
            p = rng.choice(pkgs)
            st.moved.extend(all_eclasses(p))
            return [['rename-package', _ppath(roots, p), st.fresh('rp')]]
        if kind == 'move-classifier' and classifiers and len(pkgs) > 1:
            c = rng.choice(classifiers)
            dests = [p for p in pkgs if p is not c.ePackage and c.name not in names_in(p)]
            if dests:
                dest = rng.choice(dests)
                if isinstance(c, E.EClass):
                    st.moved.append(c)
                return [['move-classifier', _cpath(roots, c), _ppath(roots, dest),
                         rng.choice([None, None, 0, 1])]]
        if kind == 'move-to-new-subpackage' and classifiers:
            c = rng.choice(classifiers)
            parent = rng.choice(pkgs)
            nm = st.fresh('np')
            if isinstance(c, E.EClass):
                st.moved.append(c)
            return [['new-subpackage', _ppath(roots, parent), nm],
                    ['move-classifier', _cpath(roots, c), _ppath(roots, parent) + [nm], None]]
        if kind == 'move-package':
            subs = [p for p in pkgs if p.eSuperPackage is not None]
            if subs:
                p = rng.choice(subs)
                below = set(map(id, all_packages(p)))
                dests = [d for d in pkgs if id(d) not in below and d is not p.eSuperPackage
                         and p.name not in names_in(d)]
                if dests:
                    st.moved.extend(all_eclasses(p))
                    return [['move-package', _ppath(roots, p), _ppath(roots, rng.choice(dests))]]
        if kind == 'insert-class':
            p = rng.choice(pkgs)
            sup = None
            if classes and rng.random() < 0.6:
                sup = _cpath(roots, rng.choice(live_moved if live_moved and rng.random() < 0.7 else classes))
            return [['insert-class', _ppath(roots, p), rng.randint(0, len(p.eClassifiers)), st.fresh('Nw'), sup,
                     rng.random() < 0.2]]
        if kind == 'remove-classifier' and len(classes) > 1:
            ref = _referenced_classifiers(roots)
            cand = [c for c in classifiers if id(c) not in ref and not (isinstance(c, E.EClass) and len(classes) < 2)]
            if cand:
                return [['remove-classifier', _cpath(roots, rng.choice(cand))]]
        if kind == 'add-ref' and classes:
            owner = rng.choice(classes)
            target = rng.choice(live_moved if live_moved and rng.random() < 0.75 else classes)
            return [['add-ref', _cpath(roots, owner), st.fresh('ar'), _cpath(roots, target), rng.choice([1, -1])]]
        if kind == 'add-attr' and classes:
            types = [c for c in classifiers if not isinstance(c, E.EClass)]
            if types:
                return [['add-attr', _cpath(roots, rng.choice(classes)), st.fresh('aa'),
                         _cpath(roots, rng.choice(types)), rng.choice([1, -1])]]
        if kind == 'reorder-classifier':
            cand = [p for p in pkgs if len(p.eClassifiers) > 1]
            if cand:
                p = rng.choice(cand)
                c = rng.choice(list(p.eClassifiers))
                return [['reorder-classifier', _cpath(roots, c), rng.randrange(len(p.eClassifiers))]]
        if kind == 'reorder-feature':
            # a feature that was renamed is left where it is: taking a renamed feature out of its class raises
            # (the Python mirror of the class still holds it under the old name) -- C12's subject, not C10's
            cand = [c for c in classes if len(c.eStructuralFeatures) > 1
                    and any(id(f) not in st.renamed_features for f in c.eStructuralFeatures)]
            if cand:
                c = rng.choice(cand)
                f = rng.choice([f for f in c.eStructuralFeatures if id(f) not in st.renamed_features])
                return [['reorder-feature', _cpath(roots, c), f.name, rng.randrange(len(c.eStructuralFeatures))]]
        if kind == 'add-root' and len(roots) < 4:
            st.moved.extend(all_eclasses(roots))
            return [['add-root', st.fresh('nr'), st.fresh('Nw'), rng.choice(['front', 'back'])]]
    p = rng.choice(pkgs)
    return [['insert-class', _ppath(roots, p), 0, st.fresh('Nw'), None, False]]


def _trip_compare(res, trip, tmp, k, inst_seed=None):
    """save the resource as the trip says, reload the file in a fresh ResourceSet, compare -> failure or None"""
    from pyecore.resources import URI
    live = _res_roots(res)
    try:
        sig0 = signature_all(live)
    except Exception as e:
        return {'construct': 'live-metamodel-unreadable', 'what': f'trip {k}: {type(e).__name__}: {e}'[:300]}
    where = trip['save']
    try:
        if where == 'same':
            out_path = res.uri.plain
            res.save()
        else:
            d = tmp if where == 'other' else os.path.join(tmp, f'dir{k}')
            os.makedirs(d, exist_ok=True)
            out_path = os.path.join(d, f'resaved{k}.ecore')
            res.save(output=URI(out_path))
    except Exception as e:
        return {'construct': 'save-raises', 'what': f'trip {k} (save {where}): {type(e).__name__}: {e}'[:300]}
    try:
        rs = fresh_rset()
        reloaded = list(rs.get_resource(URI(out_path)).contents)
        sig1 = signature_all(reloaded)
    except Exception as e:
        return {'construct': 'reload-raises',
                'what': f'trip {k} (save {where}): the file saved after the edits does not load: '
                        f'{type(e).__name__}: {e}'[:300]}
    if signature_all(live) != sig0:
        return {'construct': 'save-changes-original', 'what': f'trip {k}: saving changed the live metamodel'}
    diffs = sig_diff(sig0, sig1)
    if diffs:
        lab, pair, p, a, b = diffs[0]
        return {'construct': lab, 'what': f'trip {k} (save {where}): {pair[0]}.{pair[1]} at {p}: live {a} / reloaded {b} '
                                          f'({len(diffs)} place(s))'}
    if inst_seed is not None:
        probs = check_instantiable(reloaded, random.Random(inst_seed))
        if probs:
            return {'construct': 'instantiate', 'what': f'trip {k}: ' + '; '.join(probs[:2])}
    return None


def resave_case(desc, mode, tmp, trips=None, rng=None, ntrips=0, inst_seed=None, stats=None):
    """One metamodel, several edit/save/reload trips through one resource object.
    mode 'original': the programmatically built metamodel in the resource it was first saved from;
    mode 'reloaded': the metamodel loaded from that first file, edited and saved through the resource it was loaded into.
    trips given: replay them; else generate `ntrips` trips from rng.  -> (history, failure or None)"""
    from pyecore.resources import URI
    os.makedirs(tmp, exist_ok=True)
    path = os.path.join(tmp, 'mm.ecore')
    orig = build(desc)
    rs = fresh_rset()
    res = rs.create_resource(URI(path))
    for r in orig:
        res.append(r)
    keep = [rs]
    if mode == 'reloaded':
        try:
            res.save()
            rs2 = fresh_rset()
            res = rs2.get_resource(URI(path))
            keep.append(rs2)
        except Exception as e:
            return [], {'construct': 'first-save-or-load-raises', 'what': f'{type(e).__name__}: {e}'[:300]}
    st = _EditState()
    history = []
    k = 0
    while True:
        if trips is not None:
            if k >= len(trips):
                break
            trip = trips[k]
            try:
                for op in trip['ops']:
                    apply_op(res, op)
            except _BadHistory:
                raise
            except Exception as e:
                history.append(trip)
                return history, {'construct': 'edit-raises', 'what': f'trip {k}: {op}: {type(e).__name__}: {e}'[:300]}
        else:
            if k >= ntrips:
                break
            trip = {'save': rng.choice(['same', 'same', 'other', 'other-dir']), 'ops': []}
            if k > 0:
                for _ in range(rng.randint(1, 4)):
                    for op in gen_edit(rng, res, st):
                        trip['ops'].append(op)
                        try:
                            apply_op(res, op)
                        except Exception as e:
                            history.append(trip)
                            return history, {'construct': 'edit-raises',
                                             'what': f'trip {k}: {op}: {type(e).__name__}: {e}'[:300]}
                        if stats is not None:
                            stats[op[0]] = stats.get(op[0], 0) + 1
        history.append(trip)
        last = (trips is None and k == ntrips - 1) or (trips is not None and k == len(trips) - 1)
        f = _trip_compare(res, trip, tmp, k, inst_seed if last else None)
        if stats is not None:
            stats['trips'] = stats.get('trips', 0) + 1
        if f:
            return history, f
        k += 1
    return history, None


def shrink_history(desc, mode, history, construct, inst_seed, max_runs=60):
    """Greedy: drop single ops (last first), then trips left without ops (not the first), while a failure of the same
    construct stays.  Deterministic (bounded by a number of runs, not by time)."""
    runs = [0]

    def fails(h):
        if runs[0] >= max_runs:
            return None
        runs[0] += 1
        tmp = tempfile.mkdtemp(prefix='c10h_', dir=scratch())
        try:
            hh, f = resave_case(desc, mode, tmp, trips=h, inst_seed=inst_seed)
            return hh if f and f['construct'] == construct else None      # hh: the trips up to the failing one
        except Exception:
            return None
        finally:
            shutil.rmtree(tmp, ignore_errors=True)

    cur = json.loads(json.dumps(history))
    progress = True
    while progress and runs[0] < max_runs:
        progress = False
        for ti in range(len(cur) - 1, -1, -1):
            for oi in range(len(cur[ti]['ops']) - 1, -1, -1):
                if ti >= len(cur) or oi >= len(cur[ti]['ops']):
                    continue
                trial = json.loads(json.dumps(cur))
                del trial[ti]['ops'][oi]
                got = fails(trial)
                if got is not None:
                    cur, progress = json.loads(json.dumps(got)), True
        for ti in range(len(cur) - 2, 0, -1):
            if ti < len(cur) - 1 and not cur[ti]['ops']:
                trial = json.loads(json.dumps(cur))
                del trial[ti]
                got = fails(trial)
                if got is not None:
                    cur, progress = json.loads(json.dumps(got)), True
    return cur


def shrink_desc_for_history(desc, mode, history, construct, inst_seed, max_runs=40):
    """Greedy one-element deletions in the description that keep the same failure under the same history."""
    runs = [0]
    cur = json.loads(json.dumps(desc))

    def still(d):
        runs[0] += 1
        tmp = tempfile.mkdtemp(prefix='c10h_', dir=scratch())
        try:
            hh, f = resave_case(d, mode, tmp, trips=history, inst_seed=inst_seed)
            return bool(f) and f['construct'] == construct and len(hh) == len(history)
        except Exception:
            return False
        finally:
            shutil.rmtree(tmp, ignore_errors=True)

    progress = True
    while progress and runs[0] < max_runs:
        progress = False
        for k in range(len(_lists_of(cur)) - 1, -1, -1):
            if runs[0] >= max_runs:
                break
            trial = json.loads(json.dumps(cur))
            lists = _lists_of(trial)
            if k >= len(lists):
                continue
            lst, i = lists[k]
            del lst[i]
            if still(trial):
                cur, progress = trial, True
    return cur


def resave_scenarios(ctx, out):
    """Scenario family 'resave' (own PRNG stream)."""
    ecore()
    rng = common.rng_for(ctx.seed, 'C10:resave')
    thorough = ctx.tier == 'thorough'
    n = 1000 if thorough else 110
    hard_stop = time.time() + (150 if thorough else 40)       # safety net only; the count decides
    stats, modes, seen = {}, {}, {}
    cases = trips_total = 0
    tmp_root = tempfile.mkdtemp(prefix='c10e_', dir=scratch())
    try:
        for i in range(n):
            if time.time() > hard_stop:
                break
            size = rng.choice([2, 3, 3, 4, 5, 6])
            desc = gen_desc(rng, size)
            mode = rng.choice(['original', 'original', 'reloaded'])
            ntrips = rng.choice([3, 3, 4])
            inst_seed = rng.randrange(1 << 30)
            case_rng = random.Random(rng.randrange(1 << 62))
            tmp = os.path.join(tmp_root, f'e{i}')
            try:
                history, f = resave_case(desc, mode, tmp, rng=case_rng, ntrips=ntrips, inst_seed=inst_seed,
                                         stats=stats)
            finally:
                shutil.rmtree(tmp, ignore_errors=True)
            cases += 1
            modes[mode] = modes.get(mode, 0) + 1
            trips_total += len(history)
            if f and f['construct'] == 'first-save-or-load-raises':
                stats['first_trip_fails(main family)'] = stats.get('first_trip_fails(main family)', 0) + 1
                continue
            if f:
                key = (mode, f['construct'])
                if key in seen:
                    stats['repeat_failures'] = stats.get('repeat_failures', 0) + 1
                    continue
                seen[key] = True
                small = shrink_history(desc, mode, history, f['construct'], inst_seed,
                                       max_runs=120 if thorough else 50)
                what = f['what']
                sdesc = shrink_desc_for_history(desc, mode, small, f['construct'], inst_seed,
                                                max_runs=150 if thorough else 60)
                tmp = tempfile.mkdtemp(prefix='c10h_', dir=scratch())
                try:
                    _, f2 = resave_case(sdesc, mode, tmp, trips=small, inst_seed=inst_seed)
                    if f2 and f2['construct'] == f['construct']:
                        what, desc = f2['what'], sdesc
                    else:
                        small = history
                except Exception:
                    small = history
                finally:
                    shutil.rmtree(tmp, ignore_errors=True)
                out.fail({'property': 'C10', 'clause': 'resave', 'construct': f['construct']},
                         f'resave/{f["construct"]} ({mode} metamodel, edited and saved again through the same resource): '
                         f'{what}; edits {[op for t in small for op in t["ops"]]}',
                         {'scenario': 'resave', 'seed': ctx.seed, 'tier': ctx.tier, 'index': i, 'mode': mode,
                          'desc': desc, 'inst_seed': inst_seed, 'history': small})
    finally:
        shutil.rmtree(tmp_root, ignore_errors=True)
    out.coverage['resave_cases'] = cases
    out.coverage['resave_trips_saved_reloaded_compared'] = trips_total
    out.coverage['resave_modes'] = modes
    out.coverage['resave_ops_by_kind'] = dict(sorted((k, v) for k, v in stats.items() if k not in
                                                     ('trips', 'repeat_failures', 'first_trip_fails(main family)')))
    out.coverage['resave_repeat_failures_of_a_reported_kind'] = stats.get('repeat_failures', 0)
    out.coverage['resave_first_trip_fails(main family)'] = stats.get('first_trip_fails(main family)', 0)


# --------------------------------------------------------------------------- enumeration literals with display strings
#
# An EEnumLiteral has a name (an identifier), a value and a `literal` display string that may differ from the name in any
# way (dashes, spaces, case, empty).  The three survive the .ecore trip, and attribute values of instance models (single,
# many, default value literal) that hold such literals come back as the same literals when the document saved against
# the original metamodel is loaded against the reloaded one, and the other way round.

LIT_NAMES = ['OPEN', 'IN_PROGRESS', 'DONE', 'Low', 'high', 'MEDIUM', 'a', 'B2', 'in_progress', 'Open', 'ON_HOLD', 'x_1',
             'Cancelled', 'TO_DO']
LIT_FIXED = ['two words', 'dash-ed', 'Ünï cödé', '42', 'a<b & "c"', "it's", 'UPPER lower', 'x=1;y', '-', '']


def _attr(name, ty, **kw):
    d = {'kind': 'attr', 'name': name, 'type': ty, 'lower': 0, 'upper': 1, 'ordered': True, 'unique': True,
         'iD': False, 'derived': False, 'transient': False, 'changeable': True, 'volatile': False,
         'unsettable': False, 'defaultValueLiteral': None, 'annotations': []}
    d.update(kw)
    return d


def gen_enum_desc(rng, stats=None):
    """A small metamodel around 1-2 enumerations whose literals carry display strings."""
    root = {'name': rng.choice(['en', 'track']), 'nsURI': 'http://verif/c10/enum/' + rng.choice(['a', 'b.c']),
            'nsPrefix': 'en', 'annotations': [], 'classifiers': [], 'subpackages': []}
    sub = None
    if rng.random() < 0.4:
        sub = {'name': 'lits', 'nsURI': root['nsURI'] + '/lits', 'nsPrefix': 'lits', 'annotations': [],
               'classifiers': [], 'subpackages': []}
        root['subpackages'].append(sub)
    enums = []
    for ei in range(rng.choice([1, 1, 2])):
        n = rng.randint(2, 5)
        names = rng.sample(LIT_NAMES, n)
        values = list(range(n)) if rng.random() < 0.4 else rng.sample(range(-3, 40), n)
        taken = set(names)               # a display string never reads as another literal's name or display string
        lits = []
        for nm, v in zip(names, values):
            r = rng.random()
            if r < 0.2:
                lit = None
            elif r < 0.28:
                lit = nm
            else:
                cand = [nm.lower().replace('_', '-'), nm.replace('_', ' ').title(), nm.lower(), nm.upper(),
                        nm.swapcase(), nm.replace('_', ' '), nm + '-' + str(v)] + LIT_FIXED
                cand = [c for c in cand if c == nm or c not in taken]
                lit = rng.choice(cand)
            if lit is not None:
                taken.add(lit)
            lits.append([nm, v, lit])
            if stats is not None:
                k = 'unset' if lit is None else 'equal-to-name' if lit == nm else 'empty' if lit == '' else \
                    'case-only' if lit.lower() == nm.lower() else 'with-space' if ' ' in lit else \
                    'with-dash' if '-' in lit else 'other'
                stats[k] = stats.get(k, 0) + 1
        e = {'kind': 'enum', 'name': f'St{ei}', 'literals': lits,
             'default': rng.choice(names) if rng.random() < 0.4 else None, 'annotations': []}
        where = sub if sub is not None and rng.random() < 0.6 else root
        where['classifiers'].append(e)
        enums.append((('lits/' if where is sub else '') + e['name'], e))
    holder = _cls('Holder')
    item = _cls('Item', supers=['Holder'] if rng.random() < 0.5 else [])
    root['classifiers'] += [holder, item]
    k = 0
    for ci, c in enumerate([holder, item]):
        epath, e = enums[ci % len(enums)]
        names = [l[0] for l in e['literals']]
        shapes = ['one', 'many'] if ci == 0 else []
        shapes += rng.sample(['one', 'many', 'few', 'dflt', 'bag', 'req'], rng.randint(0 if ci else 1, 3))
        for sh in shapes:
            k += 1
            nm = f'{sh}{k}'
            if sh == 'one':
                c['features'].append(_attr(nm, epath))
            elif sh == 'many':
                c['features'].append(_attr(nm, epath, upper=-1, ordered=rng.random() < 0.8))
            elif sh == 'few':
                c['features'].append(_attr(nm, epath, upper=rng.choice([2, 3])))
            elif sh == 'bag':
                c['features'].append(_attr(nm, epath, upper=-1, unique=False))
            elif sh == 'req':
                c['features'].append(_attr(nm, epath, lower=1))
            else:
                c['features'].append(_attr(nm, epath, defaultValueLiteral=rng.choice(names)))
        if rng.random() < 0.7:
            c['features'].append(_attr(f'label{ci}', 'ecore:EString'))
    holder['features'].append(_ref('kids', 'Item', upper=-1, containment=True))
    if rng.random() < 0.5:
        item['features'].append(_ref('peer', 'Holder', upper=rng.choice([1, -1])))
    return root


def literal_table(roots):
    """name/value/literal of every enumeration literal, read through attributes, eGet and the enum's own lookups"""
    E = ecore()
    out = {}
    for p in all_packages(roots):
        for c in p.eClassifiers:
            if not isinstance(c, E.EEnum):
                continue
            rows = []
            for l in c.eLiterals:
                by_name = c.getEEnumLiteral(l.name)
                rows.append({'name': l.name, 'value': l.value, 'literal': l.literal,
                             'eGet': [l.eGet('name'), l.eGet('value'), l.eGet('literal')],
                             'found_by_name': by_name is l, 'name_in_enum': l.name in c,
                             'string_codec_round_trip': c.from_string(c.to_string(l)) is l,
                             'is_default': c.default_value is l})
            out[qname(c)] = rows
    return out


def _count_lit_values(dump, acc):
    for o in dump:
        for v in o['attrs'].values():
            for x in (v if isinstance(v, list) else [v]):
                if isinstance(x, str) and x.startswith('lit:'):
                    acc[0] += 1
        for kids in o['kids'].values():
            _count_lit_values(kids, acc)


def enum_case(desc, inst_seed, tmp, stats=None):
    """-> list of {'construct','what'}"""
    from pyecore.resources import URI
    fails = []
    os.makedirs(tmp, exist_ok=True)
    orig = build(desc)
    sig0 = signature_all(orig)
    tab0 = literal_table(orig)
    try:
        reloaded, path = save_reload(orig, tmp)
    except Exception as e:
        return [{'construct': 'save-or-load-raises', 'what': f'{type(e).__name__}: {e}'[:300]}]
    diffs = sig_diff(sig0, signature_all(reloaded))
    if diffs:
        lab, pair, p, a, b = diffs[0]
        fails.append({'construct': 'signature-' + lab,
                      'what': f'{pair[0]}.{pair[1]} at {p}: original {a} / reloaded {b} ({len(diffs)} place(s))'})
    tab1 = literal_table(reloaded)
    if tab0 != tab1 and not diffs:
        k = next(k for k in tab0 if tab0[k] != tab1.get(k))
        fails.append({'construct': 'literal-table', 'what': f'{k}: original {_short(tab0[k])} / reloaded '
                                                            f'{_short(tab1.get(k))}'})
    bad = [(k, r) for k, rows in tab0.items() for r in rows
           if not (r['found_by_name'] and r['name_in_enum'] and r['string_codec_round_trip'])]
    if bad:
        fails.append({'construct': 'literal-lookup', 'what': f'original metamodel: {bad[0][0]}: {_short(bad[0][1])}'})

    def cross(src_mm, dst_mm, seed, tag):
        """a model over src_mm, saved against src_mm, loaded against dst_mm: the same canonical dump"""
        try:
            roots = gen_instances(src_mm, random.Random(seed), nper=3)
        except Exception as e:
            fails.append({'construct': f'instantiate-{tag}', 'what': f'{type(e).__name__}: {e}'[:300]})
            return
        if not roots:
            return
        ipath = os.path.join(tmp, f'inst_{tag}.xmi')
        rs = fresh_rset()
        register(rs, src_mm)
        res = rs.create_resource(URI(ipath))
        res.extend(roots)
        want = dump_model(roots)
        try:
            res.save()
            rs1 = fresh_rset()
            register(rs1, dst_mm)
            got = dump_model(list(rs1.get_resource(URI(ipath)).contents))
        except Exception as e:
            got = ('raises', f'{type(e).__name__}: {e}'[:200])
        if stats is not None:
            stats['docs'] = stats.get('docs', 0) + 1
            acc = [0]
            _count_lit_values(want, acc)
            stats['enum_values'] = stats.get('enum_values', 0) + acc[0]
        if got != want:
            fails.append({'construct': f'cross-load-{tag}',
                          'what': f'model saved against the {tag.split("-to-")[0]} metamodel, loaded against the '
                                  f'{tag.split("-to-")[1]} one, is not the model that was saved: '
                                  + _first_dump_diff(want, got)})

    cross(orig, reloaded, inst_seed, 'original-to-reloaded')
    cross(reloaded, build(desc), inst_seed + 1, 'reloaded-to-original')
    return fails


def shrink_enum_desc(desc, inst_seed, construct, max_runs=40, case_fn=None):
    runs = [0]
    cur = json.loads(json.dumps(desc))
    case_fn = case_fn or enum_case

    def still(d):
        runs[0] += 1
        tmp = tempfile.mkdtemp(prefix='c10l_', dir=scratch())
        try:
            return any(f['construct'] == construct for f in case_fn(d, inst_seed, tmp))
        except Exception:
            return False
        finally:
            shutil.rmtree(tmp, ignore_errors=True)

    progress = True
    while progress and runs[0] < max_runs:
        progress = False
        for k in range(len(_lists_of(cur)) - 1, -1, -1):
            if runs[0] >= max_runs:
                break
            trial = json.loads(json.dumps(cur))
            lists = _lists_of(trial)
            if k >= len(lists):
                continue
            lst, i = lists[k]
            del lst[i]
            if still(trial):
                cur, progress = trial, True
    return cur


def enumlit_scenarios(ctx, out):
    """Scenario family 'enumlit' (own PRNG stream)."""
    ecore()
    rng = common.rng_for(ctx.seed, 'C10:enumlit')
    thorough = ctx.tier == 'thorough'
    n = 2000 if thorough else 200
    hard_stop = time.time() + (120 if thorough else 30)       # safety net only; the count decides
    stats, kinds, seen = {}, {}, {}
    cases = 0
    tmp_root = tempfile.mkdtemp(prefix='c10l_', dir=scratch())
    try:
        for i in range(n):
            if time.time() > hard_stop:
                break
            desc = gen_enum_desc(rng, kinds)
            inst_seed = rng.randrange(1 << 30)
            tmp = os.path.join(tmp_root, f'l{i}')
            try:
                fails = enum_case(desc, inst_seed, tmp, stats)
            finally:
                shutil.rmtree(tmp, ignore_errors=True)
            cases += 1
            for f in fails:
                if f['construct'] in seen:
                    stats['repeat_failures'] = stats.get('repeat_failures', 0) + 1
                    continue
                seen[f['construct']] = True
                small = shrink_enum_desc(desc, inst_seed, f['construct'], max_runs=120 if thorough else 45)
                tmp = tempfile.mkdtemp(prefix='c10l_', dir=scratch())
                try:
                    again = [g for g in enum_case(small, inst_seed, tmp) if g['construct'] == f['construct']]
                finally:
                    shutil.rmtree(tmp, ignore_errors=True)
                what = again[0]['what'] if again else f['what']
                out.fail({'property': 'C10', 'clause': 'enum-literal', 'construct': f['construct']},
                         f'enum-literal/{f["construct"]}: {what}',
                         {'scenario': 'enumlit', 'seed': ctx.seed, 'tier': ctx.tier, 'index': i,
                          'desc': small if again else desc, 'inst_seed': inst_seed,
                          'history': [['enum-metamodel', i], ['check', f['construct']]]})
    finally:
        shutil.rmtree(tmp_root, ignore_errors=True)
    out.coverage['enumlit_cases'] = cases
    out.coverage['enumlit_display_strings_by_kind'] = dict(sorted(kinds.items()))
    out.coverage['enumlit_instance_documents_cross_loaded'] = stats.get('docs', 0)
    out.coverage['enumlit_enum_attribute_values_compared'] = stats.get('enum_values', 0)
    out.coverage['enumlit_repeat_failures_of_a_reported_kind'] = stats.get('repeat_failures', 0)


# --------------------------------------------------------------------------- packages that declare the same nsPrefix
#
# nsPrefix is only a hint: two packages of one metamodel (a package and its sub-package, two root packages) may declare
# the same prefix as long as their nsURIs differ, and may hold classes of the same name.  The .ecore trip keeps both, and
# an instance document must say which package every object's class comes from: objects of sub-package classes in
# polymorphic containment slots (xsi:type is written there) and as roots load -- against the reloaded metamodel, against
# an independent copy of the original, and the other way round -- as objects of the very same qualified class.

def _pk(name, uri, prefix):
    return {'name': name, 'nsURI': uri, 'nsPrefix': prefix, 'annotations': [], 'classifiers': [], 'subpackages': []}


def gen_prefix_desc(rng, stats=None):
    """Packages sharing an nsPrefix; classes named like classes of other packages; and SUB-PACKAGES NAMED LIKE A
    CLASSIFIER of their parent package (legal Ecore: names are unique among the classifiers and among the sub-packages
    of a package, not across the two).  A fragment '#//X/Y' then has to be walked into the sub-package X.  The namesake
    classifier itself is never the target of a reference here: '#//X' meaning the class is known finding
    F-C10-namesake-classifier-referenced (see namesake_witnesses)."""
    P = rng.choice(['geo', 'geo', 'm', 'geo_1', 'p'])
    base = 'http://verif/c10/px/' + rng.choice(['a', 'b.c'])
    uid = [0]
    root = _pk('geo', base + '/1.0', P)
    shape = _cls('Shape', abstract=rng.random() < 0.5, features=[_attr('name', 'ecore:EString')])
    point = _cls('Point', supers=['Shape'], features=[_attr('x', 'ecore:EInt'), _attr('y', 'ecore:EInt')])
    drawing = _cls('Drawing', features=[_ref('shapes', 'Shape', upper=-1, containment=True),
                                        _ref('origin', 'Shape')])
    if rng.random() < 0.5:
        drawing['features'].append(_ref('main', 'Shape', containment=True))
    if rng.random() < 0.5:
        drawing['features'].append(_ref('marks', 'Shape', upper=-1))
    root['classifiers'] += [shape, point, drawing]
    rng.shuffle(root['classifiers'])
    roots = [root]
    pkgs = [(0, '', root)]                   # (root index, path inside that root, description)
    points = [(0, 'Point')]                  # (root index, path) of the classes named Point so far
    shapes = [(0, 'Shape'), (0, 'Point')]    # ... of all subclasses of Shape
    referenced = {(0, 'Shape')}              # classes something points to (supertype, type of a reference)
    reserved = set()                         # classes named like a sibling sub-package: never pointed to
    same_prefix = same_name = namesakes = refs_into_namesake = 0
    namesake_pkgs = []

    def join(path, nm):
        return (path + '/' if path else '') + nm

    def pick(pool, ri):
        cand = [x for x in pool if x not in reserved] or [(0, 'Shape')]
        k, q = rng.choice(cand)
        referenced.add((k, q))
        return q if k == ri else f'@{k}:{q}'

    def own_features(c, ri):
        for _ in range(rng.randint(0, 2)):
            uid[0] += 1
            if rng.random() < 0.25:
                c['features'].append(_ref(f'at{uid[0]}', pick(points, ri), upper=rng.choice([1, -1])))
            else:
                c['features'].append(_attr(f'z{uid[0]}', rng.choice(['ecore:EInt', 'ecore:EString']),
                                           upper=rng.choice([1, 1, -1])))

    def fill(ri, path, d):
        """classes of a further package: some named like classes of an earlier package"""
        nonlocal same_name
        names = rng.sample(['Point', 'Point', 'Label', 'Shape', 'Node'], rng.randint(1, 3))
        for nm in dict.fromkeys(names):
            sup = pick(points if nm == 'Point' and rng.random() < 0.7 else shapes, ri)
            c = _cls(nm, supers=[sup], abstract=rng.random() < 0.1)
            own_features(c, ri)
            d['classifiers'].append(c)
            q = join(path, nm)
            shapes.append((ri, q))
            if nm == 'Point':
                points.append((ri, q))
            if nm in ('Point', 'Shape'):
                same_name += 1
        if rng.random() < 0.3:
            c = _cls('Group', supers=[pick(shapes, ri)],
                     features=[_ref('members', pick(shapes, ri), upper=-1, containment=True)])
            d['classifiers'].append(c)

    for i in range(rng.choice([1, 1, 2, 3])):
        r = rng.random()
        prefix = P if r < 0.7 else (P + '_1' if r < 0.85 else f'q{i}')
        same_prefix += prefix == P
        if rng.random() < 0.25:
            d = _pk(f'ext{i}', f'{base}/ext{i}', prefix)              # another root package of the same resource
            roots.append(d)
            ri, path = len(roots) - 1, ''
        else:
            ri, ppath, parent = rng.choice(pkgs)
            nm = f'v{i + 2}'
            taken = {sp['name'] for sp in parent['subpackages']}
            free = [c['name'] for c in parent['classifiers']
                    if (ri, join(ppath, c['name'])) not in referenced and c['name'] not in taken]
            namesake = bool(free) and rng.random() < 0.5
            if namesake:
                nm = rng.choice(free)                  # sub-package named like a classifier nothing points to
                reserved.add((ri, join(ppath, nm)))
                namesakes += 1
            d = _pk(nm, f'{base}/{i + 2}.0', prefix)
            parent['subpackages'].append(d)
            path = join(ppath, nm)
            if namesake:
                namesake_pkgs.append((ri, path, d))
        fill(ri, path, d)
        pkgs.append((ri, path, d))
    # references from outside into the sub-packages that have a namesake classifier next to them
    for ri, path, d in namesake_pkgs:
        inside = [x for x in ((ri, join(path, c['name'])) for c in d['classifiers'] if c['name'] != 'Group')
                  if x not in reserved]
        for _ in range(rng.randint(0, 2)):
            if not inside:
                break
            uid[0] += 1
            owner = rng.choice([c for c in root['classifiers'] if c['name'] in ('Point', 'Drawing')])
            k, q = rng.choice(inside)
            owner['features'].append(_ref(f'nk{uid[0]}', q if k == 0 else f'@{k}:{q}', upper=rng.choice([1, -1])))
            refs_into_namesake += 1
    if stats is not None:
        for k, v in (('packages_declaring_a_prefix_already_taken', same_prefix),
                     ('classes_named_like_a_class_of_another_package', same_name),
                     ('metamodels_with_several_roots', int(len(roots) > 1)),
                     ('subpackages_named_like_a_sibling_classifier', namesakes),
                     ('extra_references_into_such_subpackages', refs_into_namesake)):
            stats[k] = stats.get(k, 0) + v
    return root if len(roots) == 1 else {'roots': roots}


# A classifier X next to a sub-package X that IS the target of a reference: its fragment '#//X' is also the fragment of
# the sub-package, and the resolver takes the sub-package (known finding F-C10-namesake-classifier-referenced).
NAMESAKE_SIG = {'property': 'C10', 'clause': 'namesake',
                'construct': 'classifier-referenced-by-fragment-resolves-to-sibling-subpackage'}


def namesake_witnesses():
    def pk(classifiers):
        d = _pkg(classifiers)
        sub = _pk('X', 'http://verif/c10/w/X', 'wx')
        sub['classifiers'].append(_cls('G'))
        d['subpackages'].append(sub)
        return d
    enum = {'kind': 'enum', 'name': 'X', 'literals': [['a', 0]], 'default': None, 'annotations': []}
    return [
        ('eType', pk([_cls('X'), _cls('A', features=[_ref('x', 'X')])])),
        ('eSuperTypes', pk([_cls('X'), _cls('A', supers=['X'])])),
        ('attribute-type', pk([enum, _cls('A', features=[_attr('k', 'X')])])),
    ]


def namesake_witness_case(desc, tmp):
    """-> None (round trip fine) or (kind, text)"""
    os.makedirs(tmp, exist_ok=True)
    orig = build(desc)
    sig0 = signature_all(orig)
    try:
        reloaded, _ = save_reload(orig, tmp)
    except Exception as e:
        known = type(e).__name__ == 'BadValueError' and 'EPackage' in str(e)
        return ('known' if known else 'other'), f'reload raises {type(e).__name__}: {e}'[:260]
    diffs = sig_diff(sig0, signature_all(reloaded))
    if diffs:
        lab, pair, p, a, b = diffs[0]
        return 'other', f'{pair[0]}.{pair[1]} at {p}: original {a} / reloaded {b}'
    return None


def namesake_witness_cases(ctx, out):
    n = seen = 0
    tmp_root = tempfile.mkdtemp(prefix='c10w_', dir=scratch())
    try:
        for j, (what, desc) in enumerate(namesake_witnesses()):
            r = namesake_witness_case(desc, os.path.join(tmp_root, f'w{j}'))
            n += 1
            if r is None:
                continue
            seen += 1
            kind, text = r
            sig = NAMESAKE_SIG if kind == 'known' else dict(NAMESAKE_SIG, construct='namesake-' + what + '-other-failure')
            out.fail(sig, f'class/enum X next to sub-package X, X used as {what}: {text}',
                     {'kind': 'namesake-witness', 'which': what, 'desc': desc})
    finally:
        shutil.rmtree(tmp_root, ignore_errors=True)
    out.coverage['namesake_classifier_referenced_witnesses'] = n
    out.coverage['namesake_classifier_referenced_witnesses_failing'] = seen


def _count_foreign(dump, home, acc):
    """objects whose class is not a class of the package named `home` (qualified name with a '/'): [contained, roots]"""
    def walk(o, depth):
        cls = o['class'].split('#', 1)[1]
        if '/' in cls or not o['class'].startswith(home):
            acc[0 if depth else 1] += 1
        for kids in o['kids'].values():
            for x in kids:
                walk(x, depth + 1)
    for o in dump:
        walk(o, 0)


def cross_load(src_mm, dst_mm, seed, tag, tmp, fails, stats=None, nper=2, gen=None):
    """a model over src_mm, saved against src_mm, loaded against dst_mm: the canonical dump of the model that was saved
    (classes by qualified package path)"""
    from pyecore.resources import URI
    try:
        roots = gen(src_mm, random.Random(seed)) if gen else gen_instances(src_mm, random.Random(seed), nper=nper)
    except Exception as e:
        fails.append({'construct': f'instantiate-{tag}', 'what': f'{type(e).__name__}: {e}'[:300]})
        return
    if not roots:
        return
    ipath = os.path.join(tmp, f'inst_{tag}.xmi')
    rs = fresh_rset()
    register(rs, src_mm)
    res = rs.create_resource(URI(ipath))
    res.extend(roots)
    want = dump_model(roots)
    try:
        res.save()
        rs1 = fresh_rset()
        register(rs1, dst_mm)
        got = dump_model(list(rs1.get_resource(URI(ipath)).contents))
    except Exception as e:
        got = ('raises', f'{type(e).__name__}: {e}'[:200])
    if stats is not None:
        stats['docs'] = stats.get('docs', 0) + 1
        stats['objects'] = stats.get('objects', 0) + _count_objs(want)
        acc = [0, 0]
        _count_foreign(want, qname(src_mm[0]).split('#')[0] + '#', acc)
        stats['contained_objects_of_a_further_package'] = stats.get('contained_objects_of_a_further_package', 0) + acc[0]
        stats['root_objects_of_a_further_package'] = stats.get('root_objects_of_a_further_package', 0) + acc[1]
    if got != want:
        a, b = tag.split('-to-')
        fails.append({'construct': f'cross-load-{tag}',
                      'what': f'model saved against the {a} metamodel, loaded against the {b} one, is not the model '
                              f'that was saved: '
                              + (f'load raises {got[1]}' if isinstance(got, tuple) else _first_dump_diff(want, got))})


def name_fragment_ties(roots, model, stats, diffs):
    """Correspondence of coq/Model/NameFrag.v (run_namefrag: the walk of name-based fragments, sub-packages first) with
    the running resolver: every package and every classifier of a loaded metamodel, its own fragment resolved by the
    resource, against the model's answer on the same names (numbers)."""
    E = ecore()
    res = roots[0].eResource
    for root in roots:
        num = {}

        def n(name):
            return num.setdefault(name, len(num) + 1)

        def enc(p):
            out = [n(p.name), len(p.eClassifiers)] + [n(c.name) for c in p.eClassifiers] + [len(p.eSubpackages)]
            for sp in p.eSubpackages:
                out += enc(sp)
            return out
        tree = enc(root)

        def names_of(o):
            names = []
            while o is not root and o is not None:
                names.append(o.name)
                o = o.eContainer()
            return list(reversed(names)) if o is root else None

        targets = []
        for p in all_packages(root):
            if p is not root:
                targets.append(p)
            targets.extend(p.eClassifiers)
        for t in targets:
            segs = [n(x) for x in names_of(t)]
            want = model.ask('namefrag', tree + [len(segs)] + segs)
            got_obj = None
            try:
                got_obj = res.resolve(t.eURIFragment())
                gn = names_of(got_obj) if got_obj is not None else None
                if gn is None:
                    got = [0]
                else:
                    got = [1 if isinstance(got_obj, E.EPackage) else 2] + [n(x) for x in gn]
            except Exception:
                got = [0]
            stats['name_fragments_resolved_in_model_and_implementation'] = \
                stats.get('name_fragments_resolved_in_model_and_implementation', 0) + 1
            if got_obj is not t:
                stats['name_fragments_designating_the_namesake_subpackage'] = \
                    stats.get('name_fragments_designating_the_namesake_subpackage', 0) + 1
            if list(want) != got:
                diffs.append((f'fragment {t.eURIFragment()} of {t.eClass.name} {t.name}: model (sub-packages first) '
                              f'{list(want)} / resource.resolve {got} (names as numbers {num})',
                              {'tree': tree, 'segments': segs}))


def prefix_case(desc, inst_seed, tmp, stats=None, model=None, diffs=None):
    """-> list of {'construct','what'}"""
    fails = []
    os.makedirs(tmp, exist_ok=True)
    orig = build(desc)
    sig0 = signature_all(orig)
    try:
        reloaded, path = save_reload(orig, tmp)
    except Exception as e:
        reloaded = None
        fails.append({'construct': 'save-or-load-raises', 'what': f'{type(e).__name__}: {e}'[:300]})
    if model is not None and orig[0].eResource is not None:
        name_fragment_ties(orig, model, stats, diffs)       # in the resource the metamodel was saved from
    if reloaded is None:
        return fails
    sdiffs = sig_diff(sig0, signature_all(reloaded))
    if sdiffs:
        lab, pair, p, a, b = sdiffs[0]
        fails.append({'construct': 'signature-' + lab,
                      'what': f'{pair[0]}.{pair[1]} at {p}: original {a} / reloaded {b} ({len(sdiffs)} place(s))'})
    probs = check_instantiable(reloaded, random.Random(inst_seed))
    if probs:
        fails.append({'construct': 'instantiate', 'what': '; '.join(probs[:3])})
    cross_load(orig, reloaded, inst_seed, 'original-to-reloaded', tmp, fails, stats)
    cross_load(orig, build(desc), inst_seed + 2, 'original-to-original', tmp, fails, stats)
    cross_load(reloaded, build(desc), inst_seed + 1, 'reloaded-to-original', tmp, fails, stats)
    return fails


def nsprefix_scenarios(ctx, out):
    """Scenario family 'nsprefix' (own PRNG stream)."""
    ecore()
    rng = common.rng_for(ctx.seed, 'C10:nsprefix')
    thorough = ctx.tier == 'thorough'
    n = 1500 if thorough else 150
    hard_stop = time.time() + (120 if thorough else 30)       # safety net only; the count decides
    stats, kinds, seen = {}, {}, {}
    cases = 0
    diffs = []
    try:
        model = common.Model()
    except Exception as e:
        model = None
        out.diff(f'extracted model unavailable: {e}', {})
    tmp_root = tempfile.mkdtemp(prefix='c10n_', dir=scratch())
    try:
        for i in range(n):
            if time.time() > hard_stop:
                break
            desc = gen_prefix_desc(rng, kinds)
            inst_seed = rng.randrange(1 << 30)
            tmp = os.path.join(tmp_root, f'n{i}')
            try:
                try:
                    fails = prefix_case(desc, inst_seed, tmp, stats, model, diffs)
                except Exception as e:
                    if model is None or 'model' not in str(e).lower():
                        raise
                    out.diff(f'run_namefrag failed: {e}', {})
                    model = None
                    fails = prefix_case(desc, inst_seed, tmp, stats)
            finally:
                shutil.rmtree(tmp, ignore_errors=True)
            cases += 1
            if diffs:
                what, c = diffs[0]
                if not seen.get('tie'):
                    seen['tie'] = True
                    out.diff('name-based fragments: ' + what, dict(c, desc=desc))
                del diffs[:]
            for f in fails:
                if f['construct'] in seen:
                    stats['repeat_failures'] = stats.get('repeat_failures', 0) + 1
                    continue
                seen[f['construct']] = True
                small = shrink_enum_desc(desc, inst_seed, f['construct'], max_runs=120 if thorough else 45,
                                         case_fn=prefix_case)
                tmp = tempfile.mkdtemp(prefix='c10n_', dir=scratch())
                try:
                    again = [g for g in prefix_case(small, inst_seed, tmp) if g['construct'] == f['construct']]
                finally:
                    shutil.rmtree(tmp, ignore_errors=True)
                what = again[0]['what'] if again else f['what']
                out.fail({'property': 'C10', 'clause': 'package-naming', 'construct': f['construct']},
                         f'package-naming/{f["construct"]}: {what}',
                         {'scenario': 'nsprefix', 'seed': ctx.seed, 'tier': ctx.tier, 'index': i,
                          'desc': small if again else desc, 'inst_seed': inst_seed,
                          'history': [['prefix-metamodel', i], ['check', f['construct']]]})
    finally:
        shutil.rmtree(tmp_root, ignore_errors=True)
        if model is not None:
            model.close()
    out.coverage['nsprefix_name_fragments_resolved_in_model_and_implementation'] = \
        stats.get('name_fragments_resolved_in_model_and_implementation', 0)
    out.coverage['nsprefix_name_fragments_designating_the_namesake_subpackage'] = \
        stats.get('name_fragments_designating_the_namesake_subpackage', 0)
    if 'traces_validated_against_impl' in out.coverage:
        out.coverage['traces_validated_against_impl'] += \
            stats.get('name_fragments_resolved_in_model_and_implementation', 0)
    out.coverage['nsprefix_cases'] = cases
    out.coverage['nsprefix_metamodels'] = dict(sorted(kinds.items()))
    out.coverage['nsprefix_instance_documents_cross_loaded'] = stats.get('docs', 0)
    out.coverage['nsprefix_instance_objects'] = stats.get('objects', 0)
    out.coverage['nsprefix_contained_objects_of_a_further_package'] = \
        stats.get('contained_objects_of_a_further_package', 0)
    out.coverage['nsprefix_root_objects_of_a_further_package'] = stats.get('root_objects_of_a_further_package', 0)
    out.coverage['nsprefix_repeat_failures_of_a_reported_kind'] = stats.get('repeat_failures', 0)


# --------------------------------------------------------------------------- types of another, registered metamodel
#
# The saved metamodel P takes super types, attribute/reference types, operation/parameter types and exceptions from a
# metamodel Q that lives in NO resource and is only known through the metamodel registry (of the ResourceSet, or the
# global one): under its nsURI, under another agreed key (an alias / stable URI), under both, or under an nsURI that
# was changed after the registration.  P is saved, reloaded in a fresh ResourceSet where Q is known the same way, and
# has the same structural signature; the cross-package targets of the reloaded P are the very objects of Q.

def _op(name, ty, params, exceptions, upper=1):
    return {'name': name, 'type': ty, 'lower': 0, 'upper': upper, 'ordered': True, 'unique': True,
            'params': [{'name': n, 'type': t, 'required': req, 'lower': 0, 'upper': u, 'ordered': True, 'unique': True}
                       for n, t, req, u in params], 'exceptions': exceptions}


EXT_REGISTRATIONS = ['nsuri', 'alias', 'both', 'alias-first', 'nsuri-changed-later']
EXT_WHERE = ['rset', 'rset', 'global']


def gen_ext_desc(rng, stats=None):
    """{'roots': [Q, P]}: Q is never put into a resource; P refers to it through '@0:' paths."""
    base = 'http://verif/c10/ext/' + rng.choice(['a', 'b.c'])
    q = _pk('base', base + '/base/2.0', rng.choice(['base', 'b']))
    qsub = None
    if rng.random() < 0.4:
        qsub = _pk('types', base + '/base/2.0/types', 'bt')
        q['subpackages'].append(qsub)

    def qplace(c):
        d = qsub if qsub is not None and rng.random() < 0.5 else q
        d['classifiers'].append(c)
        return '@0:' + ('types/' if d is qsub else '') + c['name']
    qclasses = [qplace(_cls('Named', abstract=rng.random() < 0.6, features=[_attr('qname', 'ecore:EString')]))]
    if rng.random() < 0.7:
        qclasses.append(qplace(_cls('Thing', features=[_attr('qsize', 'ecore:EInt')])))
    if rng.random() < 0.4:
        qclasses.append(qplace(_cls('Special', supers=[qclasses[0][3:]], features=[_attr('qflag', 'ecore:EBoolean')])))
    qenum = qplace({'kind': 'enum', 'name': 'Kind', 'literals': [['SMALL', 0], ['LARGE', 1]], 'default': None,
                    'annotations': []})
    qdt = qplace({'kind': 'datatype', 'name': 'Failure', 'instanceClassName': 'java.lang.Exception',
                  'annotations': []})
    p = _pk('app', base + '/app', 'app')
    psub = None
    if rng.random() < 0.3:
        psub = _pk('inner', base + '/app/inner', 'inner')
        p['subpackages'].append(psub)
    uid = [0]
    counts = {}

    def note(k):
        counts[k] = counts.get(k, 0) + 1
    local = []
    for i in range(rng.randint(1, 4)):
        c = _cls(f'C{i}', abstract=rng.random() < 0.15)
        supers = []
        if local and rng.random() < 0.4:
            supers.append(rng.choice(local))
        if rng.random() < 0.6:
            supers.append(rng.choice(qclasses))
            note('super types')
        # one inheritance line must not reach a Q class twice through different orders: at most one Q super, and
        # local supers only when they have no Q super themselves (keeps C3 trivially consistent)
        if len(supers) == 2 and any(x.startswith('@0:') for x in _cls_by_path(p, supers[0])['supers']):
            supers = supers[1:]
        c['supers'] = supers
        for _ in range(rng.randint(0, 3)):
            uid[0] += 1
            r = rng.random()
            if r < 0.3:
                c['features'].append(_attr(f'pa{uid[0]}', qenum, upper=rng.choice([1, 1, -1])))
                note('attribute types (enum)')
            elif r < 0.4:
                c['features'].append(_attr(f'pd{uid[0]}', qdt))
                note('attribute types (data type)')
            elif r < 0.75:
                c['features'].append(_ref(f'pr{uid[0]}', rng.choice(qclasses), upper=rng.choice([1, -1]),
                                          containment=rng.random() < 0.3))
                note('reference types')
            else:
                c['features'].append(_attr(f'pl{uid[0]}', 'ecore:EString'))
        for _ in range(rng.choice([0, 0, 1, 2])):
            uid[0] += 1
            params = []
            for k in range(rng.randint(0, 2)):
                t = rng.choice([qenum, rng.choice(qclasses), 'ecore:EInt'])
                params.append((f'x{k}', t, True, rng.choice([1, 1, -1, 2, 5])))
                if t.startswith('@0:'):
                    note('parameter types')
            ty = rng.choice([None, 'ecore:EInt', rng.choice(qclasses), qenum])
            if ty and ty.startswith('@0:'):
                note('operation types')
            exc = []
            if rng.random() < 0.5:
                exc.append(rng.choice([qdt, rng.choice(qclasses)]))
                note('exceptions')
            c['operations'].append(_op(f'op{uid[0]}', ty, params, exc, upper=rng.choice([1, 1, -1, 2, 5])))
        d = psub if psub is not None and rng.random() < 0.4 else p
        d['classifiers'].append(c)
        local.append(('inner/' if d is psub else '') + c['name'])
    if not any(counts.values()):
        uid[0] += 1
        c['features'].append(_ref(f'pr{uid[0]}', qclasses[0]))
        note('reference types')
    if stats is not None:
        for k, v in counts.items():
            stats[k] = stats.get(k, 0) + v
    return {'roots': [q, p]}


def _cls_by_path(root, path):
    d = root
    names = path.split('/')
    for n in names[:-1]:
        d = next(s for s in d['subpackages'] if s['name'] == n)
    return next(c for c in d['classifiers'] if c['name'] == names[-1])


def _register_ext(rs, q, how, where, alias, undo):
    """Q known to the ResourceSet `rs` the way `how` says -> nothing; global keys are recorded in `undo`"""
    from pyecore.resources import global_registry
    reg = rs.metamodel_registry if where == 'rset' else global_registry

    def put(k):
        reg[k] = q
        if reg is global_registry:
            undo.append(k)
    if how in ('nsuri', 'both', 'nsuri-changed-later'):
        put(q.nsURI)
    if how in ('alias', 'both', 'alias-first'):
        put(alias)
    if how == 'alias-first':
        put(q.nsURI)


def _cross_targets(proots, q):
    """the objects outside P that P's classes point to (super types, types, exceptions), in a fixed order"""
    out = []

    def note(what, t):
        if t is None:
            return
        t = t.eClass if isinstance(t, type) else t
        try:
            t = t.force_resolve()
        except Exception:
            out.append((what, 'unresolved'))
            return
        if t.eRoot() is q:
            out.append((what, id(t)))
    for c in all_eclasses(proots):
        for x in c.eSuperTypes:
            note(f'{c.name} super', x)
        for f in c.eStructuralFeatures:
            note(f'{c.name}.{f.name} type', f.eType)
        for o in c.eOperations:
            note(f'{c.name}.{o.name}() type', o.eType)
            for x in o.eExceptions:
                note(f'{c.name}.{o.name}() raises', x)
            for a in o.eParameters:
                note(f'{c.name}.{o.name}({a.name}) type', a.eType)
    return out


def ext_case(desc, how, where, inst_seed, tmp, stats=None):
    """-> list of {'construct','what'}"""
    from pyecore.resources import URI, global_registry
    fails = []
    os.makedirs(tmp, exist_ok=True)
    q, p = build(desc)
    alias = q.nsURI.rsplit('/', 1)[0]                    # the stable key: the nsURI without its version
    undo = []
    try:
        rs = fresh_rset()
        _register_ext(rs, q, how, where, alias, undo)
        if how == 'nsuri-changed-later':
            q.nsURI = q.nsURI + '.1'                     # a new version; the registration keeps the agreed key
        sig0 = signature_all([p])
        want = _cross_targets([p], q)
        path = os.path.join(tmp, 'app.ecore')
        res = rs.create_resource(URI(path))
        res.append(p)
        try:
            res.save()
        except Exception as e:
            return [{'construct': 'save-raises', 'what': f'{type(e).__name__}: {e}'[:300]}]
        for k in undo:
            global_registry.pop(k, None)
        del undo[:]
        # somebody else reads the file; Q is known there in the same way (same keys, same objects)
        rs2 = fresh_rset()
        reg2 = rs2.metamodel_registry if where == 'rset' else global_registry
        keys = {'nsuri': [q.nsURI], 'alias': [alias], 'both': [q.nsURI, alias], 'alias-first': [alias, q.nsURI],
                'nsuri-changed-later': [q.nsURI[:-2]]}[how]
        for k in keys:
            reg2[k] = q
            if reg2 is global_registry:
                undo.append(k)
        try:
            reloaded = list(rs2.get_resource(URI(path)).contents)
            sig1 = signature_all(reloaded)
            got = _cross_targets(reloaded, q)
        except Exception as e:
            return [{'construct': 'reload-raises', 'what': f'{type(e).__name__}: {e}'[:300]}]
        diffs = sig_diff(sig0, sig1)
        if diffs:
            lab, pair, pth, a, b = diffs[0]
            fails.append({'construct': 'signature-' + lab,
                          'what': f'{pair[0]}.{pair[1]} at {pth}: saved {a} / reloaded {b} ({len(diffs)} place(s))'})
        elif got != want:
            i = next((i for i, (x, y) in enumerate(zip(want, got)) if x != y), min(len(want), len(got)))
            fails.append({'construct': 'cross-package-target-identity',
                          'what': f'{(want + [("end", 0)])[i][0]}: the reloaded metamodel does not point to the object '
                                  f'of the registered metamodel'})
        if stats is not None:
            stats['cross_package_references_compared'] = stats.get('cross_package_references_compared', 0) + len(want)
        probs = check_instantiable(reloaded, random.Random(inst_seed))
        if probs:
            fails.append({'construct': 'instantiate', 'what': '; '.join(probs[:3])})
    finally:
        for k in undo:
            global_registry.pop(k, None)
    return fails


def extmm_scenarios(ctx, out):
    """Scenario family 'extmm' (own PRNG stream)."""
    ecore()
    rng = common.rng_for(ctx.seed, 'C10:extmm')
    thorough = ctx.tier == 'thorough'
    n = 1500 if thorough else 160
    hard_stop = time.time() + (120 if thorough else 25)       # safety net only; the count decides
    stats, kinds, seen, modes = {}, {}, {}, {}
    cases = 0
    tmp_root = tempfile.mkdtemp(prefix='c10x_', dir=scratch())
    try:
        for i in range(n):
            if time.time() > hard_stop:
                break
            desc = gen_ext_desc(rng, kinds)
            how, where = rng.choice(EXT_REGISTRATIONS), rng.choice(EXT_WHERE)
            inst_seed = rng.randrange(1 << 30)
            tmp = os.path.join(tmp_root, f'x{i}')
            try:
                fails = ext_case(desc, how, where, inst_seed, tmp, stats)
            finally:
                shutil.rmtree(tmp, ignore_errors=True)
            cases += 1
            modes[f'{how}/{where}'] = modes.get(f'{how}/{where}', 0) + 1
            for f in fails:
                if f['construct'] in seen:
                    stats['repeat_failures'] = stats.get('repeat_failures', 0) + 1
                    continue
                seen[f['construct']] = True

                def case_fn(d, s_, t_):
                    if len(roots_of(d)) != 2:
                        return []
                    return ext_case(d, how, where, s_, t_)
                small = shrink_enum_desc(desc, inst_seed, f['construct'], max_runs=120 if thorough else 45,
                                         case_fn=case_fn)
                tmp = tempfile.mkdtemp(prefix='c10x_', dir=scratch())
                try:
                    again = [g for g in case_fn(small, inst_seed, tmp) if g['construct'] == f['construct']]
                finally:
                    shutil.rmtree(tmp, ignore_errors=True)
                what = again[0]['what'] if again else f['what']
                out.fail({'property': 'C10', 'clause': 'registered-metamodel', 'construct': f['construct']},
                         f'registered-metamodel/{f["construct"]} (the other metamodel is in no resource, registered '
                         f'{how} in the {where} registry): {what}',
                         {'scenario': 'extmm', 'seed': ctx.seed, 'tier': ctx.tier, 'index': i, 'registration': how,
                          'registry': where, 'desc': small if again else desc, 'inst_seed': inst_seed,
                          'history': [['two-metamodels', i, how, where], ['check', f['construct']]]})
    finally:
        shutil.rmtree(tmp_root, ignore_errors=True)
    out.coverage['extmm_cases'] = cases
    out.coverage['extmm_registration_modes'] = dict(sorted(modes.items()))
    out.coverage['extmm_references_into_the_registered_metamodel_by_kind'] = dict(sorted(kinds.items()))
    out.coverage['extmm_cross_package_references_compared'] = stats.get('cross_package_references_compared', 0)
    out.coverage['extmm_repeat_failures_of_a_reported_kind'] = stats.get('repeat_failures', 0)


# --------------------------------------------------------------------------- ids on the roots of an instance document
#
# The iD flag of an attribute travels through the .ecore file, and an object whose id is set is referred to by that id.
# That also holds for the ROOT objects of a document: inner objects point back to their root, roots of a multi-root
# document point to each other, a root points to itself.  The document saved against the original metamodel loads against
# the reloaded one (and against a copy of the original, and the other way round) into the model that was saved.

def gen_idroot_desc(rng, stats=None):
    idtype = rng.choice(['ecore:EString', 'ecore:EString', 'ecore:EInt'])
    root = _pk('org', 'http://verif/c10/ids/' + rng.choice(['a', 'b.c']), 'org')
    sub = None
    if rng.random() < 0.3:
        sub = _pk('parts', root['nsURI'] + '/parts', 'parts')
        root['subpackages'].append(sub)
    inherited = rng.random() < 0.4
    if inherited:
        root['classifiers'].append(_cls('Named', abstract=True, features=[_attr('code', idtype, iD=True)]))
    unit = _cls('Unit', supers=['Named'] if inherited else [],
                features=([] if inherited else [_attr('code', idtype, iD=True)]) + [_attr('label', 'ecore:EString')])
    part_id = rng.choice(['inherited', 'own', 'none']) if inherited else rng.choice(['own', 'none'])
    part = _cls('Part', supers=['Named'] if part_id == 'inherited' else [],
                features=([_attr('pid', idtype, iD=True)] if part_id == 'own' else []) + [_attr('size', 'ecore:EInt')])
    ppath = ('parts/' if sub is not None else '') + 'Part'
    unit['features'] += [_ref('parts', ppath, upper=-1, containment=True),
                         _ref('reportsTo', 'Unit'), _ref('peers', 'Unit', upper=-1)]
    if rng.random() < 0.5:
        unit['features'].append(_ref('units', 'Unit', upper=-1, containment=True))
    if rng.random() < 0.4:
        unit['features'].append(_ref('chief', ppath))
    part['features'] += [_ref('owner', 'Unit')]
    if rng.random() < 0.5:
        part['features'].append(_ref('watchers', 'Unit', upper=-1))
    if rng.random() < 0.4:
        part['features'].append(_ref('next', ppath))
    # features named like the local names of XMI/XSI syntax (xmi:version, xsi:type, xmi:id, xsi:nil, xsi:schemaLocation,
    # xmi:idref, xmi:uuid): on the root class and on inner classes, string and integer typed, attribute or reference.
    # ('href' is known finding F-C08-href-feature-name: not generated.)
    for c in (unit, part):
        for nm in rng.sample(XMI_SYNTAX_NAMES, rng.choice([0, 1, 2, 3])):
            if any(f['name'] == nm for f in c['features']):
                continue
            if rng.random() < 0.2:
                c['features'].append(_ref(nm, 'Unit', upper=rng.choice([1, 1, -1])))
            else:
                c['features'].append(_attr(nm, rng.choice(['ecore:EString', 'ecore:EString', 'ecore:EInt']),
                                           upper=rng.choice([1, 1, 1, -1])))
            if stats is not None:
                stats[f'features named {nm}'] = stats.get(f'features named {nm}', 0) + 1
    # many-valued string attributes (values with tabs, line breaks, other white space: gen_id_instances)
    for c in (unit, part):
        if rng.random() < 0.7:
            c['features'].append(_attr('notes', 'ecore:EString', upper=-1, unique=rng.random() < 0.5))
    # plain stored attributes flagged volatile / unsettable / not changeable (never transient or derived): stored in
    # the object like any other, saved and loaded like any other
    for c in (unit, part):
        for f in c['features']:
            if f['kind'] == 'attr' and not f['iD'] and rng.random() < 0.3:
                flag = rng.choice(['volatile', 'volatile', 'unsettable', 'changeable'])
                f[flag] = flag != 'changeable'
                if stats is not None:
                    stats[f'attributes flagged {flag}' + ('=False' if flag == 'changeable' else '')] = \
                        stats.get(f'attributes flagged {flag}' + ('=False' if flag == 'changeable' else ''), 0) + 1
        # the Java-side names of the classifier
        if rng.random() < 0.4:
            c['instanceTypeName'] = rng.choice(['org.acme.' + c['name'], 'java.util.Map<K, V>', 'x.Y$Z'])
        if rng.random() < 0.3:
            c['instanceClassName'] = rng.choice(['org.acme.' + c['name'] + 'Impl', 'java.lang.Object'])
    root['classifiers'].append(unit)
    (sub if sub is not None else root)['classifiers'].append(part)
    if stats is not None:
        k = f'id type {idtype[6:]}, declared {"in a super type" if inherited else "by the root class"}'
        stats[k] = stats.get(k, 0) + 1
    return root


XMI_SYNTAX_NAMES = ['version', 'type', 'id', 'nil', 'schemaLocation', 'idref', 'uuid', 'xmi', 'xsi']
WS_TEXTS = ['name\tprice', 'nail\t2', 'two\nlines', 'a\n\tb', 'x\u00a0y', 'thin\u2009space', 'wide\u3000gap', 'plain',
            'em\u2003dash']      # (no control characters XML cannot carry)
SYNTAX_TEXTS = ['1.7', 'release two', 'org:Unit', 'true', 'http://a b', 'x', '2.0.1', '#//Unit']
ID_TEXTS = ['HQ', 'U2', 'north', 'x-1', 'B_7', 'Zeta', 'a.b', 'r0', 'K', 'unit9', 'É1', 'p:q']
ID_STATS = {}


def gen_id_instances(mm, rng):
    """1-3 root Units (ids mostly set) with Parts and nested Units; references to roots from inside, between roots, to
    oneself; targets without id are referred to by position"""
    by = {c.name: c for c in all_eclasses(mm)}
    Unit, Part = by['Unit'], by['Part']
    st = ID_STATS
    ids = iter(rng.sample(ID_TEXTS, len(ID_TEXTS)))
    num = iter(rng.sample(range(1, 500), 40))

    def set_id(o, p):
        f = next((a for a in o.eClass.eAllAttributes() if a.iD), None)
        if f is not None and rng.random() < p:
            try:
                o.eSet(f, next(num) if f.eType.name == 'EInt' else next(ids))
            except StopIteration:
                return False
            return True
        return False
    roots, units, parts, with_id = [], [], [], set()
    for _ in range(rng.choice([1, 1, 2, 3])):
        u = Unit()
        st['roots'] = st.get('roots', 0) + 1
        if set_id(u, 0.85):
            st['roots with id'] = st.get('roots with id', 0) + 1
            with_id.add(id(u))
        if rng.random() < 0.6:
            u.label = rng.choice(['main', 'two words', 'x'])
        roots.append(u)
        units.append(u)
    has_units = Unit.findEStructuralFeature('units') is not None
    for u in list(roots):
        for _ in range(rng.randint(0, 3)):
            q = Part()
            set_id(q, 0.6)
            q.size = rng.randint(0, 9)
            u.parts.append(q)
            parts.append(q)
        if has_units and rng.random() < 0.5:
            v = Unit()
            set_id(v, 0.7)
            u.units.append(v)
            units.append(v)
            for _ in range(rng.randint(0, 2)):
                q = Part()
                set_id(q, 0.6)
                v.parts.append(q)
                parts.append(q)

    def to_root(x):
        if x in roots:
            st['references to a root'] = st.get('references to a root', 0) + 1
            if id(x) in with_id:
                st['references to a root by id'] = st.get('references to a root by id', 0) + 1
        return x
    for q in parts:
        if rng.random() < 0.8:
            q.owner = to_root(rng.choice(roots if rng.random() < 0.7 else units))
        if Part.findEStructuralFeature('watchers') is not None and rng.random() < 0.5:
            for x in rng.sample(units, rng.randint(1, min(2, len(units)))):
                q.watchers.append(to_root(x))
        if Part.findEStructuralFeature('next') is not None and rng.random() < 0.4:
            q.next = rng.choice(parts)
    for u in units:
        if rng.random() < 0.6:
            u.reportsTo = to_root(rng.choice(roots if rng.random() < 0.7 else units))      # possibly itself
        if rng.random() < 0.5:
            for x in rng.sample(units, rng.randint(1, min(3, len(units)))):
                u.peers.append(to_root(x))
        if parts and Unit.findEStructuralFeature('chief') is not None and rng.random() < 0.5:
            u.chief = rng.choice(parts)
    for o in units + parts:
        f = o.eClass.findEStructuralFeature('notes')
        if f is not None and rng.random() < 0.7:
            vals = rng.sample(WS_TEXTS, rng.randint(1, 3))            # no blank, no empty value
            o.eGet(f).extend(vals)
            st['many-valued string values with white space other than a blank'] = \
                st.get('many-valued string values with white space other than a blank', 0) \
                + sum(1 for v in vals if v != 'plain')
    for o in units + parts:
        for f in o.eClass.eAllAttributes():
            if f.volatile or f.unsettable or not f.changeable:
                if o.eGet(f) not in (None, [], '') and (f.many and len(o.eGet(f)) or not f.many and f in o._isset):
                    st['values of flagged attributes'] = st.get('values of flagged attributes', 0) + 1
    for o in units + parts:
        for f in o.eClass.eAllStructuralFeatures():
            if f.name not in XMI_SYNTAX_NAMES or rng.random() < 0.35:
                continue                                     # left unset
            k = 'on a root' if o in roots else 'on an inner object'
            st[f'syntax-named features set {k}'] = st.get(f'syntax-named features set {k}', 0) + 1
            if f.is_reference:
                if f.many:
                    o.eGet(f).extend(rng.sample(units, rng.randint(1, min(2, len(units)))))
                else:
                    o.eSet(f, rng.choice(units))
            else:
                def val():
                    return rng.randint(-5, 99) if f.eType.name == 'EInt' else rng.choice(SYNTAX_TEXTS)
                if f.many:
                    vals = []
                    for _ in range(rng.randint(1, 3)):
                        v = val()
                        if v not in vals and not (isinstance(v, str) and ' ' in v):
                            vals.append(v)          # many-valued strings with blanks: C08's business, not generated
                    if vals:
                        o.eGet(f).extend(vals)
                else:
                    o.eSet(f, val())
    return roots


def idroot_case(desc, inst_seed, tmp, stats=None):
    """-> list of {'construct','what'}"""
    fails = []
    os.makedirs(tmp, exist_ok=True)
    orig = build(desc)
    sig0 = signature_all(orig)
    try:
        reloaded, path = save_reload(orig, tmp)
    except Exception as e:
        return [{'construct': 'save-or-load-raises', 'what': f'{type(e).__name__}: {e}'[:300]}]
    sdiffs = sig_diff(sig0, signature_all(reloaded))
    if sdiffs:
        lab, pair, p, a, b = sdiffs[0]
        fails.append({'construct': 'signature-' + lab,
                      'what': f'{pair[0]}.{pair[1]} at {p}: original {a} / reloaded {b} ({len(sdiffs)} place(s))'})
    cross_load(orig, reloaded, inst_seed, 'original-to-reloaded', tmp, fails, stats, gen=gen_id_instances)
    cross_load(orig, build(desc), inst_seed + 2, 'original-to-original', tmp, fails, stats, gen=gen_id_instances)
    cross_load(reloaded, build(desc), inst_seed + 1, 'reloaded-to-original', tmp, fails, stats, gen=gen_id_instances)
    return fails


def idroot_scenarios(ctx, out):
    """Scenario family 'idroot' (own PRNG stream)."""
    ecore()
    rng = common.rng_for(ctx.seed, 'C10:idroot')
    thorough = ctx.tier == 'thorough'
    n = 1500 if thorough else 120
    hard_stop = time.time() + (120 if thorough else 20)       # safety net only; the count decides
    stats, kinds, seen = {}, {}, {}
    ID_STATS.clear()
    cases = 0
    tmp_root = tempfile.mkdtemp(prefix='c10i_', dir=scratch())
    try:
        for i in range(n):
            if time.time() > hard_stop:
                break
            desc = gen_idroot_desc(rng, kinds)
            inst_seed = rng.randrange(1 << 30)
            tmp = os.path.join(tmp_root, f'i{i}')
            try:
                fails = idroot_case(desc, inst_seed, tmp, stats)
            finally:
                shutil.rmtree(tmp, ignore_errors=True)
            cases += 1
            for f in fails:
                if f['construct'] in seen:
                    stats['repeat_failures'] = stats.get('repeat_failures', 0) + 1
                    continue
                seen[f['construct']] = True
                keep = dict(ID_STATS)
                small = shrink_enum_desc(desc, inst_seed, f['construct'], max_runs=100 if thorough else 30,
                                         case_fn=idroot_case)
                tmp = tempfile.mkdtemp(prefix='c10i_', dir=scratch())
                try:
                    again = [g for g in idroot_case(small, inst_seed, tmp) if g['construct'] == f['construct']]
                except Exception:
                    again = []
                finally:
                    shutil.rmtree(tmp, ignore_errors=True)
                ID_STATS.clear()
                ID_STATS.update(keep)
                what = again[0]['what'] if again else f['what']
                out.fail({'property': 'C10', 'clause': 'ids-on-roots', 'construct': f['construct']},
                         f'ids-on-roots/{f["construct"]}: {what}',
                         {'scenario': 'idroot', 'seed': ctx.seed, 'tier': ctx.tier, 'index': i,
                          'desc': small if again else desc, 'inst_seed': inst_seed,
                          'history': [['id-metamodel', i], ['check', f['construct']]]})
    finally:
        shutil.rmtree(tmp_root, ignore_errors=True)
    out.coverage['idroot_cases'] = cases
    out.coverage['idroot_metamodels'] = dict(sorted(kinds.items()))
    out.coverage['idroot_instance_documents_cross_loaded'] = stats.get('docs', 0)
    out.coverage['idroot_instance_objects'] = stats.get('objects', 0)
    out.coverage['idroot_documents'] = dict(sorted(ID_STATS.items()))
    out.coverage['idroot_repeat_failures_of_a_reported_kind'] = stats.get('repeat_failures', 0)


# --------------------------------------------------------------------------- run / replay

def sig_of(f):
    return {'property': 'C10', 'clause': f['clause'], 'construct': f['construct']}


def _ref(name, ty, **kw):
    d = {'kind': 'ref', 'name': name, 'type': ty, 'lower': 0, 'upper': 1, 'ordered': True, 'unique': True,
         'containment': False, 'derived': False, 'transient': False, 'changeable': True, 'volatile': False,
         'unsettable': False, 'opposite': None, 'annotations': []}
    d.update(kw)
    return d


def _cls(name, **kw):
    d = {'kind': 'class', 'name': name, 'abstract': False, 'supers': [], 'features': [], 'operations': [],
         'annotations': []}
    d.update(kw)
    return d


def _pkg(classifiers):
    return {'name': 'w', 'nsURI': 'http://verif/c10/w', 'nsPrefix': 'w', 'annotations': [],
            'classifiers': classifiers, 'subpackages': []}


# minimal witnesses of the defects this check found (fixed in /repo); evaluated first on every run
def _twins():
    def one(extra):
        return [_cls('Node', abstract=True, features=[extra, _ref('leaves', 'Leaf', upper=-1, opposite='Leaf/owner')]),
                _cls('Leaf', supers=['Node'], features=[_ref('owner', 'Node', opposite='Node/leaves')])]
    attr = {'kind': 'attr', 'type': 'ecore:EString', 'lower': 0, 'upper': 1, 'ordered': True, 'unique': True,
            'iD': False, 'derived': False, 'transient': False, 'changeable': True, 'volatile': False,
            'unsettable': False, 'defaultValueLiteral': None, 'annotations': []}
    a, b = _pkg(one(dict(attr, name='label'))), _pkg(one(dict(attr, name='weight', type='ecore:EInt')))
    a.update(name='v1', nsURI='http://verif/c10/v1', nsPrefix='v1')
    b.update(name='v2', nsURI='http://verif/c10/v2', nsPrefix='v2')
    b['classifiers'][1]['features'].append(_ref('previous', '@0:Leaf'))
    return {'roots': [a, b]}


REGRESSIONS_LATE = [
    ('two root packages with equal classifier and feature names in one .ecore file: references stay inside '
     'their own root (seeded regression C10_1: fragment cache shared between roots)', _twins),
]

REGRESSIONS = [
    ('eOpposite set programmatically was never written (fixed dc5c1f6)',
     _pkg([_cls('A', features=[_ref('bs', 'B', upper=-1, opposite='B/a')]),
           _cls('B', features=[_ref('a', 'A', opposite='A/bs')])])),
    ('container end: the opposite of a containment',
     _pkg([_cls('A', features=[_ref('kids', 'B', upper=-1, containment=True, opposite='B/parent')]),
           _cls('B', features=[_ref('parent', 'A', opposite='A/kids')])])),
    ("'ecore:EClass uri#frag' inside a many-valued reference attribute could not be loaded (fixed, xmi.py)",
     _pkg([_cls('A', supers=['ecore:EModelElement']), _cls('B', supers=['A', 'ecore:ENamedElement'])])),
]


def run(ctx, out):
    ecore()
    thorough = ctx.tier == 'thorough'
    t_start = time.time()
    budget = 420 if thorough else 18
    ncases = 4000 if thorough else 600
    stats = {'nondefault': {}}
    rng = ctx.rng
    # --- (c) the two lists of signature features agree
    cf = coq_signature_features()
    if cf != SIGNATURE_FEATURES:
        out.diff('Model/EcoreTable.v signature_features differs from the harness list',
                 {'coq': cf, 'harness': SIGNATURE_FEATURES})
    # --- (a) table vs live reflection
    rows, table = table_vs_reflection(out)
    if table['unrecognised']:
        out.diff('translator refused statements of the self-description: ' + '; '.join(table['unrecognised'][:3]),
                 {'unrecognised': table['unrecognised']})
    # --- generated metamodels
    lost_pairs = {}
    seen_fail = {}
    evaluated = 0
    shapes = set()
    samples = []
    sizes = {}
    nroots = {}
    tmp_root = tempfile.mkdtemp(prefix='c10_', dir=scratch())
    try:
        for j, (what, desc) in enumerate(REGRESSIONS + [(w, f()) for w, f in REGRESSIONS_LATE]):
            tmp = os.path.join(tmp_root, f'r{j}')
            os.makedirs(tmp)
            for f in evaluate(desc, 12345, tmp, stats):
                for pair in f['pairs']:
                    lost_pairs[tuple(pair)] = lost_pairs.get(tuple(pair), 0) + 1
                seen_fail[(f['clause'], f['construct'])] = True
                out.fail(sig_of(f), f'{f["clause"]}/{f["construct"]}: {f["what"]} [regression witness: {what}]',
                         {'kind': 'generated', 'desc': desc, 'inst_seed': 12345})
            evaluated += 1
            shapes.add(json.dumps(desc, sort_keys=True))
        for i in range(ncases):
            if time.time() - t_start > budget:
                break
            size = rng.choice([1, 2, 3, 4, 5, 6, 8])
            desc = gen_desc(rng, size)
            nroots[len(roots_of(desc))] = nroots.get(len(roots_of(desc)), 0) + 1
            inst_seed = rng.randrange(1 << 30)
            tmp = os.path.join(tmp_root, f'c{i}')
            os.makedirs(tmp)
            try:
                fails = evaluate(desc, inst_seed, tmp, stats)
            finally:
                shutil.rmtree(tmp, ignore_errors=True)
            evaluated += 1
            sizes[size] = sizes.get(size, 0) + 1
            shapes.add(json.dumps(desc, sort_keys=True))
            if len(samples) < 2 and i % 50 == 7:
                samples.append({'desc': desc, 'inst_seed': inst_seed})
            for f in fails:
                for pair in f['pairs']:
                    lost_pairs[tuple(pair)] = lost_pairs.get(tuple(pair), 0) + 1
                k = (f['clause'], f['construct'])
                if k not in seen_fail:
                    seen_fail[k] = True
                    small = shrink(desc, inst_seed, f['clause'], f['construct'], budget_s=6.0 if not thorough else 20.0)
                    tmp = tempfile.mkdtemp(prefix='c10r_', dir=scratch())
                    try:
                        again = [g for g in evaluate(small, inst_seed, tmp)
                                 if (g['clause'], g['construct']) == k]
                    finally:
                        shutil.rmtree(tmp, ignore_errors=True)
                    what = again[0]['what'] if again else f['what']
                    out.fail(sig_of(f), f'{f["clause"]}/{f["construct"]}: {what}',
                             {'kind': 'generated', 'desc': small if again else desc, 'inst_seed': inst_seed})
                else:
                    # same kind again: counted, the first (shrunk) one is the replay
                    stats['repeat_failures'] = stats.get('repeat_failures', 0) + 1
        # --- corpus
        corpus = {'ok': [], 'unloadable': [], 'dangling-references': [], 'failed': []}
        ctmp = os.path.join(tmp_root, 'corpus_run')
        os.makedirs(ctmp)
        for fname in corpus_files():
            st, fails = evaluate_corpus(fname, ctmp)
            corpus[st].append(fname)
            for f in fails:
                for pair in f['pairs']:
                    lost_pairs[tuple(pair)] = lost_pairs.get(tuple(pair), 0) + 1
                out.fail(sig_of(f), f'{f["clause"]}/{f["construct"]}: {f["what"]}',
                         {'kind': 'corpus', 'file': fname})
    finally:
        shutil.rmtree(tmp_root, ignore_errors=True)
    # --- (b) the model's prediction of what cannot be written vs what the oracle saw being lost
    predicted = None
    try:
        m = common.Model()
        idx = m.ask('ecoremm', [0])
        m.close()
        predicted = sorted(SIGNATURE_FEATURES[i] for i in idx)
    except Exception as e:
        out.diff(f'extracted model run_ecoremm unavailable: {e}', {})
    if predicted is not None:
        observed_lost = sorted(p for p in lost_pairs if p in set(SIGNATURE_FEATURES))
        # a predicted-unwritable feature must be observed lost as soon as the generator exercised it
        exercised = {tuple(k.split('.')) for k, v in stats['nondefault'].items() if v > 0}
        for p in predicted:
            if tuple(p) in exercised and tuple(p) not in lost_pairs:
                out.diff(f'model predicts {p} is not written, yet it survived every save/reload', {'pair': p})
        for p in observed_lost:
            if tuple(p) not in set(map(tuple, predicted)):
                # lost although reachable through _isset: a writer/reader defect rather than a table fact; the
                # oracle failure above carries it, the tie is not broken
                stats.setdefault('lost_although_written_by_model', []).append(list(p))
    exercised_pairs = sum(1 for k, v in stats['nondefault'].items() if v > 0)
    out.coverage.update({
        'evaluations': evaluated + len(corpus_files()),
        'generated_metamodels': evaluated,
        'distinct_nontrivial': len(shapes),
        'rule': 'a case = one generated metamodel description (saved, reloaded, signatures compared, every class '
                'instantiated, one instance document cross-loaded) or one shipped .ecore file (load, re-save, load); '
                'distinct_nontrivial counts distinct metamodel descriptions actually generated',
        'samples': samples,
        'traces_validated_against_impl': rows + exercised_pairs,
        'traces_rule': 'table rows and class rows compared with the live reflection of pyecore.ecore, plus the signature '
                       'features whose predicted written/not-written status was confronted with what save/reload did to '
                       'non-default values',
        'table_rows_checked_against_live_ecore': rows,
        'signature_nodes_compared': stats.get('sig_nodes', 0),
        'signature_features_exercised_with_non_default_value': exercised_pairs,
        'signature_features_total': len(SIGNATURE_FEATURES),
        'non_default_occurrences_by_feature': dict(sorted(stats['nondefault'].items())),
        'size_parameter_distribution': sizes,
        'root_packages_per_resource': nroots,
        'instance_documents_cross_loaded': stats.get('instance_docs', 0),
        'instance_objects': stats.get('instance_objects', 0),
        'instance_docs_not_roundtripping_against_original(C08)':
            stats.get('instance_docs_not_roundtripping_against_original(C08)', 0),
        'instance_generation_errors': stats.get('instance_generation_errors', 0),
        'instance_generation_error_samples': stats.get('instance_generation_error_samples', [])[:3],
        'instance_save_errors': stats.get('instance_save_errors', 0),
        'corpus': {k: v for k, v in corpus.items()},
        'model_predicted_not_written': predicted,
        'observed_lost_signature_features': sorted(map(list, lost_pairs)),
        'lost_although_written_by_model': stats.get('lost_although_written_by_model', []),
        'repeat_failures_of_a_reported_kind': stats.get('repeat_failures', 0),
        'time_budget_s': budget,
    })
    # --- scenario families with their own PRNG streams (replayed through common.scenario_replay)
    for fam in (resave_scenarios, enumlit_scenarios, nsprefix_scenarios, extmm_scenarios, idroot_scenarios):
        fam(ctx, out)
    namesake_witness_cases(ctx, out)
    out.coverage['evaluations'] += out.coverage.get('resave_cases', 0) + out.coverage.get('enumlit_cases', 0) \
        + out.coverage.get('nsprefix_cases', 0) + out.coverage.get('extmm_cases', 0) \
        + out.coverage.get('idroot_cases', 0)
    out.coverage['rule'] += ('; plus one edit-and-resave case (a generated metamodel edited by a random refactoring '
                             'history and saved 3-4 times through one resource object, each save reloaded and compared) '
                             'and one enumeration case (literals with display strings: .ecore trip, instance documents '
                             'cross-loaded both ways) per resave_cases / enumlit_cases')
    out.assumptions += [
        'edit-and-resave histories keep names unique (every new name is fresh), remove only classifiers nothing points '
        'to, and do not take a renamed feature out of its class (that raises today: the Python mirror of a dynamic '
        'class keeps a renamed feature under its old name -- an edit-API defect outside C10, reported)',
        'equal-nsPrefix metamodels: the packages sharing a prefix always differ in nsURI (the registry key)',
        'enumeration display strings never read as the name or display string of another literal of the same '
        'enumeration (unambiguous under name-based and display-string-based lookup alike)',
        'generated metamodels: unique names per package across kinds and per class hierarchy across features and '
        'operations (the C11 fragment hazard is kept out), supertypes listed so that C3 succeeds, required operation '
        'parameters first, no generics/type parameters, annotations carry source+details only',
        'Python-side EAttribute(default_value=...) is not an Ecore meta-feature and is not generated; '
        'defaultValueLiteral is',
        'instance documents stay inside what C08 establishes (no empty-but-touched collections, no blank strings); '
        'the cross-load clause compares the load against the reloaded metamodel with the load against the original',
        'corpus files that do not load at all are outside the claim (listed under corpus.unloadable)',
    ]


def replay(ctx, rep):
    ecore()
    case = rep['case']
    sig = rep.get('signature', {})
    if case.get('scenario'):
        return common.scenario_replay(ctx, rep, {'resave': resave_scenarios, 'enumlit': enumlit_scenarios,
                                                'nsprefix': nsprefix_scenarios, 'extmm': extmm_scenarios,
                                                'idroot': idroot_scenarios})
    if case.get('kind') == 'namesake-witness':
        tmp = tempfile.mkdtemp(prefix='c10p_', dir=scratch())
        try:
            r = namesake_witness_case(case['desc'], tmp)
        finally:
            shutil.rmtree(tmp, ignore_errors=True)
        print('REPRODUCED ' + r[1] if r else 'not reproduced')
        return 1 if r else 0
    tmp = tempfile.mkdtemp(prefix='c10p_', dir=scratch())
    try:
        if case.get('kind') == 'corpus':
            st, fails = evaluate_corpus(case['file'], tmp)
        else:
            fails = evaluate(case['desc'], case['inst_seed'], tmp)
    finally:
        shutil.rmtree(tmp, ignore_errors=True)
    for f in fails:
        print('FAIL', f['clause'], f['construct'], '-', f['what'])
    hit = [f for f in fails if not sig or (f['clause'] == sig.get('clause') and f['construct'] == sig.get('construct'))]
    print('REPRODUCED' if hit else 'not reproduced')
    return 1 if hit else 0
